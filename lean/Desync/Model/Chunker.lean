/-
  Model of chunker.go.

  * spec level:  `cutSpec` — the cut rule stated with the direct window hash;
  * code level:  `cutRoll` — the rolling computation `Chunker.Next` performs;
  * `chunkAll`   — the chunk sequence of a whole input, by recursion on the remaining data;
  * `Buffered`   — the buffered reader logic (`fillBuffer`, `Next`, `split`, `Advance`) over a
                   fragmenting reader.
-/
import Desync.Hash.Buzhash

namespace Desync

structure ChunkParams where
  min : Nat
  max : Nat
  d : UInt32        -- discriminator (from avg; float computation is a parameter, DESIGN §5)
  deriving Repr

/-- `NewChunker`'s argument check (avg only matters through `d`) -/
def ChunkParams.valid (p : ChunkParams) (avg : Nat) : Bool :=
  winSize ≤ p.min && p.min ≤ avg && avg ≤ p.max

/-! ### spec level -/

/-- is there a boundary when the chunk would have length `k` (window = the `winSize` bytes
    ending at `k`)? -/
def boundaryAt (d : UInt32) (buf : Bytes) (k : Nat) : Bool :=
  Gen.isBoundary (hashWin ((buf.drop (k - winSize)).take winSize)) d

/-- least `k` in `[lo, m)` with a boundary, else `m` -/
def firstBoundary (d : UInt32) (buf : Bytes) (m : Nat) : Nat → Nat → Nat
  | 0, k => if k ≥ m then m else k   -- fuel exhausted (unreachable with fuel = m)
  | fuel+1, k =>
    if k ≥ m then m
    else if boundaryAt d buf k then k
    else firstBoundary d buf m fuel (k + 1)

/-- **the cut rule**: length of the first chunk of `buf` (`buf` = all data from the current
    position; only its first `max` bytes matter) -/
def cutSpec (p : ChunkParams) (buf : Bytes) : Nat :=
  if Gen.bufTooShort buf.length p.min then buf.length
  else
    let m := if buf.length < p.max then buf.length else p.max
    if p.min ≥ m then m
    else firstBoundary p.d buf m m (p.min + 1)

/-! ### code level: rolling hash -/

structure RollSt where
  h : UInt32
  win : Bytes      -- the window, oldest byte first (the ring buffer `hWindow` read from `hIdx`)
  deriving Repr

def RollSt.roll (s : RollSt) (b : UInt8) : RollSt :=
  match s.win with
  | [] => s
  | out :: rest => ⟨rollStep s.h out b, rest ++ [b]⟩

/-- the `for` loop of `Chunker.Next`: `rest` = `buf[pos:]` -/
def rollLoop (d : UInt32) (m : Nat) : RollSt → Nat → Bytes → Nat
  | _, pos, [] => pos
  | s, pos, b :: bs =>
    let s' := s.roll b
    let pos' := pos + 1
    if pos' ≥ m then pos'
    else if Gen.isBoundary s'.h d then pos'
    else rollLoop d m s' pos' bs

/-- `Chunker.Next` on a buffer that holds at least `max` bytes or everything up to EOF -/
def cutRoll (p : ChunkParams) (buf : Bytes) : Nat :=
  if Gen.bufTooShort buf.length p.min then buf.length
  else
    let m := if buf.length < p.max then buf.length else p.max
    if p.min ≥ m then m
    else
      let window := (buf.drop (p.min - winSize)).take winSize
      rollLoop p.d m ⟨hashWin window, window⟩ p.min (buf.drop p.min)

/-! ### whole input -/

/-- chunk lengths of `data`, in order (uses the code-level cut) -/
def chunkLens (p : ChunkParams) (data : Bytes) : List Nat :=
  if h : data.length = 0 then []
  else
    let k := cutRoll p data
    if hk : k = 0 ∨ k > data.length then [data.length]   -- unreachable (see `cutRoll_pos`, `cutRoll_le`)
    else k :: chunkLens p (data.drop k)
termination_by data.length
decreasing_by simp [List.length_drop]; omega

/-- (start, size) pairs -/
def chunkAllFrom (start : Nat) : List Nat → List (Nat × Nat)
  | [] => []
  | k :: ks => (start, k) :: chunkAllFrom (start + k) ks

def chunkAll (p : ChunkParams) (data : Bytes) : List (Nat × Nat) :=
  chunkAllFrom 0 (chunkLens p data)

/-! ### the buffered chunker over a fragmenting reader -/

/-- a reader: the underlying data plus a script of read sizes (how many bytes each `Read`
    call returns at most; 0 entries are allowed = an empty read) -/
structure Reader where
  data : Bytes
  frags : List Nat
  deriving Repr

/-- `io.Reader.Read(buf)` with `room` bytes of space: returns (bytes, eof?, reader') -/
def Reader.read (r : Reader) (room : Nat) : Bytes × Bool × Reader :=
  if r.data.length = 0 then ([], true, r)
  else
    let (n, frags) := match r.frags with
      | [] => (room, [])
      | f :: fs => (Nat.min f room, fs)
    (r.data.take n, false, ⟨r.data.drop n, frags⟩)

structure Buffered where
  r : Reader
  buf : Bytes
  start : Nat
  hitEOF : Bool
  deriving Repr

/-- `fillBuffer`: read until the buffer holds `bufSize max` bytes or EOF.  `fuel` bounds the
    number of `Read` calls (a reader may return empty reads; the script is finite). -/
def Buffered.fill (p : ChunkParams) (c : Buffered) : Nat → Buffered
  | 0 => c
  | fuel+1 =>
    if c.hitEOF then c
    else if c.buf.length ≥ Gen.bufSize p.max then c
    else
      let (b, eof, r') := c.r.read (Gen.bufSize p.max - c.buf.length)
      let c' := { c with r := r', buf := c.buf ++ b, hitEOF := eof }
      c'.fill p fuel

/-- `Chunker.Next`: `(start, chunk bytes)`; an empty chunk means "done" -/
def Buffered.next (p : ChunkParams) (c : Buffered) : (Nat × Bytes) × Buffered :=
  let c := if c.buf.length < p.max then c.fill p (c.r.frags.length + c.r.data.length + 2) else c
  let k := cutRoll p c.buf
  ((c.start, c.buf.take k), { c with buf := c.buf.drop k, start := c.start + k })

/-- `Chunker.Advance(n)` over a seekable reader (a file, `bytes.Reader`): bytes still in the buffer
    count towards the move; what is left of it is skipped in the reader with `Seek` -/
def Buffered.advance (c : Buffered) (n : Nat) : Buffered :=
  if n ≤ c.buf.length then { c with start := c.start + n, buf := c.buf.drop n }
  else { c with start := c.start + n, buf := [], r := { c.r with data := c.r.data.drop (n - c.buf.length) } }

/-- all chunks the buffered chunker produces -/
def Buffered.all (p : ChunkParams) : Nat → Buffered → List (Nat × Nat)
  | 0, _ => []
  | fuel+1, c =>
    let ((s, b), c') := c.next p
    if b.length = 0 then [] else (s, b.length) :: Buffered.all p fuel c'

end Desync
