/-
  Model of chunk.go / coverter.go: chunk objects, their constructors, `Data()` and `ID()`.
  The digest `H` and the decompressor `dec` are parameters: the theorems hold for every
  function `dec`, i.e. for every possible content of the stored bytes (that *is* the
  corruption quantifier of C03).
-/
import Desync.Basic.Bytes

namespace Desync

/-- a storage converter layer; only compression exists in the code -/
inductive Conv | compressor
  deriving DecidableEq, Repr

structure ChunkObj where
  data : Bytes := []          -- plain data, if available (`len(c.data) > 0`)
  storage : Bytes := []       -- storage format
  convs : List Conv := []
  id : Bytes := []
  idCalculated : Bool := false
  deriving DecidableEq, Repr

/-- all-zero ID (`ChunkID{}`) -/
def zeroID : Bytes := List.replicate 32 0

/-- `Converters.fromStorage`: the layers applied backwards; `dec` = `Decompress` -/
def fromStorage (dec : Bytes → Option Bytes) : List Conv → Bytes → Option Bytes
  | [], b => some b
  | _ :: cs, b =>
    -- the list is walked from the end in Go; all layers are the same kind, so order is immaterial
    match fromStorage dec cs b with
    | none => none
    | some b' => dec b'

/-- `Chunk.Data()`: the data (or an error) and the chunk with the decoded data cached -/
def ChunkObj.getData (dec : Bytes → Option Bytes) (c : ChunkObj) : Option Bytes × ChunkObj :=
  if c.data.length > 0 then (some c.data, c)
  else if c.storage.length > 0 then
    match fromStorage dec c.convs c.storage with
    | some d => (some d, { c with data := d })
    | none => (none, c)                 -- `c.data, err = …` assigns nil on error
  else (none, c)

/-- `Chunk.ID()` -/
def ChunkObj.getID (H : Bytes → Bytes) (dec : Bytes → Option Bytes) (c : ChunkObj) : Bytes × ChunkObj :=
  if c.idCalculated then (c.id, c)
  else
    match c.getData dec with
    | (none, c') => (zeroID, c')        -- error ⇒ `ChunkID{}`; id stays uncalculated
    | (some b, c') => (H b, { c' with id := H b, idCalculated := true })

inductive NewRes | ok (c : ChunkObj) | invalid
  deriving Repr

/-- `NewChunkFromStorage(id, b, modifiers, skipVerify)` -/
def newChunkFromStorage (H : Bytes → Bytes) (dec : Bytes → Option Bytes)
    (id raw : Bytes) (convs : List Conv) (skipVerify : Bool) : NewRes :=
  let c : ChunkObj := { id := id, storage := raw, convs := convs }
  if skipVerify then .ok { c with idCalculated := true }
  else
    -- the data has to be obtainable first: `ID()` yields the zero ID when it is not, which must not
    -- be taken for a match when the zero ID is the one asked for
    match c.getData dec with
    | (none, _) => .invalid
    | (some _, c1) =>
      let (sum, c') := c1.getID H dec
      if sum ≠ id then .invalid else .ok c'

/-- `NewChunkWithID(id, b, skipVerify)` -/
def newChunkWithID (H : Bytes → Bytes) (dec : Bytes → Option Bytes)
    (id b : Bytes) (skipVerify : Bool) : NewRes :=
  let c : ChunkObj := { id := id, data := b }
  if skipVerify then .ok { c with idCalculated := true }
  else
    let (sum, c') := c.getID H dec
    if sum ≠ id then .invalid else .ok c'

end Desync
