/-
  Model of a whole casync protocol session over byte streams (protocol.go, protocolserver.go,
  remotessh.go), statement by statement.

  * server: `serverRun` = `ProtocolServer.Serve` on ARBITRARY input bytes: what it writes, what it
    has consumed of the input, how much it has allocated for input-sized buffers and how it ends.
  * client: `clientReply` / `requestChunk` = `Protocol.RequestChunk`; `clientRun` = `StartProtocol`
    followed by one `RequestChunk` per id on one session (`RemoteSSH.GetChunk`), on ARBITRARY
    bytes from the server side.
  * `session` pipes the two into each other.

  Conventions.  A `ChunkID` is a `[32]byte` array in Go; ids are byte lists here and `fit32` is the
  array view (`id[:]`).  The reader side of a `Protocol` is a `St` (unread input, bytes allocated
  for input-sized buffers); the writer side is the list of messages written so far plus the number
  of further `WriteMessage` calls the writer accepts (`none`: all of them; a closed pipe takes
  nothing).  Go run-time failures (slice expressions, `binary.LittleEndian.Uint64`) are explicit
  `panic` outcomes; so are the model's own artefacts (`fuel`), and the theorems show that none of
  them is reachable.  zstd and the digest are parameters.
-/
import Desync.Model.Protocol
import Desync.Model.Http

namespace Desync.PS
open Desync

/-! ### Go slice primitives with their run-time checks -/

/-- `binary.LittleEndian.PutUint64(b[off:off+8], v)` -/
def putU64 (b : Bytes) (off : Nat) (v : UInt64) : Res Bytes :=
  if b.length < off + 8 then .panic "slice bounds out of range"
  else .ok (b.take off ++ le64 v ++ b.drop (off + 8))

/-- `copy(b[off:], src)`: copies `min(len(src), len(b)-off)` bytes -/
def copyAt (b : Bytes) (off : Nat) (src : Bytes) : Res Bytes :=
  if b.length < off then .panic "slice bounds out of range"
  else .ok (b.take off ++ src.take (b.length - off) ++ b.drop (off + src.length))

/-- `b[lo:hi]`.  (Go checks `hi` against the capacity, which is at least the length; the model's
    check is the stronger one, so "the model does not panic" implies "Go does not panic".) -/
def slice (b : Bytes) (lo hi : Nat) : Res Bytes :=
  if hi < lo ∨ b.length < hi then .panic "slice bounds out of range"
  else .ok ((b.take hi).drop lo)

/-- `b[lo:]` -/
def sliceFrom (b : Bytes) (lo : Nat) : Res Bytes :=
  if b.length < lo then .panic "slice bounds out of range" else .ok (b.drop lo)

/-- the array view of an id: `id[:]` of a `ChunkID` always has 32 bytes -/
def fit32 (id : Bytes) : Bytes := id.take 32 ++ List.replicate (32 - id.length) 0

/-- `ChunkIDFromSlice` -/
def chunkIDFromSlice (b : Bytes) : Option Bytes := if b.length ≠ 32 then none else some b

/-! ### how a `Serve` / a client call ends -/

inductive End
  | nilGoodbye                 -- `return nil` after a goodbye message
  | nilCancelled               -- `return nil`: the context was done at the top of the loop
  | hsSend                     -- handshake: `SendHello` failed
  | hsRead (e : Err)           -- handshake: `ReadMessage` failed
  | hsType                     -- handshake: "expected protocl hello"
  | hsLen                      -- handshake: "unexpected length of hello msg"
  | noPull                     -- "client is not requesting chunks"
  | noStore                    -- client side (`StartProtocol`): "server not offering chunks"
  | read (e : Err)             -- `ReadMessage` failed
  | reqSmall                   -- "protocol request too small"
  | badId                      -- "unable to decode requested chunk id"
  | store                      -- "unable to read chunk from store"
  | data                       -- `chunk.Data()` failed
  | send                       -- a `Send*` failed
  | abort                      -- "client aborted connection"
  | unknown (typ : UInt64)     -- "unexpected command" / "unexpected protocol message type"
  | chunkSmall                 -- client: "received chunk too small"
  | invalid                    -- client: `ChunkInvalid`
  | notInit                    -- "protocol not initialized"
  | panic (site : String)
  | fuel                       -- artefact of the model's loop
  deriving DecidableEq, Repr

def End.name : End → String
  | .nilGoodbye => "nil-goodbye" | .nilCancelled => "nil-cancelled" | .hsSend => "hs-send"
  | .hsRead e => "hs-read-" ++ e.name | .hsType => "hs-type" | .hsLen => "hs-len" | .noPull => "no-pull"
  | .noStore => "no-store" | .read e => "read-" ++ e.name | .reqSmall => "req-small" | .badId => "bad-id"
  | .store => "store" | .data => "data" | .send => "send" | .abort => "abort"
  | .unknown t => "unknown-" ++ toString t.toNat | .chunkSmall => "chunk-small" | .invalid => "invalid"
  | .notInit => "not-init" | .panic _ => "panic" | .fuel => "fuel"

/-! ### the reader after a failed `ReadMessage` -/

/-- where a failed `ReadMessage` leaves the reader: `io.ReadFull` of the length field takes what is
    there; a length below 16 is rejected after those 8 bytes; `ReadN` (`io.ReadAll` of a
    `LimitReader`) takes everything that is left, into a buffer that has grown to that size -/
def failSt (s : St) : St :=
  if s.rest.length < 8 then { rest := [], alloc := s.alloc }
  else if u64OfLE s.rest < 16 then { rest := s.rest.drop 8, alloc := s.alloc }
  else { rest := [], alloc := s.alloc + (s.rest.length - 8) }

/-! ### the writer -/

/-- one `WriteMessage` on a writer that accepts `w` further messages: the writer afterwards, or
    `none` when the write fails (nothing is written then: a closed pipe) -/
def wrWrite : Option Nat → Option (Option Nat)
  | none => some none
  | some 0 => none
  | some (n+1) => some (some n)

/-- the bytes of a sequence of `WriteMessage` calls -/
def wire (ms : List Message) : Bytes := ms.flatMap writeMessage

/-! ### the `Send*` functions: the message handed to `WriteMessage` -/

/-- `SendHello`: `f := make([]byte, 8); PutUint64(f, flags)` (no `initialized` check) -/
def helloMsg (flags : UInt64) : Message := ⟨Gen.CaProtocolHello, le64 flags⟩

/-- `SendGoodbye` -/
def goodbyeMsg : Message := ⟨Gen.CaProtocolGoodbye, []⟩

/-- `SendProtocolRequest` -/
def mkRequest (init : Bool) (id : Bytes) (flags : UInt64) : Res Message :=
  if !init then .err .other
  else do
    let b : Bytes := List.replicate 40 0
    let b ← putU64 b 0 flags
    let b ← copyAt b 8 (fit32 id)
    pure ⟨Gen.CaProtocolRequest, b⟩

/-- `SendProtocolChunk` -/
def mkChunk (init : Bool) (id : Bytes) (flags : UInt64) (chunk : Bytes) : Res Message :=
  if !init then .err .other
  else do
    let b : Bytes := List.replicate (chunk.length + 40) 0
    let b ← putU64 b 0 flags
    let b ← copyAt b 8 (fit32 id)
    let b ← copyAt b 40 chunk
    pure ⟨Gen.CaProtocolChunk, b⟩

/-- `SendMissing` -/
def mkMissing (init : Bool) (id : Bytes) : Res Message :=
  if !init then .err .other else pure ⟨Gen.CaProtocolMissing, fit32 id⟩

/-! ### handshake -/

inductive HelloRes
  | ok (flags : UInt64) (s : St)
  | fail (e : End) (s : St)
  deriving Repr

/-- `RecvHello` -/
def recvHello (s : St) : HelloRes :=
  match readMessage s with
  | .err e => .fail (.hsRead e) (failSt s)
  | .panic p => .fail (.panic p) s
  | .ok (m, s1) =>
    if m.typ ≠ Gen.CaProtocolHello then .fail .hsType s1
    else if m.body.length ≠ 8 then .fail .hsLen s1
    -- `binary.LittleEndian.Uint64(m.Body)` starts with `_ = b[7]`
    else if m.body.length < 8 then .fail (.panic "index out of range [7]") s1
    else .ok (u64OfLE m.body) s1

/-- both sides of a `Protocol`: the writer (messages written, what it still accepts) and the reader -/
structure Conn where
  sent : List Message := []
  wr : Option Nat := none
  st : St
  deriving Repr

/-- the goroutine `sendErr = p.SendHello(flags)`: touches the writer only -/
def Conn.sendHello (c : Conn) (flags : UInt64) : Conn × Bool :=
  match wrWrite c.wr with
  | none => (c, false)
  | some w => ({ c with sent := c.sent ++ [helloMsg flags], wr := w }, true)

/-- the goroutine `outFlags, recvErr = p.RecvHello()`: touches the reader only -/
def Conn.recvHello (c : Conn) : Conn × Except End UInt64 :=
  match PS.recvHello c.st with
  | .ok f s => ({ c with st := s }, .ok f)
  | .fail e s => ({ c with st := s }, .error e)

/-- what `Initialize` returns after `wg.Wait()`: the send error first -/
def initResult (sendOk : Bool) (r : Except End UInt64) : Except End UInt64 :=
  if !sendOk then .error .hsSend else r

/-- `Initialize` with the sending goroutine scheduled first … -/
def initializeSR (flags : UInt64) (c : Conn) : Conn × Except End UInt64 :=
  let (c1, ok) := c.sendHello flags
  let (c2, r) := c1.recvHello
  (c2, initResult ok r)

/-- … and with the receiving goroutine first (`initialize_orders_agree`: the same) -/
def initializeRS (flags : UInt64) (c : Conn) : Conn × Except End UInt64 :=
  let (c1, r) := c.recvHello
  let (c2, ok) := c1.sendHello flags
  (c2, initResult ok r)

def protoInit := initializeSR

/-! ### the server -/

/-- what the server's store answers to `GetChunk(id)` -/
inductive StoreAns
  | chunk (c : ChunkObj)      -- a chunk object, however it was constructed
  | missing                   -- an error of type `ChunkMissing`
  | failure                   -- any other error
  deriving Repr

structure Env where
  H : Bytes → Bytes                 -- `Digest.Sum`
  z : Http.Zstd                     -- `Compress` / `Decompress`
  store : Bytes → StoreAns

/-- how one pass through the `switch m.Type` ends -/
inductive Step
  | next (sent : List Message) (wr : Option Nat)     -- `continue` / falling out of the switch
  | stop (e : End)                                    -- a `return`
  deriving Repr

/-- `if err := s.p.Send…(…); err != nil { return errors.Wrap(err, "failed to send …") }` -/
def sendStep (wr : Option Nat) (m : Res Message) : Step :=
  match m with
  | .panic p => .stop (.panic p)
  | .err _ => .stop .send                   -- "protocol not initialized", wrapped
  | .ok m =>
    match wrWrite wr with
    | none => .stop .send
    | some wr' => .next [m] wr'

/-- `m.Body[8:40]` handed to `ChunkIDFromSlice` -/
def requestId (body : Bytes) : Res (Option Bytes) := do
  let b ← slice body 8 40
  pure (chunkIDFromSlice b)

/-- `case CaProtocolRequest:` -/
def serveRequest (E : Env) (init : Bool) (wr : Option Nat) (body : Bytes) : Step :=
  if body.length < 40 then .stop .reqSmall
  else
    match requestId body with
    | .panic p => .stop (.panic p)
    | .err _ => .stop .badId
    | .ok none => .stop .badId
    | .ok (some id) =>
      match E.store id with
      | .failure => .stop .store
      | .missing => sendStep wr (mkMissing init id)                 -- then `continue`
      | .chunk c =>
        -- b, err := chunk.Data()
        match c.getData E.z.dec with
        | (none, _) => .stop .data
        | (some b, c1) =>
          -- b, err = Compressor{}.toStorage(b)     (`Compress` has no failing path)
          let b := E.z.comp b
          -- the reply is labelled with `chunk.ID()` — of the chunk object as `Data()` left it —
          -- not with the requested id
          let label := (c1.getID E.H E.z.dec).1
          sendStep wr (mkChunk init label Gen.CaProtocolChunkCompressed b)

/-- the `switch m.Type` of `Serve` -/
def arm (E : Env) (init : Bool) (wr : Option Nat) (m : Message) : Step :=
  if m.typ = Gen.CaProtocolRequest then serveRequest E init wr m.body
  else if m.typ = Gen.CaProtocolAbort then .stop .abort
  else if m.typ = Gen.CaProtocolGoodbye then .stop .nilGoodbye
  else .stop (.unknown m.typ)

/-- the `for` loop of `Serve`.  `cancel = some n`: the context is found done at the top of the
    `n`-th pass from here.  Returns the messages written, the reader at the end, and the verdict. -/
def serveLoop (E : Env) (init : Bool) : Nat → Option Nat → Option Nat → St → List Message × St × End
  | 0, _, _, s => ([], s, .fuel)
  | fuel+1, cancel, wr, s =>
    if cancel = some 0 then ([], s, .nilCancelled)
    else
      match readMessage s with
      | .err e => ([], failSt s, .read e)
      | .panic p => ([], s, .panic p)
      | .ok (m, s1) =>
        match arm E init wr m with
        | .stop e => ([], s1, e)
        | .next sent wr' =>
          let r := serveLoop E init fuel (cancel.map (· - 1)) wr' s1
          (sent ++ r.1, r.2.1, r.2.2)

structure ServerOut where
  sent : List Message          -- the messages written, in order
  st : St                      -- the reader: unread input, input-sized allocation
  end_ : End
  deriving Repr

/-- `ProtocolServer.Serve(ctx)` reading `input` (then end of file) -/
def serverRun (E : Env) (cancel wr : Option Nat) (input : Bytes) : ServerOut :=
  match protoInit Gen.CaProtocolReadableStore { wr := wr, st := ⟨input, 0⟩ } with
  | (c, .error e) => ⟨c.sent, c.st, e⟩
  | (c, .ok flags) =>
    -- p.initialized = true
    if flags &&& Gen.CaProtocolPullChunks = 0 then ⟨c.sent, c.st, .noPull⟩
    else
      let r := serveLoop E true (c.st.rest.length + 1) cancel c.wr c.st
      ⟨c.sent ++ r.1, r.2.1, r.2.2⟩

/-- the bytes the server has written -/
def ServerOut.written (o : ServerOut) : Bytes := wire o.sent

/-! ### the client -/

inductive CRes
  | ok (c : ChunkObj)
  | missing                    -- `ChunkMissing{id}`
  | fail (e : End)
  deriving Repr

/-- `RequestChunk` after the request has been written: read one message and interpret it -/
def clientReply (H : Bytes → Bytes) (dec : Bytes → Option Bytes) (id : Bytes) (s : St) : CRes × St :=
  match readMessage s with
  | .err e => (.fail (.read e), failSt s)
  | .panic p => (.fail (.panic p), s)
  | .ok (m, s1) =>
    if m.typ = Gen.CaProtocolMissing then (.missing, s1)
    else if m.typ = Gen.CaProtocolChunk then
      if m.body.length < 40 then (.fail .chunkSmall, s1)
      else
        match sliceFrom m.body 40 with
        | .panic p => (.fail (.panic p), s1)
        | .err _ => (.fail (.panic "unreachable"), s1)
        | .ok raw =>
          match newChunkFromStorage H dec id raw [.compressor] false with
          | .invalid => (.fail .invalid, s1)
          | .ok c => (.ok c, s1)
    else (.fail (.unknown m.typ), s1)

/-- `Protocol.RequestChunk(id)` on a connection -/
def requestChunk (H : Bytes → Bytes) (dec : Bytes → Option Bytes) (init : Bool) (id : Bytes) (c : Conn) :
    CRes × Conn :=
  if !init then (.fail .notInit, c)
  else
    match mkRequest init id Gen.CaProtocolRequestHighPriority with
    | .panic p => (.fail (.panic p), c)
    | .err _ => (.fail .notInit, c)
    | .ok rq =>
      match wrWrite c.wr with
      | none => (.fail .send, c)
      | some w =>
        let (r, s) := clientReply H dec id c.st
        (r, { sent := c.sent ++ [rq], wr := w, st := s })

/-- one `RequestChunk` per id on the same connection (`RemoteSSH.GetChunk` with one session: a
    failed request does not retire the session) -/
def requestAll (H : Bytes → Bytes) (dec : Bytes → Option Bytes) (init : Bool) :
    List Bytes → Conn → List CRes × Conn
  | [], c => ([], c)
  | id :: ids, c =>
    let (r, c1) := requestChunk H dec init id c
    let (rs, c2) := requestAll H dec init ids c1
    (r :: rs, c2)

structure ClientOut where
  hs : Option End              -- how `StartProtocol` failed, if it did (then there is no store)
  results : List CRes
  conn : Conn
  deriving Repr

/-- the client side of a session: `StartProtocol` (`Initialize(CaProtocolPullChunks)`, the
    `CaProtocolReadableStore` check), one `RequestChunk` per id, `SendGoodbye` (`Close`) — reading
    `fromServer`, which may be any bytes -/
def clientRun (H : Bytes → Bytes) (dec : Bytes → Option Bytes) (ids : List Bytes) (fromServer : Bytes) : ClientOut :=
  match protoInit Gen.CaProtocolPullChunks { st := ⟨fromServer, 0⟩ } with
  | (c, .error e) => ⟨some e, [], c⟩
  | (c, .ok flags) =>
    if flags &&& Gen.CaProtocolReadableStore = 0 then ⟨some .noStore, [], c⟩
    else
      let (rs, c1) := requestAll H dec true ids c
      -- Close(): SendGoodbye
      ⟨none, rs, { c1 with sent := c1.sent ++ [goodbyeMsg] }⟩

/-- everything the client writes during a session does not depend on what it reads (its writer
    never fails here): hello, one request per id, goodbye -/
def clientMsgs (ids : List Bytes) : List Message :=
  helloMsg Gen.CaProtocolPullChunks ::
    (ids.map fun id => requestMessage (fit32 id) Gen.CaProtocolRequestHighPriority) ++ [goodbyeMsg]

structure SessionOut where
  client : ClientOut
  server : ServerOut
  deriving Repr

/-- a session over two byte streams: the server reads what the client writes, the client reads
    what the server writes -/
def session (E : Env) (ids : List Bytes) : SessionOut :=
  let so := serverRun E none none (wire (clientMsgs ids))
  ⟨clientRun E.H E.z.dec ids so.written, so⟩

/-- the same session in lock step, one request at a time: the client writes a request, the server
    reads that message and goes through its switch, the client reads exactly what the server wrote
    for it — or the end of the stream when the server has returned (`session_lockstep`: the same
    results as with whole streams) -/
def lockstep (E : Env) : List Bytes → Bool → List CRes
  | [], _ => []
  | _ :: ids, false => .fail (.read .eof) :: lockstep E ids false
  | id :: ids, true =>
    match mkRequest true id Gen.CaProtocolRequestHighPriority with
    | .ok rq =>
      match arm E true none rq with
      | .stop _ => .fail (.read .eof) :: lockstep E ids false
      | .next sent _ => (clientReply E.H E.z.dec id ⟨wire sent, 0⟩).1 :: lockstep E ids true
    | _ => .fail .notInit :: lockstep E ids true

end Desync.PS
