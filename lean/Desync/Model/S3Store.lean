/-
  Model of `S3Store.Prune` / `idFromName` / `nameFromID` (s3.go).  Objects are keys
  `<prefix><dir>/<name>`; the model keeps the (dir, name) pairs of `Model/LocalStore.lean` (dir = ""
  for a key without a slash after the prefix).  `idFromName` accepts a key that ends in the store's
  extension, whose remainder after the prefix splits at '/' into exactly two fragments, the
  second starting with the first and parsing as a chunk ID.  An unreferenced ID is removed through
  `RemoveObject(nameFromID(id))`, which succeeds whether or not that object exists — so S3 prune
  never fails half-way, and there are no temporary objects (a PUT is atomic).
-/
import Desync.Model.LocalStore

namespace Desync

/-- `S3Store.idFromName` on the key `<prefix><dir>/<name>` (or `<prefix><name>` when `dir` is empty) -/
def s3Classify (uncompressed : Bool) (dir name : Bytes) : FileAct :=
  if !hasSuffix name (extOf uncompressed) then .skip
  else if dir = [] || dir.contains 47 || (trimSuffix name (extOf uncompressed)).contains 47 then .skip   -- not exactly two fragments
  else if !hasPrefix (trimSuffix name (extOf uncompressed)) dir then .skip
  else
    match chunkIDFromString (trimSuffix name (extOf uncompressed)) with
    | none => .skip
    | some id => .consider id

/-- `S3Store.Prune`: the listing in key order; removing an object that is not there is not an error -/
def s3PruneWalk (uncompressed : Bool) (keep : Bytes → Bool) : List (Bytes × Bytes) → StoreDir → StoreDir
  | [], d => d
  | (dir, name) :: rest, d =>
    match s3Classify uncompressed dir name with
    | .consider id =>
      if keep id then s3PruneWalk uncompressed keep rest d
      else s3PruneWalk uncompressed keep rest (d.filter (· ≠ nameFromID uncompressed id))
    | _ => s3PruneWalk uncompressed keep rest d

def s3Prune (uncompressed : Bool) (keep : Bytes → Bool) (d : StoreDir) : StoreDir :=
  s3PruneWalk uncompressed keep d d

end Desync
