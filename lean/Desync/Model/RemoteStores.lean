/-
  Model of the S3 and SFTP CHUNK stores (s3.go, sftp.go) beyond `Prune`:

    s3.go   `S3Store.StoreChunk`   = `s3StoreChunk`   the `retry:` loop around `PutObject`; the loop goes on while
                                                      `attempt < ErrorRetry`  (ErrorRetry 0 and 1: ONE attempt, k: k attempts)
            `S3Store.GetChunk`     = `s3GetChunk`     the `retry:` loop around `GetObject` + `ReadAll`; it goes on while
                                                      `attempt <= ErrorRetry` (ErrorRetry + 1 attempts — not the bound of
                                                      StoreChunk), a missing key is retried like every other failure;
                                                      after the loop `NoSuchKey` → `ChunkMissing`, `NoSuchBucket` and every
                                                      other failure → an error; a body goes through `NewChunkFromStorage`
            `S3Store.HasChunk`     = `s3HasChunk`     `return err == nil, nil`: a failing `StatObject` reads as "absent"
    chunkstorage.go `ChunkStorage.StoreChunk` (after the mark) = `bulkStore`: HasChunk, then StoreChunk when it said false
    sftp.go `SFTPStoreBase.StoreObject` = `sftpStoreObject`  Create(tmp) [Mkdir, Create(tmp)], Copy [Remove(tmp)], Close,
                                                      PosixRename(tmp, name) on a small directory model; the temp name is
                                                      the final name followed by `strconv.Itoa(rand.Int())` (decimal digits)
            `SFTPStore.GetChunk`   = `sftpGetChunk`   Open / ReadAll; `os.IsNotExist` → `ChunkMissing`
            `SFTPStore.HasChunk`   = `sftpHasChunk`   `return err == nil, nil` again
            the connection pool `chan *SFTPStoreBase` = `PoolM`: a counter machine, `take` = `c := <-s.pool`,
                                                      `finish` = the method returns (`defer func() { s.pool <- c }()`)

  The environment (the S3 service, the SFTP server's file system, the network) chooses the outcome of every single
  request: `out : Nat → …` gives the outcome of the k-th attempt (k = 1, 2, …).
-/
import Desync.Model.Chunk
import Desync.Model.SftpStore

namespace Desync.Remote

/-! ## `S3Store.StoreChunk` -/

/-- what one `PutObject` yields.  A failed PUT stores nothing (S3 replaces an object as a whole). -/
inductive PutOutcome | ok | fail
  deriving DecidableEq, Repr

inductive StoreRes | ok | error
  deriving DecidableEq, Repr

/-- the loop
    ```
    retry: attempt++
      _, err = PutObject(…)
      if err != nil { if attempt < ErrorRetry { goto retry } }
      return errors.Wrap(err, …)            -- nil when err is nil
    ```
    `attempt` is the value of the Go variable when `retry:` is reached.  Result: (`err == nil`, attempts made). -/
def s3PutLoop (retry : Nat) (out : Nat → PutOutcome) (attempt : Nat) : Bool × Nat :=
  match out (attempt + 1) with
  | .ok => (true, attempt + 1)
  | .fail => if attempt + 1 < retry then s3PutLoop retry out (attempt + 1) else (false, attempt + 1)
termination_by retry - attempt
decreasing_by omega

structure S3StoreOut where
  res : StoreRes
  attempts : Nat              -- PUT requests made
  obj : Option Bytes          -- the object under the chunk's key afterwards
  deriving DecidableEq, Repr

/-- `S3Store.StoreChunk`: `data` is what `chunk.Data()` gives (none: an error), `toSt` is
    `converters.toStorage`, `obj` the object under the key before the call -/
def s3StoreChunk (retry : Nat) (data : Option Bytes) (toSt : Bytes → Option Bytes)
    (out : Nat → PutOutcome) (obj : Option Bytes) : S3StoreOut :=
  match data with
  | none => ⟨.error, 0, obj⟩
  | some d =>
    match toSt d with
    | none => ⟨.error, 0, obj⟩
    | some b =>
      match s3PutLoop retry out 0 with
      | (true, n) => ⟨.ok, n, some b⟩
      | (false, n) => ⟨.error, n, obj⟩

/-! ## `S3Store.GetChunk` -/

/-- what one pass `GetObject` + `ioutil.ReadAll` yields.  minio's `GetObject` sends nothing (it only validates the
    names); the request goes out with the first `Read`, so the service's answer arrives as the error of `ReadAll`. -/
inductive GetOutcome
  | openErr                 -- `GetObject` returns an error (invalid bucket / object name); no request
  | body (b : Bytes)        -- 200, the whole body was read
  | noSuchKey               -- `minio.ErrorResponse` with Code "NoSuchKey"
  | noSuchBucket            -- … with Code "NoSuchBucket"
  | otherResponse           -- … with any other code (AccessDenied, InternalError, …)
  | readErr                 -- an error of another type (transport)
  deriving DecidableEq, Repr

def GetOutcome.failed : GetOutcome → Bool
  | .body _ => false
  | _ => true

/-- both `if attempt <= s.opt.ErrorRetry { goto retry }` of `GetChunk`: result = the outcome the code acts on, and the
    number of passes -/
def s3GetLoop (retry : Nat) (out : Nat → GetOutcome) (attempt : Nat) : GetOutcome × Nat :=
  if (out (attempt + 1)).failed = true ∧ attempt + 1 ≤ retry then s3GetLoop retry out (attempt + 1)
  else (out (attempt + 1), attempt + 1)
termination_by retry - attempt
decreasing_by omega

inductive GetRes
  | ok (c : ChunkObj)
  | missing                 -- `ChunkMissing{id}`
  | invalid                 -- `ChunkInvalid` from the constructor
  | error                   -- any other error
  deriving Repr

/-- the constructor call every backend ends with -/
def construct (H : Bytes → Bytes) (dec : Bytes → Option Bytes) (id raw : Bytes) (convs : List Conv)
    (skipVerify : Bool) : GetRes :=
  match newChunkFromStorage H dec id raw convs skipVerify with
  | .ok c => .ok c
  | .invalid => .invalid

/-- `S3Store.GetChunk`: result and number of passes through the loop -/
def s3GetChunk (H : Bytes → Bytes) (dec : Bytes → Option Bytes) (retry : Nat) (id : Bytes) (convs : List Conv)
    (skipVerify : Bool) (out : Nat → GetOutcome) : GetRes × Nat :=
  match s3GetLoop retry out 0 with
  | (.body b, n) => (construct H dec id b convs skipVerify, n)
  | (.noSuchKey, n) => (.missing, n)          -- `err = ChunkMissing{ID: id}`
  | (.noSuchBucket, n) => (.error, n)         -- `fmt.Errorf("bucket '%s' does not exist", …)`
  | (.otherResponse, n) => (.error, n)        -- wrapped
  | (.readErr, n) => (.error, n)              -- returned as it is
  | (.openErr, n) => (.error, n)              -- wrapped with the store's name

/-! ## `HasChunk` (both stores): `_, err := Stat…(name); return err == nil, nil` -/

inductive StatOutcome
  | found                   -- the request succeeded: the object / file exists
  | notFound                -- the service answered "no such object"
  | failure                 -- anything else: 403, 500, 503, connection refused, time-out, …
  deriving DecidableEq, Repr

/-- the pair `(bool, error)` a `HasChunk` returns; `err = true` stands for a non-nil error -/
structure HasRes where
  has : Bool
  err : Bool
  deriving DecidableEq, Repr

def s3HasChunk (o : StatOutcome) : HasRes := ⟨o == .found, false⟩
def sftpHasChunk (o : StatOutcome) : HasRes := ⟨o == .found, false⟩

/-- `ChunkStorage.StoreChunk` after `markProcessed` said "new":
    `if hasChunk, err := ws.HasChunk(id); err != nil || hasChunk { return err }`, then `return ws.StoreChunk(chunk)` -/
def bulkStore (retry : Nat) (data : Option Bytes) (toSt : Bytes → Option Bytes)
    (st : StatOutcome) (out : Nat → PutOutcome) (obj : Option Bytes) : S3StoreOut :=
  let h := s3HasChunk st
  if h.err then ⟨.error, 0, obj⟩
  else if h.has then ⟨.ok, 0, obj⟩
  else s3StoreChunk retry data toSt out obj

/-! ## `SFTPStoreBase.StoreObject` on a directory -/

/-- one fan-out directory of the store on the server: does it exist, and the regular files in it -/
structure RDir where
  exists_ : Bool
  files : List (Bytes × Bytes)          -- name ↦ content
  deriving DecidableEq, Repr

def lookupF (n : Bytes) : List (Bytes × Bytes) → Option Bytes
  | [] => none
  | (k, v) :: r => if k = n then some v else lookupF n r

def eraseF (n : Bytes) (fs : List (Bytes × Bytes)) : List (Bytes × Bytes) := fs.filter (·.1 ≠ n)

def setF (n v : Bytes) (fs : List (Bytes × Bytes)) : List (Bytes × Bytes) := (n, v) :: eraseF n fs

def RDir.get (d : RDir) (n : Bytes) : Option Bytes := lookupF n d.files

/-- the environment's choices for one `StoreObject` -/
structure SftpEnv where
  create1 : Bool            -- the first `Create(tmp)` is allowed to succeed (it never does without the directory)
  mkdir : Bool              -- `Mkdir(d)` succeeds (its result is ignored by the code)
  create2 : Bool            -- the second `Create(tmp)`
  copyFail : Option Nat     -- `some k`: `io.Copy` fails when k bytes (at most) have reached the temp file
  remove : Bool             -- the `Remove(tmp)` after a failed copy succeeds (its result is ignored)
  close : Bool
  rename : Bool             -- `PosixRename(tmp, name)` succeeds; a failed rename changes nothing (POSIX)
  deriving DecidableEq, Repr

/-- the steps the server saw -/
inductive SftpStep | create | mkdir | copy | remove | close | rename
  deriving DecidableEq, Repr

structure SftpStoreOut where
  res : StoreRes
  dir : RDir
  steps : List SftpStep
  deriving DecidableEq, Repr

/-- after a successful `Create(tmp)`: copy, close, rename -/
def sftpAfterCreate (name tmp b : Bytes) (e : SftpEnv) (d : RDir) (steps : List SftpStep) : SftpStoreOut :=
  let d0 : RDir := { d with files := setF tmp [] d.files }          -- O_CREATE|O_TRUNC
  match e.copyFail with
  | some k =>
    let d1 : RDir := { d0 with files := setF tmp (b.take k) d0.files }
    let d2 : RDir := if e.remove then { d1 with files := eraseF tmp d1.files } else d1
    ⟨.error, d2, steps ++ [.copy, .remove]⟩
  | none =>
    let d1 : RDir := { d0 with files := setF tmp b d0.files }
    if !e.close then ⟨.error, d1, steps ++ [.copy, .close]⟩          -- the temp file stays
    else if !e.rename then ⟨.error, d1, steps ++ [.copy, .close, .rename]⟩   -- the temp file stays
    else ⟨.ok, { d1 with files := setF name b (eraseF tmp d1.files) }, steps ++ [.copy, .close, .rename]⟩

/-- `StoreObject(name, r)` with `r` delivering `b`; `tmp = name ++ digits` -/
def sftpStoreObject (name digits b : Bytes) (e : SftpEnv) (d : RDir) : SftpStoreOut :=
  let tmp := name ++ digits
  if d.exists_ && e.create1 then sftpAfterCreate name tmp b e d [.create]
  else
    -- `errCount < 1`: Mkdir (errors ignored), one more Create
    let d' : RDir := if !d.exists_ && e.mkdir then { d with exists_ := true } else d
    if d'.exists_ && e.create2 then sftpAfterCreate name tmp b e d' [.create, .mkdir, .create]
    else ⟨.error, d', [.create, .mkdir, .create]⟩

/-! ## `SFTPStore.GetChunk` -/

inductive SftpGetOutcome
  | openNotExist            -- `Open` fails, `os.IsNotExist(err)`
  | openErr                 -- `Open` fails otherwise (permission, a directory, connection lost, …)
  | readErr                 -- `ReadAll` fails
  | body (b : Bytes)
  deriving DecidableEq, Repr

def sftpGetChunk (H : Bytes → Bytes) (dec : Bytes → Option Bytes) (id : Bytes) (convs : List Conv)
    (skipVerify : Bool) : SftpGetOutcome → GetRes
  | .openNotExist => .missing
  | .openErr => .error
  | .readErr => .error
  | .body b => construct H dec id b convs skipVerify

/-! ## the connection pool of `SFTPStore` -/

namespace PoolM

/-- `free`: connections in the channel; `held`: methods between `c := <-s.pool` and their return -/
structure St where
  free : Nat
  held : Nat
  deriving DecidableEq, Repr

def init (n : Nat) : St := ⟨n, 0⟩

/-- `finish putBack`: a method that holds a connection returns — on whatever path, with whatever result;
    `putBack = false` is a path that does not execute `s.pool <- c` (none exists in sftp.go: the put-back is
    deferred right after the take — regenerated fact) -/
inductive Ev | take | finish (putBack : Bool)
  deriving DecidableEq, Repr

/-- `none`: the event cannot happen (a `take` on an empty channel blocks) -/
def step (s : St) : Ev → Option St
  | .take => if s.free = 0 then none else some ⟨s.free - 1, s.held + 1⟩
  | .finish pb => if s.held = 0 then none else some ⟨if pb then s.free + 1 else s.free, s.held - 1⟩

def run (s : St) : List Ev → Option St
  | [] => some s
  | e :: es => match step s e with
    | none => none
    | some s' => run s' es

/-- the code as it is: every return path puts the connection back -/
def faithful (es : List Ev) : Bool := es.all fun e => e != .finish false

end PoolM

end Desync.Remote
