/-
  N concurrent workers of `AssembleFile` (assemble.go) as a step machine over one shared target
  file.  Each file operation is one step; steps of different workers interleave arbitrarily.
  What a worker writes while copying or cloning from a seed is *arbitrary* (`scribble`): that one
  quantifier covers stale, corrupted, empty, duplicated, concurrently modified and target-aliasing
  seeds, short copies, and overlapping same-file copies.  The only thing the machine takes from
  `WriteInto` is that it writes inside the byte range it was given, which
  `Proofs/AssembleConfined.lean` proves about the model of the copy and clone arithmetic
  regenerated from the Go source.   DESIGN section 6, C01.
-/
import Desync.Model.Assemble

namespace Desync.AsmConc
open Desync.Asm

structure Env where
  H : Bytes → Bytes
  chunks : List IChunk                 -- the index
  plan : List (Nat × Nat)              -- (first, last) of the plan's segments, in order

def Env.startOf (e : Env) (p : Nat) : Nat := (e.chunks.getD p default).start
def Env.sizeOf (e : Env) (p : Nat) : Nat := (e.chunks.getD p default).size
def Env.idOf (e : Env) (p : Nat) : Bytes := (e.chunks.getD p default).id
def Env.endOf (e : Env) (p : Nat) : Nat := e.startOf p + e.sizeOf p

/-- what a worker is doing: plan item `k` = positions `first..last`, of which the leading `good`
    ones are settled (verified after the seed write, found in place, copied from the written
    prefix, or fetched from the store) -/
structure Job where
  k : Nat
  first : Nat
  last : Nat
  good : Nat
  deriving Repr, DecidableEq

structure Worker where
  job : Option Job := none
  buf : Option (Nat × Bytes) := none    -- a self-seed copy in progress: destination position, bytes read
  deriving Repr

structure St where
  file : Bytes
  taken : Nat := 0                     -- plan items handed to workers so far (the feeder's position)
  workers : List Worker
  ss : SelfSeed := {}
  finished : List Nat := []            -- plan items completed (ghost)
  deriving Repr

inductive Ev
  | take (w : Nat)
  | scribble (w : Nat) (off : Nat) (b : Bytes)
  | verify (w : Nat)
  | selfRead (w : Nat) (j : Nat)
  | selfWrite (w : Nat)
  | storeWrite (w : Nat) (d : Bytes)
  | finish (w : Nat)
  deriving Repr

def setW (s : St) (w : Nat) (f : Worker → Worker) : St := { s with workers := s.workers.modify w f }

/-- the position a worker is currently settling -/
def Job.cur (j : Job) : Nat := j.first + j.good

def step (e : Env) (s : St) : Ev → Option St
  | .take w =>
    match s.workers[w]?, e.plan[s.taken]? with
    | some wk, some (f, l) =>
      if wk.job.isNone then
        some { setW s w (fun _ => { job := some { k := s.taken, first := f, last := l, good := 0 } }) with taken := s.taken + 1 }
      else none
    | _, _ => none
  | .scribble w off b =>
    match s.workers[w]? with
    | some { job := some j, .. } =>
      -- inside the not yet settled part of the worker's own segment
      if j.cur ≤ j.last ∧ e.startOf j.cur ≤ off ∧ off + b.length ≤ e.endOf j.last then
        some { s with file := writeAt s.file off b }
      else none
    | _ => none
  | .verify w =>
    match s.workers[w]? with
    | some { job := some j, .. } =>
      if j.cur ≤ j.last then
        match readFull s.file (e.startOf j.cur) (e.sizeOf j.cur) with
        | some b => if e.H b = e.idOf j.cur then some (setW s w fun wk => { wk with job := some { j with good := j.good + 1 } }) else none
        | none => none
      else none
    | _ => none
  | .selfRead w p =>
    match s.workers[w]? with
    | some { job := some j, .. } =>
      if j.cur ≤ j.last ∧ p < s.ss.written ∧ e.idOf p = e.idOf j.cur then
        some (setW s w fun wk => { wk with buf := some (j.cur, readUpTo s.file (e.startOf p) (e.sizeOf p)) })
      else none
    | _ => none
  | .selfWrite w =>
    match s.workers[w]? with
    | some { job := some j, buf := some (p, b) } =>
      if p = j.cur ∧ j.cur ≤ j.last ∧ b.length = e.sizeOf p then
        some { setW s w (fun _ => { job := some { j with good := j.good + 1 }, buf := none }) with
               file := writeAt s.file (e.startOf p) b }
      else none
    | _ => none
  | .storeWrite w d =>
    match s.workers[w]? with
    | some { job := some j, .. } =>
      -- a sound store (C03): the data hashes to the requested ID; `writeChunk` checks the length
      if j.cur ≤ j.last ∧ e.H d = e.idOf j.cur ∧ d.length = e.sizeOf j.cur then
        some { setW s w (fun wk => { wk with job := some { j with good := j.good + 1 }, buf := none }) with
               file := writeAt s.file (e.startOf j.cur) d }
      else none
    | _ => none
  | .finish w =>
    match s.workers[w]? with
    | some { job := some j, .. } =>
      if j.cur = j.last + 1 then
        some { setW s w (fun _ => {}) with ss := s.ss.add j.first j.last, finished := j.k :: s.finished }
      else none
    | _ => none

inductive Reachable (e : Env) (s0 : St) : St → Prop
  | refl : Reachable e s0 s0
  | step {s s' : St} (ev : Ev) : Reachable e s0 s → step e s ev = some s' → Reachable e s0 s'

/-- the machine's view of a plan of the sequential model -/
def planPairs (items : List PlanItem) : List (Nat × Nat) := items.map fun it => (it.first, it.last)

/-- the machine environment for an environment and a plan of the sequential model: what the trace
    validation replays recorded runs in -/
def envOf (H : Bytes → Bytes) (e : Asm.Env) (items : List PlanItem) : Env :=
  { H := H, chunks := e.chunks, plan := planPairs items }

/-- run a list of events: `none` as soon as one of them is not enabled.  This is what the trace
    validation does with the events it derives from a recorded run of the real `AssembleFile`
    (driver command `asmconc.accept`). -/
def run (e : Env) : St → List Ev → Option St
  | s, [] => some s
  | s, ev :: evs => (step e s ev).bind fun s' => run e s' evs

/-- initial state: the target truncated to the index length, `n` idle workers -/
def init (e : Env) (prior : Bytes) (n : Nat) : St :=
  { file := truncate prior (indexLength e.chunks), workers := List.replicate n {} }

/-- `AssembleFile` returns nil: every plan item was handed out and completed -/
def Done (e : Env) (s : St) : Prop := ∀ k, k < e.plan.length → k ∈ s.finished

end Desync.AsmConc
