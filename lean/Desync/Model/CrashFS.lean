/-
  Model of `LocalStore.StoreChunk` (local.go) at the level of file-system steps, with any number
  of concurrent writers and a crash (process death) possible after every step (DESIGN A.7).
  A directory is a list of (name, content) entries; `rename` is atomic (POSIX).  The step order
  is the regenerated shape `Gen.localStoreChunkShape`.
-/
import Desync.Generated.Facts

namespace Desync.CrashFS

abbrev Name := List UInt8
abbrev Content := List UInt8

/-- the file operations of `StoreChunk` this machine implements, in order (`Remove` only on a
    failed write; `Close` appears on both paths) -/
def modelledShape : List String := ["MkdirAll", "TempFile", "Write", "Close", "Remove", "Close", "Rename"]

inductive PC
  | mk                      -- before MkdirAll
  | create                  -- before creating the temp file
  | writing (done : Nat)    -- `done` bytes of the payload written so far
  | closed                  -- temp file complete and closed, before rename
  | finished
  | failed                  -- a write error: temp file removed, error returned
  deriving DecidableEq, Repr

structure Writer where
  final : Name              -- canonical chunk file name for the ID being stored
  tmp : Name                -- this writer's private temp name (fresh, with the temp prefix)
  payload : Content         -- converters.toStorage(data): the complete storage bytes
  pc : PC := .mk
  deriving Repr

structure St where
  dir : List (Name × Content)
  writers : List Writer
  deriving Repr

inductive Ev
  | mkdir (w : Nat)
  | create (w : Nat)
  | write (w : Nat) (k : Nat)     -- a (possibly short) write of k ≥ 1 bytes
  | writeErr (w : Nat)            -- write fails (disk full, RLIMIT_FSIZE): close, remove temp, return error
  | close (w : Nat)               -- all bytes written: close
  | rename (w : Nat)
  deriving Repr

def setDir (d : List (Name × Content)) (n : Name) (c : Content) : List (Name × Content) :=
  (n, c) :: d.filter (·.1 ≠ n)

def setW (s : St) (i : Nat) (f : Writer → Writer) : St := { s with writers := s.writers.modify i f }

def step (s : St) : Ev → Option St
  | .mkdir i => match s.writers[i]? with
    | some w => if w.pc = .mk then some (setW s i fun w => { w with pc := .create }) else none
    | none => none
  | .create i => match s.writers[i]? with
    | some w => if w.pc = .create then
        some { setW s i (fun w => { w with pc := .writing 0 }) with dir := setDir s.dir w.tmp [] }
      else none
    | none => none
  | .write i k => match s.writers[i]? with
    | some w => match w.pc with
      | .writing d =>
        if 1 ≤ k ∧ d + k ≤ w.payload.length then
          some { setW s i (fun w => { w with pc := .writing (d + k) }) with dir := setDir s.dir w.tmp (w.payload.take (d + k)) }
        else none
      | _ => none
    | none => none
  | .writeErr i => match s.writers[i]? with
    | some w => match w.pc with
      | .writing _ => some { setW s i (fun w => { w with pc := .failed }) with dir := s.dir.filter (·.1 ≠ w.tmp) }
      | _ => none
    | none => none
  | .close i => match s.writers[i]? with
    | some w => match w.pc with
      | .writing d => if d = w.payload.length then some (setW s i fun w => { w with pc := .closed }) else none
      | _ => none
    | none => none
  | .rename i => match s.writers[i]? with
    | some w => if w.pc = .closed then
        some { setW s i (fun w => { w with pc := .finished }) with
               dir := setDir (s.dir.filter (·.1 ≠ w.tmp)) w.final w.payload }
      else none
    | none => none

inductive Reachable (s0 : St) : St → Prop
  | refl : Reachable s0 s0
  | step {s s' : St} (e : Ev) : Reachable s0 s → step s e = some s' → Reachable s0 s'

end Desync.CrashFS
