/-
  Step machine for `RemoteSSH` (remotessh.go): the casync-over-SSH store as a POOL of protocol
  sessions.  `pool` is a buffered channel of capacity `opt.N` that holds the sessions nobody uses;

      GetChunk:  client := <-r.pool; chunk, err := client.RequestChunk(id); r.pool <- client; return
      HasChunk:  GetChunk, then ChunkMissing -> (false, nil), any other error -> (false, err)
      Close:     for i := 0; i < r.n; i++ { client := <-r.pool; err = client.SendGoodbye() }; return err

  Every channel operation, the two halves of `RequestChunk` (`SendProtocolRequest`, then
  `ReadMessage` + the switch: `PS.clientReply`) and every `SendGoodbye` is a step of its own.  The
  servers are the environment: at any moment a server may write ANY bytes to its session's stream
  (`srvWrite`) or exit (`srvExit`: end of file after what has arrived, and the client's writes
  fail from then on).  `ReadMessage` can only return when a complete frame has arrived or the
  stream has ended (`Sess.ready`); until then the caller waits (the code has no time-out).

  What the code does with a session whose request failed is what the machine does: the session goes
  back into the pool whatever `RequestChunk` returned, with whatever is unread in its stream.

  `hstep` is the same machine with HONEST servers: the server of a session answers the outstanding
  request with `ProtocolServer.Serve`'s switch (`PS.arm`), completely, or with a prefix of its
  answer before it dies (`cut`), or exits.

  `construct` is `NewRemoteSSHStore`.
-/
import Desync.Model.ProtoSession

namespace Desync.SshPool
open Desync

/-- what a caller calls -/
inductive Op
  | get (id : Bytes)
  | has (id : Bytes)
  | close
  deriving DecidableEq, Repr

def Op.id? : Op → Option Bytes
  | .get id => some id
  | .has id => some id
  | .close => none

/-- what a call returns -/
inductive Out
  | chunk (r : PS.CRes)                              -- GetChunk: `return chunk, err`
  | has (present : Bool) (err : Option PS.End)       -- HasChunk
  | closed (err : Bool)                              -- Close: the error of the LAST `SendGoodbye`
  deriving Repr

/-- `HasChunk`'s mapping of `GetChunk`'s result; `GetChunk` returns `RequestChunk`'s result as it is -/
def outOf : Op → PS.CRes → Out
  | .has _, .ok _ => .has true none
  | .has _, .missing => .has false none
  | .has _, .fail e => .has false (some e)
  | _, r => .chunk r

/-- where a caller is -/
inductive Pc
  | idle                              -- not called yet
  | want                              -- GetChunk: at `client := <-r.pool`
  | hold (i : Nat)                    -- has session `i`, before `SendProtocolRequest`
  | wait (i : Nat)                    -- request written, inside `ReadMessage`
  | back (i : Nat) (r : PS.CRes)      -- `RequestChunk` has returned `r`, at `r.pool <- client`
  | cwant (k : Nat) (err : Bool)      -- Close: pass `k`, at `client := <-r.pool`
  | cbye (k : Nat) (i : Nat)          -- Close: pass `k`, at `client.SendGoodbye()`
  | done (o : Out)
  deriving Repr

/-- the session a caller has in its hands -/
def Pc.sess? : Pc → Option Nat
  | .hold i => some i
  | .wait i => some i
  | .back i _ => some i
  | .cbye _ i => some i
  | _ => none

/-- the client's view of one session (a `*Protocol` after `StartProtocol`) -/
structure Sess where
  rd : St := ⟨[], 0⟩          -- the reader: bytes that have arrived and are unread; input-sized allocation
  eof : Bool := false         -- the server has exited: end of file after `rd.rest`, writes fail
  sent : List Message := []   -- what the client has written since the handshake
  deriving Repr

/-- a whole frame has arrived (`ReadMessage` returns without waiting for more) -/
def complete (b : Bytes) : Bool :=
  8 ≤ b.length && (u64OfLE b < 16 || (u64OfLE b).toNat ≤ b.length)

/-- `ReadMessage` returns: a whole frame is there, or the stream has ended -/
def Sess.ready (x : Sess) : Bool := x.eof || complete x.rd.rest

structure State where
  cap : Nat                   -- capacity of the channel: `make(chan *Protocol, opt.N)`
  n : Nat                     -- `r.n`
  pool : List Nat             -- the channel's buffer, head = next out
  retired : List Nat          -- (ghost) the sessions `Close` has said goodbye to
  sess : Nat → Sess
  pc : Nat → Pc

def upd {α : Type} (f : Nat → α) (i : Nat) (v : α) : Nat → α := fun j => if j = i then v else f j

@[simp] theorem upd_same {α : Type} (f : Nat → α) (i : Nat) (v : α) : upd f i v i = v := by simp [upd]
theorem upd_other {α : Type} (f : Nat → α) {i j : Nat} (v : α) (h : j ≠ i) : upd f i v j = f j := by simp [upd, h]

inductive Ev
  | call (c : Nat)                     -- the caller enters GetChunk / HasChunk / Close
  | take (c : Nat)                     -- `<-r.pool`
  | send (c : Nat)                     -- `SendProtocolRequest`
  | recv (c : Nat)                     -- `ReadMessage` and the switch on the message type
  | put (c : Nat)                      -- `r.pool <- client` and the return
  | bye (c : Nat)                      -- Close: `SendGoodbye`, next pass or return
  | srvWrite (i : Nat) (b : Bytes)     -- environment: the server of session `i` writes `b`
  | srvExit (i : Nat)                  -- environment: the server of session `i` exits
  deriving Repr

def Ev.isCaller : Ev → Bool
  | .srvWrite _ _ => false
  | .srvExit _ => false
  | _ => true

/-- the request `RequestChunk(id)` writes -/
def reqOf (id : Bytes) : Message := requestMessage (PS.fit32 id) Gen.CaProtocolRequestHighPriority

def opId (ops : List Op) (c : Nat) : Option Bytes := (ops[c]?).bind Op.id?

def step (H : Bytes → Bytes) (dec : Bytes → Option Bytes) (ops : List Op) (s : State) : Ev → Option State
  | .call c =>
    match s.pc c, ops[c]? with
    | .idle, some .close =>
      -- `for i := 0; i < r.n; i++`: with n = 0 Close returns nil at once
      some { s with pc := upd s.pc c (if 0 < s.n then .cwant 0 false else .done (.closed false)) }
    | .idle, some _ => some { s with pc := upd s.pc c .want }
    | _, _ => none
  | .take c =>
    match s.pc c, s.pool with
    | .want, i :: p => some { s with pool := p, pc := upd s.pc c (.hold i) }
    | .cwant k _, i :: p => some { s with pool := p, pc := upd s.pc c (.cbye k i) }
    | _, _ => none
  | .send c =>
    match s.pc c, opId ops c with
    | .hold i, some id =>
      if (s.sess i).eof then some { s with pc := upd s.pc c (.back i (.fail .send)) }
      else some { s with sess := upd s.sess i { s.sess i with sent := (s.sess i).sent ++ [reqOf id] },
                         pc := upd s.pc c (.wait i) }
    | _, _ => none
  | .recv c =>
    match s.pc c, opId ops c with
    | .wait i, some id =>
      if (s.sess i).ready then
        let x := PS.clientReply H dec id (s.sess i).rd
        some { s with sess := upd s.sess i { s.sess i with rd := x.2 }, pc := upd s.pc c (.back i x.1) }
      else none
    | _, _ => none
  | .put c =>
    match s.pc c, ops[c]? with
    | .back i r, some op =>
      if s.pool.length < s.cap then some { s with pool := s.pool ++ [i], pc := upd s.pc c (.done (outOf op r)) }
      else none
    | _, _ => none
  | .bye c =>
    match s.pc c with
    | .cbye k i =>
      let failed := (s.sess i).eof
      let sess' := if failed then s.sess
        else upd s.sess i { s.sess i with sent := (s.sess i).sent ++ [PS.goodbyeMsg] }
      some { s with sess := sess', retired := s.retired ++ [i],
                    pc := upd s.pc c (if k + 1 < s.n then .cwant (k + 1) failed else .done (.closed failed)) }
    | _ => none
  | .srvWrite i b =>
    if (s.sess i).eof then none
    else some { s with sess := upd s.sess i { s.sess i with rd := { (s.sess i).rd with rest := (s.sess i).rd.rest ++ b } } }
  | .srvExit i =>
    if (s.sess i).eof then none
    else some { s with sess := upd s.sess i { s.sess i with eof := true } }

/-- the store `NewRemoteSSHStore` returns when every `StartProtocol` succeeded -/
def init (n : Nat) : State :=
  { cap := n, n := n, pool := List.range n, retired := [], sess := fun _ => {}, pc := fun _ => .idle }

inductive Reachable (H : Bytes → Bytes) (dec : Bytes → Option Bytes) (ops : List Op) (s0 : State) : State → Prop
  | init : Reachable H dec ops s0 s0
  | step {s s' : State} {e : Ev} : Reachable H dec ops s0 s → step H dec ops s e = some s' → Reachable H dec ops s0 s'

/-- run a list of events; `none` as soon as one is not enabled -/
def run (H : Bytes → Bytes) (dec : Bytes → Option Bytes) (ops : List Op) : List Ev → State → Option State
  | [], s => some s
  | e :: es, s => (step H dec ops s e).bind (run H dec ops es)

/-! ### the measure that bounds the callers' steps -/

def rank (n : Nat) : Pc → Nat
  | .idle => 2 * n + 6
  | .want => 4
  | .hold _ => 3
  | .wait _ => 2
  | .back _ _ => 1
  | .cwant k _ => 2 * (n - k) + 2
  | .cbye k _ => 2 * (n - k) + 1
  | .done _ => 0

/-- the callers' steps still to come, summed over the callers `0 … k-1` -/
def measure (s : State) : Nat → Nat
  | 0 => 0
  | k + 1 => measure s k + rank s.n (s.pc k)

/-! ### honest servers -/

inductive HEv
  | caller (e : Ev)              -- a caller's step
  | reply (c : Nat)              -- the server answers caller `c`'s outstanding request (or ends, if its store fails)
  | cut (c : Nat) (k : Nat)      -- the server writes the first `k` bytes of that answer and dies
  | exit (i : Nat)               -- the server of session `i` exits
  deriving Repr

/-- no answer to the outstanding request of session `i` has been written yet -/
def Sess.unanswered (x : Sess) : Bool := x.rd.rest.isEmpty && !x.eof

def hstep (E : PS.Env) (ops : List Op) (s : State) : HEv → Option State
  | .caller e => if e.isCaller then step E.H E.z.dec ops s e else none
  | .exit i => step E.H E.z.dec ops s (.srvExit i)
  | .reply c =>
    match s.pc c, opId ops c with
    | .wait i, some id =>
      if (s.sess i).unanswered then
        match PS.arm E true none (reqOf id) with
        | .next sent _ => step E.H E.z.dec ops s (.srvWrite i (PS.wire sent))
        | .stop _ => step E.H E.z.dec ops s (.srvExit i)        -- `Serve` returns: the process ends
      else none
    | _, _ => none
  | .cut c k =>
    match s.pc c, opId ops c with
    | .wait i, some id =>
      if (s.sess i).unanswered then
        match PS.arm E true none (reqOf id) with
        | .next sent _ =>
          if k < (PS.wire sent).length then
            (step E.H E.z.dec ops s (.srvWrite i ((PS.wire sent).take k))).bind fun s1 =>
              step E.H E.z.dec ops s1 (.srvExit i)
          else none
        | .stop _ => none
      else none
    | _, _ => none

inductive HReachable (E : PS.Env) (ops : List Op) (s0 : State) : State → Prop
  | init : HReachable E ops s0 s0
  | step {s s' : State} {e : HEv} : HReachable E ops s0 s → hstep E ops s e = some s' → HReachable E ops s0 s'

/-! ### the constructor -/

/-- `NewRemoteSSHStore`: `cap` = the channel's capacity, `n` = the loop bound, `ok i` = whether the `i`-th
    `StartProtocol` succeeds -/
inductive Ctor
  | ok (pool : List Nat)                    -- `return &remote, nil`
  | failed (k : Nat) (pool : List Nat)      -- `return &remote, err`: the `k`-th start failed; the store is NOT nil
  | blocked (k : Nat)                       -- `remote.pool <- s` never returns (channel full, no receiver yet)
  deriving DecidableEq, Repr

def constructLoop (cap : Nat) (ok : Nat → Bool) : Nat → Nat → List Nat → Ctor
  | 0, _, pool => .ok pool
  | todo + 1, i, pool =>
    if !ok i then .failed i pool
    else if pool.length < cap then constructLoop cap ok todo (i + 1) (pool ++ [i])
    else .blocked i

def construct (cap n : Nat) (ok : Nat → Bool) : Ctor := constructLoop cap ok n 0 []

/-- the store a failed constructor hands out together with its error: `k` sessions in a channel of capacity
    `n`, and `r.n = n` -/
def halfBuilt (n k : Nat) : State := { init n with pool := List.range k }

end Desync.SshPool
