/-
  cmd/desync: which initialisation a sub-command's run sees (C04 "any file whose digest flag disagrees with the configured
  digest", C05 "under either digest algorithm": the configured digest is what the GLOBAL option --digest set).

  cobra's contract (documented; trusted): functions registered with `cobra.OnInitialize` run before every command's hooks;
  of the `PersistentPreRun(E)` hooks on the path from the executed command up to the root ONLY THE NEAREST one runs.
-/
namespace Desync.CobraInit

/-- a command on the path from the executed sub-command (head) up to the root (last): does it define a persistent
    pre-run hook, and does that hook perform the global initialisation (config, digest, verbosity) -/
structure Node where
  hasHook : Bool
  hookInits : Bool
  deriving DecidableEq, Repr

/-- the hook cobra runs: the nearest one on the path -/
def nearestHook : List Node → Option Node
  | [] => none
  | n :: rest => if n.hasHook then some n else nearestHook rest

/-- does the global initialisation run for a command with this path, given whether it is registered with OnInitialize -/
def initRuns (onInitialize : Bool) (path : List Node) : Bool :=
  onInitialize || (match nearestHook path with | some n => n.hookInits | none => false)

/-- registered with OnInitialize: every command, whatever hooks exist -/
theorem onInitialize_reaches_every_command (path : List Node) : initRuns true path = true := by
  simp [initRuns]

/-- done in the root's hook: reaches exactly the commands without a nearer hook of their own that does not do it -/
theorem root_hook_reaches_iff (path : List Node) :
    initRuns false path = true ↔ ∃ n, nearestHook path = some n ∧ n.hookInits = true := by
  unfold initRuns
  cases h : nearestHook path with
  | none => simp
  | some n => simp

/-- the shape seeded change C04-l produced: initialisation in the root's hook, a sub-command with a hook of its own -/
theorem shadowed_hook_skips_init :
    initRuns false [⟨true, false⟩, ⟨true, true⟩] = false := by decide

/-- no persistent hook anywhere below the root and nothing registered: only the root's hook can do it -/
theorem no_hooks_no_init (path : List Node) (h : ∀ n ∈ path, n.hasHook = false) : initRuns false path = false := by
  have : nearestHook path = none := by
    induction path with
    | nil => rfl
    | cons a rest ih =>
      have ha := h a (by simp)
      simp [nearestHook, ha]
      exact ih (fun n hn => h n (by simp [hn]))
  simp [initRuns, this]

example : initRuns true [⟨true, false⟩, ⟨false, false⟩] = true := by decide

end Desync.CobraInit
