/-
  Model of archive.go (`ArchiveDecoder.Next`), untar.go (`UnTar` as a list of filesystem
  operations) and tar.go (`tar` over the stream of `File` records the code consumes).
-/
import Desync.Model.Goodbye

namespace Desync

/-! ## decoding -/

structure Meta where
  uid : UInt64
  gid : UInt64
  mode : UInt64      -- stat mode as stored in the entry (low 32 bits are converted by the code)
  mtime : UInt64     -- nanoseconds
  xattrs : List (Bytes × Bytes)   -- in map-insertion order; later keys overwrite earlier ones
  deriving DecidableEq, Repr, Inhabited

inductive Node
  | dir (name : Bytes) (m : Meta)
  | file (name : Bytes) (m : Meta) (size : UInt64) (data : Bytes)
  | device (name : Bytes) (m : Meta) (major minor : UInt64)
  | symlink (name : Bytes) (m : Meta) (target : Bytes)
  deriving DecidableEq, Repr, Inhabited

def slash : UInt8 := 47
def dot : UInt8 := 46

/-- `path.Join(dir, name)` for `dir` = "." or a clean relative path and `name` a single
    normal component (guaranteed by `validName`), or `name` = "" (the root entry) -/
def joinPath (dir name : Bytes) : Bytes :=
  if name = [] then dir
  else if dir = [dot] then name
  else dir ++ [slash] ++ name

/-- `filepath.Dir` of "." or a clean relative path -/
def dirOf (p : Bytes) : Bytes :=
  match p.reverse.dropWhile (· ≠ slash) with
  | [] => [dot]
  | _ :: r => if r = [] then [slash] else r.reverse

/-- names the archive decoder accepts in a filename element: a single normal path component -/
def validName (n : Bytes) : Bool :=
  n ≠ [] && n ≠ [dot] && n ≠ [dot, dot] && !n.contains slash && !n.contains 0

/-- insert/overwrite in a Go map modelled as an association list -/
def mapSet (m : List (Bytes × Bytes)) (k v : Bytes) : List (Bytes × Bytes) :=
  if m.any (·.1 = k) then m.map (fun p => if p.1 = k then (k, v) else p) else m ++ [(k, v)]

/-- split `name\0value` at the first NUL -/
def splitNul (b : Bytes) : Option (Bytes × Bytes) :=
  if b.contains 0 then some (b.takeWhile (· ≠ 0), (b.dropWhile (· ≠ 0)).drop 1) else none

structure ArchDec where
  st : St
  dir : Bytes := [dot]
  last : Option Elem := none
  skip : Nat := 0        -- payload bytes the caller did not read (`d.advance`)
  nodes : Nat := 0       -- number of nodes returned so far
  rootNotDir : Bool := false   -- the first node had no filename and was not a directory
  deriving Repr

structure Pending where
  entry : Option (UInt64 × UInt64 × UInt64 × UInt64) := none   -- mode uid gid mtime
  xattrs : List (Bytes × Bytes) := []
  name : Bytes := []
  symlink : Option Bytes := none
  device : Option (UInt64 × UInt64) := none

/-- reading a payload body: exactly `size` bytes must be present (a short body is
    `io.ErrUnexpectedEOF`) -/
def takePayload (n : Nat) (s : St) : Res (Bytes × St) :=
  if n ≤ s.rest.length then .ok (s.rest.take n, { s with rest := s.rest.drop n })
  else .err .ueof

def Pending.meta (p : Pending) : Meta :=
  match p.entry with
  | some (mode, uid, gid, mt) => ⟨uid, gid, mode, mt, p.xattrs⟩
  | none => ⟨0, 0, 0, 0, p.xattrs⟩

/-- the check between the loop and the construction of the node: only the first node of an
    archive (its root) may come without a filename, and nothing may follow a root that is not a
    directory.  Returns the decoder with its counters updated, or `none` = `InvalidFormat`. -/
def ArchDec.admit (a : ArchDec) (name : Bytes) (isDir : Bool) : Option ArchDec :=
  if a.nodes > 0 && (name = [] || a.rootNotDir) then none
  else some { a with nodes := a.nodes + 1,
                     rootNotDir := if a.nodes = 0 && name = [] && !isDir then true else a.rootNotDir }

/-- the `for` loop of `ArchiveDecoder.Next`; `none` result = end of archive -/
def archLoop : Nat → ArchDec → Pending → Res (Option Node × ArchDec)
  | 0, _, _ => .err .other
  | fuel+1, a, p => do
    let (c, a) ← (match a.last with
      | some e => (pure (some e, { a with last := none }) : Res (Option Elem × ArchDec))
      | none => do
        let (e, s) ← decNext a.st
        pure (e, { a with st := s }))
    let finish (a : ArchDec) (p : Pending) : Res (Option Node × ArchDec) :=
      match a.admit p.name (p.symlink.isNone && p.device.isNone) with
      | none => .err .format
      | some a =>
        match p.symlink, p.device with
        | none, none =>
          let d := joinPath a.dir p.name
          pure (some (.dir d p.meta), { a with dir := d })
        | _, some (ma, mi) => pure (some (.device (joinPath a.dir p.name) p.meta ma mi), a)
        | some t, none => pure (some (.symlink (joinPath a.dir p.name) p.meta t), a)
    match c with
    | none => if p.entry.isSome then .err .ueof else pure (none, a)
    | some (.entry _ _ mode _ uid gid mt) =>
      if p.entry.isSome then .err .format
      else archLoop fuel a { p with entry := some (mode, uid, gid, mt) }
    | some (.user ..) | some (.group ..) | some (.selinux ..) | some (.aclUser ..)
    | some (.aclGroup ..) | some (.aclGroupObj ..) | some (.aclDefault ..) | some (.fcaps ..) =>
      archLoop fuel a p
    | some (.payload sz) =>
      if p.entry.isNone then .err .format
      else
        match a.admit p.name false with
        | none => .err .format
        | some a => do
          let (data, s) ← takePayload (sz.toNat - 16) a.st
          pure (some (.file (joinPath a.dir p.name) p.meta (sz - 16) data), { a with st := s })
    | some (.xattr _ nv) =>
      match splitNul nv with
      | none => .err .format
      | some (k, v) =>
        if p.entry.isNone then .err .format
        else archLoop fuel a { p with xattrs := mapSet p.xattrs k v }
    | some (.symlink _ t) =>
      if p.entry.isNone then .err .format else archLoop fuel a { p with symlink := some t }
    | some (.device _ ma mi) =>
      if p.entry.isNone then .err .format else archLoop fuel a { p with device := some (ma, mi) }
    | some (.filename sz n) =>
      if p.entry.isSome then finish { a with last := some (.filename sz n) } p
      else if !validName n then .err .format
      else archLoop fuel a { p with name := n }
    | some (.goodbye sz items) =>
      if p.entry.isSome then finish { a with last := some (.goodbye sz items) } p
      else archLoop fuel { a with dir := dirOf a.dir } p
    | some (.index ..) | some (.table ..) => .err .unsupported

def ArchDec.next (a : ArchDec) : Res (Option Node × ArchDec) :=
  archLoop (a.st.rest.length + 2) a {}

/-- `UnTar`: the sequence of nodes handed to the `FilesystemWriter`, or the error -/
def untarNodes : Nat → ArchDec → List Node → Res (List Node)
  | 0, _, _ => .err .other
  | fuel+1, a, acc => do
    let (n, a) ← a.next
    match n with
    | none => pure acc.reverse
    | some n => untarNodes fuel a (n :: acc)

def untar (b : Bytes) : Res (List Node) :=
  untarNodes (b.length + 2) { st := { rest := b } } []

/-! ## encoding -/

inductive Kind | dir | reg | symlink | device | other
  deriving DecidableEq, Repr, Inhabited

/-- a `File` record as produced by a `FilesystemReader` -/
structure FileRec where
  base : Bytes          -- path.Base(f.Name)
  path : Bytes          -- f.Path
  parent : Bytes        -- path.Dir(f.Path)
  kind : Kind
  mode : UInt64         -- uint64(FilemodeToStatMode(f.Mode))
  uid : UInt64
  gid : UInt64
  mtime : UInt64        -- uint64(f.ModTime.UnixNano())
  size : UInt64
  data : Bytes
  target : Bytes
  major : UInt64
  minor : UInt64
  xattrs : List (Bytes × Bytes)   -- sorted by key (sort.Strings)
  deriving Repr, Inhabited

def u64len (b : Bytes) : UInt64 := UInt64.ofNat b.length

def encXattrs (xs : List (Bytes × Bytes)) : Bytes :=
  xs.flatMap fun (k, v) =>
    encElem (.xattr (u64len k + 1 + u64len v + 1 + 16) (k ++ [0] ++ v))

def entryElem (f : FileRec) : Elem :=
  .entry 64 Gen.TarFeatureFlags f.mode 0 f.uid f.gid f.mtime

mutual
/-- `tar(ctx, enc, fs, f)`: bytes written for `f` (and, for a directory, everything below it)
    and the remaining record stream.  `none` = an error return. -/
def tarOne : Nat → FileRec → List FileRec → Option (Bytes × List FileRec)
  | 0, _, _ => none
  | fuel+1, f, rest =>
    if f.kind = .other then some ([], rest)
    else
      let hdr := encElem (entryElem f) ++ encXattrs f.xattrs
      match f.kind with
      | .dir =>
        match tarChildren fuel f.path rest hdr.length [] with
        | none => none
        | some (body, items, rest') =>
          let n := hdr.length + body.length
          let items := items.map fun (it : GoodbyeItem) => { it with offset := UInt64.ofNat n - it.offset }
          match makeGoodbyeBST items with
          | none => none
          | some bst =>
            let all := bst ++ [⟨UInt64.ofNat n, UInt64.ofNat (16 + bst.length * 24 + 24), Gen.CaFormatGoodbyeTailMarker⟩]
            some (hdr ++ body ++ encElem (.goodbye (UInt64.ofNat (16 + all.length * 24)) all), rest')
      | .reg =>
        if f.data.length < f.size.toNat then none      -- io.CopyN hits EOF: "payload is shorter than its size"
        else some (hdr ++ encElem (.payload (16 + f.size)) ++ f.data.take f.size.toNat, rest)
      | .symlink => some (hdr ++ encElem (.symlink (UInt64.ofNat (16 + f.target.length + 1)) f.target), rest)
      | .device => some (hdr ++ encElem (.device 32 f.major f.minor), rest)
      | .other => some ([], rest)

/-- the child loop of a directory: `n` = bytes written so far for this directory -/
def tarChildren : Nat → Bytes → List FileRec → Nat → List GoodbyeItem →
    Option (Bytes × List GoodbyeItem × List FileRec)
  | 0, _, _, _, _ => none
  | _, _, [], _, items => some ([], items, [])
  | fuel+1, dir, f :: rest, n, items =>
    if f.parent ≠ dir then some ([], items, f :: rest)
    else if f.kind = .other then tarChildren fuel dir rest n items     -- skipped (with a warning)
    else
      let fname := encElem (.filename (UInt64.ofNat (16 + f.base.length + 1)) f.base)
      match tarOne fuel f rest with
      | none => none
      | some (child, rest') =>
        let sz := fname.length + child.length
        let item : GoodbyeItem := ⟨UInt64.ofNat n, UInt64.ofNat sz, sipHashName f.base⟩
        match tarChildren fuel dir rest' (n + sz) (items ++ [item]) with
        | none => none
        | some (more, items', rest'') => some (fname ++ child ++ more, items', rest'')
end

/-- `Tar`: the first record is the root -/
def tarStream (fs : List FileRec) : Option Bytes :=
  match fs with
  | [] => none          -- `fs.Next()` returns io.EOF: an error
  | f :: rest => (tarOne (2 * fs.length + 2) f rest).map (·.1)

end Desync
