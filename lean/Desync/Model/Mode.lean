/-
  Model of filesystem.go: `StatModeToFilemode` / `FilemodeToStatMode`, and of
  localfs_other.go: `mkdev` and the `Rdev` split in `LocalFS.Next`.
  Constants are Go's `os.Mode*` and Linux `syscall.S_*` values (hand-transcribed; the two
  conversion functions are compared with the implementation exhaustively over all 2^16 stat
  modes and all type/permission/set-id combinations on every run).
-/
namespace Desync.Mode

def S_IFMT : UInt32 := 0xf000
def S_IFBLK : UInt32 := 0x6000
def S_IFCHR : UInt32 := 0x2000
def S_IFDIR : UInt32 := 0x4000
def S_IFIFO : UInt32 := 0x1000
def S_IFLNK : UInt32 := 0xa000
def S_IFSOCK : UInt32 := 0xc000
def S_IFREG : UInt32 := 0x8000
def S_ISUID : UInt32 := 0x800
def S_ISGID : UInt32 := 0x400
def S_ISVTX : UInt32 := 0x200

def ModeDir : UInt32 := 0x80000000
def ModeSymlink : UInt32 := 0x8000000
def ModeDevice : UInt32 := 0x4000000
def ModeNamedPipe : UInt32 := 0x2000000
def ModeSocket : UInt32 := 0x1000000
def ModeSetuid : UInt32 := 0x800000
def ModeSetgid : UInt32 := 0x400000
def ModeCharDevice : UInt32 := 0x200000
def ModeSticky : UInt32 := 0x100000
def ModeIrregular : UInt32 := 0x80000
def ModeType : UInt32 :=
  ModeDir ||| ModeSymlink ||| ModeNamedPipe ||| ModeSocket ||| ModeDevice ||| ModeCharDevice ||| ModeIrregular

/-- `StatModeToFilemode` -/
def statToFilemode (mode : UInt32) : UInt32 :=
  let fm := mode &&& 0x1ff
  let t := mode &&& S_IFMT
  let fm :=
    if t = S_IFBLK then fm ||| ModeDevice
    else if t = S_IFCHR then fm ||| ModeDevice ||| ModeCharDevice
    else if t = S_IFDIR then fm ||| ModeDir
    else if t = S_IFIFO then fm ||| ModeNamedPipe
    else if t = S_IFLNK then fm ||| ModeSymlink
    else if t = S_IFSOCK then fm ||| ModeSocket
    else fm
  let fm := if mode &&& S_ISGID ≠ 0 then fm ||| ModeSetgid else fm
  let fm := if mode &&& S_ISUID ≠ 0 then fm ||| ModeSetuid else fm
  let fm := if mode &&& S_ISVTX ≠ 0 then fm ||| ModeSticky else fm
  fm

/-- `FilemodeToStatMode` -/
def filemodeToStat (mode : UInt32) : UInt32 :=
  let o := mode &&& 0x1ff
  let m := mode &&& ModeType
  let o :=
    if m = ModeDevice then o ||| S_IFBLK
    else if m = (ModeDevice ||| ModeCharDevice) then o ||| S_IFCHR
    else if m = ModeDir then o ||| S_IFDIR
    else if m = ModeNamedPipe then o ||| S_IFIFO
    else if m = ModeSymlink then o ||| S_IFLNK
    else if m = ModeSocket then o ||| S_IFSOCK
    else o ||| S_IFREG
  let o := if mode &&& ModeSetuid ≠ 0 then o ||| S_ISUID else o
  let o := if mode &&& ModeSetgid ≠ 0 then o ||| S_ISGID else o
  let o := if mode &&& ModeSticky ≠ 0 then o ||| S_ISVTX else o
  o

/-- `mkdev` -/
def mkdev (major minor : UInt64) : UInt64 :=
  ((major &&& 0x00000fff) <<< 8) ||| ((major &&& 0xfffff000) <<< 32) |||
  ((minor &&& 0x000000ff) <<< 0) ||| ((minor &&& 0xffffff00) <<< 12)

/-- `major = (Rdev >> 8) & 0xfff` in `LocalFS.Next` -/
def rdevMajor (rdev : UInt64) : UInt64 := (rdev >>> 8) &&& 0xfff

/-- `minor = (Rdev % 256) | ((Rdev & 0xfff00000) >> 12)` -/
def rdevMinor (rdev : UInt64) : UInt64 := (rdev % 256) ||| ((rdev &&& 0xfff00000) >>> 12)

end Desync.Mode
