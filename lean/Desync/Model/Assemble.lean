/-
  Model of `AssembleFile` (assemble.go) with one worker, and of everything it calls:
  the planner (sequencer.go `SeedSequencer.Next/Plan`, fileseed.go `LongestMatchWith/maxMatchFrom`,
  nullseed.go `LongestMatchWith`), plan validation and the skip / regenerate loop, the file
  operations of the seed segments (`fileSeedSegment.WriteInto/copy/clone`,
  `nullChunkSection.WriteInto/copy/clone`, with the arithmetic regenerated from the Go source in
  `Gen.fsClone_*` / `Gen.nullClone_*`), the kernel's FICLONERANGE rules, `writeChunk`, and the
  self seed (selfseed.go).  DESIGN section 6, C01.

  Files are byte lists.  The hash `H` is a parameter (the driver instantiates it with
  SHA-512/256 or SHA-256); so are the store, the re-chunking used by `RegenerateIndex` and the
  result of a same-file copy whose source and destination overlap (`ovl`, see `copyInto`).
-/
import Desync.Basic.Bytes
import Desync.Generated.Facts

namespace Desync.Asm

structure IChunk where
  id : Bytes
  start : Nat
  size : Nat
  deriving Repr, DecidableEq, Inhabited

/-- index chunks from (id, size) pairs: starts are cumulative (what `IndexFromReader` produces) -/
def mkChunks : Nat → List (Bytes × Nat) → List IChunk
  | _, [] => []
  | s, (id, n) :: r => ⟨id, s, n⟩ :: mkChunks (s + n) r

def indexLength (cs : List IChunk) : Nat :=
  match cs.getLast? with
  | none => 0
  | some c => c.start + c.size

/-! ## files -/

def zeros (n : Nat) : Bytes := List.replicate n 0

/-- `pwrite`: a write of no bytes changes nothing; a write beyond EOF leaves a hole of zeros -/
def writeAt (f : Bytes) (off : Nat) (b : Bytes) : Bytes :=
  if b.isEmpty then f else (f ++ zeros (off - f.length)).take off ++ b ++ f.drop (off + b.length)

/-- `read` of up to `n` bytes at `off` (short at EOF) -/
def readUpTo (f : Bytes) (off n : Nat) : Bytes := (f.drop off).take n

/-- `ReadAt` into a buffer of `n` bytes: an error unless the buffer is filled -/
def readFull (f : Bytes) (off n : Nat) : Option Bytes :=
  if n = 0 ∨ off + n ≤ f.length then some (readUpTo f off n) else none

def truncate (f : Bytes) (n : Nat) : Bytes := (f ++ zeros (n - f.length)).take n

inductive Src
  | target
  | seed (k : Nat)
  deriving Repr, DecidableEq, Inhabited

structure FS where
  target : Bytes
  seeds : List Bytes
  deriving Repr

def FS.read (fs : FS) : Src → Bytes
  | .target => fs.target
  | .seed k => fs.seeds.getD k []

/-- a seed file that cannot be opened is a `Src.seed k` beyond the list of seed files -/
def FS.exists (fs : FS) : Src → Bool
  | .target => true
  | .seed k => k < fs.seeds.length

def overlaps (a b n : Nat) : Bool := n > 0 && a < b + n && b < a + n

/-- result of a write into the target: the new file system, bytes copied, bytes cloned, and whether
    the outcome involved an overlapping same-file copy (whose result is the parameter `ovl`) -/
inductive WRes
  | ok (fs : FS) (copied cloned : Nat) (fuzzy : Bool)
  | err
  deriving Repr

/-- `fileSeedSegment.copy`: up to `len` bytes of `src` at `so` go to the target at `dO`.
    If source and destination are overlapping (not identical) ranges of the target itself, what
    ends up in the destination depends on the block size the kernel or `io.Copy` moves; the model
    takes it from `ovl`, an arbitrary function returning at most `len` bytes. -/
def copyInto (ovl : Bytes → Nat → Nat → Nat → Bytes) (fs : FS) (src : Src) (so len dO : Nat) : FS × Nat × Bool :=
  let plain := readUpTo (fs.read src) so len
  if src = .target ∧ so ≠ dO ∧ overlaps so dO plain.length then
    let data := (ovl fs.target so dO len).take len
    ({ fs with target := writeAt fs.target dO data }, data.length, true)
  else
    ({ fs with target := writeAt fs.target dO plain }, plain.length, false)

/-- FICLONERANGE as the harness emulates it (from ioctl_ficlonerange(2) and
    `generic_remap_file_range_prep`): offsets block aligned; length 0 means "to the end of the
    source"; the source range must lie inside the source; an unaligned length is only accepted if it
    ends at the source's EOF and at or beyond the destination's; ranges of one file must not overlap -/
def cloneRange (dst src : Bytes) (same : Bool) (so len dO bs : Nat) : Option Bytes :=
  if so % bs ≠ 0 ∨ dO % bs ≠ 0 then none else
  let n := if len = 0 then src.length - so else len
  if so + n > src.length then none
  else if n = 0 then some dst
  else if n % bs ≠ 0 ∧ ¬ (so + n = src.length ∧ dO + n ≥ dst.length) then none
  else if same ∧ overlaps so dO n then none
  else some (writeAt dst dO (readUpTo src so n))

def u (n : Nat) : UInt64 := n.toUInt64

/-- `fileSeedSegment.clone` -/
def fsClone (ovl : Bytes → Nat → Nat → Nat → Bytes) (fs : FS) (src : Src) (so len dO bs : Nat) : WRes :=
  let sas := Gen.fsClone_srcAlignStart (u so) (u len) (u dO) (u bs) 0 0 0 0 0
  let sae := Gen.fsClone_srcAlignEnd (u so) (u len) (u dO) (u bs) sas 0 0 0 0
  if Gen.fsClone_guard (u so) (u len) (u dO) (u bs) sas sae 0 0 0 then
    let (a, l, d) := Gen.fsClone_fallbackCopy (u so) (u len) (u dO) (u bs) sas sae 0 0 0
    let (fs', c, fz) := copyInto ovl fs src a.toNat l.toNat d.toNat
    .ok fs' c 0 fz
  else
    let das := Gen.fsClone_dstAlignStart (u so) (u len) (u dO) (u bs) sas sae 0 0 0
    let al := Gen.fsClone_alignLength (u so) (u len) (u dO) (u bs) sas sae das 0 0
    let dae := Gen.fsClone_dstAlignEnd (u so) (u len) (u dO) (u bs) sas sae das al 0
    let (a1, l1, d1) := Gen.fsClone_headCopy (u so) (u len) (u dO) (u bs) sas sae das al dae
    let (fs1, c1, fz1) := copyInto ovl fs src a1.toNat l1.toNat d1.toNat
    let (a2, l2, d2) := Gen.fsClone_tailCopy (u so) (u len) (u dO) (u bs) sas sae das al dae
    let (fs2, c2, fz2) := copyInto ovl fs1 src a2.toNat l2.toNat d2.toNat
    let (a3, l3, d3) := Gen.fsClone_cloneRange (u so) (u len) (u dO) (u bs) sas sae das al dae
    match cloneRange fs2.target (fs2.read src) (src = .target) a3.toNat l3.toNat d3.toNat bs with
    | none => .err
    | some t => .ok { fs2 with target := t } (c1 + c2) al.toNat (fz1 || fz2)

/-- the target after the head and tail copies of `fileSeedSegment.clone`, i.e. what a refused
    `CloneRange` leaves behind (only meaningful when the guard of `fsClone` is false) -/
def fsCloneHeadTail (ovl : Bytes → Nat → Nat → Nat → Bytes) (fs : FS) (src : Src) (so len dO bs : Nat) : FS × Bool :=
  let sas := Gen.fsClone_srcAlignStart (u so) (u len) (u dO) (u bs) 0 0 0 0 0
  let sae := Gen.fsClone_srcAlignEnd (u so) (u len) (u dO) (u bs) sas 0 0 0 0
  let das := Gen.fsClone_dstAlignStart (u so) (u len) (u dO) (u bs) sas sae 0 0 0
  let al := Gen.fsClone_alignLength (u so) (u len) (u dO) (u bs) sas sae das 0 0
  let dae := Gen.fsClone_dstAlignEnd (u so) (u len) (u dO) (u bs) sas sae das al 0
  let (a1, l1, d1) := Gen.fsClone_headCopy (u so) (u len) (u dO) (u bs) sas sae das al dae
  let (fs1, _, fz1) := copyInto ovl fs src a1.toNat l1.toNat d1.toNat
  let (a2, l2, d2) := Gen.fsClone_tailCopy (u so) (u len) (u dO) (u bs) sas sae das al dae
  let (fs2, _, fz2) := copyInto ovl fs1 src a2.toNat l2.toNat d2.toNat
  (fs2, fz1 || fz2)

structure FSeg where
  src : Src
  chunks : List IChunk
  canReflink : Bool
  deriving Repr

def FSeg.srcStart (s : FSeg) : Nat := (s.chunks.head?.map (·.start)).getD 0

/-- `fileSeedSegment.Size` -/
def FSeg.size (s : FSeg) : Nat :=
  match s.chunks.head?, s.chunks.getLast? with
  | some a, some b => b.start + b.size - a.start
  | _, _ => 0

/-- `fileSeedSegment.WriteInto`: wrong size → error; no cloning or misaligned → copy; else clone,
    and a plain copy of the whole range if the clone is refused -/
def FSeg.writeInto (ovl : Bytes → Nat → Nat → Nat → Bytes) (s : FSeg) (fs : FS) (offset length bs : Nat) : WRes :=
  if Gen.fsWrite_wrongSize s.canReflink (u s.srcStart) (u offset) (u length) (u bs) (u s.size) then .err
  else if Gen.fsWrite_useCopy s.canReflink (u s.srcStart) (u offset) (u length) (u bs) (u s.size) then
    let (a, l, d) := Gen.fsWrite_copyArgs s.canReflink (u s.srcStart) (u offset) (u length) (u bs) (u s.size)
    let (fs', c, fz) := copyInto ovl fs s.src a.toNat l.toNat d.toNat
    .ok fs' c 0 fz
  else
    let (a, l, d) := Gen.fsWrite_cloneArgs s.canReflink (u s.srcStart) (u offset) (u length) (u bs) (u s.size)
    match fsClone ovl fs s.src a.toNat l.toNat d.toNat bs with
    | .err =>
      -- the file system refused the clone (after the head and tail copies): copy the whole range
      let (fsr, fz0) := fsCloneHeadTail ovl fs s.src a.toNat l.toNat d.toNat bs
      let (a', l', d') := Gen.fsWrite_cloneFallbackArgs s.canReflink (u s.srcStart) (u offset) (u length) (u bs) (u s.size)
      let (fs', c, fz) := copyInto ovl fsr s.src a'.toNat l'.toNat d'.toNat
      .ok fs' c 0 (fz0 || fz)
    | r => r

/-- `nullChunkSection.copy`: zeros into the target -/
def zeroFill (fs : FS) (off len : Nat) : FS := { fs with target := writeAt fs.target off (zeros len) }

/-- the block loop of `nullChunkSection.clone` -/
def nullCloneLoop (bs : Nat) (off len das dae : UInt64) : Nat → UInt64 → Bytes → Nat → Option (Bytes × Nat)
  | 0, _, t, cl => some (t, cl)
  | fuel + 1, blk, t, cl =>
    if Gen.nullClone_loopCond off len (u bs) das dae blk then
      let (a, l, d) := Gen.nullClone_cloneRange off len (u bs) das dae blk
      match cloneRange t (zeros bs) false a.toNat l.toNat d.toNat bs with
      | none => none
      | some t' => nullCloneLoop bs off len das dae fuel (blk + Gen.nullClone_loopStep off len (u bs) das dae blk) t' (cl + bs)
    else some (t, cl)

/-- `nullChunkSection.WriteInto` (decision order: `Gen.nullWriteIntoShape`) -/
def nullWriteInto (fs : FS) (sfrom sto : Nat) (canReflink : Bool) (offset length bs : Nat) (isBlank : Bool) : WRes :=
  if length ≠ sto - sfrom then .err
  else if !canReflink then
    if isBlank then .ok fs 0 0 false
    else .ok (zeroFill fs offset (sto - sfrom)) (sto - sfrom) 0 false
  else
    let das := Gen.nullClone_dstAlignStart (u offset) (u length) (u bs) 0 0 0
    let dae := Gen.nullClone_dstAlignEnd (u offset) (u length) (u bs) das 0 0
    if Gen.nullClone_guard (u offset) (u length) (u bs) das dae 0 then
      let (o, l) := Gen.nullClone_fallbackCopy (u offset) (u length) (u bs) das dae 0
      .ok (zeroFill fs o.toNat l.toNat) l.toNat 0 false
    else
      let (o1, l1) := Gen.nullClone_headCopy (u offset) (u length) (u bs) das dae 0
      let fs1 := zeroFill fs o1.toNat l1.toNat
      let (o2, l2) := Gen.nullClone_tailCopy (u offset) (u length) (u bs) das dae 0
      let fs2 := zeroFill fs1 o2.toNat l2.toNat
      match nullCloneLoop bs (u offset) (u length) das dae (length / bs + 1)
              (Gen.nullClone_loopInit (u offset) (u length) (u bs) das dae 0) fs2.target 0 with
      | none => .err
      | some (t, cl) => .ok { fs2 with target := t } (l1.toNat + l2.toNat) cl false

/-! ## seeds and the planner -/

structure Seed where
  src : Src
  chunks : List IChunk
  canReflink : Bool
  invalid : Bool := false
  deriving Repr

/-- `FileSeed.maxMatchFrom`: length of the common prefix of IDs, at most `limit` if that is not 0 -/
def maxMatch (limit : Nat) : List IChunk → List IChunk → Nat → Nat
  | c :: cs, d :: ds, sp =>
    if limit ≠ 0 ∧ sp = limit then sp
    else if c.id ≠ d.id then sp
    else maxMatch limit cs ds (sp + 1)
  | _, _, sp => sp

/-- positions of an ID in a seed index, ascending (`FileSeed.pos[id]`) -/
def positions (id : Bytes) (cs : List IChunk) : List Nat :=
  (List.range cs.length).filter fun i => (cs.getD i default).id == id

def longestGo (limit : Nat) (chunks seedChunks : List IChunk) : List Nat → Nat × Nat → Nat × Nat
  | [], acc => acc
  | p :: ps, (mx, bp) =>
    let m := maxMatch limit chunks (seedChunks.drop p) 0
    let acc' := if m > mx then (m, p) else (mx, bp)
    if limit ≠ 0 ∧ limit = acc'.1 then acc' else longestGo limit chunks seedChunks ps acc'

/-- `FileSeed.LongestMatchWith` -/
def Seed.longestMatch (s : Seed) (chunks : List IChunk) : Nat × Option FSeg :=
  match chunks with
  | [] => (0, none)
  | c0 :: _ =>
    if s.chunks.isEmpty || s.invalid then (0, none) else
    match positions c0.id s.chunks with
    | [] => (0, none)
    | ps =>
      let limit := if s.canReflink then 0 else Gen.fileSeedLimit
      let (mx, bp) := longestGo limit chunks s.chunks ps (0, 0)
      (mx, some { src := s.src, chunks := (s.chunks.drop bp).take mx, canReflink := s.canReflink })

def nullRun (nullID : Bytes) (limit : Nat) : List IChunk → Nat → Nat
  | c :: cs, n => if limit ≠ 0 ∧ limit = n then n else if c.id ≠ nullID then n else nullRun nullID limit cs (n + 1)
  | [], n => n

inductive Source
  | store
  | file (seedIdx : Nat) (seg : FSeg)
  | null (sfrom sto : Nat) (canReflink : Bool)
  deriving Repr

def Source.size : Source → Nat
  | .store => 0
  | .file _ seg => seg.size
  | .null a b _ => b - a

/-- `nullChunkSeed.LongestMatchWith` -/
def nullLongestMatch (nullID : Bytes) (canReflink : Bool) (chunks : List IChunk) : Nat × Source :=
  let limit := if canReflink then 0 else Gen.nullSeedLimit
  let n := nullRun nullID limit chunks 0
  if n = 0 then (0, .store) else
    let a := (chunks.head?.map (·.start)).getD 0
    let l := chunks.getD (n - 1) default
    (n, .null a (l.start + l.size) canReflink)

structure PlanItem where
  first : Nat
  last : Nat
  source : Source
  deriving Repr

structure Env where
  chunks : List IChunk           -- the index being assembled
  nullID : Bytes                 -- ID of the all-zero chunk of maximal size
  nullReflink : Bool
  selfReflink : Bool
  bs : Nat                       -- block size of the target
  deriving Repr

def pickSeeds (rest : List IChunk) : List Seed → Nat → (Nat × Source × Nat) → (Nat × Source × Nat)
  | [], _, acc => acc
  | s :: ss, k, (adv, src, mx) =>
    let (n, m) := s.longestMatch rest
    match m with
    | some seg =>
      if Gen.seqBetter n (u seg.size) (u mx) then pickSeeds rest ss (k + 1) (n, .file k seg, seg.size)
      else pickSeeds rest ss (k + 1) (adv, src, mx)
    | none => pickSeeds rest ss (k + 1) (adv, src, mx)

/-- `SeedSequencer.Next`: the null seed is asked first, then the file seeds in order; a later seed
    wins only with a strictly larger match -/
def next (e : Env) (seeds : List Seed) (cur : Nat) : PlanItem × Nat :=
  let rest := e.chunks.drop cur
  let (n0, m0) := nullLongestMatch e.nullID e.nullReflink rest
  let acc0 : Nat × Source × Nat :=
    if Gen.seqBetter n0 (u m0.size) (u 0) then (n0, m0, m0.size) else (1, .store, 0)
  let (adv, src, _) := pickSeeds rest seeds 0 acc0
  ({ first := cur, last := cur + adv - 1, source := src }, cur + adv)

def planGo (e : Env) (seeds : List Seed) : Nat → Nat → List PlanItem
  | 0, _ => []
  | fuel + 1, cur =>
    let (it, cur') := next e seeds cur
    if cur' ≥ e.chunks.length then [it] else it :: planGo e seeds fuel cur'

/-- `SeedSequencer.Plan` -/
def plan (e : Env) (seeds : List Seed) : List PlanItem :=
  if e.chunks.isEmpty then [] else planGo e seeds e.chunks.length 0

/-! ## validation -/

/-- `fileSeedSegment.Validate` -/
def FSeg.validate (H : Bytes → Bytes) (fs : FS) (s : FSeg) : Bool :=
  s.chunks.all fun c =>
    match readFull (fs.read s.src) c.start c.size with
    | none => false
    | some b => H b == c.id

/-- `Plan.Validate` first opens the file of every file-seed segment: the first one that cannot be
    opened marks its seed invalid -/
def firstUnopenable (fs : FS) : List PlanItem → Option Nat
  | [] => none
  | it :: rest =>
    match it.source with
    | .file k seg => if fs.exists seg.src then firstUnopenable fs rest else some k
    | _ => firstUnopenable fs rest

def validateChunks (H : Bytes → Bytes) (fs : FS) : List PlanItem → Option Nat
  | [] => none
  | it :: rest =>
    match it.source with
    | .file k seg => if seg.validate H fs then validateChunks H fs rest else some k
    | _ => validateChunks H fs rest

/-- `Plan.Validate` with one worker: the first file-seed segment in plan order that fails marks
    its seed invalid -/
def validatePlan (H : Bytes → Bytes) (fs : FS) (p : List PlanItem) : Option Nat :=
  match firstUnopenable fs p with
  | some k => some k
  | none => validateChunks H fs p

inductive Action
  | bailOut | skip | regenerate
  deriving Repr, DecidableEq

def setInvalid (seeds : List Seed) (k : Nat) : List Seed :=
  seeds.modify k fun s => { s with invalid := true }

/-- `SeedSequencer.RegenerateInvalidSeeds`; `rechunk k data` is `IndexFromFile` with seed k's
    chunking parameters (none: it failed) -/
def regenerate (rechunk : Nat → Bytes → Option (List IChunk)) (fs : FS) : List Seed → Nat → Option (List Seed)
  | [], _ => some []
  | s :: ss, k =>
    if s.invalid then
      match (if fs.exists s.src then rechunk k (fs.read s.src) else none) with
      | none => none
      | some cs => (regenerate rechunk fs ss (k + 1)).map ({ s with chunks := cs, invalid := false } :: ·)
    else (regenerate rechunk fs ss (k + 1)).map (s :: ·)

/-- the validate / skip / regenerate loop of `AssembleFile` -/
def findPlan (H : Bytes → Bytes) (rechunk : Nat → Bytes → Option (List IChunk)) (e : Env) (fs : FS) (act : Action) :
    Nat → List Seed → Option (List PlanItem × Nat)
  | 0, _ => none
  | fuel + 1, seeds =>
    let p := plan e seeds
    match validatePlan H fs p with
    | none => some (p, fuel)
    | some k =>
      let seeds' := setInvalid seeds k
      match act with
      | .bailOut => none
      | .skip => findPlan H rechunk e fs act fuel seeds'
      | .regenerate =>
        match regenerate rechunk fs seeds' 0 with
        | none => none
        | some seeds'' => findPlan H rechunk e fs act fuel seeds''

/-! ## the self seed -/

structure SelfSeed where
  written : Nat := 0
  cache : List (Nat × Nat) := []      -- first ↦ last + 1 of segments finished out of order
  deriving Repr

def SelfSeed.advance : Nat → SelfSeed → SelfSeed
  | 0, s => s
  | fuel + 1, s =>
    match s.cache.find? (·.1 == s.written) with
    | none => s
    | some (_, nxt) => SelfSeed.advance fuel { written := nxt, cache := s.cache.filter (·.1 != s.written) }

/-- `selfSeed.add` -/
def SelfSeed.add (s : SelfSeed) (first last : Nat) : SelfSeed :=
  let c := (first, last + 1) :: s.cache.filter (·.1 != first)
  SelfSeed.advance (c.length + 1) { s with cache := c }

/-- `selfSeed.getChunk`: the first written position holding this ID -/
def SelfSeed.getChunk (s : SelfSeed) (chunks : List IChunk) (id : Bytes) : Option Nat :=
  (List.range s.written).find? fun i => (chunks.getD i default).id == id

/-! ## the worker -/

structure Stats where
  fromStore : Nat := 0
  inPlace : Nat := 0
  fromSeed : Nat := 0
  copied : Nat := 0
  cloned : Nat := 0
  deriving Repr, DecidableEq

structure Run where
  fs : FS
  ss : SelfSeed := {}
  stats : Stats := {}
  fuzzy : Bool := false
  deriving Repr

structure Cfg where
  H : Bytes → Bytes
  store : Bytes → Option Bytes          -- chunk data as `chunk.Data()` returns it, or a failure
  ovl : Bytes → Nat → Nat → Nat → Bytes
  rechunk : Nat → Bytes → Option (List IChunk)
  isBlank : Bool
  act : Action

/-- `writeChunk` (order of the attempts: `Gen.writeChunkShape`) -/
def writeChunk (cf : Cfg) (e : Env) (r : Run) (c : IChunk) : Option Run :=
  match r.ss.getChunk e.chunks c.id with
  | some i =>
    let seg : FSeg := { src := .target, chunks := [e.chunks.getD i default], canReflink := e.selfReflink }
    match seg.writeInto cf.ovl r.fs c.start c.size e.bs with
    | .err => none
    | .ok fs' cp cl fz =>
      some { r with fs := fs', fuzzy := r.fuzzy || fz,
                    stats := { r.stats with copied := r.stats.copied + cp, cloned := r.stats.cloned + cl } }
  | none =>
    let inPlace : Option Bool :=
      if cf.isBlank then some false else
        match readFull r.fs.target c.start c.size with
        | none => none
        | some b => some (cf.H b == c.id)
    match inPlace with
    | none => none
    | some true => some { r with stats := { r.stats with inPlace := r.stats.inPlace + 1 } }
    | some false =>
      let r := { r with stats := { r.stats with fromStore := r.stats.fromStore + 1 } }
      match cf.store c.id with
      | none => none
      | some d =>
        if c.size ≠ d.length then none
        else some { r with fs := { r.fs with target := writeAt r.fs.target c.start d } }

/-- the re-hash of every chunk of a seed segment after the write -/
def verifyChunks (cf : Cfg) (e : Env) : List IChunk → Run → Option Run
  | [], r => some r
  | c :: cs, r =>
    match readFull r.fs.target c.start c.size with
    | none => none
    | some b =>
      if cf.H b == c.id then verifyChunks cf e cs r
      else if cf.act = .regenerate then
        match writeChunk cf e r c with
        | none => none
        | some r' => verifyChunks cf e cs r'
      else none

def segChunks (e : Env) (it : PlanItem) : List IChunk := (e.chunks.drop it.first).take (it.last + 1 - it.first)

def segStart (e : Env) (it : PlanItem) : Nat := (e.chunks.getD it.first default).start
def segEnd (e : Env) (it : PlanItem) : Nat := let c := e.chunks.getD it.last default; c.start + c.size

/-- one job of the worker loop of `AssembleFile` (order: `Gen.assembleShape`) -/
def runJob (cf : Cfg) (e : Env) (r : Run) (it : PlanItem) : Option Run :=
  match it.source with
  | .store =>
    match segChunks e it with
    | [c] => (writeChunk cf e r c).map fun r' => { r' with ss := r'.ss.add it.first it.last }
    | _ => none      -- the Go code panics here; `plan_store_single` shows it cannot happen
  | src =>
    let n := it.last + 1 - it.first
    let r := { r with stats := { r.stats with fromSeed := r.stats.fromSeed + n } }
    let offset := segStart e it
    let length := segEnd e it - segStart e it
    let w : WRes := match src with
      | .file _ seg => if r.fs.exists seg.src then seg.writeInto cf.ovl r.fs offset length e.bs else .err
      | .null a b cr => nullWriteInto r.fs a b cr offset length e.bs cf.isBlank
      | .store => .err
    match w with
    | .err => none
    | .ok fs' cp cl fz =>
      match verifyChunks cf e (segChunks e it) { r with fs := fs', fuzzy := r.fuzzy || fz } with
      | none => none
      | some r' =>
        some { r' with ss := r'.ss.add it.first it.last,
                       stats := { r'.stats with copied := r'.stats.copied + cp, cloned := r'.stats.cloned + cl } }

def runJobs (cf : Cfg) (e : Env) : List PlanItem → Run → Option Run
  | [], r => some r
  | it :: rest, r =>
    match runJob cf e r it with
    | none => none
    | some r' => runJobs cf e rest r'

/-- `AssembleFile` with one worker.  `prior` is the content of the target path beforehand
    (none: it does not exist); the target is not a block device. -/
def assemble (cf : Cfg) (e : Env) (seeds : List Seed) (seedFiles : List Bytes) (prior : Option Bytes) : Option Run :=
  let fs : FS := { target := truncate (prior.getD []) (indexLength e.chunks), seeds := seedFiles }
  match findPlan cf.H cf.rechunk e fs cf.act (seeds.length + 1) seeds with
  | none => none
  | some (p, _) => runJobs cf e p { fs := fs }

/-- `isBlank` as `AssembleFile` computes it -/
def isBlankOf (prior : Option Bytes) : Bool :=
  match prior with
  | none => true
  | some b => b.isEmpty

end Desync.Asm
