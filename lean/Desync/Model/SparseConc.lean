/-
  Concurrent readers of one sparse file (sparse-file.go `loadRange` / `loadChunk`) as a step
  machine.  The cache file is abstracted to one flag per chunk: does the chunk's range hold the
  blob's bytes (`populated`) or its initial content.  Atomic steps are the mutex operations, the
  store call, the `WriteAt`, the bitmap update and the final `ReadAt`.  The order of the steps
  inside `loadChunk` is the shape regenerated from the source (`Gen.sparseLoadChunkShape`).
-/
import Desync.Generated.Facts

namespace Desync.SparseConc

/-- the order of operations in `loadChunk` this machine implements; the obligation
    `C10.gen_sparse_shape` checks that the Go source still has exactly this order -/
def modelledShape : List String :=
  ["chunk.mu.Lock", "done.Get", "GetChunk", "Data", "WriteAt", "done.Set"]

inductive PC
  | idle
  | want (range : List Nat) (todo : List Nat)      -- chunks of the requested range; those still to load
  | locked (range todo : List Nat) (i : Nat)       -- holds chunk i's mutex, before the done check
  | fetching (range todo : List Nat) (i : Nat)     -- done was false: store call in flight
  | fetched (range todo : List Nat) (i : Nat)      -- store returned the chunk's bytes
  | written (range todo : List Nat) (i : Nat)      -- WriteAt finished
  | marked (range todo : List Nat) (i : Nat)       -- done bit set, mutex still held
  | readFile (range : List Nat)                    -- all needed chunks loaded: about to ReadAt
  | returned (ok : Bool) (range : List Nat) (sawBlob : Bool)   -- finished; `sawBlob` = every chunk of the range held the blob's bytes when the file was read
  deriving DecidableEq, Repr

structure St where
  n : Nat                       -- number of chunks
  isNull : List Bool            -- null chunks: never loaded, their range is zero = blob
  populated : List Bool         -- range holds the blob's bytes
  done : List Bool
  lock : List (Option Nat)      -- per chunk mutex holder
  readers : List PC
  deriving Repr

def St.init (isNull : List Bool) (readers : Nat) : St :=
  { n := isNull.length, isNull, populated := isNull,   -- null ranges equal the blob from the start
    done := List.replicate isNull.length false, lock := List.replicate isNull.length none,
    readers := List.replicate readers .idle }

inductive Ev
  | start (r : Nat) (range : List Nat)     -- ReadAt called: needed = range minus done minus null (under RLock)
  | acquire (r : Nat)                      -- take the mutex of the next needed chunk
  | check (r : Nat)                        -- read the done bit under the chunk mutex
  | fetchOk (r : Nat)
  | fetchFail (r : Nat)                    -- store error: release, return the error
  | write (r : Nat)
  | mark (r : Nat)
  | release (r : Nat)
  | read (r : Nat)                         -- ReadAt on the cache file
  deriving Repr

def setR (s : St) (r : Nat) (pc : PC) : St := { s with readers := s.readers.set r pc }

/-- `none` = the event is not enabled in this state -/
def step (s : St) : Ev → Option St
  | .start r range =>
    match s.readers[r]? with
    | some .idle =>
      if range.all (· < s.n) then
        let todo := range.filter fun i => !(s.done.getD i false) && !(s.isNull.getD i false)
        some (setR s r (.want range todo))
      else none
    | _ => none
  | .acquire r =>
    match s.readers[r]? with
    | some (.want range (i :: todo)) =>
      if s.lock.getD i none = none then
        some { setR s r (.locked range todo i) with lock := s.lock.set i (some r) }
      else none
    | some (.want range []) => some (setR s r (.readFile range))
    | _ => none
  | .check r =>
    match s.readers[r]? with
    | some (.locked range todo i) =>
      if s.done.getD i false then some { setR s r (.want range todo) with lock := s.lock.set i none }
      else some (setR s r (.fetching range todo i))
    | _ => none
  | .fetchOk r =>
    match s.readers[r]? with
    | some (.fetching range todo i) => some (setR s r (.fetched range todo i))
    | _ => none
  | .fetchFail r =>
    match s.readers[r]? with
    | some (.fetching range _ i) => some { setR s r (.returned false range false) with lock := s.lock.set i none }
    | _ => none
  | .write r =>
    match s.readers[r]? with
    | some (.fetched range todo i) => some { setR s r (.written range todo i) with populated := s.populated.set i true }
    | _ => none
  | .mark r =>
    match s.readers[r]? with
    | some (.written range todo i) => some { setR s r (.marked range todo i) with done := s.done.set i true }
    | _ => none
  | .release r =>
    match s.readers[r]? with
    | some (.marked range todo i) => some { setR s r (.want range todo) with lock := s.lock.set i none }
    | _ => none
  | .read r =>
    match s.readers[r]? with
    | some (.readFile range) => some (setR s r (.returned true range (range.all fun i => s.populated.getD i false)))
    | _ => none

/-- run a schedule; events that are not enabled are skipped -/
def run (s : St) : List Ev → St
  | [] => s
  | e :: es => run ((step s e).getD s) es

inductive Reachable (s0 : St) : St → Prop
  | refl : Reachable s0 s0
  | step {s s' : St} (e : Ev) : Reachable s0 s → step s e = some s' → Reachable s0 s'

end Desync.SparseConc
