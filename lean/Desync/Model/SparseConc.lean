/-
  Concurrent readers of one sparse file (sparse-file.go `loadRange` / `loadChunk`) as a step
  machine.  The cache file is abstracted to one flag per chunk: does the chunk's range hold the
  blob's bytes (`populated`) or its initial content.  Atomic steps are the mutex operations, the
  store call, `Data()`, the `WriteAt` (or its failure), the bitmap update and the final `ReadAt`; the
  calls of the pre-load workers (`preloadChunksFromState`) are calls of the same machine.  Each event
  is one instrumented site of sparse-file.go; recorded traces of the real code are replayed through
  `step` (driver command `sparse.accept`).  The order of the steps
  inside `loadChunk` is the shape regenerated from the source (`Gen.sparseLoadChunkShape`).
-/
import Desync.Generated.Facts

namespace Desync.SparseConc

/-- the order of operations in `loadChunk` this machine implements; the obligation
    `C10.gen_sparse_shape` checks that the Go source still has exactly this order -/
def modelledShape : List String :=
  ["chunk.mu.Lock", "done.Get", "GetChunk", "Data", "WriteAt", "done.Set"]

inductive PC
  | idle
  | want (range : List Nat) (todo : List Nat)      -- chunks of the requested range; those still to load
  | locked (range todo : List Nat) (i : Nat)       -- holds chunk i's mutex, before the done check
  | fetching (range todo : List Nat) (i : Nat)     -- done was false: store call in flight
  | fetched (range todo : List Nat) (i : Nat)      -- store returned a chunk
  | written (range todo : List Nat) (i : Nat)      -- WriteAt finished
  | marked (range todo : List Nat) (i : Nat)       -- done bit set (by this reader, or found set at the check), mutex still held
  | failed (range : List Nat) (i : Nat)            -- the load failed (store call, `Data()`, opening or writing the cache file): mutex still held, the error is on its way out
  | readFile (range : List Nat)                    -- all needed chunks loaded (`loadRange` returned nil): about to ReadAt
  | returned (ok : Bool) (range : List Nat) (sawBlob : Bool)   -- finished; `sawBlob` = every chunk of the range held the blob's bytes when the file was read
  deriving DecidableEq, Repr

structure St where
  n : Nat                       -- number of chunks
  isNull : List Bool            -- null chunks: never loaded by a read, their range is zero = blob
  populated : List Bool         -- range holds the blob's bytes
  done : List Bool
  lock : List (Option Nat)      -- per chunk mutex holder
  readers : List PC             -- one entry per call: a `ReadAt`, or a `loadChunk` of a pre-load worker
  deriving Repr

def St.init (isNull : List Bool) (readers : Nat) : St :=
  { n := isNull.length, isNull, populated := isNull,   -- null ranges equal the blob from the start
    done := List.replicate isNull.length false, lock := List.replicate isNull.length none,
    readers := List.replicate readers .idle }

/-- one event per instrumented site of sparse-file.go (hooks `verifSparse`, build tag verif); `r` is the call -/
inductive Ev
  | start (r : Nat) (range : List Nat)     -- `loadRange`: needed = range minus done minus null (one scan under RLock)
  | preload (r : Nat) (i : Nat)            -- a pre-load worker received chunk i: `loadChunk i` whatever the bitmap says
  | acquire (r : Nat)                      -- `chunks[i].mu.Lock()` of the next needed chunk returned
  | check (r : Nat)                        -- read the done bit under the chunk mutex
  | fetchOk (r : Nat)                      -- `GetChunk` returned a chunk
  | fetchFail (r : Nat)                    -- `GetChunk` returned an error
  | dataFail (r : Nat)                     -- `Data()` of the chunk failed
  | write (r : Nat)                        -- `WriteAt` of the chunk's bytes succeeded
  | writeFail (r : Nat)                    -- the cache file could not be opened or `WriteAt` failed (possibly after a partial write of the chunk's bytes)
  | mark (r : Nat)                         -- done bit set (under the loader's write lock)
  | release (r : Nat)                      -- `chunks[i].mu.Unlock()` (deferred: on every way out of `loadChunk`)
  | ready (r : Nat)                        -- `loadRange` returned nil
  | read (r : Nat)                         -- ReadAt on the cache file
  | loaded (r : Nat)                       -- a pre-load worker's `loadChunk` returned nil
  deriving Repr

def setR (s : St) (r : Nat) (pc : PC) : St := { s with readers := s.readers.set r pc }

/-- `none` = the event is not enabled in this state -/
def step (s : St) : Ev → Option St
  | .start r range =>
    match s.readers[r]? with
    | some .idle =>
      if range.all (· < s.n) then
        let todo := range.filter fun i => !(s.done.getD i false) && !(s.isNull.getD i false)
        some (setR s r (.want range todo))
      else none
    | _ => none
  | .preload r i =>
    match s.readers[r]? with
    | some .idle => if i < s.n then some (setR s r (.want [] [i])) else none
    | _ => none
  | .acquire r =>
    match s.readers[r]? with
    | some (.want range (i :: todo)) =>
      if s.lock.getD i none = none then
        some { setR s r (.locked range todo i) with lock := s.lock.set i (some r) }
      else none
    | _ => none
  | .ready r =>
    match s.readers[r]? with
    | some (.want range []) => some (setR s r (.readFile range))
    | _ => none
  | .check r =>
    match s.readers[r]? with
    | some (.locked range todo i) =>
      if s.done.getD i false then some (setR s r (.marked range todo i))   -- someone else loaded it: return nil
      else some (setR s r (.fetching range todo i))
    | _ => none
  | .fetchOk r =>
    match s.readers[r]? with
    | some (.fetching range todo i) => some (setR s r (.fetched range todo i))
    | _ => none
  | .fetchFail r =>
    match s.readers[r]? with
    | some (.fetching range _ i) => some (setR s r (.failed range i))
    | _ => none
  | .dataFail r =>
    match s.readers[r]? with
    | some (.fetched range _ i) => some (setR s r (.failed range i))
    | _ => none
  | .write r =>
    match s.readers[r]? with
    | some (.fetched range todo i) => some { setR s r (.written range todo i) with populated := s.populated.set i true }
    | _ => none
  | .writeFail r =>
    -- a prefix of the chunk's bytes may have been written: a range that held the blob's bytes still does,
    -- a range that did not is not known to
    match s.readers[r]? with
    | some (.fetched range _ i) => some (setR s r (.failed range i))
    | _ => none
  | .mark r =>
    match s.readers[r]? with
    | some (.written range todo i) => some { setR s r (.marked range todo i) with done := s.done.set i true }
    | _ => none
  | .release r =>
    match s.readers[r]? with
    | some (.marked range todo i) => some { setR s r (.want range todo) with lock := s.lock.set i none }
    | some (.failed range i) => some { setR s r (.returned false range false) with lock := s.lock.set i none }
    | _ => none
  | .read r =>
    match s.readers[r]? with
    | some (.readFile range) => some (setR s r (.returned true range (range.all fun i => s.populated.getD i false)))
    | _ => none
  | .loaded r =>
    match s.readers[r]? with
    | some (.want [] []) => some (setR s r (.returned true [] true))
    | _ => none

/-- strict replay of a recorded trace: `none` as soon as an event is not enabled (trace validation) -/
def replay (s : St) : List Ev → Option St
  | [] => some s
  | e :: es => match step s e with
    | some s' => replay s' es
    | none => none

/-- run a schedule; events that are not enabled are skipped -/
def run (s : St) : List Ev → St
  | [] => s
  | e :: es => run ((step s e).getD s) es

inductive Reachable (s0 : St) : St → Prop
  | refl : Reachable s0 s0
  | step {s s' : St} (e : Ev) : Reachable s0 s → step s e = some s' → Reachable s0 s'

end Desync.SparseConc
