/-
  The environment of the parallel chunker machine (`Model/ParChunk.lean`) for a concrete file:
  the abstract chunker `cut` is the single-stream chunker of `Model/Chunker.lean` started at a
  position, and a chunk "has the null chunk's ID" when it is a chunk the chunker produces at its
  start position and consists of `max` zero bytes (the digest is collision-free on the strings
  compared — DESIGN section 4; only chunks that workers produced or synthesised are ever tested).
-/
import Desync.Model.ParChunk
import Desync.Model.Chunker

namespace Desync.Par

def allZero (data : Bytes) (a b : Nat) : Bool := ((data.drop a).take (b - a)).all (· == 0)

def envOf (p : ChunkParams) (data : Bytes) (n : Nat) : Env :=
  { size := data.length
    max := p.max
    cut := fun pos => cutRoll p (data.drop pos)
    isNull := fun c => c.size == p.max && decide (c.fin ≤ data.length) && allZero data c.start c.fin &&
      cutRoll p (data.drop c.start) == c.size
    offsets := offsetsOf data.length p.max n }

end Desync.Par
