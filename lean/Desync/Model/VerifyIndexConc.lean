/-
  `VerifyIndex` (verifyindex.go) as the code runs it: the length check, then the worker pool of
  `Model/Pool.lean` whose job j is the j-th batch `idx.Chunks[lo:hi]` of `Model/VerifyIndex.lean`
  (`batches`, arithmetic regenerated from the source); a worker's `segment.Validate` succeeds on a
  batch iff every chunk of it validates (`fileSeedSegment.Validate` walks the chunks in order and
  returns the first error).
-/
import Desync.Model.VerifyIndex
import Desync.Model.PoolJobs

namespace Desync

/-- the oracle of the pool: batch j validates -/
def goodBatch (H : Digest) (file : Bytes) (idx : Index) (n : Nat) (j : Nat) : Bool :=
  match (batches idx.chunks.length n)[j]? with
  | some (lo, hi) => ((idx.chunks.drop lo).take (hi - lo)).all (validateChunk H file)
  | none => true

inductive VerifyOutcome | ok | mismatch | sizeMismatch | interrupted | panic
  deriving DecidableEq, Repr

/-- the sequential model's verdict as an outcome of the concurrent one -/
def VerifyRes.toOutcome : VerifyRes → VerifyOutcome
  | .ok => .ok | .mismatch => .mismatch | .sizeMismatch => .sizeMismatch | .panic => .panic

/-- number of jobs the feeder of `VerifyIndex` hands out -/
def verifyJobs (idx : Index) (n : Nat) : Nat := (batches idx.chunks.length n).length

/-- what `VerifyIndex` returns, given the state `s` its pool has reached: the size check and the
    division happen before any job is handed out; afterwards the result is the pool's
    (`none`: the pool is still running) -/
def verifyIndexConc (file : Bytes) (isDevice : Bool) (idx : Index) (n : Nat) (s : Pool.St) : Option VerifyOutcome :=
  if !isDevice && decide (file.length ≠ idx.length.toNat) then some .sizeMismatch
  else if n = 0 then some .panic
  else s.result.map fun
    | .ok => .ok
    | .err => .mismatch
    | .interrupted => .interrupted

end Desync
