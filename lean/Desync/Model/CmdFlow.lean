/-
  The command layer of cmd/desync (`run<Cmd>` in make.go, chop.go, cache.go, tar.go, untar.go, extract.go,
  verifyindex.go, verify.go, prune.go, cat.go, pull.go; `main` in main.go).

  A command function is a *flow*: a block of statements whose only behaviour that matters here is
    - which effectful calls it makes (calls into package desync, the local helpers `readCaibxFile`,
      `storeCaibxFile`, `WritableStore`, `MultiStoreWithCache`, …, and standard-library calls that return an error),
    - in which order, under which option conditions and loops,
    - what becomes of the error each call returns (returned / wrapped and returned / dropped / only logged /
      turned into `return nil`),
    - which context a call is given (the command's `ctx`, `context.Background()`, something else, none),
    - what the function returns on each path (nil, a call's result, a fresh error),
    - which `defer x.Close()` are registered (run at every exit, their error dropped by Go itself).
  The flow of every command is REGENERATED from the Go source (harness/extract/cmdflowfacts.go →
  `Gen.cmdflow_<cmd>`); nothing below mentions a particular command.

  `Cmd.run flow env orc` executes a flow: `env` fixes the option conditions and the lengths of the lists the loops
  range over (they do not change during a run), `orc` decides the outcome of every effectful call from the history
  of effects so far (every fault sequence, every cancellation point).  The result is what the function returns
  (`ok` = nil, `err`) and the list of effects that happened.  `exitStatus` is what `main` makes of it.
-/
namespace Desync.Cmd

/-- what the code does with the error result of a call -/
inductive ErrUse
  | propagate   -- `if err != nil { return err }` / `return f(…)`
  | wrap        -- returned inside another error (`errors.Wrap`, `fmt.Errorf("…%w")`)
  | ignore      -- result dropped (`f(…)` as a statement, `_ = f(…)`, error never looked at)
  | log         -- looked at, reported (log / print), execution continues
  | returnNil   -- `if err != nil { return nil }`
  deriving DecidableEq, Repr

/-- which context a call receives -/
inductive CtxArg
  | cmd          -- the `ctx` parameter of the run function (= the context `main` cancels on SIGINT/SIGTERM)
  | background   -- `context.Background()` / `context.TODO()`
  | other        -- some other expression
  | none         -- the call takes no context
  deriving DecidableEq, Repr

structure Step where
  callee : String
  ctx : CtxArg
  onErr : ErrUse
  deriving DecidableEq, Repr

/-- option conditions (`opt.store != ""`, `len(opt.stores) == 0`, `opt.printStats`, `args[0] == args[1]`, …) -/
inductive Cond
  | atom (n : String)
  | not (c : Cond)
  | and (a b : Cond)
  | or (a b : Cond)
  deriving DecidableEq, Repr

def Cond.eval (v : String → Bool) : Cond → Bool
  | .atom n => v n
  | .not c => !c.eval v
  | .and a b => a.eval v && b.eval v
  | .or a b => a.eval v || b.eval v

mutual
inductive Stmt
  | step (s : Step)                       -- a call whose error is handled as `s.onErr` says, then execution goes on
  | ret (s : Step)                        -- `return f(…)` (also `x, err := f(…); return err`)
  | fail                                  -- `return <fresh error>`
  | retNil                                -- `return nil`
  | deferred (callee : String)            -- `defer x.Close()`
  | spawn (s : Step)                      -- `go func() { v = f(…); … }()`
  | join (callee : String) (onErr : ErrUse)   -- `if v != nil { return v }` for the error variable of a spawned call
  | cond (c : Cond) (thn els : Block)
  | loop (over : String) (body : Block)   -- `for … := range <over>`
  | mayStop (what : String)               -- an interactive question whose answer can end the command with nil
inductive Block
  | nil
  | cons (s : Stmt) (rest : Block)
end

/-- a flow as regenerated: the function's name, whether the extractor understood every statement, the body -/
structure Flow where
  name : String
  complete : Bool
  body : Block

/-- the statements of a run in the order they are reached once conditions and loop lengths are fixed -/
inductive Atom
  | step (s : Step)
  | ret (s : Step)
  | fail
  | retNil
  | deferred (callee : String)
  | spawn (s : Step)
  | join (callee : String) (onErr : ErrUse)
  | mayStop (what : String)
  deriving DecidableEq, Repr

structure Env where
  cond : String → Bool
  iters : String → Nat

mutual
def Stmt.lin (env : Env) : Stmt → List Atom
  | .step s => [.step s]
  | .ret s => [.ret s]
  | .fail => [.fail]
  | .retNil => [.retNil]
  | .deferred c => [.deferred c]
  | .spawn s => [.spawn s]
  | .join c e => [.join c e]
  | .mayStop w => [.mayStop w]
  | .cond c t e => if c.eval env.cond then t.lin env else e.lin env
  | .loop o b => (List.replicate (env.iters o) (b.lin env)).flatten
def Block.lin (env : Env) : Block → List Atom
  | .nil => []
  | .cons s r => s.lin env ++ r.lin env
end

/- every atom a block can ever execute satisfies `p` (static check over the syntax) -/
mutual
def Stmt.all (p : Atom → Bool) : Stmt → Bool
  | .step s => p (.step s)
  | .ret s => p (.ret s)
  | .fail => p .fail
  | .retNil => p .retNil
  | .deferred c => p (.deferred c)
  | .spawn s => p (.spawn s)
  | .join c e => p (.join c e)
  | .mayStop w => p (.mayStop w)
  | .cond _ t e => t.all p && e.all p
  | .loop _ b => b.all p
def Block.all (p : Atom → Bool) : Block → Bool
  | .nil => true
  | .cons s r => s.all p && r.all p
end

inductive EffKind
  | call      -- an effectful call that returned
  | started   -- a call started in a goroutine
  | joined    -- the point where the error variable of a spawned call is read
  | closed    -- a deferred Close
  deriving DecidableEq, Repr

structure Effect where
  callee : String
  kind : EffKind
  ok : Bool
  pos : Nat        -- how many effects had happened before
  deriving DecidableEq, Repr

inductive Result
  | ok          -- the function returned nil
  | err         -- the function returned an error
  | noReturn    -- the end of the body was reached without a return (cannot compile in Go; kept explicit)
  deriving DecidableEq, Repr

/-- outcome of every effectful call, given everything that happened before it (fault sequences, cancellation
    points and the answers to interactive questions are all choices of the oracle) -/
structure Oracle where
  fails : List Effect → Step → Bool
  stops : List Effect → String → Bool

structure St where
  effects : List Effect := []
  defers : List String := []                 -- innermost first
  pending : List (String × Bool) := []       -- spawned calls and whether they failed

def St.push (st : St) (c : String) (k : EffKind) (ok : Bool) : St :=
  { st with effects := st.effects ++ [⟨c, k, ok, st.effects.length⟩] }

def ErrUse.returnsErr : ErrUse → Bool
  | .propagate | .wrap => true
  | _ => false

def exec (orc : Oracle) : List Atom → St → Result × St
  | [], st => (.noReturn, st)
  | .step s :: rest, st =>
    let bad := orc.fails st.effects s
    let st' := st.push s.callee .call (!bad)
    if bad then
      match s.onErr with
      | .propagate | .wrap => (.err, st')
      | .returnNil => (.ok, st')
      | .ignore | .log => exec orc rest st'
    else exec orc rest st'
  | .ret s :: _, st =>
    let bad := orc.fails st.effects s
    let st' := st.push s.callee .call (!bad)
    if bad && s.onErr.returnsErr then (.err, st') else (.ok, st')
  | .fail :: _, st => (.err, st)
  | .retNil :: _, st => (.ok, st)
  | .deferred c :: rest, st => exec orc rest { st with defers := c :: st.defers }
  | .spawn s :: rest, st =>
    let bad := orc.fails st.effects s
    exec orc rest { st.push s.callee .started true with pending := (s.callee, bad) :: st.pending }
  | .join c e :: rest, st =>
    match st.pending.lookup c with
    | some bad =>
      let st' := st.push c .joined (!bad)
      if bad then
        match e with
        | .propagate | .wrap => (.err, st')
        | .returnNil => (.ok, st')
        | .ignore | .log => exec orc rest st'
      else exec orc rest st'
    | none => exec orc rest st
  | .mayStop w :: rest, st => if orc.stops st.effects w then (.ok, st) else exec orc rest st

/-- the deferred Close calls run at every exit, innermost first; Go drops what they return -/
def closeEffects (n : Nat) : List String → List Effect
  | [] => []
  | c :: cs => ⟨c, .closed, true, n⟩ :: closeEffects (n + 1) cs

def run (f : Flow) (env : Env) (orc : Oracle) : Result × List Effect :=
  let r := exec orc (f.body.lin env) {}
  (r.1, r.2.effects ++ closeEffects r.2.effects.length r.2.defers)

/-- the part of a run before the deferred calls -/
def runBody (f : Flow) (env : Env) (orc : Oracle) : Result × List Effect :=
  let r := exec orc (f.body.lin env) {}
  (r.1, r.2.effects)

/-! ### classes of callees -/

/-- the long-running entry points: they take a context and (C07 at library level) return an error when that context
    is cancelled before their work is complete -/
def longCallees : List String :=
  ["desync.IndexFromFile", "desync.ChopFile", "desync.Copy", "desync.ChunkStream", "desync.Tar", "desync.UnTar",
   "desync.UnTarIndex", "desync.VerifyIndex", "desync.AssembleFile", "writeInplace", "writeWithTmpFile",
   ".Prune", ".Verify", ".Serve"]

def isLong (c : String) : Bool := longCallees.contains c

/-- calls that store chunks in the target store -/
def isChunkOp (c : String) : Bool := ["desync.ChopFile", "desync.Copy", "desync.ChunkStream"].contains c

/-- calls that write the index -/
def isIndexStore (c : String) : Bool := ["storeCaibxFile", ".StoreIndex"].contains c

/-! ### static checks on atoms -/

/-- no error is dropped, only logged, or turned into nil -/
def Atom.propagates : Atom → Bool
  | .step s => s.onErr.returnsErr
  | .ret s => s.onErr.returnsErr
  | .join _ e => e.returnsErr
  | _ => true

/-- the index is written only by a `return storeCaibxFile(…)`: nothing of the body runs after it -/
def Atom.indexStoreOnlyReturned : Atom → Bool
  | .step s => !isIndexStore s.callee
  | .spawn s => !isIndexStore s.callee
  | .join c _ => !isIndexStore c
  | _ => true

/-- every long-running call is given the command's context -/
def Atom.longGetsCmdCtx : Atom → Bool
  | .step s => !isLong s.callee || s.ctx = .cmd
  | .ret s => !isLong s.callee || s.ctx = .cmd
  | .spawn s => !isLong s.callee || s.ctx = .cmd
  | _ => true

/-- no call at all is given `context.Background()` -/
def Atom.noBackgroundCtx : Atom → Bool
  | .step s => s.ctx ≠ .background
  | .ret s => s.ctx ≠ .background
  | .spawn s => s.ctx ≠ .background
  | _ => true

def Atom.notFail : Atom → Bool
  | .fail => false
  | _ => true

def Atom.notMayStop : Atom → Bool
  | .mayStop _ => false
  | _ => true

def Flow.allErrorsPropagated (f : Flow) : Bool := f.complete && f.body.all Atom.propagates
def Flow.indexStoredLast (f : Flow) : Bool := f.complete && f.body.all Atom.indexStoreOnlyReturned
def Flow.longStepsGetCmdCtx (f : Flow) : Bool := f.complete && f.body.all Atom.longGetsCmdCtx
def Flow.noBackgroundCtx (f : Flow) : Bool := f.complete && f.body.all Atom.noBackgroundCtx

/- the callees of the effectful calls of a block, in source order (what a reader of the flow sees) -/
mutual
def Stmt.callees : Stmt → List String
  | .step s => [s.callee]
  | .ret s => [s.callee]
  | .spawn s => [s.callee]
  | .cond _ t e => t.callees ++ e.callees
  | .loop _ b => b.callees
  | _ => []
def Block.callees : Block → List String
  | .nil => []
  | .cons s r => s.callees ++ r.callees
end

/-! ### `main` -/

structure CmdReg where
  ctor : String        -- `newMakeCommand`
  runFn : String       -- the function its RunE closure returns the result of (`runMake`)
  usesRunE : Bool      -- the closure is installed as `RunE` (its error reaches `Execute`), not as `Run`
  passesCtx : Bool     -- the closure hands the constructor's context parameter to the run function as its context
  gotMainCtx : Bool    -- `main` passes its cancellable context to the constructor
  deriving DecidableEq, Repr

structure MainShape where
  signals : List String          -- the signals `signal.Notify` registers for the channel the handler goroutine waits on
  handlerCancels : Bool          -- the goroutine receives from that channel and then calls the cancel function of the context
  ctxFromWithCancel : Bool       -- the context is `context.WithCancel(context.Background())`
  exitOnError : Nat              -- the argument of `os.Exit` in `if err := rootCmd.Execute(); err != nil { os.Exit(…) }`
  exitChecked : Bool             -- that `if` exists and nothing else calls `os.Exit` in `main`
  commands : List CmdReg
  deriving Repr

/-- the exit status of the process: `os.Exit(exitOnError)` when `Execute` returned an error, otherwise `main` returns -/
def exitStatus (m : MainShape) : Result → Nat
  | .err => m.exitOnError
  | _ => 0

def MainShape.ok (m : MainShape) : Bool :=
  m.signals.contains "syscall.SIGINT" && m.signals.contains "syscall.SIGTERM" && m.handlerCancels &&
  m.ctxFromWithCancel && m.exitChecked && decide (m.exitOnError ≠ 0) &&
  m.commands.all (fun c => c.usesRunE && c.passesCtx && c.gotMainCtx)

def MainShape.runs (m : MainShape) (fn : String) : Bool := m.commands.any (fun c => c.runFn = fn)

end Desync.Cmd
