/-
  Model of the index STORES (C04): localindex.go, remotehttpindex.go + httpindexhandler.go, and
  the object-replacing remote stores s3index.go / sftpindex.go.  The codec itself
  (`Index.WriteTo` / `IndexFromReader`) is `Model/IndexCodec.lean`; this file is the glue
  around it: a store is a finite map  name → bytes  and the operations are what the Go code
  does to the file (or object) of that name.

  localindex.go
    `LocalIndexStore.StoreIndex`  = `localStore`   open (flags from the regenerated fact
                                                    `Gen.istoreLocalTruncates`), `WriteTo`, return its error
    `LocalIndexStore.GetIndex`    = `localGet`     open (missing ⇒ an `os.IsNotExist` error), `IndexFromReader`
  remotehttpindex.go / remotehttp.go
    `RemoteHTTPIndex.StoreIndex`  = `httpStore`    `StoreObject` through `Http.issueRetryable`; the body of attempt k
                                                    is `attemptBody` (built per attempt: `Gen.istoreHttpBodyPerAttempt`)
    `RemoteHTTPIndex.GetIndex`    = `httpGet`      `GetObject` through `Http.issueRetryable`, then `IndexFromReader`
  httpindexhandler.go
    `HTTPIndexHandler.ServeHTTP`  = `handle`       `serveIndex` (Model/HttpHandler.lean) with the oracle answered by
                                                    the wrapped local index store; `get` re-encodes what it decoded,
                                                    `put` decodes the body and stores the decoded index
  s3index.go / sftpindex.go
    `StoreIndex`                  = `atomicStore`  S3: one `PutObject` of the piped encoding; SFTP: temp file, `io.Copy`,
                                                    `Close`, `PosixRename` — in both the name changes to the complete
                                                    new content or not at all
    `GetIndex`                    = `atomicGet`    a missing object is NOT recognisable as missing (see `atomicGet`)

  Names: a directory is flat.  `plainName` singles out the names that are one path element; any
  other name (the correspondence uses paths through a directory that does not exist) cannot be
  created and is never found.
-/
import Desync.Model.IndexCodec
import Desync.Model.Http
import Desync.Model.HttpHandler

namespace Desync.IStore
open Desync

abbrev Name := Bytes

/-- content of a store: at most one entry per name -/
abbrev Dir := List (Name × Bytes)

def Dir.get : Dir → Name → Option Bytes
  | [], _ => none
  | (m, b) :: d, n => if m = n then some b else Dir.get d n

/-- replace the content of `n`, or add `n` -/
def Dir.set : Dir → Name → Bytes → Dir
  | [], n, b => [(n, b)]
  | (m, c) :: d, n, b => if m = n then (m, b) :: d else (m, c) :: Dir.set d n b

/-- one path element: not empty, no '/', not "." or ".." -/
def plainName (n : Name) : Bool :=
  !(n == []) && !n.contains 47 && !(n == [46]) && !(n == [46, 46])

/-! ### local index store -/

/-- what is regenerated from `LocalIndexStore.StoreIndex` -/
structure LocalCfg where
  /-- the open flags include `O_TRUNC` (`os.Create`) -/
  truncates : Bool
  /-- the error of `idx.WriteTo` is what `StoreIndex` returns -/
  returnsWriteErr : Bool
  deriving DecidableEq, Repr

/-- the flags the code uses now -/
def localCfg : LocalCfg := ⟨Gen.istoreLocalTruncates, Gen.istoreLocalReturnsWriteErr⟩

/-- content of a file after `open; write w from offset 0; close` over the content `old` -/
def writeOver (truncates : Bool) (old w : Bytes) : Bytes :=
  if truncates then w else w ++ old.drop w.length

inductive StoreFault
  | none
  | createFails               -- the open fails: nothing has been touched
  | writeFails (k : Nat)      -- `WriteTo` returns an error after `k` bytes of the encoding reached the file
  deriving DecidableEq, Repr

/-- `LocalIndexStore.StoreIndex`; the Bool is `err == nil` -/
def localStore (c : LocalCfg) (d : Dir) (n : Name) (i : Index) (f : StoreFault) : Dir × Bool :=
  if !plainName n then (d, false)          -- no such directory: `os.Create` fails
  else
    -- O_CREATE: a file that did not exist starts empty
    let old := match d.get n with | some b => b | none => []
    match f with
    | .createFails => (d, false)
    | .none => (d.set n (writeOver c.truncates old (encodeIndex i)), true)
    | .writeFails k => (d.set n (writeOver c.truncates old ((encodeIndex i).take k)), !c.returnsWriteErr)

inductive GetRes
  | ok (i : Index)
  | notFound                  -- the error satisfies `os.IsNotExist` / is `NoSuchObject`
  | decodeErr (e : Err)       -- `IndexFromReader` failed
  | otherErr
  | panicked
  deriving DecidableEq, Repr

def decodeRes (alg : DigestAlg) (b : Bytes) : GetRes :=
  match decodeIndex alg b with
  | .ok i => .ok i
  | .err e => .decodeErr e
  | .panic _ => .panicked

/-- `LocalIndexStore.GetIndex` -/
def localGet (alg : DigestAlg) (d : Dir) (n : Name) : GetRes :=
  match d.get n with
  | none => .notFound
  | some b => decodeRes alg b

/-! ### S3 / SFTP index stores: the object is replaced as a whole or not at all -/

/-- `S3IndexStore.StoreIndex` / `SFTPIndexStore.StoreIndex`.  `fails`: `PutObject` fails, resp. one of
    create-temp / copy / close / rename fails (the temp file is removed or left under its own random
    name; the object `n` is untouched). -/
def atomicStore (d : Dir) (n : Name) (i : Index) (fails : Bool) : Dir × Bool :=
  if !plainName n then (d, false)
  else if fails then (d, false)
  else (d.set n (encodeIndex i), true)

/-- `S3IndexStore.GetIndex` / `SFTPIndexStore.GetIndex`.  A missing object is reported as missing
    (`NoSuchObject`): `S3IndexStore.GetIndexReader` asks for the object's metadata (`Stat`) and maps `NoSuchKey`,
    `SFTPIndexStore.GetIndexReader` maps the not-exist error of `Open`.  (On the pinned tree both came back as an
    unclassifiable error — minio's `GetObject` only fails on the first read, inside `IndexFromReader`; sftpindex.go
    replaced the not-exist error by a new one — so that an index server in front of such a store answered 400, and
    200 to HEAD on S3, for an index that does not exist: defect D29, repaired.) -/
def atomicGet (alg : DigestAlg) (d : Dir) (n : Name) : GetRes :=
  match d.get n with
  | none => .notFound
  | some b => decodeRes alg b

/-- the pinned tree's behaviour, kept as a named mutant -/
def atomicGetLegacy (alg : DigestAlg) (d : Dir) (n : Name) : GetRes :=
  match d.get n with
  | none => .otherErr
  | some b => decodeRes alg b

/-! ### HTTP: the handler in front of a local index store -/

structure Srv where
  cfg : HandlerCfg
  alg : DigestAlg
  lcfg : LocalCfg
  deriving Repr

/-- `path.Base(r.URL.Path)` as the handler computes it -/
def reqName (r : Request) : Name := goBase r.path

/-- the answers of the wrapped local index store to the calls the handler may make for `r` -/
def oracleFor (s : Srv) (d : Dir) (r : Request) (f : StoreFault) : StoreOracle :=
  let name := reqName r
  { getChunk := none, hasChunk := none,
    indexValid := match decodeIndex s.alg r.body with | .ok _ => true | _ => false,
    storeOK := match decodeIndex s.alg r.body with
      | .ok i => (localStore s.lcfg d name i f).2
      | _ => false,
    indexGet := match r.method with
      | .head => some (d.get name).isSome                 -- `GetIndexReader`: the file opens
      | _ => match localGet s.alg d name with
        | .ok _ => some true
        | .notFound => some false
        | _ => none }

/-- effect of a store call the handler made -/
def applyCall (s : Srv) (r : Request) (f : StoreFault) (d : Dir) : Call → Dir
  | .storeIndex n =>
    match decodeIndex s.alg r.body with
    | .ok i => (localStore s.lcfg d n i f).1
    | _ => d
  | _ => d

/-- `HTTPIndexHandler.ServeHTTP` over a local index store: new content and the response.  The body matters
    to the client for a 200 on GET only: `get` writes the re-encoding of the index it decoded. -/
def handle (s : Srv) (d : Dir) (r : Request) (f : StoreFault) : Dir × Http.Resp :=
  let resp := serveIndex s.cfg (oracleFor s d r f) r
  let d' := resp.calls.foldl (applyCall s r f) d
  let body : Bytes :=
    match r.method, resp.status, localGet s.alg d (reqName r) with
    | .get, 200, .ok i => encodeIndex i
    | _, _, _ => []
  (d', .status resp.status body)

/-! ### HTTP: the client -/

structure ClientCfg where
  retry : Nat          -- `ErrorRetry`
  /-- `getReader` builds the pipe and starts the writer when it is CALLED, i.e. once per attempt -/
  freshBody : Bool
  auth : Bytes
  deriving Repr

/-- the client as the code is now -/
def clientCfg (retry : Nat) (auth : Bytes) : ClientCfg := ⟨retry, Gen.istoreHttpBodyPerAttempt, auth⟩

/-- body of attempt `k` (0-based).  A reader that is built once is drained by the first attempt. -/
def attemptBody (fresh : Bool) (enc : Bytes) (k : Nat) : Bytes :=
  if fresh || k == 0 then enc else []

/-- `objectURL`: the location's path ("/") followed by the name -/
def putRequest (c : ClientCfg) (n : Name) (i : Index) (k : Nat) : Request :=
  { method := .put, path := 47 :: n, authHeader := c.auth, body := attemptBody c.freshBody (encodeIndex i) k }

def getRequest (c : ClientCfg) (n : Name) : Request :=
  { method := .get, path := 47 :: n, authHeader := c.auth, body := [] }

/-- what happens to one attempt on its way -/
inductive Fate
  | busy                                  -- something in front of the handler answers 503; the handler does not run
  | reset                                 -- the connection breaks before the handler runs
  | run (f : StoreFault) (lost : Bool)    -- the handler runs (its store call meets fault `f`); `lost`: the response never arrives
  deriving DecidableEq, Repr

def attempt (s : Srv) (req : Nat → Request) (d : Dir) (k : Nat) : Fate → Dir × Http.Resp
  | .busy => (d, .status 503 [])
  | .reset => (d, .transportErr)
  | .run f lost =>
    let (d', r) := handle s d (req k) f
    (d', if lost then .transportErr else r)

/-- the server side of the attempts in sequence: response and content after each -/
def serveSeq (s : Srv) (req : Nat → Request) : Dir → Nat → List Fate → List (Http.Resp × Dir)
  | _, _, [] => []
  | d, k, f :: fs =>
    let (d', r) := attempt s req d k f
    (r, d') :: serveSeq s req d' (k + 1) fs

/-- content after the first `n` attempts (attempts beyond the script never reach the server) -/
def dirAfter (d : Dir) : List (Http.Resp × Dir) → Nat → Dir
  | [], _ => d
  | _, 0 => d
  | (_, d') :: tr, n + 1 => dirAfter d' tr n

/-- `RemoteHTTPIndex.StoreIndex`: content afterwards, `err == nil`, number of attempts -/
def httpStore (c : ClientCfg) (s : Srv) (d : Dir) (n : Name) (i : Index) (fs : List Fate) : Dir × Bool × Nat :=
  let tr := serveSeq s (putRequest c n i) d 0 fs
  let rs := tr.map (·.1)
  let k := (Http.issueRetryable c.retry rs).2
  (dirAfter d tr k, Http.storeObject c.retry rs, k)

/-- `RemoteHTTPIndex.GetIndex` -/
def httpGet (c : ClientCfg) (s : Srv) (d : Dir) (n : Name) (fs : List Fate) : Dir × GetRes × Nat :=
  let tr := serveSeq s (fun _ => getRequest c n) d 0 fs
  let rs := tr.map (·.1)
  let k := (Http.issueRetryable c.retry rs).2
  (dirAfter d tr k,
   match Http.getObject c.retry rs with
   | .ok b => decodeRes s.alg b
   | .missing => .notFound
   | .error => .otherErr,
   k)

end Desync.IStore
