/-
  Model of sparse-file.go: copy-on-read sparse files (`sparseFileLoader`, `SparseFileHandle.ReadAt`,
  `NewSparseFile`, state save/load, pre-load).  Sequential semantics: one operation at a time
  (concurrent readers are serialised per chunk by the chunk mutex; see `Model/SparseConc.lean`).
-/
import Desync.Model.ReadSeeker

namespace Desync

structure SparseSt where
  chunks : List RChunk
  nullID : Nat
  length : Nat                 -- idx.Length()
  done : List Bool             -- the `done` bitmap, one flag per chunk
  file : Bytes                 -- the cache file's content
  calls : Nat := 0             -- store calls made so far (indexes the fault oracle)
  deriving Repr

/-- `WriteAt(b, off)` on a file (extends with zeros if needed, as a sparse write does) -/
def writeAt (file : Bytes) (off : Nat) (b : Bytes) : Bytes :=
  let f := if file.length < off + b.length then file ++ List.replicate (off + b.length - file.length) 0 else file
  f.take off ++ b ++ f.drop (off + b.length)

/-- `indexRange(start, length)` for `length ≥ 1` and a non-empty chunk list: (first, last) -/
def sparseIndexRange (chunks : List RChunk) (start length : Nat) : Nat × Nat :=
  let first := searchChunk start chunks
  if first ≥ chunks.length then (chunks.length - 1, chunks.length - 1)
  else
    let e := start + length - 1
    -- lastChunk: extend while the next chunk starts at or before `end`
    let rec go (i last : Nat) (fuel : Nat) : Nat :=
      match fuel with
      | 0 => last
      | fuel+1 =>
        match chunks[i]? with
        | none => last
        | some c => if e < c.start then last else go (i + 1) (last + 1) fuel
    (first, go (first + 1) first chunks.length)

/-- `loadChunk(i)`: under the chunk's mutex; a failure leaves the chunk not done -/
def SparseSt.loadChunk (fetch : Fetch) (s : SparseSt) (i : Nat) : Bool × SparseSt :=
  if s.done.getD i false then (true, s)
  else
    match s.chunks[i]? with
    | none => (false, s)           -- index out of range: a Go panic; unreachable from loadRange
    | some c =>
      match fetch s.calls c.id with
      | none => (false, { s with calls := s.calls + 1 })
      | some b => (true, { s with calls := s.calls + 1, file := writeAt s.file c.start b, done := s.done.set i true })

/-- `loadRange(start, length)`: `false` = an error was returned -/
def SparseSt.loadRange (fetch : Fetch) (s : SparseSt) (start length : Nat) : Bool × SparseSt :=
  if length < 1 ∨ s.chunks = [] then (true, s)
  else
    let (first, last) := sparseIndexRange s.chunks start length
    let needed := (List.range (last + 1 - first)).map (· + first) |>.filter fun i =>
      !(s.done.getD i false) && decide ((s.chunks.getD i ⟨0, 0, 0⟩).id ≠ s.nullID)
    needed.foldl (fun (acc : Bool × SparseSt) i => if acc.1 then acc.2.loadChunk fetch i else acc) (true, s)

inductive SparseRead
  | data (b : Bytes) (eof : Bool)     -- bytes from the cache file; eof = short read at the end
  | err
  deriving DecidableEq, Repr

/-- `SparseFileHandle.ReadAt(b, offset)` with `len(b) = n` -/
def SparseSt.readAt (fetch : Fetch) (s : SparseSt) (off n : Nat) : SparseRead × SparseSt :=
  match s.loadRange fetch off n with
  | (false, s') => (.err, s')
  | (true, s') =>
    let b := (s'.file.drop off).take n
    (.data b (decide (b.length < n)), s')

/-- mount-sparse.go `sparseIndexFile.Read`: the FUSE read request on the mounted file.  `io.EOF` from `ReadAt` (a
    short read at the end of the file) is answered with the bytes read; every other error with `EIO` (`none`). -/
def SparseSt.mountRead (fetch : Fetch) (s : SparseSt) (off n : Nat) : Option Bytes × SparseSt :=
  match s.readAt fetch off n with
  | (.data b _, s') => (some b, s')
  | (.err, s') => (none, s')

/-- `WriteState`: the bitmap as saved (here: the flag list) -/
def SparseSt.saveState (s : SparseSt) : List Bool := s.done

/-- `NewSparseFile`: `file` = content of the cache file found on disk (empty if absent),
    `state` = content of the state-save file if present and readable,
    `init` = flags of the state-init file for pre-loading (errors of the pre-load are ignored) -/
def SparseSt.open (fetch : Fetch) (chunks : List RChunk) (nullID length : Nat) (file : Bytes)
    (state : Option (List Bool)) (init : Option (List Bool)) (calls : Nat) : SparseSt :=
  let stateOK := match state with
    | some st => decide (file.length = length) && decide (st.length = chunks.length)
    | none => false
  if stateOK then
    { chunks, nullID, length, done := state.getD [], file, calls }
  else
    -- Truncate(idx.Length()): cut or extend with zeros
    let f := if file.length ≥ length then file.take length else file ++ List.replicate (length - file.length) 0
    let s0 : SparseSt := { chunks, nullID, length, done := List.replicate chunks.length false, file := f, calls }
    match init with
    | none => s0
    | some st =>
      if st.length ≠ chunks.length then s0      -- "sparse state file does not match the index": NewSparseFile fails; modelled as no preload
      else
        (List.range chunks.length).foldl
          (fun s i => if st.getD i false then (s.loadChunk fetch i).2 else s) s0

end Desync
