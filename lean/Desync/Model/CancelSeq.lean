/-
  Cancellation of the sequential loops (untar.go `UnTar`) and of the `UnTarIndex` pipeline
  (feeder → assembler → pipe → `UnTar`), C07.

  `UnTar` polls its context at the top of every iteration, before asking the decoder for the next
  node.  `cancelFrom = some k`: the polls numbered `k, k+1, …` (counting from 0) see `ctx.Done()`.

  `UnTarIndex`: the assembler writes the chunks to a pipe in index order and closes the pipe when the
  feeder has closed its channel; when its `select` picks `ctx.Done()` after `k` chunks it stops.  How
  it stops is the parameter `closeWithErr` (regenerated from the source: `Gen.untarIndexAssemblerOnCancel`):
  `true`  = `w.CloseWithError(Interrupted{}); return Interrupted{}` (the reader sees an error),
  `false` = `break loop` → `return nil` with the deferred `w.Close()` (the reader sees a clean end).
  The reader, `UnTar`, is the decoder model of `Model/Archive.lean` for a cleanly closed pipe; on a pipe
  closed with an error it cannot return nil, because it returns nil only after the decoder has seen
  `io.EOF` (`untarOn`).
-/
import Desync.Model.Archive

namespace Desync.CancelSeq
open Desync

inductive Out (α : Type)
  | interrupted
  | done (r : Res α)
  deriving Repr

def cancelled (cancelFrom : Option Nat) (poll : Nat) : Bool :=
  match cancelFrom with
  | none => false
  | some k => k ≤ poll

/-- `UnTar` with cancellation: `poll` counts the iterations -/
def untarNodesC (c : Option Nat) : Nat → Nat → ArchDec → List Node → Out (List Node)
  | 0, _, _, _ => .done (.err .other)
  | fuel + 1, poll, a, acc =>
    if cancelled c poll then .interrupted
    else
      match a.next with
      | .ok (none, _) => .done (.ok acc.reverse)
      | .ok (some n, a') => untarNodesC c fuel (poll + 1) a' (n :: acc)
      | .err e => .done (.err e)
      | .panic s => .done (.panic s)

def untarC (c : Option Nat) (b : Bytes) : Out (List Node) :=
  untarNodesC c (b.length + 2) 0 { st := { rest := b } } []

/-! ### the UnTarIndex pipeline -/

inductive PipeEnd
  | eof      -- `w.Close()`
  | err      -- `w.CloseWithError(…)`
  deriving DecidableEq, Repr

structure AsmOut where
  written : Bytes          -- what reached the pipe
  pipeEnd : PipeEnd
  nil : Bool               -- the assembler goroutine returned nil

/-- the assembler; `cancelAt = some k`: `ctx.Done()` is picked when `k` chunks have been written (for
    `k` beyond the number of chunks the closed channel is seen first) -/
def assembler (closeWithErr : Bool) (chunks : List Bytes) (cancelAt : Option Nat) : AsmOut :=
  match cancelAt with
  | none => ⟨chunks.flatten, .eof, true⟩
  | some k =>
    if k ≤ chunks.length then
      ⟨(chunks.take k).flatten, if closeWithErr then .err else .eof, !closeWithErr⟩
    else ⟨chunks.flatten, .eof, true⟩

/-- `UnTar` reading from the pipe: nil (`some nodes`) only on a cleanly closed pipe whose bytes decode -/
def untarOn (written : Bytes) (e : PipeEnd) : Option (List Node) :=
  match e with
  | .err => none
  | .eof =>
    match untar written with
    | .ok ns => some ns
    | _ => none

/-- `UnTarIndex` = `g.Wait()` over feeder, workers, assembler and `UnTar`: nil iff all returned nil.
    `feederNil` / `workersNil`: the feeder handed out every chunk / every fetch succeeded (C06/C07 pool). -/
def unTarIndex (closeWithErr : Bool) (chunks : List Bytes) (cancelAt : Option Nat)
    (feederNil workersNil : Bool) : Option (List Node) :=
  let a := assembler closeWithErr chunks cancelAt
  match untarOn a.written a.pipeEnd with
  | some ns => if feederNil && workersNil && a.nil then some ns else none
  | none => none

end Desync.CancelSeq
