/-
  Model of `makeGoodbyeBST` / `bst` (format.go): the goodbye table of a catar directory is a
  complete binary search tree in array (heap) layout over the children sorted by
  (SipHash(name), offset).
-/
import Desync.Model.Format
import Desync.Hash.SipHash

namespace Desync

/-- `sip.go: SipHash` -/
def sipHashName (b : Bytes) : UInt64 :=
  sipHash24 Gen.CaFormatGoodbyeHashKey0 Gen.CaFormatGoodbyeHashKey1 b

/-- index of the root element chosen by `bst` for a sorted slice of length `n` at level `e`
    (`p := 1 << (e-1)`, `q := p << 1`).  `none` where the Go code would index out of range
    (negative `k`, or `e = 0`). -/
def bstK (n e : Nat) : Option Nat :=
  if e = 0 then none else
  let p := 2 ^ (e - 1)
  let q := 2 * p
  if n ≥ p - 1 + p / 2 then some ((q - 2) / 2)
  else
    let v := p - 1 + p / 2 - n
    if v > (q - 2) / 2 then none else some ((q - 2) / 2 - v)

/-- the assignments `out[i] = in[k]` performed by `bst(in, out, i, e)`, in execution order.
    `none` = the Go code panics (index out of range). -/
def bstAssign {α : Type} (inp : List α) (i e : Nat) : Option (List (Nat × α)) :=
  if h0 : inp.length = 0 then some []
  else
    match hk : bstK inp.length e with
    | none => none
    | some k =>
      if hlt : k < inp.length then do
        let l ← bstAssign (inp.take k) (2 * i + 1) (e - 1)
        let r ← bstAssign (inp.drop (k + 1)) (2 * i + 2) (e - 1)
        pure ((i, inp[k]) :: (l ++ r))
      else none
termination_by inp.length
decreasing_by
  · simp [List.length_take]; omega
  · simp [List.length_drop]; omega

/-- `e := uint(math.Log2(float64(len(in))) + 1)` — `Nat.log2` stands for the float computation
    (agreement is correspondence-checked; DESIGN §5) -/
def bstLevel (n : Nat) : Nat := Nat.log2 n + 1

/-- lexicographic order used by `sort.Slice` in `makeGoodbyeBST` -/
def goodbyeLt (a b : GoodbyeItem) : Bool :=
  a.hash < b.hash || (a.hash == b.hash && a.offset < b.offset)

def insertSorted (x : GoodbyeItem) : List GoodbyeItem → List GoodbyeItem
  | [] => [x]
  | y :: ys => if goodbyeLt y x then y :: insertSorted x ys else x :: y :: ys

/-- a sort by `goodbyeLt` (the model uses insertion sort; `sort.Slice` is not stable, which is
    irrelevant when (hash, offset) pairs are distinct — offsets of siblings always are) -/
def sortGoodbye (l : List GoodbyeItem) : List GoodbyeItem := l.foldr insertSorted []

/-- place assignments into an array of length `n` -/
def placeAll {α : Type} [Inhabited α] (n : Nat) (as : List (Nat × α)) : Array α :=
  as.foldl (fun arr (p : Nat × α) => arr.setIfInBounds p.1 p.2) (Array.replicate n default)

/-- `makeGoodbyeBST`; `none` = panic -/
def makeGoodbyeBST (items : List GoodbyeItem) : Option (List GoodbyeItem) := do
  let sorted := sortGoodbye items
  let as ← bstAssign sorted 0 (bstLevel sorted.length)
  pure (placeAll sorted.length as).toList

/-- in-order traversal of a heap-indexed array of length `n` starting at node `i` -/
def heapInorder {α : Type} (get : Nat → α) (n : Nat) (i : Nat) : List α :=
  if h : i < n then
    heapInorder get n (2 * i + 1) ++ [get i] ++ heapInorder get n (2 * i + 2)
  else []
termination_by n - i
decreasing_by all_goals omega

end Desync
