import Driver.Cmds
import Driver.Main
