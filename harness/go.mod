module verifharness

go 1.23.0

require (
	github.com/folbricht/desync v0.0.0
	github.com/hanwen/go-fuse/v2 v2.2.0
	github.com/klauspost/compress v1.16.4
	github.com/minio/minio-go/v6 v6.0.57
	github.com/pkg/errors v0.9.1
	github.com/pkg/sftp v1.13.5
	github.com/pkg/xattr v0.4.9
	golang.org/x/sys v0.31.0
)

require (
	cloud.google.com/go v0.110.0 // indirect
	cloud.google.com/go/compute/metadata v0.2.3 // indirect
	cloud.google.com/go/iam v0.13.0 // indirect
	cloud.google.com/go/storage v1.30.1 // indirect
	github.com/boljen/go-bitmap v0.0.0-20151001105940-23cd2fb0ce7d // indirect
	github.com/dchest/siphash v1.2.3 // indirect
	github.com/folbricht/tempfile v0.0.1 // indirect
	github.com/golang/groupcache v0.0.0-20210331224755-41bb18bfe9da // indirect
	github.com/golang/protobuf v1.5.3 // indirect
	github.com/google/go-cmp v0.5.9 // indirect
	github.com/google/uuid v1.3.0 // indirect
	github.com/googleapis/enterprise-certificate-proxy v0.2.3 // indirect
	github.com/googleapis/gax-go/v2 v2.8.0 // indirect
	github.com/json-iterator/go v1.1.12 // indirect
	github.com/klauspost/cpuid/v2 v2.0.4 // indirect
	github.com/kr/fs v0.1.0 // indirect
	github.com/mattn/go-runewidth v0.0.14 // indirect
	github.com/minio/md5-simd v1.1.2 // indirect
	github.com/minio/sha256-simd v1.0.0 // indirect
	github.com/mitchellh/go-homedir v1.1.0 // indirect
	github.com/modern-go/concurrent v0.0.0-20180306012644-bacd9c7ef1dd // indirect
	github.com/modern-go/reflect2 v1.0.2 // indirect
	github.com/rivo/uniseg v0.2.0 // indirect
	github.com/sirupsen/logrus v1.9.0 // indirect
	go.opencensus.io v0.24.0 // indirect
	golang.org/x/crypto v0.36.0 // indirect
	golang.org/x/net v0.38.0 // indirect
	golang.org/x/oauth2 v0.7.0 // indirect
	golang.org/x/sync v0.12.0 // indirect
	golang.org/x/term v0.30.0 // indirect
	golang.org/x/text v0.23.0 // indirect
	golang.org/x/xerrors v0.0.0-20220907171357-04be3eba64a2 // indirect
	google.golang.org/api v0.116.0 // indirect
	google.golang.org/genproto v0.0.0-20230410155749-daa745c078e1 // indirect
	google.golang.org/grpc v1.56.3 // indirect
	google.golang.org/protobuf v1.33.0 // indirect
	gopkg.in/cheggaaa/pb.v1 v1.0.28 // indirect
	gopkg.in/ini.v1 v1.67.0 // indirect
)

replace github.com/folbricht/desync => /repo
