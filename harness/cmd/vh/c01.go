package main

import (
	"context"
	"fmt"
	"math/rand"
	"os"
	"os/exec"
	"path/filepath"
	"runtime"
	"strconv"
	"strings"
	"sync"
	"sync/atomic"
	"time"

	"github.com/folbricht/desync"
)

// ---------------------------------------------------------------------------------------
// strict in-process emulation of FICLONERANGE (ioctl_ficlonerange(2), generic_remap_file_range_prep)

var cloneMu sync.Mutex // FICLONERANGE is atomic with respect to other I/O on the files

func emuCloneRange(bs uint64) func(dst, src *os.File, srcOffset, srcLength, dstOffset uint64) error {
	return func(dst, src *os.File, so, ln, do uint64) error {
		cloneMu.Lock()
		defer cloneMu.Unlock()
		einval := fmt.Errorf("invalid argument")
		if so%bs != 0 || do%bs != 0 {
			return einval
		}
		si, err := src.Stat()
		if err != nil {
			return err
		}
		di, err := dst.Stat()
		if err != nil {
			return err
		}
		ssz, dsz := uint64(si.Size()), uint64(di.Size())
		n := ln
		if ln == 0 {
			if so > ssz {
				return einval
			}
			n = ssz - so
		}
		if so+n > ssz || so+n < so {
			return einval
		}
		if n == 0 {
			return nil
		}
		if n%bs != 0 && !(so+n == ssz && do+n >= dsz) {
			return einval
		}
		if os.SameFile(si, di) && so < do+n && do < so+n {
			return einval
		}
		b := make([]byte, n)
		if _, err := src.ReadAt(b, int64(so)); err != nil {
			return err
		}
		_, err = dst.WriteAt(b, int64(do))
		return err
	}
}

// ---------------------------------------------------------------------------------------
// one assemble case, fully described by its case line

type asmSeed struct {
	src   string // "T" (the target itself) or the number of a seed file
	rf    bool
	min   uint64
	avg   uint64
	max   uint64
	table []desync.IndexChunk
}

type asmCase struct {
	alg     string
	bs      uint64
	max     uint64
	nr, sr  bool
	act     string
	prior   *[]byte
	idx     []desync.IndexChunk
	store   map[desync.ChunkID]*[]byte // nil: the fetch fails
	storeOr []desync.ChunkID
	seeds   []asmSeed
	files   [][]byte
	n       int
	yield   int64  // 0: no scheduling noise
	mut     string // "" or "k.kind.seed": at the k-th yield site hit, seed file `seed` is changed (kind: 0 truncate to nothing, 1 cut in half, 2 overwrite, 3 flip a byte, 4 remove, 5 cut at a chunk start)
}

func tableStr(t []desync.IndexChunk) string {
	var p []string
	for _, c := range t {
		p = append(p, fmt.Sprintf("%d:%s", c.Size, hx(c.ID[:])))
	}
	return strings.Join(p, ",")
}

func parseTable(s string) []desync.IndexChunk {
	var out []desync.IndexChunk
	if s == "" {
		return out
	}
	var start uint64
	for _, p := range strings.Split(s, ",") {
		f := strings.SplitN(p, ":", 2)
		sz, _ := strconv.ParseUint(f[0], 10, 64)
		var id desync.ChunkID
		copy(id[:], unhx(f[1]))
		out = append(out, desync.IndexChunk{ID: id, Start: start, Size: sz})
		start += sz
	}
	return out
}

func b01(b bool) string {
	if b {
		return "1"
	}
	return "0"
}

func (c *asmCase) line() string {
	prior := "none"
	if c.prior != nil {
		prior = hx(*c.prior)
	}
	var st, sd, fl []string
	for _, id := range c.storeOr {
		if d := c.store[id]; d == nil {
			st = append(st, hx(id[:])+":!")
		} else {
			st = append(st, hx(id[:])+":"+hx(*d))
		}
	}
	for _, s := range c.seeds {
		if s.src == "T" { // CanClone(target, target): the same answer the self seed gets
			s.rf = c.sr
		}
		sd = append(sd, fmt.Sprintf("%s/%s/%d/%d/%d/%d/%s", s.src, b01(s.rf), s.min, s.avg, desync.VerifDiscriminatorFromAvg(s.avg), s.max, tableStr(s.table)))
	}
	for _, f := range c.files {
		fl = append(fl, hx(f))
	}
	files := strings.Join(fl, ";")
	if len(c.files) == 0 {
		files = "-"
	}
	mut := ""
	if c.mut != "" {
		mut = " mut=" + c.mut
	}
	return fmt.Sprintf("asm.run alg=%s bs=%d max=%d nr=%s sr=%s act=%s n=%d yield=%d%s prior=%s idx=%s store=%s seeds=%s files=%s",
		c.alg, c.bs, c.max, b01(c.nr), b01(c.sr), c.act, c.n, c.yield, mut, prior, tableStr(c.idx), strings.Join(st, ","), strings.Join(sd, ";"), files)
}

func parseAsmCase(line string) *asmCase {
	_, a := parseCase(line)
	c := &asmCase{alg: a["alg"], act: a["act"], nr: a["nr"] == "1", sr: a["sr"] == "1", store: map[desync.ChunkID]*[]byte{}}
	c.bs, _ = strconv.ParseUint(a["bs"], 10, 64)
	c.max, _ = strconv.ParseUint(a["max"], 10, 64)
	c.n, _ = strconv.Atoi(a["n"])
	if c.n < 1 {
		c.n = 1
	}
	c.yield, _ = strconv.ParseInt(a["yield"], 10, 64)
	c.mut = a["mut"]
	if a["prior"] != "none" {
		b := unhx(a["prior"])
		c.prior = &b
	}
	c.idx = parseTable(a["idx"])
	if a["store"] != "" {
		for _, p := range strings.Split(a["store"], ",") {
			f := strings.SplitN(p, ":", 2)
			var id desync.ChunkID
			copy(id[:], unhx(f[0]))
			c.storeOr = append(c.storeOr, id)
			if f[1] == "!" {
				c.store[id] = nil
			} else {
				b := unhx(f[1])
				c.store[id] = &b
			}
		}
	}
	if a["seeds"] != "" {
		for _, p := range strings.Split(a["seeds"], ";") {
			f := strings.Split(p, "/")
			s := asmSeed{src: f[0], rf: f[1] == "1"}
			s.min, _ = strconv.ParseUint(f[2], 10, 64)
			s.avg, _ = strconv.ParseUint(f[3], 10, 64)
			s.max, _ = strconv.ParseUint(f[5], 10, 64)
			s.table = parseTable(f[6])
			c.seeds = append(c.seeds, s)
		}
	}
	if a["files"] != "-" {
		for _, p := range strings.Split(a["files"], ";") {
			c.files = append(c.files, unhx(p))
		}
	}
	return c
}

type asmStore struct {
	c *asmCase
}

func (s asmStore) GetChunk(id desync.ChunkID) (*desync.Chunk, error) {
	d, ok := s.c.store[id]
	if !ok {
		return nil, desync.ChunkMissing{ID: id}
	}
	if d == nil {
		return nil, fmt.Errorf("scripted store failure")
	}
	return desync.NewChunkWithID(id, *d, true)
}
func (s asmStore) HasChunk(id desync.ChunkID) (bool, error) { _, ok := s.c.store[id]; return ok, nil }
func (s asmStore) Close() error                             { return nil }
func (s asmStore) String() string                           { return "asm" }

var asmMu sync.Mutex // the hooks and desync.Digest are process-wide

type asmResult struct {
	status string // "ok" | "err" | "panic" | "hang"
	err    string
	target []byte
	stats  string
	left   []string // files left in the directory besides the target and the seeds
}

// run executes the case on the real code in a fresh directory
func (c *asmCase) run(work string) asmResult {
	asmMu.Lock()
	defer asmMu.Unlock()
	dir, err := os.MkdirTemp(work, "asm")
	if err != nil {
		return asmResult{status: "err", err: err.Error()}
	}
	defer os.RemoveAll(dir)
	target := filepath.Join(dir, "target")
	if c.prior != nil {
		os.WriteFile(target, *c.prior, 0644)
	}
	var seedPaths []string
	for i, f := range c.files {
		p := filepath.Join(dir, fmt.Sprintf("seedfile%d", i))
		os.WriteFile(p, f, 0644)
		seedPaths = append(seedPaths, p)
	}
	oldDigest := desync.Digest
	if c.alg == "sha256" {
		desync.Digest = desync.SHA256{}
	} else {
		desync.Digest = desync.SHA512256{}
	}
	reflink := map[string]bool{target: c.sr}
	desync.VerifBlocksize = func(string) uint64 { return c.bs }
	desync.VerifCloneRange = emuCloneRange(c.bs)
	desync.VerifCanClone = func(dst, src string) bool {
		if strings.HasPrefix(filepath.Base(src), ".tmp-block") {
			return c.nr
		}
		return reflink[src]
	}
	var ctr int64
	var mutAt, mutKind, mutSeed int64 = -1, 0, 0
	if c.mut != "" {
		fmt.Sscanf(c.mut, "%d.%d.%d", &mutAt, &mutKind, &mutSeed)
	}
	if c.yield != 0 || c.mut != "" {
		desync.VerifYield = func(site string) {
			k := atomic.AddInt64(&ctr, 1)
			if k == mutAt && int(mutSeed) < len(seedPaths) {
				// the seed file changes under the running extract
				sp := seedPaths[mutSeed]
				old, _ := os.ReadFile(sp)
				switch mutKind {
				case 0:
					os.Truncate(sp, 0)
				case 1:
					os.Truncate(sp, int64(len(old)/2))
				case 2:
					nb := make([]byte, len(old))
					for i := range nb {
						nb[i] = 0xA5
					}
					os.WriteFile(sp, nb, 0644)
				case 3:
					if len(old) > 0 {
						old[len(old)/3] ^= 0x40
						os.WriteFile(sp, old, 0644)
					}
				case 4:
					os.Remove(sp)
				default: // cut at the start of one of the seed's chunks
					var cut int64
					for _, sd := range c.seeds {
						if sd.src == fmt.Sprint(mutSeed) && len(sd.table) > 0 {
							cut = int64(sd.table[int(k)%len(sd.table)].Start)
						}
					}
					os.Truncate(sp, cut)
				}
			}
			if c.yield == 0 {
				return
			}
			h := uint64(k)*0x9e3779b97f4a7c15 ^ uint64(c.yield)*0xbf58476d1ce4e5b9
			h ^= h >> 29
			switch h % 4 {
			case 0:
				runtime.Gosched()
			case 1:
				time.Sleep(time.Duration(h>>8%200) * time.Microsecond)
			}
		}
	}
	defer func() {
		desync.Digest = oldDigest
		desync.VerifBlocksize, desync.VerifCloneRange, desync.VerifCanClone, desync.VerifYield = nil, nil, nil, nil
	}()

	flags := uint64(desync.CaFormatExcludeNoDump)
	if c.alg != "sha256" {
		flags |= desync.CaFormatSHA512256
	}
	idx := desync.Index{Index: desync.FormatIndex{FeatureFlags: flags, ChunkSizeMin: c.max / 4, ChunkSizeAvg: c.max / 2, ChunkSizeMax: c.max}, Chunks: c.idx}
	var seeds []desync.Seed
	for _, s := range c.seeds {
		path := target
		if s.src != "T" {
			k, _ := strconv.Atoi(s.src)
			if k < len(seedPaths) {
				path = seedPaths[k]
			} else {
				// a seed whose file cannot be opened: missing (ENOENT), below a regular file (ENOTDIR), or a
				// symbolic link to itself (ELOOP) - whatever the reason, the seed must be treated as invalid
				switch k % 3 {
				case 0:
					path = filepath.Join(dir, "missing-seed")
				case 1:
					os.WriteFile(filepath.Join(dir, "plain-file"), []byte("x"), 0644)
					path = filepath.Join(dir, "plain-file", "seed")
				default:
					path = filepath.Join(dir, "loop-seed")
					os.Symlink("loop-seed", path)
				}
			}
			reflink[path] = s.rf
		}
		si := desync.Index{Index: desync.FormatIndex{FeatureFlags: flags, ChunkSizeMin: s.min, ChunkSizeAvg: s.avg, ChunkSizeMax: s.max}, Chunks: s.table}
		if s.src == "T" {
			// CanClone(dst, dst) is what the self seed asks as well; an aliasing seed gets its own flag
			reflink[target] = c.sr
		}
		seed, err := desync.NewIndexSeed(target, path, si)
		if err != nil {
			return asmResult{status: "err", err: err.Error()}
		}
		seeds = append(seeds, seed)
	}
	act := desync.InvalidSeedActionBailOut
	switch c.act {
	case "skip":
		act = desync.InvalidSeedActionSkip
	case "regen":
		act = desync.InvalidSeedActionRegenerate
	}
	type out struct {
		st  *desync.ExtractStats
		err error
		pan interface{}
	}
	ch := make(chan out, 1)
	go func() {
		var o out
		defer func() {
			if p := recover(); p != nil {
				o.pan = p
			}
			ch <- o
		}()
		o.st, o.err = desync.AssembleFile(context.Background(), target, idx, asmStore{c}, seeds, desync.AssembleOptions{N: c.n, InvalidSeedAction: act})
	}()
	var o out
	select {
	case o = <-ch:
	case <-time.After(15 * time.Second):
		hangs++
		return asmResult{status: "hang"}
	}
	if o.pan != nil {
		return asmResult{status: "panic", err: fmt.Sprint(o.pan)}
	}
	var res asmResult
	ents, _ := os.ReadDir(dir)
	for _, e := range ents {
		if e.Name() != "target" && !strings.HasPrefix(e.Name(), "seedfile") {
			res.left = append(res.left, e.Name())
		}
	}
	if o.err != nil {
		res.status, res.err = "err", o.err.Error()
		return res
	}
	res.status = "ok"
	res.target, _ = os.ReadFile(target)
	res.stats = fmt.Sprintf("%d,%d,%d,%d,%d", o.st.ChunksFromStore, o.st.ChunksInPlace, o.st.ChunksFromSeeds, o.st.BytesCopied, o.st.BytesCloned)
	return res
}

var asmWork string

func implAsmRun(line string) string {
	c := parseAsmCase(line)
	r := c.run(asmWork)
	if r.status != "ok" {
		return r.status
	}
	return fmt.Sprintf("ok t=%s st=%s", hx(r.target), r.stats)
}

func implAsmClone(line string) string {
	_, a := parseCase(line)
	dir, _ := os.MkdirTemp(asmWork, "clone")
	defer os.RemoveAll(dir)
	bs, _ := strconv.ParseUint(a["bs"], 10, 64)
	so, _ := strconv.ParseUint(a["so"], 10, 64)
	ln, _ := strconv.ParseUint(a["len"], 10, 64)
	do, _ := strconv.ParseUint(a["do"], 10, 64)
	dp := filepath.Join(dir, "d")
	os.WriteFile(dp, unhx(a["dst"]), 0644)
	sp := dp
	if a["same"] != "1" {
		sp = filepath.Join(dir, "s")
		os.WriteFile(sp, unhx(a["src"]), 0644)
	}
	d, _ := os.OpenFile(dp, os.O_RDWR, 0)
	s, _ := os.Open(sp)
	defer d.Close()
	defer s.Close()
	if err := emuCloneRange(bs)(d, s, so, ln, do); err != nil {
		return "einval"
	}
	b, _ := os.ReadFile(dp)
	return "ok " + hx(b)
}

// ---------------------------------------------------------------------------------------
// generator

func sumAlg(alg string, b []byte) desync.ChunkID {
	if alg == "sha256" {
		return desync.SHA256{}.Sum(b)
	}
	return desync.SHA512256{}.Sum(b)
}

func tableOf(alg string, parts [][]byte) []desync.IndexChunk {
	var t []desync.IndexChunk
	var start uint64
	for _, p := range parts {
		t = append(t, desync.IndexChunk{ID: sumAlg(alg, p), Start: start, Size: uint64(len(p))})
		start += uint64(len(p))
	}
	return t
}

func chunkWith(data []byte, min, avg, max uint64) [][]byte {
	c, err := desync.NewChunker(strings.NewReader(string(data)), min, avg, max)
	if err != nil {
		return nil
	}
	var out [][]byte
	for {
		_, b, err := c.Next()
		if err != nil || len(b) == 0 {
			return out
		}
		out = append(out, append([]byte{}, b...))
	}
}

func joinParts(parts [][]byte) []byte {
	var b []byte
	for _, p := range parts {
		b = append(b, p...)
	}
	return b
}

type asmGen struct {
	c     *asmCase
	blob  []byte
	parts [][]byte
}

func genAsmCase(rng *rand.Rand) asmGen {
	c := &asmCase{alg: "sha512", n: 1, store: map[desync.ChunkID]*[]byte{}}
	if rng.Intn(10) == 0 {
		c.alg = "sha256"
	}
	c.bs = []uint64{16, 32, 64, 256, 4096}[rng.Intn(5)]
	chunker := rng.Intn(3) == 0
	var parts [][]byte
	smin, savg, smax := uint64(48), uint64(96), uint64(192)
	if chunker {
		smin = 48 + uint64(rng.Intn(16))
		savg = smin * 2
		smax = smin * 4
		c.max = smax
		n := rng.Intn(3000)
		data := randBytes(rng, n)
		for k := rng.Intn(3); k > 0 && n > 0; k-- { // zero runs and repeats
			a, l := rng.Intn(n), rng.Intn(3*int(smax))
			for i := a; i < a+l && i < n; i++ {
				if k%2 == 0 {
					data[i] = 0
				} else if i-a < a {
					data[i] = data[i-a]
				}
			}
		}
		parts = chunkWith(data, smin, savg, smax)
	} else {
		c.max = []uint64{8, 16, 32, 64, 100}[rng.Intn(5)]
		for k := rng.Intn(15); k > 0; k-- {
			switch r := rng.Intn(10); {
			case r < 5:
				parts = append(parts, randBytes(rng, 1+rng.Intn(int(c.max))))
			case r < 7:
				parts = append(parts, make([]byte, c.max))
			case r < 8:
				parts = append(parts, make([]byte, 1+rng.Intn(int(c.max))))
			default:
				if len(parts) > 0 {
					parts = append(parts, parts[rng.Intn(len(parts))])
				} else {
					parts = append(parts, randBytes(rng, 1+rng.Intn(int(c.max))))
				}
			}
		}
	}
	blob := joinParts(parts)
	c.idx = tableOf(c.alg, parts)
	for i, ch := range c.idx {
		if _, ok := c.store[ch.ID]; !ok {
			d := parts[i]
			c.store[ch.ID] = &d
			c.storeOr = append(c.storeOr, ch.ID)
		}
	}
	if len(c.storeOr) > 0 {
		id := c.storeOr[rng.Intn(len(c.storeOr))]
		switch r := rng.Intn(20); {
		case r < 3: // missing
			delete(c.store, id)
			var keep []desync.ChunkID
			for _, x := range c.storeOr {
				if x != id {
					keep = append(keep, x)
				}
			}
			c.storeOr = keep
		case r < 4:
			c.store[id] = nil
		case r < 5:
			d := append(append([]byte{}, *c.store[id]...), 7)
			c.store[id] = &d
		}
	}
	// seeds
	for k := rng.Intn(4); k > 0; k-- {
		s := asmSeed{src: strconv.Itoa(len(c.files)), rf: rng.Intn(3) == 0, min: smin, avg: savg, max: smax}
		var sp [][]byte
		if chunker && rng.Intn(2) == 0 {
			// an edited copy of the blob, chunked by the real chunker
			data := append([]byte{}, blob...)
			if len(data) > 0 {
				a := rng.Intn(len(data))
				switch rng.Intn(3) {
				case 0:
					data = append(data[:a], append(randBytes(rng, rng.Intn(200)), data[a:]...)...)
				case 1:
					e := a + rng.Intn(200)
					if e > len(data) {
						e = len(data)
					}
					data = append(data[:a], data[e:]...)
				default:
					for i := a; i < a+50 && i < len(data); i++ {
						data[i] ^= 0x55
					}
				}
			}
			sp = chunkWith(data, smin, savg, smax)
		} else {
			for j := rng.Intn(8); j > 0; j-- {
				if len(parts) > 0 && rng.Intn(4) != 0 {
					a := rng.Intn(len(parts))
					l := 1 + rng.Intn(4)
					for i := a; i < a+l && i < len(parts); i++ {
						sp = append(sp, parts[i])
					}
				} else {
					sp = append(sp, randBytes(rng, 1+rng.Intn(int(c.max))))
				}
			}
		}
		file := joinParts(sp)
		s.table = tableOf(c.alg, sp)
		switch r := rng.Intn(20); {
		case r < 11: // consistent
		case r < 13: // stale: a byte changed after the index was made
			if len(file) > 0 {
				file[rng.Intn(len(file))] ^= 1
			}
		case r < 14: // truncated
			if len(file) > 0 {
				file = file[:rng.Intn(len(file))]
			}
		case r < 15:
			file = nil
		case r < 16:
			s.table = nil
		case r < 17 && rng.Intn(2) == 0: // the seed file cannot be opened
			s.src = []string{"99", "100", "101"}[rng.Intn(3)] // missing / below a regular file / a link to itself
		case r < 17: // the seed index lies about a size
			if len(s.table) > 0 {
				i := rng.Intn(len(s.table))
				s.table[i].Size++
				for j := i + 1; j < len(s.table); j++ {
					s.table[j].Start++
				}
			}
		default: // the seed is the target itself, described by this index, an older version or a shifted one
			s.src = "T"
			switch rng.Intn(3) {
			case 0:
				s.table = append([]desync.IndexChunk{}, c.idx...)
			case 1:
				op := append([][]byte{}, parts...)
				if len(op) > 0 {
					op[rng.Intn(len(op))] = randBytes(rng, 1+rng.Intn(int(c.max)))
				}
				s.table = tableOf(c.alg, op)
			default:
				op := append([][]byte{randBytes(rng, 1+rng.Intn(int(c.max)))}, parts...)
				s.table = tableOf(c.alg, op)
			}
		}
		if s.src != "T" && s.src != "99" {
			c.files = append(c.files, file)
		}
		c.seeds = append(c.seeds, s)
	}
	// many stale seeds, each matching a run of its own: every one of them is chosen by the plan and found invalid, one
	// after the other (Plan.Validate stops at the first bad seed) — k invalid seeds need k+1 plans, whatever k is
	manyStale := false
	if len(parts) >= 6 && rng.Intn(6) == 0 {
		manyStale = true
		k := 5 + rng.Intn(5)
		for j := 0; j < k; j++ {
			a := (j * len(parts)) / k
			e := a + 1 + rng.Intn(2)
			if e > len(parts) {
				e = len(parts)
			}
			sp := append([][]byte{}, parts[a:e]...)
			s := asmSeed{src: strconv.Itoa(len(c.files)), min: smin, avg: savg, max: smax}
			file := joinParts(sp)
			s.table = tableOf(c.alg, sp)
			if len(file) > 0 && rng.Intn(6) != 0 {
				file[rng.Intn(len(file))] ^= 1
			}
			c.files = append(c.files, file)
			c.seeds = append(c.seeds, s)
		}
	}
	// what the target path holds beforehand
	switch r := rng.Intn(20); {
	case r < 7:
	case r < 9:
		b := []byte{}
		c.prior = &b
	case r < 12:
		b := randBytes(rng, rng.Intn(len(blob)+40))
		c.prior = &b
	case r < 13:
		b := append([]byte{}, blob...)
		c.prior = &b
	case r < 16: // an older version: some chunks differ
		op := append([][]byte{}, parts...)
		for j := rng.Intn(3); j >= 0 && len(op) > 0; j-- {
			i := rng.Intn(len(op))
			op[i] = randBytes(rng, len(op[i]))
		}
		b := joinParts(op)
		c.prior = &b
	case r < 18:
		b := append(append([]byte{}, blob...), randBytes(rng, 1+rng.Intn(100))...)
		c.prior = &b
	default:
		b := append([]byte{}, blob[:rng.Intn(len(blob)+1)]...)
		c.prior = &b
	}
	c.act = []string{"bail", "skip", "regen"}[rng.Intn(3)]
	if manyStale {
		c.act = []string{"skip", "regen"}[rng.Intn(2)]
	}
	switch rng.Intn(4) {
	case 0:
		c.nr, c.sr = true, true
		for i := range c.seeds {
			c.seeds[i].rf = true
		}
	case 1:
		c.nr, c.sr = rng.Intn(2) == 0, rng.Intn(2) == 0
	default:
		if rng.Intn(2) == 0 {
			for i := range c.seeds {
				c.seeds[i].rf = false
			}
		}
	}
	return asmGen{c, blob, parts}
}

// expectSuccess: the liveness half of the property applies to this case
func (g asmGen) expectSuccess() bool {
	c := g.c
	for i, ch := range c.idx {
		d, ok := c.store[ch.ID]
		if !ok || d == nil || len(*d) != len(g.parts[i]) {
			return false
		}
	}
	consistent := true
	for _, s := range c.seeds {
		if s.src == "T" {
			// a seed that changes while it is read: only regenerate can be expected to cope (it falls
			// back to the store when the bytes written do not hash to the chunk ID)
			if c.act != "regen" {
				return false
			}
			consistent = false
			continue
		}
		k, _ := strconv.Atoi(s.src)
		if k >= len(c.files) { // no such file: skipping works, regenerating its index cannot
			if c.act == "regen" {
				return false
			}
			consistent = false
			continue
		}
		f := c.files[k]
		for _, t := range s.table {
			if t.Start+t.Size > uint64(len(f)) || sumAlg(c.alg, f[t.Start:t.Start+t.Size]) != t.ID {
				consistent = false
			}
		}
	}
	return consistent || c.act != "bail"
}

func shrinkAsm(line string) []string {
	c := parseAsmCase(line)
	var out []string
	for i := range c.seeds {
		d := *c
		d.seeds = append(append([]asmSeed{}, c.seeds[:i]...), c.seeds[i+1:]...)
		out = append(out, d.line())
	}
	if len(c.idx) > 0 {
		d := *c
		d.idx = c.idx[:len(c.idx)-1]
		out = append(out, d.line())
		d = *c
		d.idx = parseTable(tableStr(c.idx[1:]))
		out = append(out, d.line())
	}
	if c.prior != nil {
		d := *c
		d.prior = nil
		out = append(out, d.line())
	}
	for i := range c.seeds {
		if len(c.seeds[i].table) > 1 {
			d := *c
			d.seeds = append([]asmSeed{}, c.seeds...)
			d.seeds[i].table = c.seeds[i].table[:len(c.seeds[i].table)-1]
			out = append(out, d.line())
		}
	}
	return out
}

func runC01(cfg Config) {
	rep := NewReport("C01", cfg.Tier, cfg.Seed,
		"generated (blob, index, seeds, prior target content, store, options) cases run through the real AssembleFile in a scratch directory: "+
			"blobs from arbitrary splits (chunks of 1..max bytes, null chunks, repeats, empty) and from the real chunker; 0..3 seeds made of runs "+
			"of blob chunks, edited copies, foreign chunks, each consistent / stale / truncated / empty / empty-index / lying about a size / aliasing "+
			"the target (same, older or shifted index); prior target absent, empty, garbage, equal, older version, longer, shorter; store complete, "+
			"missing a chunk, failing, wrong length; bail-out / skip / regenerate; cloning emulated (strict FICLONERANGE rules) or not, per seed, "+
			"null seed and self seed; block size 16..4096 with chunk sizes below and above. N = 1: status, output bytes and the five counters of "+
			"ExtractStats must equal the Lean model's (except where the model flags an overlapping same-file copy, whose result depends on the "+
			"kernel). N in 2..8 with scheduling noise at the yield sites: monitors only. Monitors on every run: success => output equals the blob "+
			"byte for byte; no panic, no hang; store complete and seeds static and (consistent or skip/regenerate) => success. non-trivial = a "+
			"run in which something other than the store provided data (seed, self seed, null seed or in-place reuse)")
	asmWork = cfg.Work
	m, err := StartModel(cfg.Driver)
	if err != nil {
		fatal(err)
	}
	defer m.Close()
	rng := rand.New(rand.NewSource(cfg.Seed))
	monitor := func(what, caseLine string) {
		rep.Disagree(Disagreement{Kind: "monitor", Case: caseLine, What: what})
	}
	check := func(g asmGen, r asmResult, line string) {
		switch r.status {
		case "panic":
			monitor("AssembleFile panicked: "+r.err, line)
		case "hang":
			monitor("AssembleFile did not return within 15 s", line)
		case "ok":
			if string(r.target) != string(g.blob) {
				monitor(fmt.Sprintf("AssembleFile reported success but the output differs from the blob (length %d, want %d)", len(r.target), len(g.blob)), line)
			}
		case "err":
			if g.expectSuccess() {
				d := Disagreement{Kind: "monitor", Case: line, What: "the store holds every chunk and the seeds are static and consistent (or skip/regenerate was chosen), yet assembly failed: " + r.err}
				alias := false
				for _, s := range g.c.seeds {
					alias = alias || s.src == "T"
				}
				if alias && g.c.sr && g.c.act == "regen" && strings.Contains(r.err, "invalid argument") {
					d.Sig = "assemble.alias-seed.clone-einval"
				}
				rep.Disagree(d)
			}
		}
	}
	// emulation vs. the model's cloneRange
	for it := 0; it < cfg.N(300, 3000); it++ {
		bs := []int{4, 8, 16}[rng.Intn(3)]
		same := rng.Intn(3) == 0
		d := randBytes(rng, rng.Intn(6*bs))
		s := randBytes(rng, rng.Intn(6*bs))
		if same {
			s = d
		}
		pick := func() int {
			if rng.Intn(3) != 0 {
				return bs * rng.Intn(6)
			}
			return rng.Intn(6 * bs)
		}
		line := fmt.Sprintf("asm.clone bs=%d same=%s so=%d len=%d do=%d dst=%s src=%s", bs, b01(same), pick(), pick(), pick(), hx(d), hx(s))
		rep.Count(line, true, "clone-emulation")
		rep.Compare(m, line, implAsmClone, nil)
	}
	n := cfg.N(1500, 30000)
	for it := 0; it < n && hangs < 3; it++ {
		g := genAsmCase(rng)
		line := g.c.line()
		r := g.c.run(cfg.Work)
		check(g, r, line)
		impl := r.status
		if r.status == "ok" {
			impl = fmt.Sprintf("ok t=%s st=%s", hx(r.target), r.stats)
		}
		nontrivial := false
		tags := []string{"n=1", "act:" + g.c.act, "status:" + r.status, fmt.Sprintf("seeds:%d", len(g.c.seeds)), fmt.Sprintf("bs:%d", g.c.bs)}
		if r.status == "ok" {
			f := strings.Split(r.stats, ",")
			if f[1] != "0" || f[2] != "0" || f[3] != "0" || f[4] != "0" {
				nontrivial = true
			}
			if f[4] != "0" {
				tags = append(tags, "cloned")
			}
			if f[1] != "0" {
				tags = append(tags, "in-place")
			}
			if f[2] != "0" {
				tags = append(tags, "from-seed")
			}
		}
		if g.c.prior == nil {
			tags = append(tags, "prior:none")
		} else {
			tags = append(tags, "prior:some")
		}
		for _, s := range g.c.seeds {
			if s.src == "T" {
				tags = append(tags, "alias-seed")
			}
		}
		if len(g.c.idx) == 0 {
			tags = append(tags, "empty-blob")
		}
		if m.cmd != nil {
			want := m.Ask(line)
			fuzzy := strings.HasSuffix(want, "fuzzy=1")
			if fuzzy {
				tags = append(tags, "overlapping-self-copy")
			} else {
				want = strings.TrimSuffix(want, " fuzzy=0")
				if want != impl {
					// shrink with the same comparison
					cur, gw, gi := line, want, impl
					for rounds := 0; rounds < 40 && rep.Histogram["DISAGREE:correspondence"] < 3; rounds++ {
						progress := false
						for _, cand := range shrinkAsm(cur) {
							w := m.Ask(cand)
							if strings.HasSuffix(w, "fuzzy=1") || strings.HasPrefix(w, "bad-op") {
								continue
							}
							w = strings.TrimSuffix(w, " fuzzy=0")
							i := implAsmRun(cand)
							if w != i {
								cur, gw, gi, progress = cand, w, i, true
								break
							}
						}
						if !progress {
							break
						}
					}
					rr := parseAsmCase(cur).run(cfg.Work)
					rep.Disagree(Disagreement{Kind: "correspondence", Case: cur, Model: clip(gw, 600), Impl: clip(gi, 600),
						What: "model and implementation differ (implementation: " + rr.status + " " + rr.err + ")", Shrunk: cur != line, Original: clip(line, 1500)})
				}
			}
		}
		rep.Count(line, nontrivial, tags...)
		// the same case with a seed file that changes while the extract runs (after validation, before or
		// between the copies): success must still mean the exact blob; monitors only
		if len(g.c.files) > 0 && len(g.c.seeds) > 0 && it%2 == 1 {
			d := *g.c
			if rng.Intn(2) == 0 {
				d.n = []int{1, 2, 4}[rng.Intn(3)]
			}
			d.mut = fmt.Sprintf("%d.%d.%d", 1+rng.Intn(3*len(g.c.idx)+4), rng.Intn(6), rng.Intn(len(g.c.files)))
			r3 := d.run(cfg.Work)
			l3 := d.line()
			switch r3.status {
			case "panic":
				monitor("AssembleFile panicked while a seed file changed under it: "+r3.err, l3)
			case "hang":
				monitor("AssembleFile did not return within 15 s while a seed file changed under it", l3)
			case "ok":
				if string(r3.target) != string(g.blob) {
					monitor(fmt.Sprintf("a seed file changed during the run: AssembleFile reported success but the output differs from the blob (length %d, want %d)", len(r3.target), len(g.blob)), l3)
				}
			}
			rep.Count(l3, r3.status == "ok", "seed-mutated", "seed-mutated:"+r3.status)
		}
		// the same case with several workers and scheduling noise: monitors only
		if it%3 == 0 {
			d := *g.c
			d.n = []int{2, 3, 4, 8}[rng.Intn(4)]
			d.yield = 1 + rng.Int63n(1<<30)
			g2 := asmGen{&d, g.blob, g.parts}
			r2 := d.run(cfg.Work)
			l2 := d.line()
			check(g2, r2, l2)
			rep.Count(l2, r2.status == "ok", "n>1", "status:"+r2.status)
		}
	}
	runC01Traces(cfg, rep, m, rng)
	c01RealBackends(cfg, rep, rng)
	c01CLI(cfg, rep, rng)
	rep.Write(cfg.Out)
}

// c01CLI runs the real `desync extract`: exit status 0 must come with an output file equal to the blob, whatever
// options were given (--print-stats, -k, seeds, worker counts) and whatever the store lacks
func c01CLI(cfg Config, rep *Report, rng *rand.Rand) {
	self, _ := os.Executable()
	bin := filepath.Join(filepath.Dir(self), "desync")
	if _, err := os.Stat(bin); err != nil {
		rep.Notes = append(rep.Notes, "desync binary not built: command-line extract runs skipped")
		return
	}
	dir := filepath.Join(cfg.Work, "cli")
	os.MkdirAll(dir, 0755)
	defer os.RemoveAll(dir)
	for it := 0; it < cfg.N(6, 60); it++ {
		blob := randBytes(rng, 20000+rng.Intn(60000))
		if it%3 == 1 { // repeats and a run of zeros
			blob = append(append(blob[:8000:8000], make([]byte, 40000)...), blob[:12000]...)
		}
		old := append([]byte{}, blob...)
		for k := 0; k < 5; k++ {
			old[rng.Intn(len(old))] ^= 0xff
		}
		blobFile, idxFile, storeDir := filepath.Join(dir, "blob"), filepath.Join(dir, "blob.caibx"), filepath.Join(dir, "store")
		seedFile, seedIdx := filepath.Join(dir, "seed"), filepath.Join(dir, "seed.caibx")
		os.RemoveAll(storeDir)
		os.MkdirAll(storeDir, 0755)
		os.WriteFile(blobFile, blob, 0644)
		os.WriteFile(seedFile, old, 0644)
		st, _ := desync.NewLocalStore(storeDir, desync.StoreOptions{})
		mk := func(data []byte, out string, store bool) desync.Index {
			ch, _ := desync.NewChunker(strings.NewReader(string(data)), 512, 2048, 8192)
			var ws desync.WriteStore = newMemStore()
			if store {
				ws = st
			}
			ix, _ := desync.ChunkStream(context.Background(), ch, ws, 2)
			f, _ := os.Create(out)
			ix.WriteTo(f)
			f.Close()
			return ix
		}
		idx := mk(blob, idxFile, true)
		mk(old, seedIdx, false)
		if len(idx.Chunks) == 0 {
			continue
		}
		// the store lacks one chunk in two of three rounds
		lacking := it%3 != 2
		if lacking {
			id := idx.Chunks[rng.Intn(len(idx.Chunks))].ID
			st.RemoveChunk(id)
		}
		for _, opts := range [][]string{{}, {"--print-stats"}, {"-k"}, {"-k", "--print-stats"}, {"--seed", seedIdx}, {"--seed", seedIdx, "--print-stats", "-n", "1"}} {
			out := filepath.Join(dir, "out")
			os.Remove(out)
			prior := "absent"
			if rng.Intn(2) == 0 {
				os.WriteFile(out, old, 0644)
				prior = "older-version"
			}
			args := append([]string{"extract", "-s", storeDir}, opts...)
			args = append(args, idxFile, out)
			ctx, cancel := context.WithTimeout(context.Background(), 60*time.Second)
			cmd := exec.CommandContext(ctx, bin, args...)
			cmd.Env = append(os.Environ(), "HOME="+dir)
			err := cmd.Run()
			cancel()
			got, _ := os.ReadFile(out)
			caseLine := fmt.Sprintf("cli.extract it=%d opts=%s prior=%s store-lacks-a-chunk=%v chunks=%d", it, strings.Join(opts, "_"), prior, lacking, len(idx.Chunks))
			rep.Count(caseLine, true, "cli.extract", fmt.Sprintf("cli-exit0:%v", err == nil))
			switch {
			case err == nil && string(got) != string(blob):
				rep.Disagree(Disagreement{Kind: "monitor", Case: caseLine, What: fmt.Sprintf("desync extract exited with status 0 but the output (%d bytes) is not the blob (%d bytes)", len(got), len(blob))})
			case err != nil && !lacking:
				rep.Disagree(Disagreement{Kind: "monitor", Case: caseLine, What: "desync extract failed although the store holds every chunk: " + err.Error()})
			}
		}
	}
}

// replay: the case on the real code, in the canonical form of the model's answer
func implAsmReplay(line string) string {
	if asmWork == "" {
		asmWork, _ = os.MkdirTemp("", "vh-replay")
		defer os.RemoveAll(asmWork)
	}
	return implAsmRun(line) + " fuzzy=0"
}
