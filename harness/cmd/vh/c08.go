package main

import (
	"bytes"
	"context"
	"fmt"
	"math/rand"
	"net"
	"net/http"
	"os"
	"os/exec"
	"path/filepath"
	"regexp"
	"sort"
	"strconv"
	"strings"
	"sync"
	"syscall"
	"time"

	"github.com/folbricht/desync"
)

// ---------------------------------------------------------------------------------------
// child process: `vh -child store dir unc writers fsize datahex...` stores chunks into a local
// store; the parent kills it (strace injection, RLIMIT_FSIZE, SIGKILL) and inspects the store

func childMain(args []string) {
	switch args[0] {
	case "sftpserver":
		sftpServerMain()
	case "store":
		dir := args[1]
		unc := args[2] == "1"
		writers, _ := strconv.Atoi(args[3])
		fsize, _ := strconv.ParseUint(args[4], 10, 64)
		if fsize > 0 {
			// a write that would grow a file beyond this many bytes is cut short (then SIGXFSZ / EFBIG)
			syscall.Setrlimit(syscall.RLIMIT_FSIZE, &syscall.Rlimit{Cur: fsize - 1, Max: fsize - 1})
		}
		s, err := desync.NewLocalStore(dir, desync.StoreOptions{Uncompressed: unc})
		if err != nil {
			os.Exit(3)
		}
		var wg sync.WaitGroup
		failed := false
		for _, h := range args[5:] {
			data := unhx(h)
			for w := 0; w < writers; w++ {
				wg.Add(1)
				go func() {
					defer wg.Done()
					if err := s.StoreChunk(desync.NewChunk(data)); err != nil {
						failed = true
					}
				}()
			}
		}
		wg.Wait()
		if failed {
			os.Exit(4)
		}
		os.Exit(0)
	case "sshproxy":
		sshProxyMain(args[1:])
	}
	os.Exit(2)
}

// inspectStore checks every file of a local store directory after a crash: files carrying the
// temp prefix are ignored (and must be removable by Prune), everything else must be a chunk file
// that reads back and verifies under the ID its name says.
func inspectStore(dir string, unc bool) (problems []string, chunks, temps int) {
	s, err := desync.NewLocalStore(dir, desync.StoreOptions{Uncompressed: unc})
	if err != nil {
		return []string{"cannot open store: " + err.Error()}, 0, 0
	}
	filepath.Walk(dir, func(p string, info os.FileInfo, err error) error {
		if err != nil || info.IsDir() {
			return nil
		}
		name := filepath.Base(p)
		if strings.HasPrefix(name, ".tmp-cacnk") {
			temps++
			return nil
		}
		ext := ".cacnk"
		if unc {
			ext = ""
		}
		if !strings.HasSuffix(name, ext) {
			problems = append(problems, "unexpected file "+name)
			return nil
		}
		id, err := desync.ChunkIDFromString(strings.TrimSuffix(name, ext))
		if err != nil {
			problems = append(problems, "file with a name that is neither a temp name nor a chunk name: "+name)
			return nil
		}
		chunks++
		c, err := s.GetChunk(id)
		if err != nil {
			problems = append(problems, fmt.Sprintf("%s (%d bytes) is visible under a chunk name but does not read back: %v", name, info.Size(), err))
			return nil
		}
		if _, err := c.Data(); err != nil {
			problems = append(problems, fmt.Sprintf("%s: %v", name, err))
		}
		return nil
	})
	return problems, chunks, temps
}

func listDir(dir string) string {
	var names []string
	filepath.Walk(dir, func(p string, info os.FileInfo, err error) error {
		if err == nil && !info.IsDir() {
			rel, _ := filepath.Rel(dir, p)
			names = append(names, fmt.Sprintf("%s(%d)", rel, info.Size()))
		}
		return nil
	})
	sort.Strings(names)
	return strings.Join(names, " ")
}

var straceOK = func() bool {
	_, err := exec.LookPath("strace")
	return err == nil
}()

// countSyscalls runs the child to completion under strace and counts the calls of each kind
func countSyscalls(self string, childArgs []string, calls []string, log string) map[string]int {
	args := append([]string{"-f", "-o", log, "-e", "trace=" + strings.Join(calls, ","), self, "-child"}, childArgs...)
	exec.Command("strace", args...).Run()
	b, _ := os.ReadFile(log)
	counts := map[string]int{}
	for _, l := range strings.Split(string(b), "\n") {
		for _, c := range calls {
			if strings.Contains(l, " "+c+"(") {
				counts[c]++
			}
		}
	}
	return counts
}

// ---------------------------------------------------------------------------------------
// strace log of a complete run -> events of the Lean crash machine (trace validation)

var (
	reOpen   = regexp.MustCompile(`^(\d+)\s+openat\(AT_FDCWD(?:<[^>]*>)?, "([^"]+)", ([A-Z_|]+)(?:, [0-7]+)?\)\s+= (\d+)`)
	reWrite  = regexp.MustCompile(`^(\d+)\s+write\((\d+)<([^>]+)>, .*\)\s+= (\d+)`)
	reClose  = regexp.MustCompile(`^(\d+)\s+close\((\d+)<([^>]+)>\)\s+= 0`)
	reRename = regexp.MustCompile(`^(\d+)\s+renameat\(AT_FDCWD(?:<[^>]*>)?, "([^"]+)", AT_FDCWD(?:<[^>]*>)?, "([^"]+)"\)\s+= 0`)
	reMkdir  = regexp.MustCompile(`^(\d+)\s+mkdirat\(AT_FDCWD(?:<[^>]*>)?, "([^"]+)", [0-7]+\)\s+= (0|-1 EEXIST)`)
	reResume = regexp.MustCompile(`^(\d+)\s+<\.\.\. \w+ resumed>(.*)$`)
)

// ---------------------------------------------------------------------------------------
// extract under SIGKILL: the child is the real `desync extract`, the parent serves the chunks
// over HTTP, holds back the k-th request and everything after it, and kills the child

type holdServer struct {
	mu       sync.Mutex
	chunks   map[string][]byte // "/xxxx/<id>.cacnk" -> compressed storage bytes
	served   []string
	hold     int // requests with index >= hold are never answered; < 0: serve everything
	arrived  chan struct{}
	requests int
}

func (h *holdServer) ServeHTTP(w http.ResponseWriter, r *http.Request) {
	h.mu.Lock()
	k := h.requests
	h.requests++
	held := h.hold >= 0 && k >= h.hold
	if !held {
		h.served = append(h.served, r.URL.Path)
	}
	h.mu.Unlock()
	if held {
		select {
		case h.arrived <- struct{}{}:
		default:
		}
		<-r.Context().Done() // until the client is gone
		return
	}
	b, ok := h.chunks[r.URL.Path]
	if !ok {
		http.NotFound(w, r)
		return
	}
	w.Write(b)
}

func runC08(cfg Config) {
	rep := NewReport("C08", cfg.Tier, cfg.Seed,
		"(1) a child process stores chunks into a local store (compressed and uncompressed, 1..4 concurrent writers of the same chunk, 1..3 "+
			"chunks) and is killed by strace at the entry of the k-th openat / write / close / renameat / mkdirat / fchmod call for every k, and has its writes "+
			"cut short at every byte count by RLIMIT_FSIZE; afterwards every file not carrying the temp prefix must read back and verify under "+
			"its name's ID, and Prune must remove the temp files. (2) the syscall trace of a complete run is translated to events of the Lean "+
			"crash machine, which must accept it and end in the directory actually found on disk. (3) the real `desync extract` binary fetches "+
			"from an HTTP store that holds back the k-th request (every k, n = 1 and 4, with and without --in-place, destination absent / "+
			"holding other data) and is SIGKILLed: without --in-place the destination must be untouched; with --in-place the re-run must "+
			"complete with the exact blob and must fetch at most n-1 of the chunks the first run had been served (0 for n = 1), and its "+
			"result and counters must equal the Lean assemble model run on the crashed file as prior content; the in-place scenario is also run "+
			"onto a loop block device (when root and /dev/loop-control permit, else counted as skipped) next to a regular file with the same prior content. non-trivial = a run in which "+
			"the child really died before finishing")
	self, _ := os.Executable()
	m, err := StartModel(cfg.Driver)
	if err != nil {
		fatal(err)
	}
	defer m.Close()
	rng := rand.New(rand.NewSource(cfg.Seed))
	monitor := func(what, caseLine string) {
		rep.Disagree(Disagreement{Kind: "monitor", Case: caseLine, What: what})
	}
	if !straceOK {
		rep.Notes = append(rep.Notes, "strace not available: syscall-level crash injection skipped")
	}

	// ---- (1) store under crash
	calls := []string{"openat", "write", "close", "renameat", "mkdirat", "fchmod", "fchmodat", "unlinkat"}
	rounds := cfg.N(3, 12)
	for round := 0; round < rounds; round++ {
		unc := round%2 == 1
		writers := 1 + rng.Intn(4)
		var datas []string
		for k := 1 + rng.Intn(3); k > 0; k-- {
			d := randBytes(rng, 200+rng.Intn(3000))
			if rng.Intn(3) == 0 {
				d = bytes.Repeat([]byte{byte(rng.Intn(256))}, 500+rng.Intn(5000)) // compresses to a few bytes
			}
			datas = append(datas, hx(d))
		}
		base := []string{"store", "", b01(unc), strconv.Itoa(writers), "0"}
		desc := fmt.Sprintf("crash.store unc=%s writers=%d chunks=%d", b01(unc), writers, len(datas))
		run := func(tag string, k int, fsize int, wrap func(child []string) *exec.Cmd) {
			dir, _ := os.MkdirTemp(cfg.Work, "store")
			defer os.RemoveAll(dir)
			a := append([]string{}, base...)
			a[1] = dir
			a[4] = strconv.Itoa(fsize)
			a = append(a, datas...)
			cmd := wrap(a)
			err := cmd.Run()
			died := err != nil
			line := fmt.Sprintf("%s %s=%d", desc, tag, k)
			problems, nchunks, ntemps := inspectStore(dir, unc)
			rep.Count(line+" seed="+strconv.FormatInt(cfg.Seed, 10)+" round="+strconv.Itoa(round), died, "store:"+tag, fmt.Sprintf("died:%v", died),
				fmt.Sprintf("temps-left:%v", ntemps > 0), fmt.Sprintf("chunks-installed:%v", nchunks > 0))
			for _, p := range problems {
				monitor("after the process died: "+p+" [directory: "+listDir(dir)+"]", line)
			}
			if !died && nchunks != len(datas) {
				monitor(fmt.Sprintf("the child reported success but %d of %d chunks are in the store", nchunks, len(datas)), line)
			}
			// Prune removes what dead writers left behind and keeps the chunks
			s, err := desync.NewLocalStore(dir, desync.StoreOptions{Uncompressed: unc})
			if err == nil {
				ids := map[desync.ChunkID]struct{}{}
				for _, h := range datas {
					ids[desync.Digest.Sum(unhx(h))] = struct{}{}
				}
				if err := s.Prune(context.Background(), ids); err != nil {
					monitor("Prune after the crash failed: "+err.Error(), line)
				}
				_, n2, t2 := inspectStore(dir, unc)
				if t2 != 0 {
					monitor(fmt.Sprintf("Prune left %d temp files of dead writers behind", t2), line)
				}
				if n2 != nchunks {
					monitor(fmt.Sprintf("Prune removed referenced chunks (%d -> %d)", nchunks, n2), line)
				}
			}
		}
		if straceOK {
			log := filepath.Join(cfg.Work, "strace.log")
			dir0, _ := os.MkdirTemp(cfg.Work, "store")
			a := append([]string{}, base...)
			a[1] = dir0
			counts := countSyscalls(self, append(a, datas...), calls, log)
			os.RemoveAll(dir0)
			os.Remove(log)
			for _, c := range calls {
				n := counts[c] + 2
				step := 1
				if cfg.Tier != "thorough" && n > 40 {
					step = n / 40
				}
				for k := 1; k <= n; k += step {
					k := k
					run("kill-at-"+c, k, 0, func(child []string) *exec.Cmd {
						args := append([]string{"-f", "-o", "/dev/null", "-e", "trace=" + c, "-e", fmt.Sprintf("inject=%s:signal=KILL:when=%d", c, k), self, "-child"}, child...)
						return exec.Command("strace", args...)
					})
				}
			}
		}
		// writes cut short at every byte count
		maxLen := 0
		for _, h := range datas {
			if l := len(h) / 2; l > maxLen {
				maxLen = l
			}
		}
		step := 1
		if cfg.Tier != "thorough" {
			step = maxLen/60 + 1
		}
		for k := 1; k <= maxLen+2; k += step {
			run("fsize", k, k, func(child []string) *exec.Cmd { return exec.Command(self, append([]string{"-child"}, child...)...) })
		}
	}

	// ---- (2) trace validation of a complete run against the Lean crash machine
	if straceOK && m.cmd != nil {
		for it := 0; it < cfg.N(6, 40); it++ {
			unc := it%2 == 1
			writers := 1 + rng.Intn(3)
			var datas []string
			for k := 1 + rng.Intn(2); k > 0; k-- {
				datas = append(datas, hx(randBytes(rng, 100+rng.Intn(400))))
			}
			dir, _ := os.MkdirTemp(cfg.Work, "trace")
			log := filepath.Join(cfg.Work, "trace.log")
			args := append([]string{"-f", "-y", "-o", log, "-e", "trace=openat,write,close,renameat,mkdirat", self, "-child", "store", dir, b01(unc), strconv.Itoa(writers), "0"}, datas...)
			exec.Command("strace", args...).Run()
			b, _ := os.ReadFile(log)
			line, what := traceToCase(string(b), dir)
			os.Remove(log)
			if what != "" {
				monitor("the syscall trace of StoreChunk is not in the step language of the crash machine: "+what, "crash.accept "+line)
				os.RemoveAll(dir)
				continue
			}
			want := m.Ask("crash.accept " + line)
			got := "ok dir=" + dirContents(dir)
			rep.Count("crash.accept "+line, true, "store:trace")
			rep.Traces++
			if want != got {
				rep.Disagree(Disagreement{Kind: "correspondence", Case: "crash.accept " + clip(line, 3000), Model: clip(want, 800), Impl: clip(got, 800),
					What: "the Lean crash machine does not accept the syscall trace of the real StoreChunk, or ends in another directory"})
			}
			os.RemoveAll(dir)
		}
	}

	// ---- (3) extract under SIGKILL
	bin := filepath.Join(filepath.Dir(self), "desync")
	if _, err := os.Stat(bin); err != nil {
		rep.Notes = append(rep.Notes, "desync binary not built: extract crash runs skipped")
		rep.Write(cfg.Out)
		return
	}
	for it := 0; it < cfg.N(2, 8); it++ {
		c08Extract(cfg, rep, m, rng, bin, monitor)
	}
	c08BlockDev(cfg, rep, rng, bin, monitor) // the same scenario onto a loop block device (c08blockdev.go)
	rep.Write(cfg.Out)
}

// dirContents lists the files of the (single) fan-out directory tree as name:hex, sorted
func dirContents(dir string) string {
	var out []string
	filepath.Walk(dir, func(p string, info os.FileInfo, err error) error {
		if err == nil && !info.IsDir() {
			b, _ := os.ReadFile(p)
			rel, _ := filepath.Rel(dir, p)
			out = append(out, hx([]byte(rel))+":"+hx(b))
		}
		return nil
	})
	sort.Strings(out)
	return strings.Join(out, ",")
}

// traceToCase turns `strace -f -y` output into `writers=final|tmp|payload;… events=…`
func traceToCase(log, dir string) (string, string) {
	type wr struct {
		final, tmp string
		payload    []byte
		made       bool
	}
	var ws []*wr
	byTmp := map[string]*wr{}
	idx := map[*wr]int{}
	var events []string
	mkdirs := 0
	// join "<unfinished ...>" / "<... resumed>" pairs; the call takes effect where it completes
	pending := map[string]string{}
	var lines []string
	for _, l := range strings.Split(log, "\n") {
		if strings.HasSuffix(l, "<unfinished ...>") {
			pid := strings.Fields(l)[0]
			pending[pid] = strings.TrimSuffix(l, " <unfinished ...>")
			continue
		}
		if mm := reResume.FindStringSubmatch(l); mm != nil {
			lines = append(lines, pending[mm[1]]+mm[2])
			delete(pending, mm[1])
			continue
		}
		lines = append(lines, l)
	}
	for _, l := range lines {
		if !strings.Contains(l, dir) {
			continue
		}
		if mm := reMkdir.FindStringSubmatch(l); mm != nil {
			mkdirs++
			continue
		}
		if mm := reOpen.FindStringSubmatch(l); mm != nil {
			p := mm[2]
			if !strings.HasPrefix(filepath.Base(p), ".tmp-cacnk") {
				continue // the store directory itself etc.
			}
			if !strings.Contains(mm[3], "O_CREAT") || !strings.Contains(mm[3], "O_EXCL") {
				return "", "temp file opened without O_CREAT|O_EXCL: " + l
			}
			w := &wr{tmp: p}
			idx[w] = len(ws)
			ws = append(ws, w)
			byTmp[p] = w
			events = append(events, fmt.Sprintf("mk:%d", idx[w]), fmt.Sprintf("create:%d", idx[w]))
			continue
		}
		if mm := reWrite.FindStringSubmatch(l); mm != nil {
			w := byTmp[mm[3]]
			if w == nil {
				return "", "write to a file of the store that is not an open temp file: " + l
			}
			n, _ := strconv.Atoi(mm[4])
			events = append(events, fmt.Sprintf("write:%d:%d", idx[w], n))
			continue
		}
		if mm := reClose.FindStringSubmatch(l); mm != nil {
			if w := byTmp[mm[3]]; w != nil {
				events = append(events, fmt.Sprintf("close:%d", idx[w]))
			}
			continue
		}
		if mm := reRename.FindStringSubmatch(l); mm != nil {
			w := byTmp[mm[2]]
			if w == nil {
				return "", "rename of something that is not a temp file: " + l
			}
			w.final = mm[3]
			events = append(events, fmt.Sprintf("rename:%d", idx[w]))
			continue
		}
		if strings.Contains(l, "write(") || strings.Contains(l, "renameat(") {
			return "", "unrecognised operation on the store: " + l
		}
	}
	if mkdirs == 0 {
		return "", "no mkdir seen"
	}
	var wd []string
	for _, w := range ws {
		if w.final == "" {
			return "", "a temp file was never renamed: " + w.tmp
		}
		b, _ := os.ReadFile(w.final)
		rt, _ := filepath.Rel(dir, w.tmp)
		rf, _ := filepath.Rel(dir, w.final)
		wd = append(wd, hx([]byte(rf))+"|"+hx([]byte(rt))+"|"+hx(b))
	}
	return "writers=" + strings.Join(wd, ";") + " events=" + strings.Join(events, ","), ""
}

func c08Extract(cfg Config, rep *Report, m *Model, rng *rand.Rand, bin string, monitor func(string, string)) {
	// a blob of distinct chunks (so that every position needs its own fetch), chunked by the real chunker
	blob := randBytes(rng, 20000+rng.Intn(30000))
	min, avg, max := uint64(256), uint64(1024), uint64(4096)
	parts := chunkWith(blob, min, avg, max)
	table := tableOf("sha512", parts)
	idx := desync.Index{Index: desync.FormatIndex{FeatureFlags: desync.CaFormatExcludeNoDump | desync.CaFormatSHA512256, ChunkSizeMin: min, ChunkSizeAvg: avg, ChunkSizeMax: max}, Chunks: table}
	work, _ := os.MkdirTemp(cfg.Work, "extract")
	defer os.RemoveAll(work)
	idxPath := filepath.Join(work, "blob.caibx")
	f, _ := os.Create(idxPath)
	idx.WriteTo(f)
	f.Close()
	srv := &holdServer{chunks: map[string][]byte{}, arrived: make(chan struct{}, 1), hold: -1}
	pathOf := map[desync.ChunkID]string{}
	for i, p := range parts {
		st, _ := desync.Compress(p)
		id := table[i].ID.String()
		srv.chunks["/"+id[:4]+"/"+id+".cacnk"] = st
		pathOf[table[i].ID] = "/" + id[:4] + "/" + id + ".cacnk"
	}
	ln, err := net.Listen("tcp", "127.0.0.1:0")
	if err != nil {
		rep.Notes = append(rep.Notes, "cannot listen on localhost: "+err.Error())
		return
	}
	hs := &http.Server{Handler: srv}
	go hs.Serve(ln)
	defer hs.Close()
	url := "http://" + ln.Addr().String() + "/"
	total := len(parts)
	ks := []int{0, 1, total / 2, total - 1}
	if cfg.Tier == "thorough" {
		ks = nil
		for k := 0; k < total; k++ {
			ks = append(ks, k)
		}
	}
	for _, inplace := range []bool{false, true} {
		for _, n := range []int{1, 4} {
			for _, k := range ks {
				for _, prior := range []string{"absent", "other", "link"} {
					if prior == "link" && (inplace || k%2 == 1) {
						continue
					}
					dst := filepath.Join(work, fmt.Sprintf("out-%v-%d-%d-%s", inplace, n, k, prior))
					var before []byte
					if prior == "other" {
						before = randBytes(rng, 5000+rng.Intn(60000))
						os.WriteFile(dst, before, 0644)
					}
					if prior == "link" { // the destination path is a symbolic link to a file with other content
						before = randBytes(rng, 5000+rng.Intn(60000))
						os.WriteFile(dst+".target", before, 0644)
						os.Symlink(dst+".target", dst)
					}
					srv.mu.Lock()
					srv.hold, srv.requests, srv.served = k, 0, nil
					srv.mu.Unlock()
					args := []string{"extract", "-n", strconv.Itoa(n), "-s", url, "--error-retry", "0"}
					if inplace {
						args = append(args, "--in-place")
					}
					args = append(args, idxPath, dst)
					cmd := exec.Command(bin, args...)
					cmd.Env = append(os.Environ(), "HOME="+work)
					if err := cmd.Start(); err != nil {
						rep.Notes = append(rep.Notes, "cannot start desync: "+err.Error())
						return
					}
					select {
					case <-srv.arrived:
					case <-time.After(20 * time.Second):
					}
					cmd.Process.Signal(syscall.SIGKILL)
					cmd.Wait()
					srv.mu.Lock()
					served := append([]string{}, srv.served...)
					srv.hold = -1
					srv.mu.Unlock()
					line := fmt.Sprintf("crash.extract inplace=%v n=%d kill-at-request=%d prior=%s chunks=%d blob-seed=%d", inplace, n, k, prior, total, cfg.Seed)
					rep.Count(line, true, fmt.Sprintf("extract:inplace=%v", inplace), fmt.Sprintf("n=%d", n))
					after, rerr := os.ReadFile(dst)
					if !inplace {
						if prior == "absent" && rerr == nil {
							monitor(fmt.Sprintf("extract without --in-place was killed and left a %d-byte file at the destination, which did not exist before", len(after)), line)
						}
						if prior == "other" && !bytes.Equal(after, before) {
							monitor("extract without --in-place was killed and the destination no longer holds its previous content", line)
						}
						if prior == "link" {
							fi, lerr := os.Lstat(dst)
							tgt, _ := os.ReadFile(dst + ".target")
							if lerr != nil || fi.Mode()&os.ModeSymlink == 0 || !bytes.Equal(after, before) || !bytes.Equal(tgt, before) {
								monitor("extract without --in-place onto a symbolic link was killed and the destination path (or the file the link points to) no longer holds its previous state", line)
							}
						}
						continue
					}
					// in place: re-run to completion
					srv.mu.Lock()
					srv.requests, srv.served = 0, nil
					srv.mu.Unlock()
					crashed := after
					// the model's prediction for the re-run (n = 1 only: the counters are deterministic then)
					var want string
					if n == 1 && m.cmd != nil && rerr == nil {
						c := &asmCase{alg: "sha512", bs: 4096, max: max, act: "bail", n: 1, prior: &crashed, idx: table, store: map[desync.ChunkID]*[]byte{}}
						for i := range parts {
							d := parts[i]
							if _, ok := c.store[table[i].ID]; !ok {
								c.store[table[i].ID] = &d
								c.storeOr = append(c.storeOr, table[i].ID)
							}
						}
						want = m.Ask(c.line())
					}
					out, err := exec.Command(bin, append([]string{"extract", "-n", strconv.Itoa(n), "-s", url, "--error-retry", "0", "--in-place", "--print-stats", idxPath, dst}, []string{}...)...).CombinedOutput()
					if err != nil {
						monitor("the re-run of an in-place extract that had been killed failed: "+clip(string(out), 300), line)
						continue
					}
					final, _ := os.ReadFile(dst)
					if !bytes.Equal(final, blob) {
						monitor("the re-run of a killed in-place extract reported success but the output differs from the blob", line)
					}
					srv.mu.Lock()
					again := 0
					seen := map[string]bool{}
					for _, p := range served {
						seen[p] = true
					}
					for _, p := range srv.served {
						if seen[p] {
							again++
						}
					}
					rerun := len(srv.served)
					srv.mu.Unlock()
					if again > n-1 {
						monitor(fmt.Sprintf("the re-run fetched %d chunks again that the killed run had already been served (at most %d can have been unwritten)", again, n-1), line)
					}
					if want != "" {
						// ChunksFromStore / ChunksInPlace of the re-run against the model run on the crashed file
						got := fmt.Sprintf("ok t=%s", hx(final))
						wf := strings.Fields(want)
						if len(wf) < 3 || wf[0]+" "+wf[1] != got {
							rep.Disagree(Disagreement{Kind: "correspondence", Case: line, Model: clip(want, 200), Impl: clip(got, 200), What: "re-run result differs from the assemble model run on the crashed file"})
						} else if st := strings.Split(strings.TrimPrefix(wf[2], "st="), ","); len(st) == 5 && st[0] != strconv.Itoa(rerun) {
							rep.Disagree(Disagreement{Kind: "correspondence", Case: line, Model: "fetches=" + st[0], Impl: "fetches=" + strconv.Itoa(rerun),
								What: "the re-run's number of store fetches differs from the assemble model run on the crashed file"})
						}
					}
					os.Remove(dst)
				}
			}
		}
	}
}
