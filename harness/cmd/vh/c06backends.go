package main

import (
	"context"
	"fmt"
	"math/rand"
	"net/url"
	"os"
	"path/filepath"

	"github.com/folbricht/desync"
)

// c06RealBackends: "if any store operation fails at any point the command reports an error rather than success" with
// the REAL write stores as targets, where the failure happens inside the backend's own upload code (retry loops, error
// wrapping): an S3 store (the in-process S3 service) that accepts k uploads and then refuses every further one — the
// backend is full (507), the credentials expired (403), an outage longer than the retry budget (503) — and an SFTP
// store whose directory becomes read-only after k chunks.  ChopFile, ChunkStream and Copy into it: a nil result must
// come with every referenced chunk readable, valid, from the target.
func c06RealBackends(cfg Config, rep *Report, rng *rand.Rand, monitor func(what, caseLine string)) {
	setDigest("sha512")
	sshWrap, sshErr := sftpWrapper(cfg.Work)
	for it := 0; it < cfg.N(12, 120); it++ {
		nch := 8 + rng.Intn(16)
		blob, idx, data := makeBlob(rng, nch, it%3 == 0)
		blobFile := filepath.Join(cfg.Work, "blob06b")
		os.WriteFile(blobFile, blob, 0644)
		defer os.Remove(blobFile)
		src := newMemStore()
		distinct := 0
		for id, b := range data {
			src.chunks[id] = b
			distinct++
		}
		budget := rng.Intn(distinct + 2) // may also be enough for everything
		status := []int{507, 403}[rng.Intn(2)] // (a 503 is retried inside the minio client with its own back-off: seconds per upload)
		retry := []int{0, 1, 3}[rng.Intn(3)]
		fn := []string{"ChopFile", "Copy", "ChunkStream"}[it%3]
		n := 1 + rng.Intn(4)
		backend := "s3"
		if it%4 == 3 && sshErr == nil {
			backend = "sftp"
		}
		caseLine := fmt.Sprintf("bulk.real backend=%s fn=%s n=%d chunks=%d distinct=%d uploads-accepted=%d then=%d retry=%d", backend, fn, n, nch, distinct, budget, status, retry)
		rep.Count(caseLine, budget < distinct, "real-backend:"+backend, "real-fn:"+fn)
		var ws desync.WriteStore
		var cleanup func()
		switch backend {
		case "s3":
			f := newFakeS3()
			f.putBudget, f.putFailStatus = budget, status
			s3s, err := f.chunkStore("bkt", "c/", desync.StoreOptions{ErrorRetry: retry, ErrorRetryBaseInterval: 0})
			if err != nil {
				f.Close()
				continue
			}
			ws, cleanup = s3s, f.Close
		default:
			dir := filepath.Join(cfg.Work, fmt.Sprintf("sftp06-%d", it))
			os.MkdirAll(dir, 0755)
			os.Setenv("CASYNC_SSH_PATH", sshWrap)
			su, _ := url.Parse("sftp://localhost" + dir)
			ss, err := desync.NewSFTPStore(su, desync.StoreOptions{N: 1})
			if err != nil {
				continue
			}
			// the fan-out directories of the chunks beyond the budget are files: creating the chunk below them fails
			k := 0
			for id := range data {
				if k >= budget {
					os.WriteFile(filepath.Join(dir, id.String()[:4]), []byte("in the way"), 0644)
				}
				k++
			}
			ws, cleanup = ss, func() { ss.Close(); os.RemoveAll(dir) }
		}
		var err error
		got := idx
		switch fn {
		case "ChopFile":
			err = desync.ChopFile(context.Background(), blobFile, idx.Chunks, ws, n, desync.NewProgressBar(""))
		case "Copy":
			ids := make([]desync.ChunkID, 0, len(idx.Chunks))
			for _, c := range idx.Chunks {
				ids = append(ids, c.ID)
			}
			err = desync.Copy(context.Background(), ids, src, ws, n, desync.NewProgressBar(""))
		default:
			f, _ := os.Open(blobFile)
			ch, _ := desync.NewChunker(f, 16, 64, 256)
			got, err = desync.ChunkStream(context.Background(), ch, ws, n)
			f.Close()
		}
		if err == nil {
			for _, c := range got.Chunks {
				ck, gerr := ws.GetChunk(c.ID)
				if gerr != nil {
					monitor(fmt.Sprintf("%s into a %s store reported success but a referenced chunk cannot be read back from it: %v", fn, backend, gerr), caseLine)
					break
				}
				if b, derr := ck.Data(); derr != nil || desync.Digest.Sum(b) != c.ID {
					monitor(fmt.Sprintf("%s into a %s store reported success but a stored chunk is invalid", fn, backend), caseLine)
					break
				}
			}
		} else if budget >= distinct && backend == "s3" {
			monitor(fmt.Sprintf("%s into an S3 store that accepts every upload failed: %v", fn, err), caseLine)
		}
		cleanup()
	}
}
