package main

// A minimal in-process Google Cloud Storage service for the REAL cloud.google.com/go/storage client (v1.30.1), which
// honours STORAGE_EMULATOR_HOST=host:port (plain HTTP, no credentials).  It speaks the part of the API desync's GCS
// stores (gcs.go, gcsindex.go) cause the client to use:
//
//   download   GET    /<bucket>/<object>                      (XML API; the client's default for reads) — answers with
//                                                             Content-Length, X-Goog-Generation, X-Goog-Hash: crc32c=…;
//                                                             a `Range: bytes=k-` request (the client's own re-open after
//                                                             a broken body) gets 206 + Content-Range
//              GET    /storage/v1/b/<b>/o/<o>?alt=media       (JSON API reads) likewise
//   metadata   GET    /storage/v1/b/<b>/o/<o>                 (ObjectHandle.Attrs)
//   upload     POST   /upload/storage/v1/b/<b>/o?uploadType=multipart   (Writer; objects below the 16 MiB chunk size)
//              POST   …?uploadType=resumable, PUT …&upload_id=…         (larger ones)
//   list       GET    /storage/v1/b/<b>/o?prefix=…&pageToken=…          pages of `pageSize` names in name order; the next
//                                                             page is computed from the objects present WHEN IT IS ASKED FOR
//   delete     DELETE /storage/v1/b/<b>/o/<o>                 404 for an object that is not there (unlike S3's 204)
//
// Faults: `script["<KIND> <object>"]` holds the answers to the next requests of that kind for that object (KIND = GET,
// META, POST, DELETE; LIST with the prefix as object), one entry per HTTP request:
//   200          handled normally
//   404 403 …    that status with a JSON error body (the client maps 404 to storage.ErrObjectNotExist; it RETRIES 408,
//                429 and 5xx of idempotent calls — download, metadata, list — with a back-off of up to seconds, for ever
//                when the context has no deadline, and does NOT retry uploads and deletes without preconditions)
//   trunc:k      GET: 200, the full Content-Length announced, k bytes sent, connection closed
//   badcrc       GET: 200, the whole body, a CRC32C header that does not fit
//   wrong        GET: 200, other bytes of the same length with THEIR checksum (a consistent answer for another object)
//   lost         POST / DELETE: the request is carried out and the connection closed without an answer
// When the script for a key is used up, requests are handled normally.

import (
	"encoding/base64"
	"encoding/binary"
	"encoding/json"
	"fmt"
	"hash/crc32"
	"io"
	"mime"
	"mime/multipart"
	"net/http"
	"net/http/httptest"
	"net/url"
	"os"
	"sort"
	"strconv"
	"strings"
	"sync"

	"github.com/folbricht/desync"
)

type fakeGCS struct {
	mu       sync.Mutex
	objects  map[string][]byte // "bucket/name" -> content
	ctypes   map[string]string
	gen      int64
	gens     map[string]int64
	srv      *httptest.Server
	log      []string // "KIND name"
	script   map[string][]string
	pageSize int
	sessions map[string]string // resumable upload id -> "bucket/name"
	// delAnswers: how the k-th DELETE request is treated, whatever its object (normal | refuse | lost); used up: normal
	delAnswers []string
}

func newFakeGCS() *fakeGCS {
	f := &fakeGCS{objects: map[string][]byte{}, ctypes: map[string]string{}, gens: map[string]int64{}, script: map[string][]string{},
		pageSize: 1000, sessions: map[string]string{}}
	f.srv = httptest.NewServer(http.HandlerFunc(f.serve))
	os.Setenv("STORAGE_EMULATOR_HOST", strings.TrimPrefix(f.srv.URL, "http://"))
	return f
}

func (f *fakeGCS) Close() {
	f.srv.CloseClientConnections()
	f.srv.Close()
}

func (f *fakeGCS) put(bucket, name string, b []byte) {
	f.mu.Lock()
	f.store(bucket+"/"+name, b, "application/octet-stream")
	f.mu.Unlock()
}

func (f *fakeGCS) store(full string, b []byte, ctype string) {
	f.gen++
	f.objects[full] = append([]byte{}, b...)
	f.ctypes[full] = ctype
	f.gens[full] = f.gen
}

func (f *fakeGCS) get(bucket, name string) ([]byte, bool) {
	f.mu.Lock()
	defer f.mu.Unlock()
	b, ok := f.objects[bucket+"/"+name]
	return b, ok
}

func (f *fakeGCS) names(bucket, prefix string) []string {
	var ks []string
	for k := range f.objects {
		if strings.HasPrefix(k, bucket+"/") {
			n := strings.TrimPrefix(k, bucket+"/")
			if strings.HasPrefix(n, prefix) {
				ks = append(ks, n)
			}
		}
	}
	sort.Strings(ks)
	return ks
}

func (f *fakeGCS) keys(bucket, prefix string) []string {
	f.mu.Lock()
	defer f.mu.Unlock()
	return f.names(bucket, prefix)
}

func (f *fakeGCS) count(entry string) int {
	f.mu.Lock()
	defer f.mu.Unlock()
	n := 0
	for _, l := range f.log {
		if l == entry {
			n++
		}
	}
	return n
}

func crc32cOf(b []byte) string {
	var s [4]byte
	binary.BigEndian.PutUint32(s[:], crc32.Checksum(b, crc32.MakeTable(crc32.Castagnoli)))
	return base64.StdEncoding.EncodeToString(s[:])
}

func gcsError(w http.ResponseWriter, status int) {
	w.Header().Set("Content-Type", "application/json; charset=UTF-8")
	w.WriteHeader(status)
	msg := http.StatusText(status)
	fmt.Fprintf(w, `{"error":{"code":%d,"message":%q,"errors":[{"message":%q,"domain":"global","reason":"scripted"}]}}`, status, msg, msg)
}

func dropConnection(w http.ResponseWriter) {
	if hj, ok := w.(http.Hijacker); ok {
		if c, _, err := hj.Hijack(); err == nil {
			c.Close()
		}
	}
}

func (f *fakeGCS) resource(bucket, name string) map[string]any {
	full := bucket + "/" + name
	b := f.objects[full]
	return map[string]any{
		"kind": "storage#object", "id": full + "/" + fmt.Sprint(f.gens[full]), "name": name, "bucket": bucket,
		"generation": fmt.Sprint(f.gens[full]), "metageneration": "1", "contentType": f.ctypes[full],
		"size": fmt.Sprint(len(b)), "crc32c": crc32cOf(b), "storageClass": "STANDARD",
		"timeCreated": "2020-01-01T00:00:00.000Z", "updated": "2020-01-01T00:00:00.000Z",
	}
}

// next takes the next scripted answer for "KIND name" ("" when there is none or it is 200)
func (f *fakeGCS) next(kind, name string) string {
	k := kind + " " + name
	f.log = append(f.log, k)
	sc := f.script[k]
	if len(sc) == 0 {
		return ""
	}
	f.script[k] = sc[1:]
	if sc[0] == "200" {
		return ""
	}
	return sc[0]
}

func (f *fakeGCS) serve(w http.ResponseWriter, r *http.Request) {
	f.mu.Lock()
	defer f.mu.Unlock()
	p := r.URL.EscapedPath()
	q := r.URL.Query()
	unesc := func(s string) string { u, _ := url.PathUnescape(s); return u }
	switch {
	case strings.HasPrefix(p, "/upload/storage/v1/b/"):
		rest := strings.TrimPrefix(p, "/upload/storage/v1/b/")
		bucket := unesc(strings.SplitN(rest, "/", 2)[0])
		f.upload(w, r, bucket, q)
	case strings.HasPrefix(p, "/storage/v1/b/"):
		rest := strings.TrimPrefix(p, "/storage/v1/b/")
		parts := strings.SplitN(rest, "/", 3)
		bucket := unesc(parts[0])
		if len(parts) < 2 || parts[1] != "o" {
			w.Header().Set("Content-Type", "application/json")
			json.NewEncoder(w).Encode(map[string]any{"kind": "storage#bucket", "name": bucket})
			return
		}
		if len(parts) == 2 || parts[2] == "" {
			f.list(w, r, bucket, q)
			return
		}
		name := unesc(parts[2])
		switch r.Method {
		case http.MethodGet:
			if q.Get("alt") == "media" {
				f.download(w, r, bucket, name)
			} else {
				f.meta(w, bucket, name)
			}
		case http.MethodDelete:
			f.delete(w, bucket, name)
		default:
			gcsError(w, 405)
		}
	default: // XML API: /<bucket>/<object>
		parts := strings.SplitN(strings.TrimPrefix(p, "/"), "/", 2)
		if len(parts) != 2 || (r.Method != http.MethodGet && r.Method != http.MethodHead) {
			gcsError(w, 400)
			return
		}
		f.download(w, r, unesc(parts[0]), unesc(parts[1]))
	}
}

func (f *fakeGCS) download(w http.ResponseWriter, r *http.Request, bucket, name string) {
	full := bucket + "/" + name
	o := f.next("GET", name)
	b, ok := f.objects[full]
	switch {
	case o == "" || o == "badcrc" || o == "wrong" || strings.HasPrefix(o, "trunc:"):
	default:
		st, _ := strconv.Atoi(o)
		gcsError(w, st)
		return
	}
	if !ok {
		gcsError(w, 404)
		return
	}
	if o == "wrong" {
		b = append([]byte{}, b...)
		for i := range b {
			b[i] ^= 0x5a
		}
		if len(b) == 0 {
			b = []byte("x")
		}
	}
	w.Header().Set("Content-Type", f.ctypes[full])
	w.Header().Set("X-Goog-Generation", fmt.Sprint(f.gens[full]))
	w.Header().Set("X-Goog-Metageneration", "1")
	w.Header().Set("Last-Modified", "Wed, 01 Jan 2020 00:00:00 GMT")
	start := 0
	if rg := r.Header.Get("Range"); strings.HasPrefix(rg, "bytes=") && strings.HasSuffix(rg, "-") {
		start, _ = strconv.Atoi(strings.TrimSuffix(strings.TrimPrefix(rg, "bytes="), "-"))
		if start > len(b) {
			w.Header().Set("Content-Range", fmt.Sprintf("bytes */%d", len(b)))
			gcsError(w, 416)
			return
		}
		w.Header().Set("Content-Range", fmt.Sprintf("bytes %d-%d/%d", start, len(b)-1, len(b)))
	} else {
		crc := crc32cOf(b)
		if o == "badcrc" {
			crc = crc32cOf(append([]byte("not this one"), b...))
		}
		w.Header().Set("X-Goog-Hash", "crc32c="+crc)
	}
	body := b[start:]
	w.Header().Set("Content-Length", fmt.Sprint(len(body)))
	if start > 0 {
		w.WriteHeader(206)
	} else {
		w.WriteHeader(200)
	}
	if r.Method == http.MethodHead {
		return
	}
	if strings.HasPrefix(o, "trunc:") {
		k, _ := strconv.Atoi(strings.TrimPrefix(o, "trunc:"))
		if k > len(body) {
			k = len(body)
		}
		w.Write(body[:k])
		if fl, ok := w.(http.Flusher); ok {
			fl.Flush()
		}
		dropConnection(w)
		return
	}
	w.Write(body)
}

func (f *fakeGCS) meta(w http.ResponseWriter, bucket, name string) {
	if o := f.next("META", name); o != "" {
		st, _ := strconv.Atoi(o)
		gcsError(w, st)
		return
	}
	if _, ok := f.objects[bucket+"/"+name]; !ok {
		gcsError(w, 404)
		return
	}
	w.Header().Set("Content-Type", "application/json; charset=UTF-8")
	json.NewEncoder(w).Encode(f.resource(bucket, name))
}

func (f *fakeGCS) delete(w http.ResponseWriter, bucket, name string) {
	o := f.next("DELETE", name)
	if len(f.delAnswers) > 0 {
		switch f.delAnswers[0] {
		case "refuse":
			o = "403"
		case "lost":
			o = "lost"
		}
		f.delAnswers = f.delAnswers[1:]
	}
	if o != "" && o != "lost" {
		st, _ := strconv.Atoi(o)
		gcsError(w, st)
		return
	}
	full := bucket + "/" + name
	if _, ok := f.objects[full]; !ok {
		gcsError(w, 404)
		return
	}
	delete(f.objects, full)
	if o == "lost" {
		dropConnection(w)
		return
	}
	w.WriteHeader(204)
}

func (f *fakeGCS) list(w http.ResponseWriter, r *http.Request, bucket string, q url.Values) {
	prefix := q.Get("prefix")
	if o := f.next("LIST", prefix); o != "" {
		st, _ := strconv.Atoi(o)
		gcsError(w, st)
		return
	}
	tok := q.Get("pageToken") // the last name of the previous page
	var items []any
	next := ""
	for _, n := range f.names(bucket, prefix) {
		if tok != "" && n <= tok {
			continue
		}
		if len(items) == f.pageSize {
			next = items[len(items)-1].(map[string]any)["name"].(string)
			break
		}
		items = append(items, f.resource(bucket, n))
	}
	res := map[string]any{"kind": "storage#objects"}
	if len(items) > 0 {
		res["items"] = items
	}
	if next != "" {
		res["nextPageToken"] = next
	}
	w.Header().Set("Content-Type", "application/json; charset=UTF-8")
	json.NewEncoder(w).Encode(res)
}

func (f *fakeGCS) upload(w http.ResponseWriter, r *http.Request, bucket string, q url.Values) {
	finish := func(name string, content []byte, ctype, o string) {
		if o != "" && o != "lost" {
			st, _ := strconv.Atoi(o)
			gcsError(w, st)
			return
		}
		f.store(bucket+"/"+name, content, ctype)
		if o == "lost" {
			dropConnection(w)
			return
		}
		w.Header().Set("Content-Type", "application/json; charset=UTF-8")
		json.NewEncoder(w).Encode(f.resource(bucket, name))
	}
	switch {
	case q.Get("upload_id") != "":
		id := q.Get("upload_id")
		full, ok := f.sessions[id]
		if !ok {
			gcsError(w, 404)
			return
		}
		name := strings.TrimPrefix(full, bucket+"/")
		body, _ := io.ReadAll(r.Body)
		part := f.sessions[id+"/data"] + string(body)
		f.sessions[id+"/data"] = part
		cr := r.Header.Get("Content-Range") // bytes a-b/total  |  bytes a-b/*  |  bytes */total
		if strings.HasSuffix(cr, "/*") {
			w.Header().Set("Range", fmt.Sprintf("bytes=0-%d", len(part)-1))
			w.Header().Set("X-HTTP-Status-Code-Override", "308") // the client sends X-GUploader-No-308: yes
			w.WriteHeader(200)
			return
		}
		ctype := f.sessions[id+"/ctype"]
		delete(f.sessions, id)
		delete(f.sessions, id+"/data")
		delete(f.sessions, id+"/ctype")
		finish(name, []byte(part), ctype, f.next("POST", name))
	case q.Get("uploadType") == "resumable":
		var md struct {
			Name        string `json:"name"`
			ContentType string `json:"contentType"`
		}
		json.NewDecoder(r.Body).Decode(&md)
		if md.Name == "" {
			md.Name = q.Get("name")
		}
		id := fmt.Sprintf("u%d", len(f.sessions))
		f.sessions[id] = bucket + "/" + md.Name
		f.sessions[id+"/ctype"] = md.ContentType
		w.Header().Set("Location", f.srv.URL+"/upload/storage/v1/b/"+bucket+"/o?uploadType=resumable&upload_id="+id)
		w.WriteHeader(200)
	default: // multipart: part 1 the JSON metadata, part 2 the content
		_, params, err := mime.ParseMediaType(r.Header.Get("Content-Type"))
		if err != nil {
			gcsError(w, 400)
			return
		}
		mr := multipart.NewReader(r.Body, params["boundary"])
		p1, err := mr.NextPart()
		if err != nil {
			gcsError(w, 400)
			return
		}
		var md struct {
			Name        string `json:"name"`
			ContentType string `json:"contentType"`
		}
		json.NewDecoder(p1).Decode(&md)
		p2, err := mr.NextPart()
		if err != nil {
			gcsError(w, 400)
			return
		}
		content, _ := io.ReadAll(p2)
		io.Copy(io.Discard, r.Body)
		finish(md.Name, content, md.ContentType, f.next("POST", md.Name))
	}
}

func gcsURL(bucket, prefix string) *url.URL {
	u, _ := url.Parse("gs://" + bucket + "/" + prefix)
	return u
}

// chunkStore: the REAL desync.GCStore with the real client, which finds the service through STORAGE_EMULATOR_HOST
func (f *fakeGCS) chunkStore(bucket, prefix string, opt desync.StoreOptions) (desync.GCStore, error) {
	return desync.NewGCStore(gcsURL(bucket, prefix), opt)
}

func (f *fakeGCS) indexStore(bucket, prefix string, opt desync.StoreOptions) (desync.GCIndexStore, error) {
	return desync.NewGCIndexStore(gcsURL(bucket, prefix), opt)
}
