package main

// The FUSE node layer of `desync mount-index` (C09: IndexMountFS / indexFile, C10: SparseMountFS / sparseIndexFile) driven
// the way the kernel drives it, without a kernel: go-fuse's raw bridge (fs.NewNodeFS) is built in-process on the real file
// system object (NewNodeFS runs OnAdd), and LOOKUP / GETATTR / OPEN / READ / RELEASE are sent to it as raw requests.  The
// replies are compared with the model (Model/MountFS.lean, driver commands mfs.index / mfs.sparse); a second, independent
// monitor plays the kernel's side of read(2) by contract (clip to the GETATTR size, split into requests, a short reply ends
// the read) and compares what a user would get with the blob.  `desync cat -o/-l` is compared through the binary (cat.run).

import (
	"bytes"
	"context"
	"fmt"
	"math/rand"
	"os"
	"path/filepath"
	"strconv"
	"strings"
	"syscall"
	"time"

	"github.com/folbricht/desync"
	"github.com/hanwen/go-fuse/v2/fs"
	"github.com/hanwen/go-fuse/v2/fuse"
)

func mfsScenario(a kv) (desync.Index, *scriptedStore) {
	b := map[string]string{}
	for k, v := range a {
		if k != "reqs" {
			b[k] = v
		}
	}
	idx, store, _ := mhScenario(b)
	return idx, store
}

func errnoName(st fuse.Status) string {
	switch syscall.Errno(st) {
	case syscall.EIO:
		return "EIO"
	case syscall.ENOENT:
		return "ENOENT"
	case syscall.EBADF:
		return "EBADF"
	}
	return fmt.Sprintf("errno%d", int(st))
}

// rawMount is one mounted file system behind go-fuse's bridge
type rawMount struct {
	raw    fuse.RawFileSystem
	name   string
	node   uint64         // node id of the file, from LOOKUP
	fhs    map[int]uint64 // model handle number -> go-fuse handle
	nextFh int
}

func newRawMount(root fs.InodeEmbedder, name string) *rawMount {
	sec := time.Second
	return &rawMount{raw: fs.NewNodeFS(root, &fs.Options{EntryTimeout: &sec, AttrTimeout: &sec}), name: name, fhs: map[int]uint64{}}
}

func (m *rawMount) lookup(name string) (fuse.Status, *fuse.EntryOut) {
	var out fuse.EntryOut
	st := m.raw.Lookup(nil, &fuse.InHeader{NodeId: 1}, name, &out)
	if st == fuse.OK && name == m.name {
		m.node = out.NodeId
	}
	return st, &out
}

func (m *rawMount) ensureNode() bool {
	if m.node == 0 {
		m.lookup(m.name)
	}
	return m.node != 0
}

// request runs one request of the case line and returns the canonical reply
func (m *rawMount) request(op string) string {
	switch {
	case op == "G":
		if !m.ensureNode() {
			return "no-node"
		}
		var out fuse.AttrOut
		if st := m.raw.GetAttr(nil, &fuse.GetAttrIn{InHeader: fuse.InHeader{NodeId: m.node}}, &out); st != fuse.OK {
			return "e:" + errnoName(st)
		}
		return fmt.Sprintf("a:%d:%d", out.Mode, out.Size)
	case strings.HasPrefix(op, "L"):
		st, out := m.lookup(op[1:])
		if st != fuse.OK {
			return "e:" + errnoName(st)
		}
		return fmt.Sprintf("l:%d", out.Mode&syscall.S_IFMT)
	case op == "O":
		if !m.ensureNode() {
			return "no-node"
		}
		var out fuse.OpenOut
		if st := m.raw.Open(nil, &fuse.OpenIn{InHeader: fuse.InHeader{NodeId: m.node}, Flags: uint32(os.O_RDONLY)}, &out); st != fuse.OK {
			return "e:" + errnoName(st)
		}
		k := m.nextFh
		m.nextFh++
		m.fhs[k] = out.Fh
		return fmt.Sprintf("o:%d:%d", k, out.OpenFlags)
	case strings.HasPrefix(op, "R"):
		f := strings.Split(op[1:], ":")
		if len(f) != 3 {
			return "bad-op"
		}
		k, _ := strconv.Atoi(f[0])
		off, _ := strconv.ParseUint(f[1], 10, 64)
		n, _ := strconv.Atoi(f[2])
		fh, open := m.fhs[k]
		if !open {
			return "e:EBADF" // the kernel never sends a request on a handle it does not hold; the bridge would not find it
		}
		b, st := m.read(fh, off, n)
		if st != fuse.OK {
			return "e:" + errnoName(st)
		}
		return "d:" + hx(b)
	case strings.HasPrefix(op, "C"):
		k, _ := strconv.Atoi(op[1:])
		fh, open := m.fhs[k]
		if !open {
			return "e:EBADF"
		}
		m.raw.Release(nil, &fuse.ReleaseIn{InHeader: fuse.InHeader{NodeId: m.node}, Fh: fh})
		delete(m.fhs, k)
		return "c"
	}
	return "bad-op"
}

// read sends one READ request.  What reaches the kernel is what the server writes into the reply: the payload only with
// status OK, and never more than the size asked for.
func (m *rawMount) read(fh uint64, off uint64, n int) ([]byte, fuse.Status) {
	buf := make([]byte, n)
	res, st := m.raw.Read(nil, &fuse.ReadIn{InHeader: fuse.InHeader{NodeId: m.node}, Fh: fh, Offset: off, Size: uint32(n)}, buf)
	if st != fuse.OK {
		return nil, st
	}
	b, st2 := res.Bytes(make([]byte, n))
	if st2 != fuse.OK {
		return nil, st2
	}
	return append([]byte{}, b...), fuse.OK
}

// kernelRead plays the kernel's side of read(2) by contract (Model/MountFS.lean kread): GETATTR size, clip unless
// direct-io, requests of random sizes, a short reply or an errno ends the read
func (m *rawMount) kernelRead(rng *rand.Rand, off, n int) (data []byte, errno bool, problem string) {
	if !m.ensureNode() {
		return nil, false, "no-node"
	}
	var at fuse.AttrOut
	if st := m.raw.GetAttr(nil, &fuse.GetAttrIn{InHeader: fuse.InHeader{NodeId: m.node}}, &at); st != fuse.OK {
		return nil, true, ""
	}
	var oo fuse.OpenOut
	if st := m.raw.Open(nil, &fuse.OpenIn{InHeader: fuse.InHeader{NodeId: m.node}}, &oo); st != fuse.OK {
		return nil, true, ""
	}
	defer m.raw.Release(nil, &fuse.ReleaseIn{InHeader: fuse.InHeader{NodeId: m.node}, Fh: oo.Fh})
	if oo.OpenFlags&fuse.FOPEN_DIRECT_IO == 0 {
		if uint64(off) >= at.Size {
			return nil, false, ""
		}
		if uint64(off+n) > at.Size {
			n = int(at.Size) - off
		}
	}
	for n > 0 {
		l := 1 + rng.Intn(n)
		if rng.Intn(3) == 0 {
			l = n
		}
		b, st := m.read(oo.Fh, uint64(off), l)
		if st != fuse.OK {
			return data, len(data) == 0, ""
		}
		if len(b) > l {
			b = b[:l]
		}
		data = append(data, b...)
		if len(b) < l {
			return data, false, ""
		}
		off += l
		n -= l
	}
	return data, false, ""
}

func implMfsIndex(line string) string {
	_, a := parseCase(line)
	idx, store := mfsScenario(a)
	return guard(func() string {
		m := newRawMount(desync.NewIndexMountFS(idx, a["name"], store), a["name"])
		var out []string
		for _, op := range strings.Split(a["reqs"], ",") {
			if op != "" {
				out = append(out, m.request(op))
			}
		}
		return strings.Join(out, ",") + " calls=" + strconv.Itoa(store.ncalls())
	})
}

var mfsDir string

func bitsOfState(b []byte, n int) string {
	var sb strings.Builder
	for i := 0; i < n && i/8 < len(b); i++ {
		if b[i/8]&(1<<(uint(i)%8)) != 0 {
			sb.WriteByte('1')
		} else {
			sb.WriteByte('0')
		}
	}
	return sb.String()
}

func implMfsSparse(line string) string {
	_, a := parseCase(line)
	idx, store := mfsScenario(a)
	dir, err := os.MkdirTemp(mfsDir, "mfs")
	if err != nil {
		return "impl-error " + err.Error()
	}
	defer os.RemoveAll(dir)
	cache, state := filepath.Join(dir, "blob.cor"), filepath.Join(dir, "blob.cor.state")
	n := len(idx.Chunks)
	return guard(func() string {
		start := func() (*desync.SparseMountFS, *rawMount, string) {
			sfs, err := desync.NewSparseMountFS(idx, a["name"], store, cache, desync.SparseFileOptions{StateSaveFile: state})
			if err != nil {
				return nil, nil, "start-failed"
			}
			return sfs, newRawMount(sfs, a["name"]), ""
		}
		sfs, m, problem := start()
		if problem != "" {
			return problem
		}
		var out []string
		for _, op := range strings.Split(a["reqs"], ",") {
			switch {
			case op == "":
			case op == "X":
				if err := sfs.Close(); err != nil {
					out = append(out, "x:error")
					continue
				}
				b, _ := os.ReadFile(state)
				out = append(out, "x:"+bitsOfState(b, n))
			case strings.HasPrefix(op, "T"):
				// the process dies inside SparseFile.WriteState: os.Create has truncated the file, k bytes of the bitmap
				// made it into the file (the one Write was short, or did not happen: k = 0).  The bitmap is the one
				// WriteState would write: taken from a save into a scratch file.
				k, _ := strconv.Atoi(op[1:])
				if err := sfs.Close(); err != nil {
					out = append(out, "t:error")
					continue
				}
				b, _ := os.ReadFile(state)
				if k > len(b) {
					k = len(b)
				}
				os.WriteFile(state, b[:k], 0644)
				out = append(out, "t")
			case op == "K":
				// the process dies: nothing of it runs any more; the files stay.  A new process mounts again.
				for _, fh := range m.fhs {
					m.raw.Release(nil, &fuse.ReleaseIn{InHeader: fuse.InHeader{NodeId: m.node}, Fh: fh}) // closes the descriptors of the dead process
				}
				sfs, m, problem = start()
				if problem != "" {
					return strings.Join(append(out, problem), ",")
				}
				b, _ := os.ReadFile(state)
				out = append(out, "k:"+bitsOfState(b, n))
			default:
				out = append(out, m.request(op))
			}
		}
		for _, fh := range m.fhs {
			m.raw.Release(nil, &fuse.ReleaseIn{InHeader: fuse.InHeader{NodeId: m.node}, Fh: fh})
		}
		return strings.Join(out, ",") + " calls=" + strconv.Itoa(store.ncalls())
	})
}

// mfsGen builds an index (chunks of 1..max bytes, null chunks, repeated chunks) as an ipCase
func mfsGen(rng *rand.Rand, minChunks int) ipCase {
	max := uint64(8 + rng.Intn(40))
	nch := minChunks + rng.Intn(8)
	switch rng.Intn(8) {
	case 0:
		nch = minChunks
	case 1:
		nch = 8 + rng.Intn(16)
	}
	c := ipCase{ids: map[desync.ChunkID]int{}, store: map[desync.ChunkID][]byte{}}
	c.idx.Index.ChunkSizeMax = max
	var pool [][]byte
	for i := 0; i < nch; i++ {
		var b []byte
		switch rng.Intn(6) {
		case 0:
			b = make([]byte, max)
		case 1:
			if len(pool) > 0 {
				b = pool[rng.Intn(len(pool))]
			} else {
				b = randBytes(rng, 1+rng.Intn(int(max)))
			}
		case 2:
			b = make([]byte, 1+rng.Intn(int(max))) // zeros, but not the null chunk (unless of full size)
		default:
			b = randBytes(rng, 1+rng.Intn(int(max)))
		}
		pool = append(pool, b)
		id := desync.Digest.Sum(b)
		if _, ok := c.ids[id]; !ok {
			c.ids[id] = len(c.ids) + 1
		}
		c.store[id] = b
		c.idx.Chunks = append(c.idx.Chunks, desync.IndexChunk{ID: id, Start: uint64(len(c.blob)), Size: uint64(len(b))})
		c.blob = append(c.blob, b...)
	}
	return c
}

func mfsLine(cmd string, c ipCase, reqs []string, fail []int) string {
	l := c.line(reqs, fail)
	l = strings.Replace(l, "ip.ops ", cmd+" name=blob ", 1)
	return strings.Replace(l, " ops=", " reqs=", 1)
}

func mfsFails(rng *rand.Rand) []int {
	var fail []int
	if rng.Intn(3) == 0 {
		for k := 0; k < 1+rng.Intn(3); k++ {
			fail = append(fail, rng.Intn(8))
		}
	}
	return fail
}

// monitorReplies checks every reply of a case against the blob (independent of the model)
func mfsMonitor(rep *Report, c ipCase, reqs []string, fail []int, line, got string, sparse bool) {
	mon := func(what string) {
		rep.Disagree(Disagreement{Kind: "monitor", Case: clip(line, 100000), Impl: clip(got, 1000), What: what})
	}
	if strings.HasPrefix(got, "panic") || strings.HasPrefix(got, "hang") || strings.HasPrefix(got, "impl-") || strings.HasPrefix(got, "start-failed") {
		mon("the mount's node layer " + strings.Fields(got + " ?")[0])
		return
	}
	L := len(c.blob)
	res := strings.Split(strings.Fields(got)[0], ",")
	for k, op := range reqs {
		if k >= len(res) {
			break
		}
		r := res[k]
		switch {
		case op == "G":
			if r != fmt.Sprintf("a:%d:%d", syscall.S_IFREG|0444, L) {
				mon(fmt.Sprintf("GETATTR answered %s for a blob of %d bytes (a size below the blob's length clips every read, a size above it lets reads run past the end)", r, L))
			}
		case strings.HasPrefix(op, "R"):
			f := strings.Split(op[1:], ":")
			off, _ := strconv.Atoi(f[1])
			n, _ := strconv.Atoi(f[2])
			if strings.HasPrefix(r, "e:") {
				if r == "e:EIO" && len(fail) == 0 && (off <= L || sparse) {
					mon(fmt.Sprintf("READ (%d,%d) failed although the store never failed", off, n))
				}
				continue
			}
			data := unhx(r[2:])
			exp := n
			if off+exp > L {
				exp = L - off
			}
			if exp < 0 {
				exp = 0
			}
			if len(data) != exp || (exp > 0 && !bytes.Equal(data, c.blob[off:off+exp])) {
				mon(fmt.Sprintf("READ (%d,%d) was answered with %d bytes that are not the blob's %d bytes of that range", off, n, len(data), exp))
			}
		}
	}
}

func runMountFS09(cfg Config, rep *Report, m *Model, rng *rand.Rand) {
	for it := 0; it < cfg.N(2500, 50000); it++ {
		c := mfsGen(rng, 0)
		L := len(c.blob)
		max := int(c.idx.Index.ChunkSizeMax)
		var reqs []string
		open := 0
		for k := 0; k < 2+rng.Intn(12); k++ {
			switch r := rng.Intn(12); {
			case r == 0:
				reqs = append(reqs, "G")
			case r == 1:
				reqs = append(reqs, []string{"Lblob", "Lother", "Lblob.caibx", "L.."}[rng.Intn(4)])
			case r == 2 || open == 0:
				reqs = append(reqs, "O")
				open++
			case r == 3 && rng.Intn(3) == 0:
				reqs = append(reqs, fmt.Sprintf("C%d", rng.Intn(open)))
			default:
				off, n := rng.Intn(L+3), rng.Intn(max*3+1)
				switch rng.Intn(6) {
				case 0:
					off, n = L, rng.Intn(5) // at the end
				case 1:
					if L > 0 {
						off = rng.Intn(L)
						n = L - off + rng.Intn(3) // up to and past the end
					}
				}
				reqs = append(reqs, fmt.Sprintf("R%d:%d:%d", rng.Intn(open), off, n))
			}
		}
		fail := mfsFails(rng)
		line := mfsLine("mfs.index", c, reqs, fail)
		got := timed(implMfsIndex, line)
		rep.Compare(m, line, implMfsIndex, nil)
		rep.Count(line, len(c.idx.Chunks) >= 2 && len(reqs) >= 3, "mfs.index", "mfs-chunks:"+bucket(len(c.idx.Chunks)), fmt.Sprintf("mfs-fail:%v", len(fail) > 0))
		for _, r := range strings.Split(strings.Fields(got + " ?")[0], ",") {
			if len(r) > 1 {
				rep.Histogram["mfs.reply:"+r[:1]+map[bool]string{true: "", false: ":" + r[2:]}[r[0] != 'e']]++
			}
		}
		mfsMonitor(rep, c, reqs, fail, line, got, false)
		// read(2) through the kernel's contract, with a store that does not fail: exactly the blob's range
		if it%3 == 0 {
			store := &scriptedStore{data: c.store, fail: map[int]bool{}}
			rm := newRawMount(desync.NewIndexMountFS(c.idx, "blob", store), "blob")
			for k := 0; k < 4; k++ {
				off, n := rng.Intn(L+3), rng.Intn(max*4+1)
				data, errno, problem := rm.kernelRead(rng, off, n)
				kl := fmt.Sprintf("mfs.kernel-read off=%d len=%d %s", off, n, clip(line, 3000))
				rep.Count(kl, true, "mfs.kernel-read")
				lo, hi := off, off+n
				if lo > L {
					lo = L
				}
				if hi > L {
					hi = L
				}
				if problem != "" || errno || !bytes.Equal(data, c.blob[lo:hi]) {
					rep.Disagree(Disagreement{Kind: "monitor", Case: kl, Impl: fmt.Sprintf("errno=%v data=%s %s", errno, hx(data), problem),
						What: fmt.Sprintf("read(2) of %d bytes at %d on the mounted file (kernel contract: clipped to the GETATTR size, split into READ requests, short reply = end) returned %d bytes that are not blob[%d,%d)", n, off, len(data), lo, hi)})
				}
			}
		}
	}
	// indexes longer than 2^32 bytes: GETATTR must report the full length (no data is read)
	for it := 0; it < cfg.N(200, 2000); it++ {
		var cs []string
		start := uint64(0)
		for k := 0; k < 1+rng.Intn(4); k++ {
			sz := uint64(1+rng.Intn(1<<20)) << uint(rng.Intn(24))
			cs = append(cs, fmt.Sprintf("%d:%d:%d", k+1, start, sz))
			start += sz
		}
		line := fmt.Sprintf("mfs.index name=blob chunks=%s len=%d nullid=999999 nulllen=%d blobs= fail= reqs=G,Lblob,O,G", strings.Join(cs, ","), start, 1<<16)
		got := timed(implMfsIndex, line)
		rep.Compare(m, line, implMfsIndex, nil)
		rep.Count(line, true, "mfs.index.huge", fmt.Sprintf("mfs-huge>=2^32:%v", start >= 1<<32))
		if !strings.HasPrefix(got, fmt.Sprintf("a:%d:%d,", syscall.S_IFREG|0444, start)) {
			rep.Disagree(Disagreement{Kind: "monitor", Case: line, Impl: got, What: fmt.Sprintf("GETATTR does not report the index's length %d", start)})
		}
	}
	mfsCat(cfg, rep, m, rng)
}

func runMountFS10(cfg Config, rep *Report, m *Model, rng *rand.Rand) {
	mfsDir = cfg.Work
	for it := 0; it < cfg.N(1200, 20000); it++ {
		c := mfsGen(rng, 1)
		L := len(c.blob)
		max := int(c.idx.Index.ChunkSizeMax)
		var reqs []string
		open := 0
		nbytes := (len(c.idx.Chunks) + 7) / 8
		for k := 0; k < 3+rng.Intn(14); k++ {
			switch r := rng.Intn(16); {
			case r == 0:
				reqs = append(reqs, "G")
			case r == 1 || open == 0:
				reqs = append(reqs, "O")
				open++
			case r == 2:
				reqs = append(reqs, "X")
			case r == 3:
				reqs = append(reqs, fmt.Sprintf("T%d", rng.Intn(nbytes+1)), "K")
				open = 0
			case r == 4 || r == 5:
				reqs = append(reqs, "K")
				open = 0
			case r == 6 && rng.Intn(2) == 0:
				reqs = append(reqs, "X", "K")
				open = 0
			default:
				off, n := rng.Intn(L+3), rng.Intn(max*3+1)
				if rng.Intn(5) == 0 {
					off, n = rng.Intn(L), L
				}
				reqs = append(reqs, fmt.Sprintf("R%d:%d:%d", rng.Intn(open), off, n))
			}
		}
		fail := mfsFails(rng)
		line := mfsLine("mfs.sparse", c, reqs, fail)
		got := timed(implMfsSparse, line)
		rep.Compare(m, line, implMfsSparse, nil)
		kills := strings.Count(line, ",K")
		rep.Count(line, len(c.idx.Chunks) >= 2 && len(reqs) >= 4, "mfs.sparse", fmt.Sprintf("mfs-kills:%d", kills), fmt.Sprintf("mfs-torn-save:%v", strings.Contains(line, ",T")),
			fmt.Sprintf("mfs-fail:%v", len(fail) > 0))
		mfsMonitor(rep, c, reqs, fail, line, got, true)
	}
}

// mfsCat: `desync cat -o off -l n` through the binary against cat.run: offsets and lengths around the end of the blob,
// zero and negative values
func mfsCat(cfg Config, rep *Report, m *Model, rng *rand.Rand) {
	bin := desyncBin()
	if bin == "" {
		rep.Notes = append(rep.Notes, "desync binary not built: cat.run skipped")
		return
	}
	dir := filepath.Join(cfg.Work, "mfscat")
	os.RemoveAll(dir)
	defer os.RemoveAll(dir)
	for it := 0; it < cfg.N(3, 20); it++ {
		sd := filepath.Join(dir, fmt.Sprintf("s%d", it))
		os.MkdirAll(sd, 0755)
		st, err := desync.NewLocalStore(sd, desync.StoreOptions{})
		if err != nil {
			continue
		}
		blob := randBytes(rng, 3000+rng.Intn(6000))
		if it%2 == 1 {
			blob = append(append(blob[:1000:1000], make([]byte, 5000)...), blob[1000:]...)
		}
		if it == 2 {
			blob = nil
		}
		ch, _ := desync.NewChunker(bytes.NewReader(blob), 256, 512, 1024)
		idx, err := desync.ChunkStream(context.Background(), ch, st, 2)
		if err != nil {
			continue
		}
		idxFile := filepath.Join(dir, fmt.Sprintf("b%d.caibx", it))
		f, _ := os.Create(idxFile)
		idx.WriteTo(f)
		f.Close()
		c := ipCase{idx: idx, blob: blob, ids: map[desync.ChunkID]int{}, store: map[desync.ChunkID][]byte{}}
		for _, ic := range idx.Chunks {
			if _, ok := c.ids[ic.ID]; !ok {
				c.ids[ic.ID] = len(c.ids) + 1
			}
			c.store[ic.ID] = blob[ic.Start : ic.Start+ic.Size]
		}
		L := len(blob)
		spans := [][2]int{{0, 0}, {L, 0}, {L, 1}, {L + 1, 0}, {L + 1, 1}, {0, L}, {0, L + 1}, {-1, 0}, {0, -1}, {L - 1, 1}, {L - 1, 2}}
		for k := 0; k < 6; k++ {
			off := rng.Intn(L + 1)
			spans = append(spans, [2]int{off, L - off + rng.Intn(3) - 1})
		}
		for _, sp := range spans {
			out := filepath.Join(dir, "out")
			os.Remove(out)
			r := runCLI(bin, nil, nil, 60*time.Second, "cat", "-s", sd, "-o", fmt.Sprint(sp[0]), "-l", fmt.Sprint(sp[1]), idxFile, out)
			gotB, _ := os.ReadFile(out)
			impl := map[bool]string{true: "ok:", false: "err:"}[r.exit == 0] + hx(gotB)
			line := strings.Replace(c.line(nil, nil), "ip.ops ", "cat.run ", 1)
			line = strings.Replace(line, " ops=", fmt.Sprintf(" off=%d n=%d", sp[0], sp[1]), 1)
			want := m.Ask(line)
			rep.Count(line, true, "cat.run", fmt.Sprintf("cat-exit0:%v", r.exit == 0))
			if m.cmd != nil && impl != want {
				rep.Disagree(Disagreement{Kind: "correspondence", Case: clip(line, 20000), Model: clip(want, 300), Impl: clip(impl, 300),
					What: fmt.Sprintf("desync cat -o %d -l %d on a blob of %d bytes: model and binary differ (exit status %d, %d bytes written)", sp[0], sp[1], L, r.exit, len(gotB))})
			}
			// the property itself: exit 0 only with exactly the requested range
			if r.exit == 0 && sp[0] >= 0 && sp[0] <= L {
				hi := L
				if sp[1] > 0 && sp[0]+sp[1] < L {
					hi = sp[0] + sp[1]
				}
				if !bytes.Equal(gotB, blob[sp[0]:hi]) || (sp[1] > 0 && sp[0]+sp[1] > L) {
					rep.Disagree(Disagreement{Kind: "monitor", Case: clip(line, 20000), Impl: clip(impl, 300), What: "desync cat exited with status 0 but did not write exactly the requested range"})
				}
			}
		}
	}
}
