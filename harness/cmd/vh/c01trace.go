package main

// Trace validation of the concurrent assembler (C01): the real AssembleFile runs with n = 2..4 workers under a
// cooperative scheduler installed through the verifAsm hooks (assemble.go, selfseed.go, fileseed.go, nullseed.go;
// build tag verif) and through the harness's FICLONERANGE emulation - exactly one goroutine runs between two
// hook calls - and the totally ordered record of what every goroutine did is replayed through the Lean step
// machine AsmConc (driver command asmconc.accept, lean/Driver/AsmAccept.lean), which answers with the machine's
// final file and result.
//
// No time-out decides anything here: which goroutine may proceed is derived from the trace.  A worker parked in
// "start" or "done" will receive from the job channel next, so it is resumed only together with the feeder parked
// in "feed" (a rendezvous on the unbuffered channel: the two run until each reaches its next hook; nothing else is
// waiting on the channel, so it is known who gets the job) or after the feeder has closed the channel.  Once a
// worker has ended with an error the feeder is resumed alone (its select can only take the cancelled context).
// selfSeed's RWMutex is never contended because no parking hook lies inside a critical section (the "ss.add"
// hook, called with the lock held, only notes selfSeed.written).  Seed files are changed by the scheduler itself
// between two steps ("m:mut" records).

import (
	"context"
	"fmt"
	"math/rand"
	"os"
	"path/filepath"
	"strconv"
	"strings"
	"sync"
	"sync/atomic"
	"time"

	"github.com/folbricht/desync"
)

type asmArrival struct {
	actor   int // worker number, -1 = the goroutine that called AssembleFile
	ev      string
	a, b, c uint64
	name    string
	data    []byte
}

type asmSched struct {
	mu        sync.Mutex
	gids      map[int]int
	arrive    chan asmArrival
	resume    map[int]chan struct{}
	free      atomic.Bool
	target    string
	seedPaths []string
}

func (s *asmSched) srcName(name string) string {
	if name == s.target {
		return "T"
	}
	for k, p := range s.seedPaths {
		if p == name {
			return strconv.Itoa(k)
		}
	}
	if strings.HasPrefix(filepath.Base(name), ".tmp-block") {
		return "Z"
	}
	return "?"
}

func (s *asmSched) readTarget(off, n uint64) []byte {
	b, _ := os.ReadFile(s.target)
	if off > uint64(len(b)) {
		return nil
	}
	if off+n > uint64(len(b)) {
		n = uint64(len(b)) - off
	}
	return append([]byte{}, b[off:off+n]...)
}

func (s *asmSched) actor(register bool, w int) (int, bool) {
	g := goid()
	s.mu.Lock()
	defer s.mu.Unlock()
	if register {
		s.gids[g] = w
	}
	a, ok := s.gids[g]
	return a, ok
}

// park announces what the calling goroutine has just done and waits until the scheduler lets it go on
func (s *asmSched) park(arr asmArrival, wait bool) {
	s.arrive <- arr
	if wait {
		<-s.resume[arr.actor]
	}
}

func (s *asmSched) hook(ev string, w int, a, b, c uint64, name string) {
	if s.free.Load() {
		return
	}
	actor, known := s.actor(ev == "start", w)
	if !known {
		return
	}
	arr := asmArrival{actor: actor, ev: ev, a: a, b: b, c: c}
	switch ev {
	case "ss.add": // called with selfSeed's lock held: recorded where it happens, but the goroutine does not park
		s.arrive <- arr
		return
	case "copy":
		arr.name, arr.data = s.srcName(name), s.readTarget(c, b)
	case "zero", "wc.store":
		arr.data = s.readTarget(a, b)
	case "job":
		switch c {
		case 0:
			arr.name = "S"
		case 1:
			arr.name = "N"
		default:
			arr.name = "F" + s.srcName(name)
		}
	}
	s.park(arr, ev != "exit" && ev != "closed")
}

// cloneHook is called by the FICLONERANGE emulation after it has (or has not) moved the bytes
func (s *asmSched) cloneHook(src *os.File, so, ln, do uint64, err error) {
	if s.free.Load() {
		return
	}
	actor, known := s.actor(false, 0)
	if !known {
		return
	}
	arr := asmArrival{actor: actor, ev: "clone", a: so, b: ln, c: do, name: s.srcName(src.Name())}
	if err == nil {
		n := ln
		if ln == 0 {
			if fi, e := src.Stat(); e == nil && uint64(fi.Size()) > so {
				n = uint64(fi.Size()) - so
			}
		}
		arr.data = s.readTarget(do, n)
		arr.name += ":1"
	} else {
		arr.name += ":0"
	}
	s.park(arr, true)
}

type asmAction struct {
	actor int    // worker; -1 = the feeder alone; -2 = change a seed file
	seed  int    // for -2
	data  []byte // for -2: the new content (nil: remove the file)
}

type asmTraceRun struct {
	trace    []string
	err      error
	returned bool
	target   []byte
	written  uint64
	dones    int
	problem  string // "" | "hang" | "deadlock" | "diverged@k…" | "scheduler: …"
	hist     map[string]int
	inflight int // largest number of workers holding a job at the same time
	switches int // consecutive records of different workers that both hold a job
}

// mutateSeed changes seed file k the way c01.go's yield hook does; it returns the new content (nil: removed)
func mutateSeed(path string, kind int, cutAt int64) []byte {
	old, _ := os.ReadFile(path)
	switch kind {
	case 0:
		os.Truncate(path, 0)
	case 1:
		os.Truncate(path, int64(len(old)/2))
	case 2:
		nb := make([]byte, len(old))
		for i := range nb {
			nb[i] = 0xA5
		}
		os.WriteFile(path, nb, 0644)
	case 3:
		if len(old) > 0 {
			old[len(old)/3] ^= 0x40
			os.WriteFile(path, old, 0644)
		}
	case 4:
		os.Remove(path)
		return nil
	default:
		if cutAt > int64(len(old)) {
			cutAt = int64(len(old))
		}
		os.Truncate(path, cutAt)
	}
	nb, _ := os.ReadFile(path)
	if nb == nil {
		nb = []byte{}
	}
	return nb
}

// runAsmScheduled runs the case on the real AssembleFile under a schedule: forced (from a recorded trace) if not
// nil, else drawn from rng with the given policy; mutAt >= 0: before that step seed file mutSeed is changed
func runAsmScheduled(c *asmCase, work string, rng *rand.Rand, policy int, mutAt, mutKind, mutSeed int, forced []asmAction) asmTraceRun {
	asmMu.Lock()
	defer asmMu.Unlock()
	res := asmTraceRun{hist: map[string]int{}}
	dir, err := os.MkdirTemp(work, "asmtr")
	if err != nil {
		res.problem = "scheduler: " + err.Error()
		return res
	}
	defer os.RemoveAll(dir)
	target := filepath.Join(dir, "target")
	if c.prior != nil {
		os.WriteFile(target, *c.prior, 0644)
	}
	var seedPaths []string
	for i, f := range c.files {
		p := filepath.Join(dir, fmt.Sprintf("seedfile%d", i))
		os.WriteFile(p, f, 0644)
		seedPaths = append(seedPaths, p)
	}
	oldDigest := desync.Digest
	if c.alg == "sha256" {
		desync.Digest = desync.SHA256{}
	} else {
		desync.Digest = desync.SHA512256{}
	}
	n := c.n
	s := &asmSched{gids: map[int]int{}, arrive: make(chan asmArrival, 4*(n+2)), resume: map[int]chan struct{}{}, target: target, seedPaths: seedPaths}
	for i := -1; i < n; i++ {
		s.resume[i] = make(chan struct{}, 1)
	}
	reflink := map[string]bool{target: c.sr}
	emu := emuCloneRange(c.bs)
	desync.VerifBlocksize = func(string) uint64 { return c.bs }
	desync.VerifCloneRange = func(dst, src *os.File, so, ln, do uint64) error {
		err := emu(dst, src, so, ln, do)
		s.cloneHook(src, so, ln, do, err)
		return err
	}
	desync.VerifCanClone = func(dst, src string) bool {
		if strings.HasPrefix(filepath.Base(src), ".tmp-block") {
			return c.nr
		}
		return reflink[src]
	}
	desync.VerifAsm = s.hook
	defer func() {
		desync.Digest = oldDigest
		desync.VerifBlocksize, desync.VerifCloneRange, desync.VerifCanClone, desync.VerifAsm = nil, nil, nil, nil
	}()
	flags := uint64(desync.CaFormatExcludeNoDump)
	if c.alg != "sha256" {
		flags |= desync.CaFormatSHA512256
	}
	idx := desync.Index{Index: desync.FormatIndex{FeatureFlags: flags, ChunkSizeMin: c.max / 4, ChunkSizeAvg: c.max / 2, ChunkSizeMax: c.max}, Chunks: c.idx}
	var seeds []desync.Seed
	for _, sd := range c.seeds {
		path := target
		if sd.src != "T" {
			k, _ := strconv.Atoi(sd.src)
			if k >= len(seedPaths) {
				res.problem = "scheduler: seed without a file"
				return res
			}
			path = seedPaths[k]
			reflink[path] = sd.rf
		}
		si := desync.Index{Index: desync.FormatIndex{FeatureFlags: flags, ChunkSizeMin: sd.min, ChunkSizeAvg: sd.avg, ChunkSizeMax: sd.max}, Chunks: sd.table}
		seed, err := desync.NewIndexSeed(target, path, si)
		if err != nil {
			res.problem = "scheduler: " + err.Error()
			return res
		}
		seeds = append(seeds, seed)
	}
	act := desync.InvalidSeedActionBailOut
	switch c.act {
	case "skip":
		act = desync.InvalidSeedActionSkip
	case "regen":
		act = desync.InvalidSeedActionRegenerate
	}
	finished := make(chan struct{})
	go func() {
		s.actor(true, -1)
		_, res.err = desync.AssembleFile(context.Background(), target, idx, asmStore{c}, seeds, desync.AssembleOptions{N: n, InvalidSeedAction: act})
		ok := uint64(0)
		if res.err == nil {
			ok = 1
		}
		if !s.free.Load() {
			s.arrive <- asmArrival{actor: -1, ev: "returned", a: ok}
		}
		close(finished)
	}()
	release := func() {
		s.free.Store(true)
		for _, ch := range s.resume {
			select {
			case ch <- struct{}{}:
			default:
			}
		}
		// clean-up only (no decision depends on it): let an abandoned run drain
		select {
		case <-finished:
		case <-time.After(10 * time.Second):
		}
		res.target, _ = os.ReadFile(target)
	}
	safety := time.After(30 * time.Second) // the harness's own safety net: a run that never arrives is reported as "hang"
	wait := func() (asmArrival, bool) {
		select {
		case a := <-s.arrive:
			return a, true
		case <-safety:
			return asmArrival{}, false
		}
	}
	parked := map[int]string{} // actor -> "idle" (will receive from the channel next) | "busy" | "feed"
	exited := map[int]bool{}
	hasJob := map[int]bool{}
	feeder := "setup" // "feed" | "closed" | "returned"
	failed := false
	started := 0
	last := -9
	rec := func(f string, a ...interface{}) { res.trace = append(res.trace, fmt.Sprintf(f, a...)) }
	note := func(a asmArrival) {
		w := a.actor
		if w >= 0 && a.ev != "start" {
			if last >= 0 && last != w && hasJob[last] && hasJob[w] {
				res.switches++
			}
			last = w
		}
		switch a.ev {
		case "start":
			parked[w] = "idle"
			started++
		case "job":
			parked[w], hasJob[w] = "busy", true
			if len(hasJob) > res.inflight {
				res.inflight = len(hasJob)
			}
			rec("%d:job:%d:%d:%s", w, a.a, a.b, a.name)
			res.hist["job:"+a.name[:1]]++
		case "copy":
			parked[w] = "busy"
			rec("%d:copy:%s:%d:%d:%d:%s", w, a.name, a.a, a.b, a.c, hx(a.data))
			res.hist["copy"]++
			if a.name == "T" {
				res.hist["copy-from-target"]++
			}
		case "clone":
			parked[w] = "busy"
			f := strings.Split(a.name, ":")
			rec("%d:clone:%s:%d:%d:%d:%s:%s", w, f[0], a.a, a.b, a.c, f[1], hx(a.data))
			res.hist["clone:"+f[1]]++
		case "zero":
			parked[w] = "busy"
			rec("%d:zero:%d:%d:%s", w, a.a, a.b, hx(a.data))
			res.hist["zero"]++
		case "rehash":
			parked[w] = "busy"
			rec("%d:rehash:%d:%d", w, a.a, a.b)
			res.hist[fmt.Sprintf("rehash:%d", a.b)]++
		case "ss.get":
			parked[w] = "busy"
			rec("%d:ssget:%d:%d", w, a.a, a.b)
			res.hist[fmt.Sprintf("ssget:%d", a.a)]++
		case "wc.self":
			parked[w] = "busy"
			rec("%d:wcself:%d", w, a.a)
		case "wc.inplace":
			parked[w] = "busy"
			rec("%d:inplace:%d:%d", w, a.a, a.b)
			res.hist[fmt.Sprintf("inplace:%d", a.b)]++
		case "wc.store":
			parked[w] = "busy"
			rec("%d:store:%d:%d:%s", w, a.a, a.b, hx(a.data))
			res.hist["store"]++
		case "ss.add":
			res.written = a.c
			res.dones++
			rec("%d:add:%d:%d:%d", w, a.a, a.b, a.c)
		case "done":
			parked[w] = "idle"
			delete(hasJob, w)
			rec("%d:done:%d:%d", w, a.a, a.b)
		case "exit":
			delete(parked, w)
			exited[w] = true
			if hasJob[w] {
				failed = true
				delete(hasJob, w)
				res.hist["worker-error"]++
			}
			rec("%d:exit", w)
		case "feed":
			feeder, parked[-1] = "feed", "feed"
		case "closed":
			feeder = "closed"
			delete(parked, -1)
			rec("m:closed:%d", a.a)
		case "returned":
			feeder, res.returned = "returned", true
			rec("m:returned:%d", a.a)
		default:
			res.problem = "scheduler: unknown event " + a.ev
		}
	}
	bail := func(p string) asmTraceRun {
		res.problem = p
		release()
		return res
	}
	// start-up: every worker parks in "start"; the caller of AssembleFile parks in "feed", closes the channel at
	// once (empty plan) or returns early (no valid plan).  Also after an early return every worker must have
	// announced itself before the run is left: a goroutine that reaches its "start" hook later would be taken
	// for a worker of the next run (the hook variable is global).
	for feeder == "setup" || started < n || (feeder != "returned" && len(parked)+len(exited) < n+b2i(feeder == "feed")) {
		a, ok := wait()
		if !ok {
			return bail("hang")
		}
		note(a)
	}
	prio := rng.Perm(n)
	change := map[int]bool{}
	for k := 0; k < 3; k++ {
		change[rng.Intn(120)] = true
	}
	low := -1
	burst := -1
	fi := 0
	for step := 0; feeder != "returned" && res.problem == ""; step++ {
		// a change of a seed file between two steps
		if forced != nil {
			for fi < len(forced) && forced[fi].actor == -2 {
				f := forced[fi]
				fi++
				if f.seed < len(seedPaths) {
					if f.data == nil {
						os.Remove(seedPaths[f.seed])
						rec("m:mut:%d:!", f.seed)
					} else {
						os.WriteFile(seedPaths[f.seed], f.data, 0644)
						rec("m:mut:%d:%s", f.seed, hx(f.data))
					}
				}
			}
		} else if step == mutAt && mutSeed < len(seedPaths) {
			var cut int64
			for _, sd := range c.seeds {
				if sd.src == strconv.Itoa(mutSeed) && len(sd.table) > 0 {
					cut = int64(sd.table[step%len(sd.table)].Start)
				}
			}
			nb := mutateSeed(seedPaths[mutSeed], mutKind, cut)
			if nb == nil {
				rec("m:mut:%d:!", mutSeed)
			} else {
				rec("m:mut:%d:%s", mutSeed, hx(nb))
			}
			res.hist["seed-changed"]++
		}
		var en []int
		for w := 0; w < n; w++ {
			switch parked[w] {
			case "busy":
				en = append(en, w)
			case "idle":
				if feeder == "closed" || (feeder == "feed" && !failed) {
					en = append(en, w)
				}
			}
		}
		if feeder == "feed" && failed {
			en = append(en, -1)
		}
		if len(en) == 0 {
			if feeder == "closed" && len(exited) == n {
				a, ok := wait()
				if !ok {
					return bail("hang")
				}
				note(a)
				continue
			}
			return bail("deadlock")
		}
		pick := en[0]
		if forced != nil {
			if fi >= len(forced) {
				return bail(fmt.Sprintf("diverged@%d (schedule exhausted)", step))
			}
			pick = forced[fi].actor
			fi++
			found := false
			for _, a := range en {
				found = found || a == pick
			}
			if !found {
				return bail(fmt.Sprintf("diverged@%d (actor %d not enabled)", step, pick))
			}
		} else {
			switch policy {
			case 0: // uniform
				pick = en[rng.Intn(len(en))]
			case 1: // priorities with change points
				pr := func(a int) int {
					if a < 0 {
						return n
					}
					return prio[a]
				}
				for _, a := range en {
					if pr(a) > pr(pick) {
						pick = a
					}
				}
				if change[step] && pick >= 0 {
					low--
					prio[pick] = low
				}
			case 2: // later workers first
				pick = en[len(en)-1]
				if rng.Intn(6) == 0 {
					pick = en[rng.Intn(len(en))]
				}
			default: // bursts: stay with one worker for a while
				pick = en[rng.Intn(len(en))]
				for _, a := range en {
					if a == burst && rng.Intn(5) != 0 {
						pick = a
					}
				}
				burst = pick
			}
		}
		expect := 1
		switch {
		case pick == -1:
			delete(parked, -1)
			s.resume[-1] <- struct{}{}
		case parked[pick] == "idle" && feeder == "feed" && !failed:
			// rendezvous on the job channel: the feeder sends, this worker (the only one waiting) receives
			delete(parked, -1)
			delete(parked, pick)
			s.resume[-1] <- struct{}{}
			s.resume[pick] <- struct{}{}
			expect = 2
		default:
			delete(parked, pick)
			s.resume[pick] <- struct{}{}
		}
		var got []asmArrival
		for len(got) < expect {
			a, ok := wait()
			if !ok {
				return bail("hang")
			}
			if a.actor != pick && !(expect == 2 && a.actor == -1) {
				return bail(fmt.Sprintf("scheduler: resumed %d, but %d arrived (%s)", pick, a.actor, a.ev))
			}
			if a.ev == "ss.add" { // not a parking point: the worker goes on to its next hook
				note(a)
				continue
			}
			got = append(got, a)
		}
		if expect == 2 && got[0].actor == -1 { // canonical order: the worker's "job", then what the feeder did next
			got[0], got[1] = got[1], got[0]
		}
		for _, a := range got {
			note(a)
		}
	}
	release()
	return res
}

func asmTraceLine(c *asmCase, tr []string) string {
	return strings.Replace(c.line(), "asm.run ", "asmconc.accept ", 1) + " trace=" + strings.Join(tr, ",")
}

// asmTraceAnswer is the implementation's side of asmconc.accept
func asmTraceAnswer(r asmTraceRun) string {
	if r.problem != "" {
		return "impl-" + r.problem
	}
	return fmt.Sprintf("accept done=%d finished=%d written=%d file=%s", b2i(r.err == nil), r.dones, r.written, hx(r.target))
}

// implAsmConcAccept re-runs the schedule of a recorded trace on the real code (replay)
func implAsmConcAccept(line string) string {
	c := parseAsmCase(strings.Replace(line, "asmconc.accept ", "asm.run ", 1))
	_, a := parseCase(line)
	var forced []asmAction
	if a["trace"] != "" {
		for _, r := range strings.Split(a["trace"], ",") {
			f := strings.Split(r, ":")
			if f[0] == "m" {
				switch {
				case len(f) == 4 && f[1] == "mut":
					k, _ := strconv.Atoi(f[2])
					act := asmAction{actor: -2, seed: k}
					if f[3] != "!" {
						act.data = unhx(f[3])
						if act.data == nil {
							act.data = []byte{}
						}
					}
					forced = append(forced, act)
				case len(f) == 3 && f[1] == "closed" && f[2] == "1":
					forced = append(forced, asmAction{actor: -1})
				}
				continue
			}
			if len(f) > 1 && f[1] == "add" {
				continue // recorded inside the step that ends with "done"
			}
			w, _ := strconv.Atoi(f[0])
			forced = append(forced, asmAction{actor: w})
		}
	}
	if forced == nil {
		forced = []asmAction{}
	}
	work := asmWork
	if work == "" {
		d, err := os.MkdirTemp("", "vh-asmtr")
		if err != nil {
			return "err tmp"
		}
		defer os.RemoveAll(d)
		work = d
	}
	r := runAsmScheduled(c, work, rand.New(rand.NewSource(1)), 0, -1, 0, 0, forced)
	if r.problem == "" { // the same schedule must give the same records
		old := strings.Split(a["trace"], ",")
		for k := 0; k < len(old) || k < len(r.trace); k++ {
			if k >= len(old) || k >= len(r.trace) || old[k] != r.trace[k] {
				was, now := "(end)", "(end)"
				if k < len(old) {
					was = old[k]
				}
				if k < len(r.trace) {
					now = r.trace[k]
				}
				return fmt.Sprintf("impl-trace-differs@%d recorded %s, now %s", k, clip(was, 80), clip(now, 80))
			}
		}
	}
	return asmTraceAnswer(r)
}

// genAsmTraceCase: a small index (chunks of 16..max bytes, repeats, null chunks), file seeds sharing runs of chunks
// with it, possibly an earlier version of the blob at the target path (also offered as a seed: the target itself),
// a complete store (rarely lacking a chunk)
func genAsmTraceCase(rng *rand.Rand) asmGen {
	c := &asmCase{alg: "sha512", store: map[desync.ChunkID]*[]byte{}}
	if rng.Intn(8) == 0 {
		c.alg = "sha256"
	}
	c.max = []uint64{16, 32, 64}[rng.Intn(3)]
	c.bs = []uint64{4, 8, 16, 32}[rng.Intn(4)]
	c.n = 2 + rng.Intn(3)
	piece := func() []byte {
		if rng.Intn(8) == 0 {
			return randBytes(rng, 1+rng.Intn(int(c.max)))
		}
		return randBytes(rng, 16+rng.Intn(int(c.max)-15))
	}
	var parts [][]byte
	want := 5 + rng.Intn(36)
	if rng.Intn(40) == 0 {
		want = rng.Intn(3)
	}
	for len(parts) < want {
		switch r := rng.Intn(12); {
		case r < 5:
			parts = append(parts, piece())
		case r < 7: // null chunks, often in a run
			for k := 1 + rng.Intn(3); k > 0; k-- {
				parts = append(parts, make([]byte, c.max))
			}
		case r < 8: // zeros that are not the null chunk
			parts = append(parts, make([]byte, 1+rng.Intn(int(c.max))))
		default: // a run of earlier chunks once more: the self seed's business
			if len(parts) == 0 {
				parts = append(parts, piece())
				break
			}
			a := rng.Intn(len(parts))
			for i, l := a, 1+rng.Intn(3); i < a+l && i < len(parts); i++ {
				parts = append(parts, parts[i])
			}
		}
	}
	blob := joinParts(parts)
	c.idx = tableOf(c.alg, parts)
	for i, ch := range c.idx {
		if _, ok := c.store[ch.ID]; !ok {
			d := parts[i]
			c.store[ch.ID] = &d
			c.storeOr = append(c.storeOr, ch.ID)
		}
	}
	if len(c.storeOr) > 0 && rng.Intn(14) == 0 {
		id := c.storeOr[rng.Intn(len(c.storeOr))]
		if rng.Intn(2) == 0 {
			c.store[id] = nil
		} else {
			d := append(append([]byte{}, *c.store[id]...), 7)
			c.store[id] = &d
		}
	}
	// what the target path holds beforehand
	var older [][]byte // the parts of an earlier version, if that is what the target holds
	switch r := rng.Intn(20); {
	case r < 6:
	case r < 8:
		b := []byte{}
		c.prior = &b
	case r < 15: // an earlier version: some chunks differ, ranges that match are kept in place
		older = append([][]byte{}, parts...)
		for j := rng.Intn(1 + len(older)/2); j >= 0 && len(older) > 0; j-- {
			i := rng.Intn(len(older))
			older[i] = randBytes(rng, len(older[i]))
		}
		b := joinParts(older)
		c.prior = &b
	case r < 17:
		b := randBytes(rng, rng.Intn(len(blob)+40))
		c.prior = &b
	case r < 18:
		b := append(append([]byte{}, blob...), randBytes(rng, 1+rng.Intn(60))...)
		c.prior = &b
	default:
		b := append([]byte{}, blob[:rng.Intn(len(blob)+1)]...)
		c.prior = &b
	}
	// file seeds: runs of the blob's chunks between foreign chunks
	stale := rng.Intn(8) == 0 // at most one seed is inconsistent when the plan is validated
	for k := rng.Intn(3); k > 0 && len(parts) > 0; k-- {
		s := asmSeed{src: strconv.Itoa(len(c.files)), rf: rng.Intn(2) == 0, min: 48, avg: 96, max: 192}
		var sp [][]byte
		for j := 1 + rng.Intn(5); j > 0; j-- {
			if rng.Intn(5) != 0 {
				a := rng.Intn(len(parts))
				for i, l := a, 1+rng.Intn(6); i < a+l && i < len(parts); i++ {
					sp = append(sp, parts[i])
				}
			} else {
				sp = append(sp, piece())
			}
		}
		file := joinParts(sp)
		s.table = tableOf(c.alg, sp)
		if stale && len(file) > 0 {
			stale = false
			file[rng.Intn(len(file))] ^= 1
		}
		c.files = append(c.files, file)
		c.seeds = append(c.seeds, s)
	}
	// the target itself as a seed, described by the index of the version it holds
	if older != nil && rng.Intn(3) == 0 {
		c.seeds = append(c.seeds, asmSeed{src: "T", min: 48, avg: 96, max: 192, table: tableOf(c.alg, older)})
	}
	c.act = []string{"bail", "skip", "regen", "regen"}[rng.Intn(4)]
	if rng.Intn(5) < 2 { // cloning emulated
		c.nr, c.sr = rng.Intn(4) != 0, rng.Intn(4) != 0
		for i := range c.seeds {
			c.seeds[i].rf = rng.Intn(4) != 0
		}
	} else {
		c.nr, c.sr = false, false
		for i := range c.seeds {
			c.seeds[i].rf = false
		}
	}
	return asmGen{c, blob, parts}
}

// runC01Traces: scheduled runs of AssembleFile with several workers, validated against the Lean machine
func runC01Traces(cfg Config, rep *Report, m *Model, rng *rand.Rand) {
	rep.Rule += ". Trace validation (N in 2..4): AssembleFile under a cooperative scheduler (hooks verifAsm: exactly one goroutine " +
		"between two hook calls; random, prioritised with change points, later-workers-first and bursty schedules; a seed file changed " +
		"between two steps in two runs of five) on indexes of 5..40 chunks of 16..64 bytes with repeats, null chunks, file seeds sharing " +
		"runs of chunks, an earlier version at the target path (also offered as a seed), cloning emulated in two runs of five; the " +
		"recorded events must be a run of the Lean machine AsmConc ending in the same file and result (asmconc.accept); non-trivial " +
		"there = at least two workers held a job at the same time"
	runs := cfg.N(200, 6000)
	for it := 0; it < runs; it++ {
		g := genAsmTraceCase(rng)
		c := g.c
		policy := rng.Intn(4)
		mutAt, mutKind, mutSeed := -1, 0, 0
		if len(c.files) > 0 && rng.Intn(5) < 2 {
			mutAt, mutKind, mutSeed = rng.Intn(3*len(c.idx)+4), rng.Intn(6), rng.Intn(len(c.files))
		}
		markCase(fmt.Sprintf("asmconc.sched policy=%d mut=%d.%d.%d %s", policy, mutAt, mutKind, mutSeed, c.line()))
		r := runAsmScheduled(c, cfg.Work, rng, policy, mutAt, mutKind, mutSeed, nil)
		line := asmTraceLine(c, r.trace)
		got := asmTraceAnswer(r)
		status := "err"
		if r.err == nil {
			status = "ok"
		}
		tags := []string{"trace", "trace-status:" + status, fmt.Sprintf("trace-workers:%d", c.n), fmt.Sprintf("trace-policy:%d", policy),
			"trace-len:" + bucket(len(r.trace)), "trace-in-flight:" + strconv.Itoa(r.inflight), "trace-switches-in-flight:" + bucket(r.switches),
			"trace-act:" + c.act}
		if c.nr || c.sr {
			tags = append(tags, "trace-cloning-on")
		}
		for k, v := range r.hist {
			rep.Histogram["trace-ev:"+k] += v
		}
		for _, k := range []string{"ssget:1", "rehash:0", "clone:1", "clone:0", "inplace:1", "copy-from-target", "seed-changed", "worker-error", "zero"} {
			if r.hist[k] > 0 {
				tags = append(tags, "trace-with:"+k)
			}
		}
		rep.Count(clip(line, 100000), r.inflight >= 2, tags...)
		// property monitors, independent of the model
		if r.problem != "" {
			rep.Disagree(Disagreement{Kind: "monitor", Case: clip(line, 200000), Impl: got, What: "AssembleFile under a cooperative schedule: " + r.problem})
			continue
		}
		if r.err == nil && string(r.target) != string(g.blob) {
			rep.Disagree(Disagreement{Kind: "monitor", Case: clip(line, 200000), Impl: clip(got, 2000),
				What: fmt.Sprintf("AssembleFile reported success under a recorded schedule but the output differs from the blob (length %d, want %d)", len(r.target), len(g.blob))})
			continue
		}
		if r.err != nil && mutAt < 0 && g.expectSuccess() {
			rep.Disagree(Disagreement{Kind: "monitor", Case: clip(line, 200000), Impl: clip(got, 2000),
				What: "the store holds every chunk and the seeds are static and consistent (or skip/regenerate was chosen), yet assembly under a recorded schedule failed: " + r.err.Error()})
			continue
		}
		// trace validation
		if m.cmd == nil {
			continue
		}
		want := m.Ask(line)
		if p := os.Getenv("VERIF_TRACE_DUMP"); p != "" { // every case line and both answers, for looking at them
			if f, err := os.OpenFile(p, os.O_APPEND|os.O_CREATE|os.O_WRONLY, 0644); err == nil {
				fmt.Fprintf(f, "%s\n# impl  %s\n# model %s\n", line, got, want)
				f.Close()
			}
		}
		if want == got {
			rep.Traces++
			continue
		}
		rep.Disagree(Disagreement{Kind: "correspondence", Case: clip(line, 400000), Model: clip(want, 2000), Impl: clip(got, 2000),
			What: "the event trace of AssembleFile with several workers is not a behaviour of the machine AsmConc (or the final files or results differ)"})
	}
}

// "C01T": the trace validation alone (not a property of its own; for working on this file)
func init() {
	runners["C01T"] = func(cfg Config) {
		rep := NewReport("C01", cfg.Tier, cfg.Seed, "trace validation of the concurrent assembler alone")
		asmWork = cfg.Work
		m, err := StartModel(cfg.Driver)
		if err != nil {
			fatal(err)
		}
		defer m.Close()
		runC01Traces(cfg, rep, m, rand.New(rand.NewSource(cfg.Seed)))
		rep.Write(cfg.Out)
	}
}
