package main

// Trace validation of the real desync.RemoteSSH (remotessh.go: NewRemoteSSHStore / GetChunk / HasChunk / Close over a
// buffered channel of sessions) against the Lean step machine SshPool.step (driver command sshpool.accept).
//
// No hooks in the desync source: the store spawns, per session, the command in CASYNC_SSH_PATH; that is a wrapper
// that runs this binary as a proxy child (`-child sshproxy <socket>`) which connects to a unix socket of the harness
// and copies stdin/stdout to it.  Connection k in accept order is session k (the constructor starts the sessions one
// after the other).  The harness plays every server: it reads the client's messages (observations) and writes replies
// only when the scheduler says so.  When the harness closes a connection the proxy exits at once; the harness reaps it
// (it is a child of this process, and os/exec is never asked to Wait), so that after `x:i` the client's reads end and
// its writes fail with EPIPE.
//
// The scheduler is one goroutine, deterministic from the rng up to which of several callers blocked on the empty pool
// receives a session (learnt from the next request on that session); it never sleeps: after every action of its own it
// knows what the callers can do without it and waits for exactly that.  Time-outs only report a hang.

import (
	"bytes"
	"encoding/binary"
	"errors"
	"fmt"
	"io"
	"math/rand"
	"net"
	"net/url"
	"os"
	"path/filepath"
	"strconv"
	"strings"
	"syscall"
	"time"

	"github.com/folbricht/desync"
)

// sshProxyMain is the child: pid first, then stdin -> socket and socket -> stdout; the end of the socket is the end
// of the process
func sshProxyMain(args []string) {
	if len(args) < 1 {
		os.Exit(2)
	}
	c, err := net.Dial("unix", args[0])
	if err != nil {
		os.Exit(3)
	}
	var pid [8]byte
	binary.LittleEndian.PutUint64(pid[:], uint64(os.Getpid()))
	if _, err := c.Write(pid[:]); err != nil {
		os.Exit(3)
	}
	go func() {
		io.Copy(c, os.Stdin)
		// the client closed its side (it never does): leave the socket open, the harness decides
	}()
	io.Copy(os.Stdout, c)
	os.Exit(0)
}

func sshPoolWrapper(dir, sock string) (string, error) {
	self, err := os.Executable()
	if err != nil {
		return "", err
	}
	p := filepath.Join(dir, "fake-ssh-pool")
	err = os.WriteFile(p, []byte(fmt.Sprintf("#!/bin/sh\nexec %s -child sshproxy %s\n", self, sock)), 0755)
	return p, err
}

type sspObs struct {
	sess int
	kind string // "req", "bye", "eof", "other"
	id   desync.ChunkID
}

type sspRes struct {
	c   int
	out string
}

type sspOp struct {
	kind byte // 'g', 'h', 'c'
	data []byte
	id   desync.ChunkID
}

func (o sspOp) str() string {
	if o.kind == 'c' {
		return "c"
	}
	return string(o.kind) + ":" + hx(o.id[:])
}

// one decision of the scheduler: "s" start the next caller, "C" start Close, "a" answer caller c with action act
type sspStep struct {
	kind string
	c    int
	act  string
	k    int    // cut: length of the prefix
	aux  []byte // other: the data of the other chunk
}

func (s sspStep) str() string {
	switch s.kind {
	case "a":
		return fmt.Sprintf("a:%d:%s:%d:%s", s.c, s.act, s.k, hx(s.aux))
	}
	return s.kind
}

func sspParseScript(s string) []sspStep {
	var l []sspStep
	if s == "" {
		return l
	}
	for _, p := range strings.Split(s, ";") {
		f := strings.Split(p, ":")
		if f[0] == "a" && len(f) == 5 {
			c, _ := strconv.Atoi(f[1])
			k, _ := strconv.Atoi(f[3])
			l = append(l, sspStep{kind: "a", c: c, act: f[2], k: k, aux: unhx(f[4])})
		} else {
			l = append(l, sspStep{kind: f[0]})
		}
	}
	return l
}

var sspActions = []string{"chunk", "chunk", "missing", "other", "unknown", "exit", "cut", "garbage"}

func sspErrName(err error) string {
	if errors.Is(err, syscall.EPIPE) || strings.Contains(err.Error(), "broken pipe") {
		return "send"
	}
	return strings.TrimPrefix(psClientErr(err), "err:")
}

// the writer of a session's server-side Protocol: the handshake goes to the socket, later messages into a buffer, so
// that the scheduler writes (and records) exactly those bytes, or a part of them
type sspWriter struct {
	c   net.Conn
	buf *bytes.Buffer
}

func (w *sspWriter) Write(p []byte) (int, error) {
	if w.buf != nil {
		return w.buf.Write(p)
	}
	return w.c.Write(p)
}

type sspRun struct {
	n      int
	ops    []sspOp
	z      *psZ
	events []string
	script []sspStep
	outs   []string
	pool   []int
	retd   []int
	hist   map[string]int
	notes  []string // monitor violations
}

func (r *sspRun) line() string {
	var ops, sc []string
	for _, o := range r.ops {
		ops = append(ops, o.str())
	}
	for _, s := range r.script {
		sc = append(sc, s.str())
	}
	var datas []string
	for _, o := range r.ops {
		datas = append(datas, hx(o.data))
	}
	return fmt.Sprintf("sshpool.accept n=%d ops=%s zd=%s events=%s data=%s script=%s", r.n, strings.Join(ops, ","), psTable(r.z.dec),
		strings.Join(r.events, ","), strings.Join(datas, ","), strings.Join(sc, ";"))
}

func sspInts(l []int) string {
	if len(l) == 0 {
		return "-"
	}
	var s []string
	for _, i := range l {
		s = append(s, strconv.Itoa(i))
	}
	return strings.Join(s, ";")
}

func (r *sspRun) answer() string {
	outs := make([]string, len(r.outs))
	for i, o := range r.outs {
		if o == "" {
			o = "running"
		}
		outs[i] = o
	}
	return "ok " + strings.Join(outs, ",") + " pool=" + sspInts(r.pool) + " retired=" + sspInts(r.retd)
}

// sspExecute runs one scenario on the real store. next chooses the scheduler's decision among what is possible
// (nil script entry = stop). Returns a problem text ("" = every caller returned).
func sspExecute(work string, r *sspRun, next func(canStart, canClose bool, inflight []int) *sspStep) (problem string) {
	dir, err := os.MkdirTemp(work, "sshpool")
	if err != nil {
		return "setup: " + err.Error()
	}
	defer os.RemoveAll(dir)
	sock := filepath.Join(dir, "s")
	ln, err := net.Listen("unix", sock)
	if err != nil {
		return "setup: " + err.Error()
	}
	defer ln.Close()
	wrapper, err := sshPoolWrapper(dir, sock)
	if err != nil {
		return "setup: " + err.Error()
	}
	n := r.n
	obs := make(chan sspObs, 256)
	conns := make([]net.Conn, n)
	pids := make([]int, n)
	protos := make([]*desync.Protocol, n)
	writers := make([]*sspWriter, n)
	ready := make(chan string, 1)
	go func() {
		for k := 0; k < n; k++ {
			c, err := ln.Accept()
			if err != nil {
				ready <- "accept: " + err.Error()
				return
			}
			var pb [8]byte
			if _, err := io.ReadFull(c, pb[:]); err != nil {
				ready <- "pid: " + err.Error()
				return
			}
			conns[k] = c
			pids[k] = int(binary.LittleEndian.Uint64(pb[:]))
			writers[k] = &sspWriter{c: c}
			p := desync.NewProtocol(c, writers[k])
			protos[k] = p
			if _, err := p.Initialize(desync.CaProtocolReadableStore); err != nil {
				ready <- "handshake: " + err.Error()
				return
			}
			go func(k int, p *desync.Protocol) {
				for {
					m, err := p.ReadMessage()
					if err != nil {
						return // the scheduler closed the connection (the client never closes its side)
					}
					switch {
					case m.Type == desync.CaProtocolRequest && len(m.Body) == 40:
						var id desync.ChunkID
						copy(id[:], m.Body[8:40])
						obs <- sspObs{sess: k, kind: "req", id: id}
					case m.Type == desync.CaProtocolGoodbye:
						obs <- sspObs{sess: k, kind: "bye"}
					default:
						obs <- sspObs{sess: k, kind: "other"}
					}
				}
			}(k, p)
		}
		ready <- ""
	}()
	os.Setenv("CASYNC_SSH_PATH", wrapper)
	defer os.Unsetenv("CASYNC_SSH_PATH")
	u, _ := url.Parse("ssh://host/store")
	type ctor struct {
		s   *desync.RemoteSSH
		err error
	}
	cch := make(chan ctor, 1)
	go func() {
		s, err := desync.NewRemoteSSHStore(u, desync.StoreOptions{N: n})
		cch <- ctor{s, err}
	}()
	var store *desync.RemoteSSH
	select {
	case c := <-cch:
		if c.err != nil {
			return "constructor: " + c.err.Error()
		}
		store = c.s
	case <-time.After(5 * time.Second):
		return "constructor never returned"
	}
	if p := <-ready; p != "" {
		return p
	}
	dead := make([]bool, n)
	reap := func(i int) bool {
		done := make(chan struct{})
		go func() {
			var ws syscall.WaitStatus
			for {
				_, err := syscall.Wait4(pids[i], &ws, 0, nil)
				if err != syscall.EINTR {
					break
				}
			}
			close(done)
		}()
		select {
		case <-done:
			return true
		case <-time.After(5 * time.Second):
			return false
		}
	}
	kill := func(i int) bool {
		conns[i].Close()
		dead[i] = true
		return reap(i)
	}
	closeHad := false
	defer func() {
		// everything still running is released: the servers go away, blocked callers fail
		for i := 0; i < n; i++ {
			if !dead[i] {
				kill(i)
			}
		}
		if !closeHad && problem == "" {
			cd := make(chan struct{})
			go func() { store.Close(); close(cd) }()
			select {
			case <-cd:
			case <-time.After(5 * time.Second):
			}
		}
	}()

	// ---- shadow
	r.pool = nil
	for i := 0; i < n; i++ {
		r.pool = append(r.pool, i)
	}
	r.outs = make([]string, len(r.ops))
	left := make([]int, n)
	var waiting []int
	inflight := map[int]int{}
	res := make(chan sspRes, len(r.ops)+1)
	ev := func(f string, a ...interface{}) { r.events = append(r.events, fmt.Sprintf(f, a...)) }
	closeC, closeWaiting, passes := -1, false, 0

	// a caller that needs nobody (a frame was waiting in its stream) may return before its request has travelled
	// through the proxy: results that arrive while a message is awaited are kept
	var stash []sspRes
	byes := make([]bool, n)
	busy := func(o sspObs) bool {
		if o.kind != "req" {
			return false
		}
		for _, i := range inflight {
			if i == o.sess {
				problem = fmt.Sprintf("session %d used by two callers at once", i)
				return true
			}
		}
		return false
	}
	expectObs := func() (sspObs, bool) {
		for {
			select {
			case o := <-obs:
				return o, true
			case x := <-res:
				stash = append(stash, x)
			case <-time.After(5 * time.Second):
				problem = "no message from the client where one was expected"
				return sspObs{}, false
			}
		}
	}
	lenient := false // the next waiter's request may overtake the return of a caller that needed nobody
	expectRes := func(among []int) (int, bool) {
		var x sspRes
		if lenient {
			lenient = false
			if len(stash) > 0 {
				x, stash = stash[0], stash[1:]
			} else {
				select {
				case x = <-res:
				case <-time.After(5 * time.Second):
					problem = fmt.Sprintf("caller never returned (one of %v)", among)
					return 0, false
				}
			}
			for _, c := range among {
				if c == x.c {
					r.outs[c] = x.out
					return c, true
				}
			}
			problem = fmt.Sprintf("caller %d returned %s, expected one of %v to return", x.c, x.out, among)
			return 0, false
		}
		select {
		case o := <-obs:
			if !busy(o) {
				problem = fmt.Sprintf("message %s on session %d that nobody can have sent", o.kind, o.sess)
			}
			return 0, false
		default:
		}
		if len(stash) > 0 {
			x, stash = stash[0], stash[1:]
		} else {
			select {
			case x = <-res:
			case o := <-obs:
				if busy(o) {
					return 0, false
				}
				problem = fmt.Sprintf("message %s on session %d where the return of one of the callers %v was expected", o.kind, o.sess, among)
				return 0, false
			case <-time.After(5 * time.Second):
				problem = fmt.Sprintf("caller never returned (one of %v)", among)
				return 0, false
			}
		}
		for _, c := range among {
			if c == x.c {
				r.outs[c] = x.out
				return c, true
			}
		}
		problem = fmt.Sprintf("caller %d returned %s, expected one of %v to return", x.c, x.out, among)
		return 0, false
	}
	callerOf := func(id desync.ChunkID, among []int) int {
		for _, c := range among {
			if r.ops[c].id == id {
				return c
			}
		}
		return -1
	}
	remove := func(l []int, c int) []int {
		var o []int
		for _, x := range l {
			if x != c {
				o = append(o, x)
			}
		}
		return o
	}
	var doPut func(i int) bool
	// a Close pass that is known to get session i
	closeTake := func(i int) bool {
		// goodbyes on different sessions travel through different proxies: their order of arrival says nothing
		for !dead[i] && !byes[i] {
			o, ok := expectObs()
			if !ok {
				return false
			}
			if o.kind != "bye" || byes[o.sess] || dead[o.sess] {
				problem = fmt.Sprintf("Close: %s on session %d where a goodbye on session %d (head of the pool) was expected", o.kind, o.sess, i)
				return false
			}
			byes[o.sess] = true
		}
		ev("take:%d", closeC)
		ev("bye:%d", closeC)
		r.retd = append(r.retd, i)
		passes++
		if passes == n {
			closeWaiting = false
			if _, ok := expectRes([]int{closeC}); !ok {
				return false
			}
		}
		return true
	}
	// get/has caller(s) `among` of which one gets session i (a single one when the session came out of the buffer)
	hold := func(among []int, i int) bool {
		var c int
		if dead[i] {
			var ok bool
			if c, ok = expectRes(among); !ok {
				return false
			}
			ev("take:%d", c)
			ev("send:%d", c)
			ev("put:%d", c)
			r.hist["sshpool:send-on-dead-session"]++
			waiting = remove(waiting, c)
			return doPut(i)
		}
		o, ok := expectObs()
		if !ok {
			return false
		}
		if busy(o) {
			return false
		}
		if o.kind != "req" {
			problem = fmt.Sprintf("%s on session %d where a request was expected", o.kind, o.sess)
			return false
		}
		c = callerOf(o.id, among)
		if c < 0 {
			problem = fmt.Sprintf("request for %s on session %d is not from one of the callers %v", hx(o.id[:]), o.sess, among)
			return false
		}
		if o.sess != i {
			problem = fmt.Sprintf("caller %d got session %d, FIFO head is %d", c, o.sess, i)
			return false
		}
		waiting = remove(waiting, c)
		ev("take:%d", c)
		ev("send:%d", c)
		if left[i] > 0 {
			// a complete frame is waiting in the stream: the caller needs nobody
			left[i]--
			r.hist["sshpool:reads-leftover"]++
			lenient = len(waiting) > 0
			if _, ok := expectRes([]int{c}); !ok {
				return false
			}
			ev("recv:%d", c)
			ev("put:%d", c)
			return doPut(i)
		}
		inflight[c] = i
		return true
	}
	doPut = func(i int) bool {
		switch {
		case closeWaiting:
			return closeTake(i)
		case len(waiting) == 0:
			r.pool = append(r.pool, i)
			return true
		default:
			r.hist["sshpool:handed-to-waiter"]++
			return hold(append([]int(nil), waiting...), i)
		}
	}
	startCaller := func(c int) {
		op := r.ops[c]
		go func() {
			var out string
			switch op.kind {
			case 'g':
				ch, err := store.GetChunk(op.id)
				switch {
				case err == nil:
					b, derr := ch.Data()
					if derr != nil {
						out = "chunk:nodata"
					} else {
						out = "chunk:" + hx(b)
					}
				default:
					if _, ok := err.(desync.ChunkMissing); ok {
						out = "missing"
					} else {
						out = "fail:" + sspErrName(err)
					}
				}
			case 'h':
				has, err := store.HasChunk(op.id)
				e := "nil"
				if err != nil {
					e = sspErrName(err)
				}
				out = fmt.Sprintf("has:%v:%s", has, e)
			case 'c':
				if err := store.Close(); err != nil {
					out = "closed:err"
				} else {
					out = "closed:ok"
				}
			}
			res <- sspRes{c, out}
		}()
	}

	started := 0 // get/has callers are 0..k-1, Close (if any) is the last op
	nreq := len(r.ops)
	if nreq > 0 && r.ops[nreq-1].kind == 'c' {
		closeC = nreq - 1
		nreq--
	}
	closeStarted := false
	for {
		all := true
		for _, o := range r.outs {
			if o == "" {
				all = false
			}
		}
		if all {
			select {
			case o := <-obs:
				return fmt.Sprintf("message %s on session %d after every caller has returned", o.kind, o.sess)
			default:
			}
			for i := 0; i < n; i++ {
				if byes[i] && !closeHad {
					return "a goodbye without Close"
				}
			}
			return ""
		}
		var inf []int
		for c := 0; c < len(r.ops); c++ {
			if _, ok := inflight[c]; ok {
				inf = append(inf, c)
			}
		}
		canClose := closeC >= 0 && !closeStarted && started == nreq && len(waiting) == 0
		st := next(started < nreq, canClose, inf)
		if st == nil {
			return "the scheduler has nothing to do but callers are running"
		}
		r.script = append(r.script, *st)
		switch st.kind {
		case "s":
			c := started
			started++
			startCaller(c)
			ev("call:%d", c)
			if len(r.pool) == 0 {
				waiting = append(waiting, c)
				r.hist["sshpool:blocks-on-empty-pool"]++
				continue
			}
			i := r.pool[0]
			r.pool = r.pool[1:]
			if !hold([]int{c}, i) {
				return problem
			}
		case "C":
			closeStarted, closeHad = true, true
			startCaller(closeC)
			ev("call:%d", closeC)
			closeWaiting = true
			for passes < n && len(r.pool) > 0 {
				i := r.pool[0]
				r.pool = r.pool[1:]
				if !closeTake(i) {
					return problem
				}
			}
			if passes < n {
				r.hist["sshpool:close-waits-for-inflight"]++
			}
		case "a":
			c := st.c
			i, ok := inflight[c]
			if !ok {
				return "script: caller has no outstanding request"
			}
			id := r.ops[c].id
			sspMsgBytes := func(f func(p *desync.Protocol) error) []byte {
				writers[i].buf = &bytes.Buffer{}
				f(protos[i])
				b := writers[i].buf.Bytes()
				writers[i].buf = nil
				return b
			}
			honest := sspMsgBytes(func(p *desync.Protocol) error {
				return p.SendProtocolChunk(id, desync.CaProtocolChunkCompressed, r.z.addComp(r.ops[c].data))
			})
			var w []byte
			exit := false
			switch st.act {
			case "chunk":
				w = honest
			case "missing":
				w = sspMsgBytes(func(p *desync.Protocol) error { return p.SendMissing(id) })
			case "other":
				w = sspMsgBytes(func(p *desync.Protocol) error {
					return p.SendProtocolChunk(id, desync.CaProtocolChunkCompressed, r.z.addComp(st.aux))
				})
			case "unknown":
				w = psMsg(0x77, []byte{1, 2, 3})
			case "exit":
				exit = true
			case "cut":
				w = honest[:st.k]
				exit = true
			case "garbage":
				w = append(le(uint64(8)), sspMsgBytes(func(p *desync.Protocol) error { return p.SendMissing(id) })...)
				left[i]++
			default:
				return "script: unknown action " + st.act
			}
			r.hist["sshpool:"+st.act]++
			if len(w) > 0 {
				if _, err := conns[i].Write(w); err != nil {
					return "write to the session's socket: " + err.Error()
				}
				ev("w:%d:%s", i, hx(w))
			}
			if exit {
				if !kill(i) {
					return "the proxy of a closed session did not exit"
				}
				ev("x:%d", i)
			}
			if _, ok := expectRes([]int{c}); !ok {
				return problem
			}
			delete(inflight, c)
			ev("recv:%d", c)
			ev("put:%d", c)
			// monitors that need no model
			out := r.outs[c]
			own := "chunk:" + hx(r.ops[c].data)
			switch {
			case strings.HasPrefix(out, "chunk:") && out != own:
				r.notes = append(r.notes, fmt.Sprintf("caller %d received a chunk that is not the data of its id", c))
			case st.act == "chunk" && left[i] == 0 && r.ops[c].kind == 'g' && out != own:
				r.notes = append(r.notes, fmt.Sprintf("caller %d: the server answered with the chunk, GetChunk returned %s", c, out))
			case st.act == "chunk" && r.ops[c].kind == 'h' && out != "has:true:nil":
				r.notes = append(r.notes, fmt.Sprintf("caller %d: the server answered with the chunk, HasChunk returned %s", c, out))
			case st.act == "other" && (strings.HasPrefix(out, "chunk:") || strings.HasPrefix(out, "has:true")):
				r.notes = append(r.notes, fmt.Sprintf("caller %d accepted another chunk's data: %s", c, out))
			}
			if !doPut(i) {
				return problem
			}
		}
	}
}

// the first scenarios of every run are fixed: (0) one session, requests that fail with an error other than "missing"
// followed by more callers; (1) HasChunk answered with failures; (2) Close while requests are outstanding
var sspForced = []struct {
	n      int
	ops    string
	script string
}{
	{1, "gggh", "s;a:0:unknown:0:;s;a:1:unknown:0:;s;a:2:chunk:0:;s;a:3:exit:0:"},
	{2, "hhgh", "s;a:0:unknown:0:;s;a:1:other:0:aabbcc;s;a:2:chunk:0:;s;a:3:missing:0:"},
	{2, "gghc", "s;s;a:0:chunk:0:;s;a:1:missing:0:;a:2:chunk:0:;C"},
}

func sspGen(rng *rand.Rand, it int) (*sspRun, []sspStep) {
	r := &sspRun{n: 1 + rng.Intn(3), z: newPsZ(), hist: map[string]int{}}
	k := 2 + rng.Intn(5)
	if it < len(sspForced) {
		f := sspForced[it]
		r.n = f.n
		for c := 0; c < len(f.ops); c++ {
			o := sspOp{kind: f.ops[c]}
			if o.kind != 'c' {
				o.data = randBytes(rng, 1+rng.Intn(40))
				o.id = desync.Digest.Sum(o.data)
			}
			r.ops = append(r.ops, o)
		}
		return r, sspParseScript(f.script)
	}
	for c := 0; c < k; c++ {
		data := randBytes(rng, 1+rng.Intn(40))
		if rng.Intn(3) == 0 {
			data = bytes.Repeat([]byte{byte('a' + c)}, 20+rng.Intn(60)+c) // compressible
		}
		kind := byte('g')
		if rng.Intn(3) == 0 {
			kind = 'h'
		}
		r.ops = append(r.ops, sspOp{kind: kind, data: data, id: desync.Digest.Sum(data)})
	}
	if rng.Intn(3) == 0 {
		r.ops = append(r.ops, sspOp{kind: 'c'})
	}
	return r, nil
}

func runSshPool(cfg Config, rep *Report, m *Model, rng *rand.Rand) {
	t0 := time.Now()
	runs := 0
	for it := 0; it < cfg.N(60, 600); it++ {
		r, forced := sspGen(rng, it)
		next := func(canStart, canClose bool, inflight []int) *sspStep {
			if len(forced) > 0 {
				st := forced[0]
				forced = forced[1:]
				return &st
			}
			var ch []string
			if canStart {
				ch = append(ch, "s", "s", "s")
			}
			if len(inflight) > 0 {
				ch = append(ch, "a", "a")
			}
			if canClose {
				ch = append(ch, "C", "C")
			}
			if len(ch) == 0 {
				return nil
			}
			switch k := ch[rng.Intn(len(ch))]; k {
			case "a":
				c := inflight[rng.Intn(len(inflight))]
				st := &sspStep{kind: "a", c: c, act: sspActions[rng.Intn(len(sspActions))]}
				switch st.act {
				case "cut":
					comp, _ := desync.Compress(r.ops[c].data)
					total := 16 + 40 + len(comp)
					st.k = 1 + rng.Intn(total-1)
					if rng.Intn(3) == 0 {
						st.k = 1 + rng.Intn(20)
					}
				case "other":
					st.aux = randBytes(rng, 1+rng.Intn(30))
				}
				return st
			default:
				return &sspStep{kind: k}
			}
		}
		problem := sspExecute(cfg.Work, r, next)
		runs++
		line := r.line()
		for k, v := range r.hist {
			rep.Histogram[k] += v
		}
		if problem != "" && (strings.Contains(problem, "expected one of") || strings.Contains(problem, "where the return of one of the callers")) {
			// the harness predicted which of several callers that can all return would be seen returning first, and the Go
			// runtime ran another one first (a Close that needed nobody, a caller whose reply was already there): the order in
			// which independent callers get to run is not a property of RemoteSSH.  Such a run is not comparable and is counted,
			// not reported (false alarm of this harness in `vp check` request 12 on a fresh machine: "caller 4 returned closed:ok,
			// expected one of [3] to return"; corrected in session 7).  What the machine's theorems are about — exclusive use of a
			// session, no lost session, every caller returns, own reply — keeps its own messages and is still reported.
			rep.Histogram["sshpool:order-not-predicted"]++
			continue
		}
		if problem != "" {
			rep.Disagree(Disagreement{Kind: "monitor", Case: line, What: "sshpool: " + problem})
			if strings.Contains(problem, "never returned") || strings.Contains(problem, "no message from the client") {
				// a store that hangs once hangs again, and the command-line runs that follow in runC14 use RemoteSSH without
				// a time-out: the run ends here with what it has (the failing input is in the report)
				rep.Notes = append(rep.Notes, "sshpool: RemoteSSH hangs; the rest of the C14 harness (command-line runs over casync-over-SSH) was skipped")
				rep.Write(cfg.Out)
				os.Exit(0)
			}
			continue
		}
		for _, w := range r.notes {
			rep.Disagree(Disagreement{Kind: "monitor", Case: line, What: "sshpool: " + w})
		}
		answer := r.answer()
		tags := []string{"sshpool", fmt.Sprintf("sshpool:n=%d", r.n)}
		if r.ops[len(r.ops)-1].kind == 'c' {
			tags = append(tags, "sshpool:with-close")
		}
		for _, o := range r.outs {
			tags = append(tags, "sshpool:result:"+strings.SplitN(strings.SplitN(o, ":", 2)[0]+":"+sspTail(o), "::", 2)[0])
		}
		rep.Count(line, true, tags...)
		rep.Compare(m, line, func(string) string { return answer }, nil)
	}
	rep.Notes = append(rep.Notes, fmt.Sprintf("sshpool: %d scenarios on the real RemoteSSH store (proxy child processes, scripted servers) in %.1fs",
		runs, time.Since(t0).Seconds()))
}

// the part of a result that is worth a histogram bucket (no data)
func sspTail(o string) string {
	switch {
	case strings.HasPrefix(o, "chunk:"):
		return ""
	case strings.HasPrefix(o, "fail:"), strings.HasPrefix(o, "has:"), strings.HasPrefix(o, "closed:"):
		return strings.SplitN(o, ":", 2)[1]
	}
	return ""
}

// replay: the scenario is executed again from the script in the line; which of several blocked callers receives a
// session is up to the Go run time, so the events of the second execution may differ: a few attempts, then give up
func implSshPoolAccept(line string) string {
	_, a := parseCase(line)
	n, _ := strconv.Atoi(a["n"])
	var ops []sspOp
	datas := strings.Split(a["data"], ",")
	for k, s := range strings.Split(a["ops"], ",") {
		f := strings.Split(s, ":")
		o := sspOp{kind: f[0][0]}
		if len(f) == 2 && k < len(datas) {
			copy(o.id[:], unhx(f[1]))
			o.data = unhx(datas[k])
		}
		ops = append(ops, o)
	}
	script := sspParseScript(a["script"])
	last := "schedule-not-reproducible"
	for attempt := 0; attempt < 5; attempt++ {
		r := &sspRun{n: n, ops: ops, z: newPsZ(), hist: map[string]int{}}
		pos := 0
		next := func(canStart, canClose bool, inflight []int) *sspStep {
			if pos >= len(script) {
				return nil
			}
			st := script[pos]
			pos++
			return &st
		}
		work, err := os.MkdirTemp("", "sshpool-replay")
		if err != nil {
			return "setup-error"
		}
		problem := sspExecute(work, r, next)
		os.RemoveAll(work)
		if problem != "" {
			last = "problem: " + strings.ReplaceAll(problem, " ", "-")
			if strings.HasPrefix(problem, "script:") {
				continue
			}
			return last
		}
		if len(r.notes) > 0 {
			return "monitor: " + strings.ReplaceAll(r.notes[0], " ", "-")
		}
		if strings.Join(r.events, ",") == a["events"] {
			return r.answer()
		}
	}
	return last
}
