package main

// C06 with large chunks (added in session 7 after seeded change C06-m: the shared zstd decoder got a 64 MiB memory limit
// while the encoder has none — a compressed store accepted chunks it then refused to decode; ChopFile reported success
// and HasChunk said true, GetChunk failed with ChunkInvalid).  "Every chunk referenced by the index can be read back,
// valid, from the target store" is checked for chunks of 20 and 70 MiB (more sizes in the thorough tier), both formats,
// through ChopFile into a local store.

import (
	"context"
	"fmt"
	"math/rand"
	"os"
	"path/filepath"

	"github.com/folbricht/desync"
)

func c06LargeChunks(cfg Config, rep *Report, rng *rand.Rand) {
	setDigest("sha512")
	sizes := []int{70 << 20, 20 << 20}
	if cfg.Tier == "thorough" {
		sizes = append(sizes, 33<<20, 130<<20, 260<<20)
	}
	for i, size := range sizes {
		unc := i%2 == 1
		dir := filepath.Join(cfg.Work, fmt.Sprintf("big06-%d", i))
		os.RemoveAll(dir)
		os.MkdirAll(dir, 0755)
		st, err := desync.NewLocalStore(dir, desync.StoreOptions{Uncompressed: unc})
		if err != nil {
			continue
		}
		// a quarter random, the rest a pattern: compresses, but not to nothing; a small chunk before and after
		data := make([]byte, size+700)
		rng.Read(data[:300+size/4])
		for k := 300 + size/4; k < 300+size; k++ {
			data[k] = byte(k % 251)
		}
		rng.Read(data[300+size:])
		f := filepath.Join(cfg.Work, "big06-blob")
		if err := os.WriteFile(f, data, 0644); err != nil {
			fatal(err)
		}
		chunks := indexOf(data, []int{300, size, 400})
		caseLine := fmt.Sprintf("chop.large size=%d uncompressed=%v", size, unc)
		rep.Count(caseLine, true, "chop-large")
		err = desync.ChopFile(context.Background(), f, chunks, st, 2, desync.NewProgressBar(""))
		os.Remove(f)
		if err != nil {
			rep.Disagree(Disagreement{Kind: "monitor", Case: caseLine, What: "ChopFile of a file with a large chunk failed: " + err.Error()})
			os.RemoveAll(dir)
			continue
		}
		for _, c := range chunks {
			got, err := st.GetChunk(c.ID)
			if err != nil {
				rep.Disagree(Disagreement{Kind: "monitor", Case: caseLine,
					What: fmt.Sprintf("ChopFile reported success but the chunk of %d bytes cannot be read back from the target store: %v", c.Size, err)})
				break
			}
			b, err := got.Data()
			if err != nil || desync.Digest.Sum(b) != c.ID {
				rep.Disagree(Disagreement{Kind: "monitor", Case: caseLine,
					What: fmt.Sprintf("ChopFile reported success but the chunk of %d bytes read back from the target store is not valid (%v)", c.Size, err)})
				break
			}
		}
		os.RemoveAll(dir)
	}
}
