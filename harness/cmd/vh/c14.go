package main

import (
	"bytes"
	"context"
	"fmt"
	"io"
	"math/rand"
	"net"
	"net/http"
	"net/http/httptest"
	"net/url"
	"os"
	"path/filepath"
	"strconv"
	"strings"
	"sync"
	"sync/atomic"
	"time"

	"github.com/folbricht/desync"
)

// scriptedHTTP answers the i-th request with the i-th scripted response
type scriptedHTTP struct {
	mu    sync.Mutex
	resps []string // "200:hex" | "404" | "503" | "err" (connection reset) | "short" (truncated body)
	n     int
}

func (s *scriptedHTTP) ServeHTTP(w http.ResponseWriter, r *http.Request) {
	s.mu.Lock()
	i := s.n
	s.n++
	s.mu.Unlock()
	io.Copy(io.Discard, r.Body)
	resp := "err"
	if i < len(s.resps) {
		resp = s.resps[i]
	}
	switch {
	case resp == "err" || resp == "short":
		hj, ok := w.(http.Hijacker)
		if !ok {
			return
		}
		conn, buf, _ := hj.Hijack()
		if resp == "short" {
			buf.WriteString("HTTP/1.1 200 OK\r\nContent-Length: 100\r\n\r\nonly-a-few-bytes")
			buf.Flush()
		}
		if tc, ok := conn.(*net.TCPConn); ok {
			tc.SetLinger(0)
		}
		conn.Close()
	default:
		f := strings.SplitN(resp, ":", 2)
		code, _ := strconv.Atoi(f[0])
		w.WriteHeader(code)
		if len(f) == 2 {
			w.Write(unhx(f[1]))
		}
	}
}

var c14srv *scriptedHTTP
var c14ts *httptest.Server

func implHTTPRetry(line string) string {
	_, a := parseCase(line)
	if c14ts == nil {
		c14srv = &scriptedHTTP{}
		c14ts = httptest.NewUnstartedServer(c14srv)
		// no connection reuse: net/http would transparently re-send an idempotent request that fails on
		// a reused connection, which would blur the count of the client's own attempts
		c14ts.Config.SetKeepAlivesEnabled(false)
		c14ts.Start()
	}
	c14srv.mu.Lock()
	c14srv.resps = nil
	if a["resps"] != "" {
		c14srv.resps = strings.Split(a["resps"], ",")
	}
	c14srv.n = 0
	c14srv.mu.Unlock()
	retry, _ := strconv.Atoi(a["retry"])
	u, _ := url.Parse(c14ts.URL + "/")
	base, err := desync.NewRemoteHTTPStoreBase(u, desync.StoreOptions{ErrorRetry: retry, ErrorRetryBaseInterval: 0, Uncompressed: true, Timeout: 5 * time.Second})
	if err != nil {
		return "harness-error"
	}
	st := desync.RemoteHTTP{RemoteHTTPBase: base}
	var res string
	switch a["op"] {
	case "get":
		b, err := base.GetObject("abcd/abcdef")
		switch {
		case err == nil:
			res = "ok:" + hx(b)
		default:
			if _, ok := err.(desync.NoSuchObject); ok {
				res = "missing"
			} else {
				res = "error"
			}
		}
	case "has":
		var id desync.ChunkID
		has, err := st.HasChunk(id)
		switch {
		case err != nil:
			res = "error"
		case has:
			res = "present"
		default:
			res = "absent"
		}
	default:
		if err := base.StoreObject("abcd/abcdef", func() io.Reader { return bytes.NewReader([]byte("payload")) }); err != nil {
			res = "error"
		} else {
			res = "stored"
		}
	}
	c14srv.mu.Lock()
	n := c14srv.n
	c14srv.mu.Unlock()
	return fmt.Sprintf("%s attempts=%d", res, n)
}

func runC14(cfg Config) {
	rep := NewReport("C14", cfg.Tier, cfg.Seed,
		"(a) scripted HTTP servers: response sequences over {200, 201, 404, 400, 403, 500, 502, 503, connection reset, truncated body} of "+
			"length 0..6 x error-retry 0..5 x GET / HEAD / PUT through the real client: result and number of attempts vs the model; "+
			"(b) compression matrix with real zstd: client {compressed, uncompressed} x chunk server {-u or not} x upstream store "+
			"{compressed, uncompressed} x verify, through a real HTTPHandler over httptest; (c) index GET/HEAD/PUT through the index server and "+
			"client; (d) casync protocol over pipes: chunks, missing chunks (several in a row), message round trip. non-trivial = distinct "+
			"case with at least one failing response or a format conversion")
	m, err := StartModel(cfg.Driver)
	if err != nil {
		fatal(err)
	}
	defer m.Close()
	rng := rand.New(rand.NewSource(cfg.Seed))
	monitor := func(what, caseLine string) {
		rep.Disagree(Disagreement{Kind: "monitor", Case: caseLine, What: what})
	}
	kinds := []string{"200", "201", "404", "400", "403", "500", "502", "503", "err", "short"}
	n := cfg.N(600, 15000)
	for it := 0; it < n; it++ {
		var rs []string
		for k := 0; k < rng.Intn(7); k++ {
			r := kinds[rng.Intn(len(kinds))]
			if rng.Intn(3) > 0 && k < 3 { // bias towards a run of transient failures first
				r = []string{"503", "500", "err", "short"}[rng.Intn(4)]
			}
			if r == "200" {
				r = "200:" + hx(randBytes(rng, rng.Intn(10)))
			}
			rs = append(rs, r)
		}
		op := []string{"get", "has", "store"}[rng.Intn(3)]
		retry := rng.Intn(6)
		line := fmt.Sprintf("http.retry op=%s retry=%d resps=%s", op, retry, strings.Join(rs, ","))
		// the model treats "short" as a transport error
		mline := strings.ReplaceAll(line, "short", "err")
		if op == "has" { // HEAD never reads a body: a truncated 200 is a 200
			mline = strings.ReplaceAll(line, "short", "200")
		}
		got := implHTTPRetry(line)
		want := m.Ask(mline)
		fails := strings.Count(line, "50") + strings.Count(line, "err") + strings.Count(line, "short")
		rep.Count(line, fails > 0, "retry:"+op, "result:"+strings.SplitN(got, " ", 2)[0][:2])
		if m.cmd != nil && got != want {
			rep.Disagree(Disagreement{Kind: "correspondence", Case: line, Model: want, Impl: got, What: "model and implementation differ"})
		}
		// monitors
		att, _ := strconv.Atoi(got[strings.Index(got, "attempts=")+9:])
		budget := retry
		if budget < 1 {
			budget = 1
		}
		if att > budget {
			monitor(fmt.Sprintf("%d attempts with a retry budget of %d", att, retry), line)
		}
	}

	// (b) compression matrix through a real handler
	for it := 0; it < cfg.N(60, 1500); it++ {
		data := randBytes(rng, 1+rng.Intn(500))
		if it%3 == 0 {
			data = bytes.Repeat([]byte("z"), 1+rng.Intn(500))
		}
		id := desync.Digest.Sum(data)
		for _, uc := range []bool{true, false} {
			dir := filepath.Join(cfg.Work, "upstream")
			os.RemoveAll(dir)
			os.MkdirAll(dir, 0755)
			up, _ := desync.NewLocalStore(dir, desync.StoreOptions{Uncompressed: !uc})
			up.StoreChunk(desync.NewChunk(data))
			for _, sc := range []bool{true, false} {
				var conv desync.Converters
				if sc {
					conv = desync.Converters{desync.Compressor{}}
				}
				ts := httptest.NewServer(desync.NewHTTPHandler(up, false, false, conv, ""))
				for _, cc := range []bool{true, false} {
					for _, verify := range []bool{true, false} {
						u, _ := url.Parse(ts.URL)
						cl, _ := desync.NewRemoteHTTPStore(u, desync.StoreOptions{Uncompressed: !cc, SkipVerify: !verify, ErrorRetry: 0})
						caseLine := fmt.Sprintf("matrix client=%v server=%v upstream=%v verify=%v len=%d", cc, sc, uc, verify, len(data))
						rep.Count(caseLine+fmt.Sprint(it), uc != sc, "matrix")
						c, err := cl.GetChunk(id)
						if err != nil {
							if cc == sc {
								monitor("a chunk did not arrive although client and server agree on the format: "+err.Error(), caseLine)
							}
							continue
						}
						b, err := c.Data()
						if err != nil || !bytes.Equal(b, data) {
							monitor("a chunk arrived changed across the compression matrix", caseLine)
						}
						// missing stays missing
						var other desync.ChunkID
						other[0] = 0xEE
						if _, err := cl.GetChunk(other); err == nil {
							monitor("a missing chunk was delivered", caseLine)
						} else if _, ok := err.(desync.ChunkMissing); !ok && cc == sc {
							monitor("a missing chunk was reported as a failure: "+err.Error(), caseLine)
						}
						if has, err := cl.HasChunk(other); cc == sc && (err != nil || has) {
							monitor("HEAD for a missing chunk did not answer 'absent'", caseLine)
						}
					}
				}
				ts.Close()
			}
		}
	}

	// (c) indexes through the index server
	idir := filepath.Join(cfg.Work, "indexes")
	os.RemoveAll(idir)
	os.MkdirAll(idir, 0755)
	is, _ := desync.NewLocalIndexStore(idir)
	c14IndexHandler := desync.NewHTTPIndexHandler(is, true, "")
	its := httptest.NewServer(c14IndexHandler)
	defer its.Close()
	for it := 0; it < cfg.N(40, 800); it++ {
		idx := genIndex(rng)
		idx.Index.FeatureFlags |= desync.CaFormatSHA512256
		if len(idx.Chunks) > 0 && idx.Chunks[0].Size == 0 {
			continue
		}
		wrap := false
		for _, c := range idx.Chunks {
			if c.Start+c.Size < c.Start {
				wrap = true
			}
		}
		if wrap {
			continue
		}
		u, _ := url.Parse(its.URL + "/")
		cl, err := desync.NewRemoteHTTPIndexStore(u, desync.StoreOptions{ErrorRetry: 0})
		if err != nil {
			fatal(err)
		}
		name := fmt.Sprintf("i%d.caibx", it)
		caseLine := "index.http " + name
		rep.Count(caseLine, len(idx.Chunks) > 0, "index-http")
		if _, err := cl.GetIndex(name); err == nil {
			monitor("a missing index was delivered", caseLine)
		} else if _, ok := err.(desync.NoSuchObject); !ok {
			monitor("a missing index was reported as a failure: "+err.Error(), caseLine)
		}
		if err := cl.StoreIndex(name, idx); err != nil {
			monitor("storing an index over HTTP failed: "+err.Error(), caseLine)
			continue
		}
		got, err := cl.GetIndex(name)
		if err != nil || indexStr(got) != indexStr(idx) {
			monitor("an index did not arrive unchanged over HTTP", caseLine)
		}
		// HEAD through a raw request
		for _, nm := range []string{name, "absent.caibx"} {
			req, _ := http.NewRequest("HEAD", its.URL+"/"+nm, nil)
			resp, err := http.DefaultClient.Do(req)
			if err == nil {
				resp.Body.Close()
				if (nm == name) != (resp.StatusCode == 200) || (nm != name) != (resp.StatusCode == 404) {
					monitor(fmt.Sprintf("index HEAD %s answered %d", nm, resp.StatusCode), caseLine)
				}
			}
		}
	}

	// (c2) index transfer over HTTP when the first f attempts fail transiently (503, 500, connection
	// reset): within the retry budget the caller must not see the failure, and the index arrives
	{
		var failLeft int32
		var mode int32
		flaky := http.HandlerFunc(func(w http.ResponseWriter, r *http.Request) {
			if atomic.AddInt32(&failLeft, -1) >= 0 {
				switch atomic.LoadInt32(&mode) {
				case 0:
					io.Copy(io.Discard, r.Body)
					w.WriteHeader(503)
				case 1:
					w.WriteHeader(500)
				default:
					if hj, ok := w.(http.Hijacker); ok {
						if c, _, err := hj.Hijack(); err == nil {
							c.Close()
						}
					}
				}
				return
			}
			c14IndexHandler.ServeHTTP(w, r)
		})
		fts := httptest.NewServer(flaky)
		fts.Config.SetKeepAlivesEnabled(false)
		const budget = 4
		for it := 0; it < cfg.N(30, 400); it++ {
			idx := genIndex(rng)
			ok := algForFlags(idx.Index.FeatureFlags) == "sha512" && (len(idx.Chunks) == 0 || idx.Chunks[0].Size > 0)
			for _, c := range idx.Chunks {
				if c.Start+c.Size < c.Start || c.Size > idx.Index.ChunkSizeMax {
					ok = false
				}
			}
			if !ok {
				continue
			}
			u, _ := url.Parse(fts.URL + "/")
			cl, err := desync.NewRemoteHTTPIndexStore(u, desync.StoreOptions{ErrorRetry: budget, ErrorRetryBaseInterval: 0})
			if err != nil {
				fatal(err)
			}
			f := rng.Intn(budget + 2) // ErrorRetry = budget means budget attempts in all (theorem retry_bound)
			md := rng.Intn(3)
			name := fmt.Sprintf("flaky%d.caibx", it)
			caseLine := fmt.Sprintf("index.http.retry name=%s failures=%d kind=%d budget=%d", name, f, md, budget)
			rep.Count(caseLine, f > 0, "index-http-retry")
			atomic.StoreInt32(&mode, int32(md))
			atomic.StoreInt32(&failLeft, int32(f))
			err = cl.StoreIndex(name, idx)
			atomic.StoreInt32(&failLeft, 0)
			if f < budget && err != nil {
				monitor(fmt.Sprintf("StoreIndex over HTTP failed although only %d of %d attempts failed transiently: %v", f, budget, err), caseLine)
				continue
			}
			if err != nil {
				continue
			}
			if f >= budget {
				monitor(fmt.Sprintf("StoreIndex reported success although all %d attempts failed", budget), caseLine)
			}
			atomic.StoreInt32(&failLeft, int32(f))
			got, err := cl.GetIndex(name)
			atomic.StoreInt32(&failLeft, 0)
			if f < budget && (err != nil || indexStr(got) != indexStr(idx)) {
				monitor(fmt.Sprintf("GetIndex over HTTP after %d transient failures: %v / index changed", f, err), caseLine)
			}
		}
		fts.Close()
	}

	// (d) casync protocol over pipes against the real server
	for it := 0; it < cfg.N(40, 800); it++ {
		dir := filepath.Join(cfg.Work, "pstore")
		os.RemoveAll(dir)
		os.MkdirAll(dir, 0755)
		// the upstream store of the server: either on-disk format, verifying or not
		upUnc, upSkip := rng.Intn(2) == 0, rng.Intn(3) == 0
		ls, _ := desync.NewLocalStore(dir, desync.StoreOptions{Uncompressed: upUnc, SkipVerify: upSkip})
		var have [][]byte
		for k := 0; k < 1+rng.Intn(4); k++ {
			d := randBytes(rng, 1+rng.Intn(300))
			ls.StoreChunk(desync.NewChunk(d))
			have = append(have, d)
		}
		cr, sw := io.Pipe()
		sr, cw := io.Pipe()
		srv := desync.NewProtocolServer(sr, sw, ls)
		done := make(chan error, 1)
		go func() {
			err := srv.Serve(context.Background())
			sw.Close() // the server process is gone: end of stream for the client, and what it still writes goes nowhere
			go io.Copy(io.Discard, sr)
			done <- err
		}()
		cl := desync.NewProtocol(cr, cw)
		if _, err := cl.Initialize(desync.CaProtocolPullChunks); err != nil {
			monitor("protocol handshake failed: "+err.Error(), "protocol")
			continue
		}
		caseLine := fmt.Sprintf("protocol it=%d chunks=%d upstream-uncompressed=%v upstream-skipverify=%v", it, len(have), upUnc, upSkip)
		rep.Count(caseLine, true, "protocol")
		for k := 0; k < 8; k++ {
			if rng.Intn(2) == 0 { // a missing chunk — possibly several in a row
				var id desync.ChunkID
				rng.Read(id[:])
				_, err := cl.RequestChunk(id)
				if _, ok := err.(desync.ChunkMissing); !ok {
					monitor(fmt.Sprintf("request %d: a missing chunk was not reported as missing over the casync protocol: %v", k, err), caseLine)
					break
				}
			} else {
				d := have[rng.Intn(len(have))]
				c, err := cl.RequestChunk(desync.Digest.Sum(d))
				if err != nil {
					monitor(fmt.Sprintf("request %d: a present chunk failed over the casync protocol: %v", k, err), caseLine)
					break
				}
				if b, _ := c.Data(); !bytes.Equal(b, d) {
					monitor("a chunk arrived changed over the casync protocol", caseLine)
				}
			}
		}
		cl.SendGoodbye()
		cw.Close()
		select {
		case <-done:
		case <-time.After(2 * time.Second):
			monitor("protocol server did not terminate after goodbye", caseLine)
		}
		sw.Close()
	}
	if c14ts != nil {
		c14ts.Close()
		c14ts = nil
	}
	// (c') index names over HTTP: a name is a name, not a URL reference — '#', '?', ':', '%', spaces and encoded
	// separators in it must neither change which object is stored or fetched nor reach outside the store,
	// directly and through an index server whose upstream is another HTTP index store
	{
		base := filepath.Join(cfg.Work, "idxnames")
		os.RemoveAll(base)
		os.MkdirAll(filepath.Join(base, "indexes"), 0755)
		os.MkdirAll(filepath.Join(base, "private"), 0755)
		mkIdx := func(k int) desync.Index {
			var ch []desync.IndexChunk
			for i := 0; i < 1+k; i++ {
				ch = append(ch, desync.IndexChunk{ID: desync.Digest.Sum([]byte{byte(k), byte(i)}), Start: uint64(i * 10), Size: 10})
			}
			return desync.Index{Index: desync.FormatIndex{FeatureFlags: desync.CaFormatSHA512256 | desync.CaFormatExcludeNoDump, ChunkSizeMin: 1, ChunkSizeAvg: 10, ChunkSizeMax: 10}, Chunks: ch}
		}
		secret := mkIdx(7)
		sf, _ := os.Create(filepath.Join(base, "private", "secret.caibx"))
		secret.WriteTo(sf)
		sf.Close()
		lis, _ := desync.NewLocalIndexStore(filepath.Join(base, "indexes"))
		inner := httptest.NewServer(http.StripPrefix("/indexes", desync.NewHTTPIndexHandler(lis, true, "")))
		defer inner.Close()
		// a plain file server over the parent directory (what a web server in front of the indexes may be)
		files := httptest.NewServer(http.FileServer(http.Dir(base)))
		defer files.Close()
		sameIdx := func(a, b desync.Index) bool {
			if len(a.Chunks) != len(b.Chunks) {
				return false
			}
			for i := range a.Chunks {
				if a.Chunks[i] != b.Chunks[i] {
					return false
				}
			}
			return true
		}
		names := []string{"plain.caibx", "release#1.caibx", "release#2.caibx", "what?x=1.caibx", "image:1.caibx", "50%.caibx", "a b.caibx",
			"%2e%2e%2fprivate%2fsecret.caibx", "..%2fprivate%2fsecret.caibx", "x%23y.caibx", "+plus.caibx", "semi;colon.caibx"}
		for _, via := range []string{"direct", "proxy"} {
			target := inner.URL + "/indexes/"
			var closeProxy func()
			if via == "proxy" {
				uu, _ := url.Parse(inner.URL + "/indexes/")
				up, err := desync.NewRemoteHTTPIndexStore(uu, desync.StoreOptions{})
				if err != nil {
					fatal(err)
				}
				px := httptest.NewServer(desync.NewHTTPIndexHandler(up, true, ""))
				target = px.URL + "/"
				closeProxy = px.Close
			}
			u, _ := url.Parse(target)
			for k, name := range names {
				caseLine := fmt.Sprintf("index.name via=%s name=%s", via, hx([]byte(name)))
				rep.Count(caseLine, true, "index-name:"+via)
				res := guard(func() string {
					cl, err := desync.NewRemoteHTTPIndexStore(u, desync.StoreOptions{})
					if err != nil {
						return "client-error"
					}
					// never stored so far: must be reported as missing (an error), never as some index
					if got, err := cl.GetIndex(name); err == nil {
						if sameIdx(got, secret) {
							return "read an index outside the served store"
						}
						return "an index that was never stored is reported present"
					}
					want := mkIdx(k % 5)
					if err := cl.StoreIndex(name, want); err != nil {
						return "store failed: " + err.Error()
					}
					got, err := cl.GetIndex(name)
					if err != nil {
						return "stored index cannot be fetched: " + err.Error()
					}
					if !sameIdx(got, want) {
						return "fetched index differs from the stored one"
					}
					if _, err := os.Stat(filepath.Join(base, "indexes", name)); err != nil {
						return "the store does not hold the index under the name it was given"
					}
					return "ok"
				})
				if res != "ok" {
					monitor("index "+fmt.Sprintf("%q", name)+" over HTTP ("+via+"): "+res, caseLine)
				}
				os.Remove(filepath.Join(base, "indexes", name))
			}
			// nothing may have appeared outside the store, and the secret is untouched
			if ents, _ := os.ReadDir(filepath.Join(base, "private")); len(ents) != 1 {
				monitor("an index upload over HTTP ("+via+") created an object outside the served store", "index.name via="+via)
			}
			if ents, _ := os.ReadDir(base); len(ents) != 2 {
				monitor("an index upload over HTTP ("+via+") created an object next to the served store", "index.name via="+via)
			}
			if closeProxy != nil {
				closeProxy()
			}
		}
		// an index server in front of a web server: encoded separators must not walk out of the upstream path
		{
			uu, _ := url.Parse(files.URL + "/indexes/")
			up, _ := desync.NewRemoteHTTPIndexStore(uu, desync.StoreOptions{})
			h := desync.NewHTTPIndexHandler(up, false, "")
			for _, raw := range []string{"/%252e%252e%252fprivate%252fsecret.caibx", "/..%252fprivate%252fsecret.caibx", "/%2e%2e%2fprivate%2fsecret.caibx"} {
				req := httptest.NewRequest("GET", "http://x"+raw, nil)
				w := httptest.NewRecorder()
				guard(func() string { h.ServeHTTP(w, req); return "" })
				caseLine := "index.proxy-escape path=" + raw
				rep.Count(caseLine, true, "index-proxy-escape")
				if w.Code == 200 && w.Body.Len() > 0 {
					monitor("an index server whose upstream is an HTTP store served an object outside the upstream store path for "+raw, caseLine)
				}
			}
		}
	}

	// (e) chunks fetched over one casync-protocol session stay intact while later requests use the same session:
	// held chunk objects, and a chunk server whose client is slow to take the body (overlapping requests)
	for it := 0; it < cfg.N(60, 1500); it++ {
		var mu sync.Mutex
		objs := map[desync.ChunkID][]byte{}
		var ids []desync.ChunkID
		datas := map[desync.ChunkID][]byte{}
		size := 50 + rng.Intn(3000)
		for k := 0; k < 3; k++ {
			d := randBytes(rng, size-rng.Intn(20)) // similar sizes: a later reply fits the room an earlier one took
			if rng.Intn(3) == 0 {
				d = bytes.Repeat([]byte{byte(k + 1)}, size+rng.Intn(2000))
			}
			raw, _ := desync.Compress(d)
			id := desync.Digest.Sum(d)
			objs[id], datas[id] = raw, d
			ids = append(ids, id)
		}
		client, closeP := rawProtocolStoreLabelled(&mu, objs, nil)
		up := protoStore{client}
		caseLine := fmt.Sprintf("proto.session it=%d size~%d", it, size)
		rep.Count(caseLine, true, "proto-session")
		// held chunk objects
		var held []*desync.Chunk
		for _, id := range ids {
			c, err := up.GetChunk(id)
			if err != nil {
				monitor("a present chunk failed over the casync protocol: "+err.Error(), caseLine)
				continue
			}
			held = append(held, c)
		}
		sdir := filepath.Join(cfg.Work, "proto-held")
		os.RemoveAll(sdir)
		os.MkdirAll(sdir, 0755)
		ls, _ := desync.NewLocalStore(sdir, desync.StoreOptions{})
		for _, c := range held {
			id := c.ID()
			if d, err := c.Data(); err != nil || !bytes.Equal(d, datas[id]) {
				monitor("a chunk obtained over the casync protocol changed after later requests on the same session", caseLine)
			}
			if err := ls.StoreChunk(c); err != nil {
				monitor("storing a chunk obtained over the casync protocol failed: "+err.Error(), caseLine)
				continue
			}
			sid := hx(id[:])
			raw, _ := os.ReadFile(filepath.Join(sdir, sid[:4], sid+".cacnk"))
			if d, err := desync.Decompress(nil, raw); err != nil || !bytes.Equal(d, datas[id]) {
				monitor("a chunk obtained over the casync protocol and stored after later requests on the same session is damaged in the store", caseLine)
			}
		}
		// a chunk server in front of that session; the first client takes the body late
		h := desync.NewHTTPHandler(up, false, false, desync.Converters{desync.Compressor{}}, "")
		pathOf := func(id desync.ChunkID) string { s := hx(id[:]); return "/" + s[:4] + "/" + s + ".cacnk" }
		wA := &gatedResponse{hdr: http.Header{}, gate: make(chan struct{}), entered: make(chan struct{}, 1)}
		doneA := make(chan struct{})
		go func() {
			defer close(doneA)
			defer func() { recover() }()
			h.ServeHTTP(wA, httptest.NewRequest("GET", pathOf(ids[0]), nil))
		}()
		select {
		case <-wA.entered:
		case <-doneA:
		case <-time.After(5 * time.Second):
		}
		for _, id := range ids[1:] {
			wB := httptest.NewRecorder()
			guard(func() string { h.ServeHTTP(wB, httptest.NewRequest("GET", pathOf(id), nil)); return "" })
			if d, err := desync.Decompress(nil, wB.Body.Bytes()); wB.Code != 200 || err != nil || !bytes.Equal(d, datas[id]) {
				monitor(fmt.Sprintf("a chunk server over a casync-protocol upstream delivered a damaged chunk (status %d)", wB.Code), caseLine)
			}
		}
		close(wA.gate)
		select {
		case <-doneA:
		case <-time.After(5 * time.Second):
			monitor("a chunk server request did not return", caseLine)
		}
		if d, err := desync.Decompress(nil, wA.body.Bytes()); err != nil || !bytes.Equal(d, datas[ids[0]]) {
			monitor("a chunk server over a casync-protocol upstream delivered a damaged chunk to a client that took the body while later requests were served", caseLine)
		}
		closeP()
	}
	// (f) the casync protocol as a whole session: real client, real server, scripted store (protosession.go)
	runProtoSessions(cfg, rep, m, rng, cfg.N(250, 6000), cfg.N(250, 6000))
	runSshPool(cfg, rep, m, rng)
	c14CLI(cfg, rep, rng)
	c14IndexUpstreams(cfg, rep, rng)
	runGCSMissingVsFailed(cfg, rep, m, rng)
	storeOptsStores(cfg, rep, m, rng)
	storeOptsServers(cfg, rep, m, rng) // the two server commands' option wiring (cmd/desync/chunkserver.go is a C14 anchor)
	c14PutHeals(cfg, rep, rng)
	rep.Write(cfg.Out)
}

// gatedResponse is a ResponseWriter whose Write waits for the gate before it takes the bytes (a slow client)
type gatedResponse struct {
	hdr     http.Header
	code    int
	body    bytes.Buffer
	gate    chan struct{}
	entered chan struct{}
}

func (g *gatedResponse) Header() http.Header { return g.hdr }
func (g *gatedResponse) WriteHeader(c int)   { g.code = c }
func (g *gatedResponse) Write(b []byte) (int, error) {
	select {
	case g.entered <- struct{}{}:
	default:
	}
	<-g.gate
	return g.body.Write(b)
}
