// Command vh is the Go side of the verification harness: per property it generates cases
// from one PRNG (VERIF_SEED), runs the real desync code in-process, asks the Lean driver for
// the model's answer on the same case line, compares canonicalised results, shrinks
// disagreements and writes a JSON report the `check` script turns into evidence.
package main

import (
	"bufio"
	"encoding/hex"
	"encoding/json"
	"fmt"
	"io"
	"math/rand"
	"os"
	"os/exec"
	"path/filepath"
	"sort"
	"strings"
	"time"
)

// ---------------------------------------------------------------------------------------
// Lean driver client

type Model struct {
	cmd *exec.Cmd
	in  io.WriteCloser
	out *bufio.Reader
	n   int
}

func StartModel(path string) (*Model, error) {
	if path == "" { // no driver available: monitors only
		return &Model{}, nil
	}
	cmd := exec.Command(path)
	in, err := cmd.StdinPipe()
	if err != nil {
		return nil, err
	}
	out, err := cmd.StdoutPipe()
	if err != nil {
		return nil, err
	}
	cmd.Stderr = os.Stderr
	if err := cmd.Start(); err != nil {
		return nil, err
	}
	return &Model{cmd: cmd, in: in, out: bufio.NewReaderSize(out, 1<<20)}, nil
}

// Ask sends one case line and returns the model's result line.
func (m *Model) Ask(line string) string {
	m.n++
	if m.cmd == nil {
		return "no-model"
	}
	if _, err := io.WriteString(m.in, line+"\n"); err != nil {
		return "model-dead " + err.Error()
	}
	s, err := m.out.ReadString('\n')
	if err != nil {
		return "model-dead " + err.Error()
	}
	return strings.TrimRight(s, "\n")
}

func (m *Model) Close() {
	if m.cmd == nil {
		return
	}
	m.in.Close()
	m.cmd.Wait()
}

// ---------------------------------------------------------------------------------------
// Report

type Disagreement struct {
	Kind     string `json:"kind"` // "correspondence" | "monitor"
	Case     string `json:"case"`
	Model    string `json:"model,omitempty"`
	Impl     string `json:"impl,omitempty"`
	What     string `json:"what"`
	Shrunk   bool   `json:"shrunk"`
	Sig      string `json:"signature,omitempty"` // known-finding signature, if the harness can name one
	Original string `json:"original_case,omitempty"`
}

type Report struct {
	Property      string         `json:"property"`
	Tier          string         `json:"tier"`
	Seed          int64          `json:"seed"`
	Evaluations   int            `json:"evaluations"`
	Distinct      int            `json:"distinct_nontrivial"`
	Rule          string         `json:"rule"`
	Histogram     map[string]int `json:"histogram"`
	Samples       []string       `json:"samples"`
	Traces        int            `json:"traces_validated_against_impl"`
	Disagreements []Disagreement `json:"disagreements"`
	Notes         []string       `json:"notes,omitempty"`
	WallS         float64        `json:"wall_s"`

	seen  map[string]bool
	start time.Time
}

func NewReport(prop, tier string, seed int64, rule string) *Report {
	return &Report{Property: prop, Tier: tier, Seed: seed, Rule: rule, Histogram: map[string]int{},
		seen: map[string]bool{}, start: time.Now()}
}

// Count records one evaluated case. nontrivial is the rule's verdict for this case.
func (r *Report) Count(caseLine string, nontrivial bool, tags ...string) {
	r.Evaluations++
	for _, t := range tags {
		r.Histogram[t]++
	}
	if nontrivial && !r.seen[caseLine] {
		if len(r.seen) < 2_000_000 {
			r.seen[caseLine] = true
		}
		r.Distinct++
	}
	if len(r.Samples) < 6 && nontrivial && r.Evaluations%7 == 1 {
		r.Samples = append(r.Samples, clip(caseLine, 400))
	}
}

func clip(s string, n int) string {
	if len(s) <= n {
		return s
	}
	return s[:n] + fmt.Sprintf("…(%d more)", len(s)-n)
}

func (r *Report) Disagree(d Disagreement) {
	if len(r.Disagreements) < 50 {
		r.Disagreements = append(r.Disagreements, d)
	}
	r.Histogram["DISAGREE:"+d.Kind]++
}

func (r *Report) Write(path string) {
	r.WallS = time.Since(r.start).Seconds()
	if len(r.Samples) == 0 {
		r.Samples = []string{}
	}
	b, _ := json.MarshalIndent(r, "", " ")
	os.MkdirAll(filepath.Dir(path), 0755)
	if err := os.WriteFile(path, b, 0644); err != nil {
		fmt.Fprintln(os.Stderr, "report:", err)
		os.Exit(2)
	}
}

// ---------------------------------------------------------------------------------------
// generic compare-and-shrink

// Compare evaluates a case on both sides. impl returns the canonical implementation
// result for a case line; shrink proposes smaller variants of a case line.
// timed runs the implementation on a case and gives up after a while: a call that does not
// return is reported as the result "hang" (its goroutine is abandoned)
var hangs int

// markCase records the case about to run, so that the check can name it if the process dies
// (a fatal runtime error such as out-of-memory cannot be recovered from)
var caseMarkPath string

func markCase(caseLine string) {
	if caseMarkPath != "" {
		os.WriteFile(caseMarkPath, []byte(caseLine), 0644)
	}
}

func timed(impl func(string) string, caseLine string) string {
	markCase(caseLine)
	if hangs >= 3 { // enough evidence; do not pile up spinning goroutines
		return "hang (not run: three earlier cases did not return)"
	}
	ch := make(chan string, 1)
	go func() { ch <- impl(caseLine) }()
	select {
	case s := <-ch:
		return s
	case <-time.After(20 * time.Second):
		hangs++
		return "hang"
	}
}

func (r *Report) Compare(m *Model, caseLine string, impl0 func(string) string, shrink func(string) []string) bool {
	if m.cmd == nil {
		return true
	}
	impl := func(l string) string { return timed(impl0, l) }
	got := impl(caseLine)
	want := m.Ask(caseLine)
	if got == want {
		return true
	}
	orig := caseLine
	shrunk := false
	if shrink != nil && r.Histogram["DISAGREE:correspondence"] < 3 {
		for rounds := 0; rounds < 60; rounds++ {
			progress := false
			for _, cand := range shrink(caseLine) {
				g, w := impl(cand), m.Ask(cand)
				if g != w && !strings.HasPrefix(w, "bad-op") {
					caseLine, got, want = cand, g, w
					progress, shrunk = true, true
					break
				}
			}
			if !progress {
				break
			}
		}
	}
	d := Disagreement{Kind: "correspondence", Case: caseLine, Model: want, Impl: got,
		What: "model and implementation differ", Shrunk: shrunk}
	if shrunk {
		d.Original = clip(orig, 2000)
	}
	r.Disagree(d)
	return false
}

// ---------------------------------------------------------------------------------------
// misc helpers

func hx(b []byte) string { return hex.EncodeToString(b) }

func unhx(s string) []byte {
	b, err := hex.DecodeString(s)
	if err != nil {
		panic(err)
	}
	return b
}

type kv map[string]string

func parseCase(line string) (string, kv) {
	parts := strings.Split(line, " ")
	m := kv{}
	for _, p := range parts[1:] {
		if i := strings.IndexByte(p, '='); i >= 0 {
			m[p[:i]] = p[i+1:]
		}
	}
	return parts[0], m
}

func buildCase(cmd string, m kv, order ...string) string {
	var sb strings.Builder
	sb.WriteString(cmd)
	seen := map[string]bool{}
	for _, k := range order {
		if v, ok := m[k]; ok {
			sb.WriteString(" " + k + "=" + v)
			seen[k] = true
		}
	}
	rest := []string{}
	for k := range m {
		if !seen[k] {
			rest = append(rest, k)
		}
	}
	sort.Strings(rest)
	for _, k := range rest {
		sb.WriteString(" " + k + "=" + m[k])
	}
	return sb.String()
}

func randBytes(rng *rand.Rand, n int) []byte {
	b := make([]byte, n)
	rng.Read(b)
	return b
}

// safely runs f, turning a panic into a canonical "panic" result
func guard(f func() string) (res string) {
	defer func() {
		if p := recover(); p != nil {
			res = "panic"
		}
	}()
	return f()
}
