package main

import (
	"flag"
	"fmt"
	"io"
	"log"
	"os"
	"strconv"
)

type Config struct {
	Prop   string
	Tier   string
	Seed   int64
	Driver string
	Repo   string
	Out    string
	Replay string
	Work   string
}

// N picks the case count for the tier.
func (c Config) N(quick, thorough int) int {
	if c.Tier == "thorough" {
		return thorough
	}
	return quick
}

func fatal(err error) {
	fmt.Fprintln(os.Stderr, "vh:", err)
	os.Exit(2)
}

var runners = map[string]func(Config){
	"C01": runC01,
	"C02": runC02,
	"C08": runC08,
	"C03": runC03,
	"C04": runC04,
	"C05": runC05,
	"C06": runC06,
	"C07": runC07,
	"C09": runC09,
	"C10": runC10,
	"C11": runC11,
	"C12": runC12,
	"C13": runC13,
	"C14": runC14,
	"C15": runC15,
	"C16": runC16,
	"C17": runC17,
	"C18": runC18,
	"C19": runC19,
	"C20": runC20,
}

func main() {
	var cfg Config
	flag.StringVar(&cfg.Prop, "prop", "", "property id")
	flag.StringVar(&cfg.Tier, "tier", "quick", "quick|thorough")
	flag.Int64Var(&cfg.Seed, "seed", 1, "PRNG seed")
	flag.StringVar(&cfg.Driver, "driver", "/verif/lean/.lake/build/bin/driver", "Lean driver binary")
	flag.StringVar(&cfg.Repo, "repo", "/repo", "desync working tree")
	flag.StringVar(&cfg.Out, "out", "", "report JSON")
	flag.StringVar(&cfg.Replay, "replay", "", "replay file")
	flag.StringVar(&cfg.Work, "work", "", "scratch directory (created and removed by the caller)")
	child := flag.Bool("child", false, "child-process mode (C08)")
	flag.Parse()
	if *child {
		childMain(flag.Args())
		return
	}
	log.SetOutput(io.Discard) // net/http chatter about deliberately broken scripted responses
	// the library prints warnings ("skipping … unsupported node type") to os.Stderr
	if null, err := os.OpenFile(os.DevNull, os.O_WRONLY, 0); err == nil && os.Getenv("VERIF_STDERR") == "" {
		os.Stderr = null
	}
	if s := os.Getenv("VERIF_SEED"); s != "" && cfg.Seed == 1 {
		if v, err := strconv.ParseInt(s, 10, 64); err == nil {
			cfg.Seed = v
		}
	}
	if cfg.Replay != "" {
		runReplay(cfg)
		return
	}
	r, ok := runners[cfg.Prop]
	if !ok {
		fatal(fmt.Errorf("unknown property %q", cfg.Prop))
	}
	if cfg.Out == "" {
		cfg.Out = "/verif/.work/report-" + cfg.Prop + ".json"
	}
	caseMarkPath = cfg.Out + ".current"
	r(cfg)
	os.Remove(caseMarkPath)
}
