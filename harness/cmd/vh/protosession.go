package main

// The casync protocol as a whole session (C14 / C19 / C03): behavioural correspondence of
// lean/Desync/Model/ProtoSession.lean with protocol.go, protocolserver.go and remotessh.go.
//
//	proto.serve    the REAL ProtocolServer.Serve on arbitrary input bytes, with a scripted store, a context that is
//	               found done at a chosen pass of the loop and a writer that stops taking messages: verdict, unread
//	               input, every byte written  — vs PS.serverRun
//	proto.client   the REAL Protocol (Initialize, RequestChunk per id, SendGoodbye) on arbitrary bytes from the
//	               server side — vs PS.clientRun
//	proto.session  the real client against the real server over io.Pipe — vs PS.session
//
// zstd enters the case lines as data produced by the library's own Compress / Decompress (DESIGN §3b).

import (
	"bytes"
	"context"
	"encoding/binary"
	"fmt"
	"io"
	"math/rand"
	"sort"
	"strconv"
	"strings"
	"sync"
	"time"

	"github.com/folbricht/desync"
	"github.com/klauspost/compress/zstd"
	"github.com/pkg/errors"
)

// ---------------------------------------------------------------------------------------
// scripted store

type psEntry struct {
	kind string // missing | fail | new | withid | storage
	cid  desync.ChunkID
	data []byte // plain data (new, withid) or storage bytes (storage)
	comp bool
	skip bool
}

type psStore struct {
	ents map[desync.ChunkID]psEntry
	mu   sync.Mutex
	gets int
}

func (s *psStore) GetChunk(id desync.ChunkID) (*desync.Chunk, error) {
	s.mu.Lock()
	s.gets++
	s.mu.Unlock()
	e, ok := s.ents[id]
	if !ok {
		return nil, desync.ChunkMissing{ID: id}
	}
	switch e.kind {
	case "missing":
		return nil, desync.ChunkMissing{ID: id}
	case "fail":
		return nil, errors.New("scripted store failure")
	case "new":
		return desync.NewChunk(e.data), nil
	case "withid":
		return desync.NewChunkWithID(e.cid, e.data, e.skip)
	default:
		var conv desync.Converters
		if e.comp {
			conv = desync.Converters{desync.Compressor{}}
		}
		return desync.NewChunkFromStorage(e.cid, e.data, conv, e.skip)
	}
}
func (s *psStore) HasChunk(id desync.ChunkID) (bool, error) { _, err := s.GetChunk(id); return err == nil, nil }
func (s *psStore) Close() error                             { return nil }
func (s *psStore) String() string                           { return "scripted" }

func psEntryStr(id desync.ChunkID, e psEntry) string {
	b01 := func(b bool) string {
		if b {
			return "1"
		}
		return "0"
	}
	switch e.kind {
	case "missing", "fail":
		return hx(id[:]) + "|" + e.kind
	case "new":
		return hx(id[:]) + "|new|" + hx(e.data)
	case "withid":
		return hx(id[:]) + "|withid|" + hx(e.cid[:]) + "|" + hx(e.data) + "|" + b01(e.skip)
	}
	return hx(id[:]) + "|storage|" + hx(e.cid[:]) + "|" + hx(e.data) + "|" + b01(e.comp) + "|" + b01(e.skip)
}

func psStoreStr(ents map[desync.ChunkID]psEntry) string {
	var l []string
	for id, e := range ents {
		l = append(l, psEntryStr(id, e))
	}
	sort.Strings(l)
	return strings.Join(l, ";")
}

func psParseStore(s string) *psStore {
	st := &psStore{ents: map[desync.ChunkID]psEntry{}}
	if s == "" {
		return st
	}
	cid := func(h string) (c desync.ChunkID) { copy(c[:], unhx(h)); return }
	for _, es := range strings.Split(s, ";") {
		f := strings.Split(es, "|")
		e := psEntry{kind: f[1]}
		switch f[1] {
		case "new":
			e.data = unhx(f[2])
		case "withid":
			e.cid, e.data, e.skip = cid(f[2]), unhx(f[3]), f[4] == "1"
		case "storage":
			e.cid, e.data, e.comp, e.skip = cid(f[2]), unhx(f[3]), f[4] == "1", f[5] == "1"
		}
		st.ents[cid(f[0])] = e
	}
	return st
}

func psEmptyFrame() []byte {
	enc, _ := zstd.NewWriter(nil, zstd.WithZeroFrames(true))
	return enc.EncodeAll(nil, nil)
}

// zstd tables for a case line
type psZ struct {
	dec  map[string]string // raw hex -> plain hex | "!"
	comp map[string]string
}

func newPsZ() *psZ { return &psZ{dec: map[string]string{}, comp: map[string]string{}} }

func (z *psZ) addDec(raw []byte) ([]byte, bool) {
	p, err := desync.Decompress(nil, raw)
	if err != nil {
		z.dec[hx(raw)] = "!"
		return nil, false
	}
	z.dec[hx(raw)] = hx(p)
	return p, true
}

func (z *psZ) addComp(plain []byte) []byte {
	c, _ := desync.Compress(plain)
	z.comp[hx(plain)] = hx(c)
	z.addDec(c)
	return c
}

func psTable(m map[string]string) string {
	var l []string
	for k, v := range m {
		l = append(l, k+":"+v)
	}
	sort.Strings(l)
	return strings.Join(l, ",")
}

// everything the server can need for this store: the decoding of compressed storage, the compression of every data
func (z *psZ) addStore(ents map[desync.ChunkID]psEntry) {
	for _, e := range ents {
		switch e.kind {
		case "new", "withid":
			z.addComp(e.data)
		case "storage":
			if e.comp {
				if p, ok := z.addDec(e.data); ok {
					z.addComp(p)
				}
			} else {
				z.addComp(e.data)
			}
		}
	}
}

// ---------------------------------------------------------------------------------------
// verdicts

func psReadKind(c error) string {
	switch c {
	case io.EOF:
		return "eof"
	case io.ErrUnexpectedEOF:
		return "ueof"
	}
	if strings.Contains(c.Error(), "message length too short") {
		return "short"
	}
	return "other:" + c.Error()
}

func psHexToDec(s, prefix, suffix string) string {
	i := strings.Index(s, prefix)
	if i < 0 {
		return "?"
	}
	r := s[i+len(prefix):]
	if j := strings.Index(r, suffix); suffix != "" && j >= 0 {
		r = r[:j]
	}
	v, err := strconv.ParseUint(strings.TrimSpace(r), 16, 64)
	if err != nil {
		return "?"
	}
	return strconv.FormatUint(v, 10)
}

type psWriteErr struct{}

func (psWriteErr) Error() string { return "scripted writer: closed" }

func psServeEnd(err error) string {
	if err == nil {
		return "nil"
	}
	s := err.Error()
	c := errors.Cause(err)
	switch {
	case strings.HasPrefix(s, "failed to perform protocol handshake"):
		if _, ok := c.(psWriteErr); ok {
			return "hs-send"
		}
		switch {
		case strings.Contains(s, "expected protocl hello"):
			return "hs-type"
		case strings.Contains(s, "unexpected length of hello msg"):
			return "hs-len"
		}
		return "hs-read-" + psReadKind(c)
	case strings.HasPrefix(s, "client is not requesting chunks"):
		return "no-pull"
	case strings.HasPrefix(s, "failed to read protocol message from client"):
		return "read-" + psReadKind(c)
	case s == "protocol request too small":
		return "req-small"
	case strings.HasPrefix(s, "unable to decode requested chunk id"):
		return "bad-id"
	case strings.HasPrefix(s, "unable to read chunk from store"):
		return "store"
	case strings.HasPrefix(s, "failed to send"):
		return "send"
	case s == "client aborted connection":
		return "abort"
	case strings.HasPrefix(s, "unexpected command ("):
		return "unknown-" + psHexToDec(s, "unexpected command (", ")")
	}
	return "data" // chunk.Data() / toStorage errors are returned as they are
}

func psClientErr(err error) string {
	if _, ok := err.(desync.ChunkMissing); ok {
		return "missing"
	}
	if _, ok := err.(desync.ChunkInvalid); ok {
		return "err:invalid"
	}
	if _, ok := err.(psWriteErr); ok {
		return "err:send"
	}
	s := err.Error()
	switch {
	case s == "received chunk too small":
		return "err:chunk-small"
	case strings.HasPrefix(s, "unexpected protocol message type "):
		return "err:unknown-" + psHexToDec(s, "unexpected protocol message type ", "")
	case s == "protocol not initialized":
		return "err:not-init"
	}
	return "err:read-" + psReadKind(err)
}

func psHsErr(err error) string {
	s := err.Error()
	switch {
	case strings.Contains(s, "expected protocl hello"):
		return "hs-type"
	case strings.Contains(s, "unexpected length of hello msg"):
		return "hs-len"
	}
	if _, ok := err.(psWriteErr); ok {
		return "hs-send"
	}
	return "hs-read-" + psReadKind(err)
}

// ---------------------------------------------------------------------------------------
// scripted reader / writer

// reader over a byte string that calls trigger when asked for bytes at or beyond an offset; optionally hands out one
// byte per call
type psReader struct {
	b       []byte
	off     int
	at      int // -1: never
	trigger func()
	one     bool
}

func (r *psReader) Read(p []byte) (int, error) {
	if r.at >= 0 && r.off >= r.at && r.trigger != nil {
		r.trigger()
		r.trigger = nil
	}
	if r.off >= len(r.b) {
		return 0, io.EOF
	}
	n := len(p)
	if r.one && n > 1 {
		n = 1
	}
	n = copy(p[:n], r.b[r.off:])
	r.off += n
	return n, nil
}

// writer that takes `left` messages (-1: all) and refuses the next one as a whole; records what it took
type psWriter struct {
	buf       bytes.Buffer
	left      int
	remaining uint64 // bytes of the current message still to come
}

func (w *psWriter) Write(p []byte) (int, error) {
	if w.remaining == 0 { // a message starts: WriteMessage hands its 16-byte header over in one piece
		if w.left == 0 {
			return 0, psWriteErr{}
		}
		if w.left > 0 {
			w.left--
		}
		if len(p) >= 8 {
			w.remaining = binary.LittleEndian.Uint64(p)
		}
	}
	if uint64(len(p)) > w.remaining {
		w.remaining = 0
	} else {
		w.remaining -= uint64(len(p))
	}
	return w.buf.Write(p)
}

// offsets at which the messages of a stream start, as far as it parses
func psBoundaries(b []byte) []int {
	out := []int{0}
	off := 0
	for off+8 <= len(b) {
		l := binary.LittleEndian.Uint64(b[off:])
		if l < 16 || l > uint64(len(b)-off) {
			break
		}
		off += int(l)
		out = append(out, off)
	}
	return out
}

func psOptInt(s string) int {
	if s == "-" || s == "" {
		return -1
	}
	v, _ := strconv.Atoi(s)
	return v
}

// ---------------------------------------------------------------------------------------
// runners

func psServe(a kv) (string, uint64) {
	input := unhx(a["input"])
	st := psParseStore(a["store"])
	cancel, wfail := psOptInt(a["cancel"]), psOptInt(a["wfail"])
	ctx, cancelFn := context.WithCancel(context.Background())
	defer cancelFn()
	r := &psReader{b: input, at: -1, one: a["src"] == "onebyte"}
	if cancel == 0 {
		cancelFn()
	} else if cancel > 0 {
		// the context is found done at the top of pass `cancel` of the loop: it is cancelled when the server begins to
		// read the message of the pass before, i.e. message number `cancel` of the stream (the hello is number 0)
		bd := psBoundaries(input)
		if cancel < len(bd) {
			r.at, r.trigger = bd[cancel], cancelFn
		}
	}
	w := &psWriter{left: wfail}
	var res string
	used := measureAlloc(func() {
		res = guard(func() string {
			err := desync.NewProtocolServer(r, w, st).Serve(ctx)
			return "end=" + psServeEnd(err)
		})
	})
	if res == "panic" {
		return "panic", used
	}
	return fmt.Sprintf("%s rest=%d sent=%s", res, len(input)-r.off, hx(w.buf.Bytes())), used
}

func implProtoServe(line string) string {
	_, a := parseCase(line)
	s, _ := psServe(a)
	return s
}

func psChunkResult(c *desync.Chunk, err error) string {
	if err != nil {
		return psClientErr(err)
	}
	b, derr := c.Data()
	if derr != nil {
		return "ok:nodata"
	}
	return "ok:" + hx(b)
}

// the client side of a session on one Protocol: what StartProtocol does after spawning the command (Initialize, the
// readable-store check), RemoteSSH.GetChunk per id, RemoteSSH.Close
func psClientSide(p *desync.Protocol, ids []desync.ChunkID) string {
	flags, err := p.Initialize(desync.CaProtocolPullChunks)
	if err != nil {
		return "hs=" + psHsErr(err) + " results="
	}
	if flags&desync.CaProtocolReadableStore == 0 {
		return "hs=no-store results="
	}
	var rs []string
	for _, id := range ids {
		rs = append(rs, psChunkResult(p.RequestChunk(id)))
	}
	p.SendGoodbye()
	return "hs=ok results=" + strings.Join(rs, ",")
}

func psParseIds(s string) []desync.ChunkID {
	var ids []desync.ChunkID
	if s == "" {
		return ids
	}
	for _, h := range strings.Split(s, ",") {
		var id desync.ChunkID
		copy(id[:], unhx(h))
		ids = append(ids, id)
	}
	return ids
}

func psClient(a kv) (string, uint64) {
	from := unhx(a["from"])
	ids := psParseIds(a["ids"])
	r := &psReader{b: from, at: -1, one: a["src"] == "onebyte"}
	w := &psWriter{left: -1}
	var res string
	used := measureAlloc(func() {
		res = guard(func() string { return psClientSide(desync.NewProtocol(r, w), ids) })
	})
	if res == "panic" {
		return "panic", used
	}
	return fmt.Sprintf("%s rest=%d sent=%s", res, len(from)-r.off, hx(w.buf.Bytes())), used
}

func implProtoClient(line string) string {
	_, a := parseCase(line)
	s, _ := psClient(a)
	return s
}

// recording pipe ends
type psTee struct {
	w   io.Writer
	mu  sync.Mutex
	buf bytes.Buffer
}

func (t *psTee) Write(p []byte) (int, error) {
	n, err := t.w.Write(p)
	t.mu.Lock()
	t.buf.Write(p[:n])
	t.mu.Unlock()
	return n, err
}

func implProtoSession(line string) string {
	_, a := parseCase(line)
	st := psParseStore(a["store"])
	ids := psParseIds(a["ids"])
	return guard(func() string {
		cr, sw := io.Pipe() // server -> client
		sr, cw := io.Pipe() // client -> server
		s2c, c2s := &psTee{w: sw}, &psTee{w: cw}
		done := make(chan string, 1)
		go func() {
			res := guard(func() string {
				return psServeEnd(desync.NewProtocolServer(sr, s2c, st).Serve(context.Background()))
			})
			// the server process is gone: its output ends; what the client still writes goes nowhere
			sw.Close()
			go io.Copy(io.Discard, sr)
			done <- res
		}()
		cl := psClientSide(desync.NewProtocol(cr, c2s), ids)
		cw.Close()
		var srv string
		select {
		case srv = <-done:
		case <-time.After(10 * time.Second):
			srv = "hang"
		}
		return fmt.Sprintf("%s server=%s c2s=%s s2c=%s", cl, srv, hx(c2s.buf.Bytes()), hx(s2c.buf.Bytes()))
	})
}

// ---------------------------------------------------------------------------------------
// generators

type psWorld struct {
	ents    map[desync.ChunkID]psEntry
	ids     []desync.ChunkID // interesting ids: every key of ents, some unknown ones
	truth   map[desync.ChunkID]string
	z       *psZ
	present []desync.ChunkID
}

// a store with chunk objects of every construction: plain (NewChunk), NewChunkWithID verified / unverified (right or
// wrong id), NewChunkFromStorage compressed / uncompressed, verified / unverified, intact / damaged / undecodable /
// empty, stored under their own id or under another one; missing and failing ids.  truth: what a client must see.
func psGenWorld(rng *rand.Rand) *psWorld {
	w := &psWorld{ents: map[desync.ChunkID]psEntry{}, truth: map[desync.ChunkID]string{}, z: newPsZ()}
	n := 1 + rng.Intn(6)
	for k := 0; k < n; k++ {
		data := randBytes(rng, 1+rng.Intn(200))
		if rng.Intn(6) == 0 {
			data = bytes.Repeat([]byte{byte(rng.Intn(3))}, 1+rng.Intn(2000))
		}
		id := desync.Digest.Sum(data)
		other := desync.Digest.Sum(append([]byte("x"), data...))
		comp, _ := desync.Compress(data)
		e := psEntry{cid: id}
		truth := "ok:" + hx(data)
		switch rng.Intn(12) {
		case 0:
			e.kind, e.data = "new", data
		case 1:
			e.kind, e.data, e.skip = "withid", data, rng.Intn(2) == 0
		case 2: // an object that claims another id: unverified it is handed out and labelled with that id
			e.kind, e.data, e.skip, e.cid = "withid", data, true, other
		case 3: // … verified, the store itself refuses it
			e.kind, e.data, e.skip, e.cid = "withid", data, false, other
			truth = "fail"
		case 4:
			e.kind, e.data, e.comp, e.skip = "storage", comp, true, rng.Intn(2) == 0
		case 5:
			e.kind, e.data, e.comp, e.skip = "storage", data, false, rng.Intn(2) == 0
		case 6: // damaged compressed object in a store that does not verify: whatever it decodes to is sent
			bad := append([]byte{}, comp...)
			bad[rng.Intn(len(bad))] ^= 1 << uint(rng.Intn(8))
			e.kind, e.data, e.comp, e.skip = "storage", bad, true, true
			if p, err := desync.Decompress(nil, bad); err != nil {
				truth = "fail"
			} else if !bytes.Equal(p, data) {
				truth = "err:invalid"
			}
		case 7: // other data under this id, unverified
			od := randBytes(rng, 1+rng.Intn(50))
			oc, _ := desync.Compress(od)
			if rng.Intn(2) == 0 {
				e.kind, e.data, e.comp, e.skip = "storage", oc, true, true
			} else {
				e.kind, e.data, e.comp, e.skip = "storage", od, false, true
			}
			truth = "err:invalid"
		case 8: // an object without any data
			if rng.Intn(2) == 0 {
				e.kind, e.data, e.comp, e.skip = "storage", nil, rng.Intn(2) == 0, true
			} else {
				e.kind, e.data, e.skip = "withid", nil, true
			}
			truth = "fail"
		case 9: // a valid frame of nothing (written by another tool: the library's own Compress turns empty data into
			// zero bytes, which no chunk object accepts as storage): Data() succeeds with no bytes, the reply carries
			// no storage bytes, the client cannot build a chunk from it — whatever the id
			e.kind, e.data, e.comp, e.skip = "storage", psEmptyFrame(), true, true
			truth = "err:invalid"
			if rng.Intn(2) == 0 {
				id = desync.Digest.Sum(nil)
				e.cid = id
			}
		case 10:
			e.kind = "missing"
			truth = "missing"
		default:
			e.kind = "fail"
			truth = "fail"
		}
		w.ents[id] = e
		w.truth[id] = truth
		w.ids = append(w.ids, id)
		if truth != "fail" {
			w.present = append(w.present, id)
		}
	}
	for k := 0; k < 2; k++ { // ids the store does not know
		var id desync.ChunkID
		rng.Read(id[:])
		w.ids = append(w.ids, id)
		w.truth[id] = "missing"
		w.present = append(w.present, id)
	}
	w.z.addStore(w.ents)
	return w
}

func (w *psWorld) args() string {
	return "store=" + psStoreStr(w.ents) + " zd=" + psTable(w.z.dec) + " zc=" + psTable(w.z.comp)
}

func psIdsStr(ids []desync.ChunkID) string {
	var l []string
	for _, id := range ids {
		l = append(l, hx(id[:]))
	}
	return strings.Join(l, ",")
}

func psMsg(typ uint64, body []byte) []byte {
	b := le(uint64(16+len(body)), typ)
	return append(b, body...)
}

func psRequest(id desync.ChunkID, flags uint64) []byte {
	return psMsg(desync.CaProtocolRequest, append(le(flags), id[:]...))
}

var psTypes = []uint64{desync.CaProtocolHello, desync.CaProtocolRequest, desync.CaProtocolChunk, desync.CaProtocolMissing,
	desync.CaProtocolGoodbye, desync.CaProtocolAbort, desync.CaProtocolIndex, desync.CaProtocolIndexEOF, 0, 1, 1<<64 - 1}

// a client stream: mostly well-formed, with the listed deviations
func psGenClientStream(rng *rand.Rand, w *psWorld) ([]byte, string) {
	var b []byte
	tag := "wellformed"
	// hello
	switch rng.Intn(14) {
	case 0:
		b = append(b, psMsg(psTypes[rng.Intn(len(psTypes))], le(desync.CaProtocolPullChunks))...)
		tag = "hello-type"
	case 1:
		b = append(b, psMsg(desync.CaProtocolHello, randBytes(rng, []int{0, 1, 7, 9, 16, 40}[rng.Intn(6)]))...)
		tag = "hello-len"
	case 2:
		b = append(b, psMsg(desync.CaProtocolHello, le(rng.Uint64()&^desync.CaProtocolPullChunks))...)
		tag = "hello-nopull"
	case 3:
		b = append(b, psMsg(desync.CaProtocolHello, le(rng.Uint64()|desync.CaProtocolPullChunks))...)
		tag = "hello-otherflags"
	case 4:
		tag = "no-hello"
	default:
		b = append(b, psMsg(desync.CaProtocolHello, le(desync.CaProtocolPullChunks))...)
	}
	n := rng.Intn(7)
	for k := 0; k < n; k++ {
		id := w.ids[rng.Intn(len(w.ids))]
		if rng.Intn(3) > 0 && len(w.present) > 0 { // mostly ids that do not end the session
			id = w.present[rng.Intn(len(w.present))]
		}
		switch rng.Intn(16) {
		case 0: // request with 0..39 body bytes
			b = append(b, psMsg(desync.CaProtocolRequest, append(le(1), id[:]...)[:rng.Intn(40)])...)
			tag = "req-short"
		case 1: // request with extra bytes after the id
			b = append(b, psMsg(desync.CaProtocolRequest, append(append(le(rng.Uint64()), id[:]...), randBytes(rng, 1+rng.Intn(20))...))...)
			tag = "req-long"
		case 2:
			b = append(b, psMsg(psTypes[rng.Intn(len(psTypes))], randBytes(rng, rng.Intn(60)))...)
			tag = "other-type"
		case 3: // length field
			m := psRequest(id, 1)
			binary.LittleEndian.PutUint64(m, interestingU64[rng.Intn(len(interestingU64))])
			b = append(b, m...)
			tag = "length-field"
		default:
			b = append(b, psRequest(id, []uint64{0, 1, 1, 1, rng.Uint64()}[rng.Intn(5)])...)
		}
	}
	switch rng.Intn(6) {
	case 0:
		b = append(b, psMsg(desync.CaProtocolAbort, nil)...)
	case 1: // the stream just ends
	case 2:
		b = append(b, psMsg(desync.CaProtocolGoodbye, randBytes(rng, rng.Intn(9)))...)
	default:
		b = append(b, psMsg(desync.CaProtocolGoodbye, nil)...)
	}
	switch rng.Intn(10) {
	case 0:
		if len(b) > 0 {
			b = b[:rng.Intn(len(b))]
			tag = "truncated"
		}
	case 1:
		if len(b) > 0 {
			b = append([]byte{}, b...)
			b[rng.Intn(len(b))] ^= 1 << uint(rng.Intn(8))
			tag = "bitflip"
		}
	case 2:
		b = append(b, randBytes(rng, rng.Intn(30))...)
		tag = "trailing"
	}
	return b, tag
}

// a server stream for a client asking for ids: mostly the right replies, with deviations
func psGenServerStream(rng *rand.Rand, w *psWorld, ids []desync.ChunkID) ([]byte, string) {
	var b []byte
	tag := "wellformed"
	switch rng.Intn(12) {
	case 0:
		b = append(b, psMsg(psTypes[rng.Intn(len(psTypes))], le(desync.CaProtocolReadableStore))...)
		tag = "hello-type"
	case 1:
		b = append(b, psMsg(desync.CaProtocolHello, randBytes(rng, []int{0, 1, 7, 9, 16}[rng.Intn(5)]))...)
		tag = "hello-len"
	case 2:
		b = append(b, psMsg(desync.CaProtocolHello, le(rng.Uint64()&^desync.CaProtocolReadableStore))...)
		tag = "hello-nostore"
	default:
		b = append(b, psMsg(desync.CaProtocolHello, le(desync.CaProtocolReadableStore|uint64(rng.Intn(2))<<3))...)
	}
	reply := func(label, of desync.ChunkID) []byte {
		e, ok := w.ents[of]
		var data []byte
		switch {
		case !ok || e.kind == "missing" || e.kind == "fail":
			return psMsg(desync.CaProtocolMissing, label[:])
		case e.kind == "storage" && e.comp:
			p, ok := w.z.addDec(e.data)
			if !ok {
				return psMsg(desync.CaProtocolMissing, label[:])
			}
			data = p
		default:
			data = e.data
		}
		c := w.z.addComp(data)
		return psMsg(desync.CaProtocolChunk, append(append(le(desync.CaProtocolChunkCompressed), label[:]...), c...))
	}
	for _, id := range ids {
		switch rng.Intn(14) {
		case 0: // the reply for another chunk, labelled with the requested id
			b = append(b, reply(id, w.ids[rng.Intn(len(w.ids))])...)
			tag = "other-chunk"
		case 1: // the right chunk labelled with another id
			b = append(b, reply(w.ids[rng.Intn(len(w.ids))], id)...)
			tag = "other-label"
		case 2: // chunk reply with 0..39 body bytes
			b = append(b, psMsg(desync.CaProtocolChunk, randBytes(rng, rng.Intn(40)))...)
			tag = "chunk-short"
		case 3: // chunk reply with exactly the header, or with bytes that are no zstd frame
			raw := randBytes(rng, rng.Intn(20))
			w.z.addDec(raw)
			b = append(b, psMsg(desync.CaProtocolChunk, append(append(le(1), id[:]...), raw...))...)
			tag = "chunk-garbage"
		case 4: // uncompressed data in a chunk reply
			raw := randBytes(rng, 1+rng.Intn(40))
			w.z.addDec(raw)
			var rid desync.ChunkID = desync.Digest.Sum(raw)
			_ = rid
			b = append(b, psMsg(desync.CaProtocolChunk, append(append(le(0), id[:]...), raw...))...)
			tag = "chunk-uncompressed"
		case 5:
			b = append(b, psMsg(psTypes[rng.Intn(len(psTypes))], randBytes(rng, rng.Intn(60)))...)
			tag = "other-type"
		case 6:
			b = append(b, psMsg(desync.CaProtocolMissing, randBytes(rng, rng.Intn(40)))...)
			tag = "missing-odd"
		case 7:
			m := reply(id, id)
			binary.LittleEndian.PutUint64(m, interestingU64[rng.Intn(len(interestingU64))])
			b = append(b, m...)
			tag = "length-field"
		default:
			b = append(b, reply(id, id)...)
		}
	}
	switch rng.Intn(10) {
	case 0:
		b = b[:rng.Intn(len(b)+1)]
		tag = "truncated"
	case 1:
		if len(b) > 0 {
			b = append([]byte{}, b...)
			b[rng.Intn(len(b))] ^= 1 << uint(rng.Intn(8))
			tag = "bitflip"
		}
	}
	// everything the client may try to decode
	for _, off := range psBoundaries(b) {
		if off+16 <= len(b) && binary.LittleEndian.Uint64(b[off+8:]) == desync.CaProtocolChunk {
			if l := binary.LittleEndian.Uint64(b[off:]); l >= 56 && l <= uint64(len(b)-off) {
				w.z.addDec(b[off+56 : off+int(l)])
			}
		}
	}
	return b, tag
}

// ---------------------------------------------------------------------------------------
// checks

func psSplit(res, key string) string {
	for _, f := range strings.Fields(res) {
		if strings.HasPrefix(f, key+"=") {
			return f[len(key)+1:]
		}
	}
	return ""
}

// result / verdict without its payload
func psResKind(r string) string {
	switch {
	case strings.HasPrefix(r, "ok:"):
		return "ok"
	case strings.Contains(r, "unknown-"):
		return r[:strings.Index(r, "unknown-")+7]
	}
	return r
}

// warm up the zstd encoder / decoder so that their one-time allocations are not charged to a case
func psWarm() {
	c, _ := desync.Compress(bytes.Repeat([]byte("warm"), 4096))
	desync.Decompress(nil, c)
}

// the part of the check shared by C14 and C19; arbitrary: the input streams are mutated / random
func runProtoSessions(cfg Config, rep *Report, m *Model, rng *rand.Rand, sessions, streams int) {
	psWarm()
	rep.Notes = append(rep.Notes, fmt.Sprintf("casync protocol sessions (protosession.go): %d whole sessions of the real client against the real "+
		"ProtocolServer.Serve over io.Pipe with a scripted store (chunk objects built by NewChunk / NewChunkWithID / NewChunkFromStorage, "+
		"compressed and uncompressed, verified and skipVerify, intact / damaged / other data / no data / a frame of nothing, wrong ids; missing and "+
		"failing ids) x 0..8 requests, each followed by the server alone on the client's bytes (context found done at pass k, writer that stops "+
		"after k messages, one-byte reads) and the client alone on the server's bytes; %d mutated streams each way (hello variants, requests "+
		"with 0..39 body bytes, extra bytes, other and unknown types, length fields from 0 to 2^64-1, truncation at a random byte, bit flips, "+
		"trailing and random bytes; replies for other chunks, other labels, short / garbage / uncompressed chunk replies) compared with "+
		"PS.serverRun / PS.clientRun / PS.session: verdict, unread input, every byte written; monitors: no panic, heap, nil only after a "+
		"goodbye, an accepted chunk hashes to the requested id, results vs what the store holds", sessions, streams))
	monitor := func(what, caseLine, impl string) {
		rep.Disagree(Disagreement{Kind: "monitor", Case: clip(caseLine, 100000), Impl: clip(impl, 2000), What: what})
	}
	// (i) whole sessions, real client against real server over pipes; then the server alone on what the client wrote
	// (with a context found done / a writer that stops), and the client alone on what the server wrote
	for it := 0; it < sessions; it++ {
		w := psGenWorld(rng)
		var ids []desync.ChunkID
		for k, n := 0, rng.Intn(9); k < n; k++ {
			if rng.Intn(4) > 0 && len(w.present) > 0 {
				ids = append(ids, w.present[rng.Intn(len(w.present))])
			} else {
				ids = append(ids, w.ids[rng.Intn(len(w.ids))])
			}
		}
		line := "proto.session ids=" + psIdsStr(ids) + " " + w.args()
		markCase(line)
		got := timed(implProtoSession, line)
		rep.Count(line, len(ids) > 0, "proto.session", "proto.session-server:"+psSplit(got, "server"))
		if want := m.Ask(line); m.cmd != nil && got != want {
			rep.Disagree(Disagreement{Kind: "correspondence", Case: clip(line, 100000), Model: clip(want, 4000), Impl: clip(got, 4000),
				What: "model and implementation differ"})
		}
		// the property itself, from what the store holds (independent of the model)
		if strings.HasPrefix(got, "hs=ok ") {
			rs := strings.Split(psSplit(got, "results"), ",")
			if len(ids) == 0 {
				rs = nil
			}
			alive := true
			for k, id := range ids {
				if k >= len(rs) {
					monitor("the client has fewer results than requests", line, got)
					break
				}
				rep.Histogram["proto.session-result:"+psResKind(rs[k])]++
				truth := w.truth[id]
				switch {
				case !alive || truth == "fail":
					alive = false
					if !strings.HasPrefix(rs[k], "err:") {
						monitor(fmt.Sprintf("request %d: after a store failure the client's result is %s, not an error", k, clip(rs[k], 40)), line, got)
					}
				case truth != rs[k]:
					monitor(fmt.Sprintf("request %d: the store holds %s for this id, the client's result is %s", k, clip(truth, 60), clip(rs[k], 60)), line, got)
				}
			}
		} else {
			monitor("the handshake of a client with the real server failed", line, got)
		}
		c2s, s2c := unhx(psSplit(got, "c2s")), unhx(psSplit(got, "s2c"))
		for _, src := range []string{"bytes", "onebyte"} {
			cancel, wfail := "-", "-"
			if rng.Intn(3) == 0 {
				cancel = fmt.Sprint(rng.Intn(len(ids) + 3))
			}
			if rng.Intn(4) == 0 {
				wfail = fmt.Sprint(rng.Intn(len(ids) + 2))
			}
			sl := fmt.Sprintf("proto.serve src=%s cancel=%s wfail=%s input=%s %s", src, cancel, wfail, hx(c2s), w.args())
			markCase(sl)
			g := timed(implProtoServe, sl)
			rep.Count(sl, len(ids) > 0, "proto.serve:session", "proto.serve-end:"+psResKind(psSplit(g, "end")))
			if want := m.Ask(sl); m.cmd != nil && g != want {
				rep.Disagree(Disagreement{Kind: "correspondence", Case: clip(sl, 100000), Model: clip(want, 4000), Impl: clip(g, 4000),
					What: "model and implementation differ"})
			}
			if cancel == "-" && wfail == "-" && psSplit(g, "sent") != hx(s2c) {
				monitor("the server wrote other bytes for the same input over a pipe and from a buffer", sl, g)
			}
			cl := fmt.Sprintf("proto.client src=%s ids=%s from=%s zd=%s", src, psIdsStr(ids), hx(s2c), psTable(w.z.dec))
			markCase(cl)
			g = timed(implProtoClient, cl)
			rep.Count(cl, len(ids) > 0, "proto.client:session")
			if want := m.Ask(cl); m.cmd != nil && g != want {
				rep.Disagree(Disagreement{Kind: "correspondence", Case: clip(cl, 100000), Model: clip(want, 4000), Impl: clip(g, 4000),
					What: "model and implementation differ"})
			}
		}
	}
	// (ii) arbitrary input: the server on mutated client streams, the client on mutated server streams
	for it := 0; it < streams; it++ {
		w := psGenWorld(rng)
		in, tag := psGenClientStream(rng, w)
		if it%9 == 8 {
			in, tag = randBytes(rng, rng.Intn(120)), "random"
		}
		cancel, wfail := "-", "-"
		if rng.Intn(5) == 0 {
			cancel = fmt.Sprint(rng.Intn(8))
		}
		if rng.Intn(6) == 0 {
			wfail = fmt.Sprint(rng.Intn(6))
		}
		src := []string{"bytes", "onebyte"}[rng.Intn(2)]
		sl := fmt.Sprintf("proto.serve src=%s cancel=%s wfail=%s input=%s %s", src, cancel, wfail, hx(in), w.args())
		markCase(sl)
		_, a := parseCase(sl)
		g, used := psServe(a)
		rep.Count(sl, len(in) > 16, "proto.serve:"+tag, "proto.serve-end:"+psResKind(psSplit(g, "end")))
		if g == "panic" {
			monitor("the protocol server panicked", sl, g)
		}
		if m.cmd != nil {
			if want := m.Ask(sl); g != want {
				rep.Disagree(Disagreement{Kind: "correspondence", Case: clip(sl, 100000), Model: clip(want, 4000), Impl: clip(g, 4000),
					What: "model and implementation differ"})
			}
			_, malloc := stripAlloc(" " + m.Ask("proto.serve.alloc"+sl[len("proto.serve"):]))
			out := len(psSplit(g, "sent")) / 2
			// every WriteMessage costs a 32 KiB copy buffer (io.Copy of a MultiReader): a constant per message written
			if src == "bytes" && used > uint64(16*len(in)+8*malloc+64*out+40960*(len(psBoundaries(unhx(psSplit(g, "sent"))))-1)+65536) {
				monitor(fmt.Sprintf("the protocol server allocated %d bytes for a %d byte input (%d bytes written)", used, len(in), out), sl, g)
			}
		}
		if e := psSplit(g, "end"); e == "nil" && cancel == "-" {
			// nil without a done context: the last message consumed must be a goodbye
			bd := psBoundaries(in)
			consumed := len(in) - psOptInt(psSplit(g, "rest"))
			ok := false
			for i := 1; i < len(bd); i++ {
				if bd[i] == consumed && binary.LittleEndian.Uint64(in[bd[i-1]+8:]) == desync.CaProtocolGoodbye {
					ok = true
				}
			}
			if !ok {
				monitor("Serve returned nil although the last message it read is not a goodbye", sl, g)
			}
		}

		var ids []desync.ChunkID
		for k, n := 0, rng.Intn(6); k < n; k++ {
			ids = append(ids, w.ids[rng.Intn(len(w.ids))])
		}
		from, ctag := psGenServerStream(rng, w, ids)
		if it%9 == 7 {
			from, ctag = randBytes(rng, rng.Intn(120)), "random"
		}
		cl := fmt.Sprintf("proto.client src=%s ids=%s from=%s zd=%s", src, psIdsStr(ids), hx(from), psTable(w.z.dec))
		markCase(cl)
		_, a = parseCase(cl)
		g, used = psClient(a)
		rep.Count(cl, len(from) > 16, "proto.client:"+ctag)
		if g == "panic" {
			monitor("the protocol client panicked", cl, g)
		}
		if m.cmd != nil {
			if want := m.Ask(cl); g != want {
				rep.Disagree(Disagreement{Kind: "correspondence", Case: clip(cl, 100000), Model: clip(want, 4000), Impl: clip(g, 4000),
					What: "model and implementation differ"})
			}
			_, malloc := stripAlloc(" " + m.Ask("proto.client.alloc"+cl[len("proto.client"):]))
			if src == "bytes" && used > uint64(64*len(from)+8*malloc+40960*(len(psBoundaries(unhx(psSplit(g, "sent"))))-1)+65536) {
				monitor(fmt.Sprintf("the protocol client allocated %d bytes for %d bytes from the server", used, len(from)), cl, g)
			}
		}
		// C03: whatever the server side sent, an accepted chunk hashes to the requested id
		if strings.HasPrefix(g, "hs=ok ") && len(ids) > 0 {
			for k, r := range strings.Split(psSplit(g, "results"), ",") {
				if strings.HasPrefix(r, "ok:") && r != "ok:nodata" && k < len(ids) {
					rep.Histogram["proto.client-accepted"]++
					if desync.Digest.Sum(unhx(r[3:])) != ids[k] {
						monitor(fmt.Sprintf("request %d: the client accepted a chunk that does not hash to the requested id", k), cl, g)
					}
				}
			}
		}
	}
}
