package main

// C12: the chunk object de-duplicated callers share (added in session 7 after seeded change C12-m: Chunk.Data() ran the
// conversion from storage form under a sync.Once and kept the error in a call-local variable, so of several callers that were
// handed the SAME chunk object by a DedupQueue only the first saw a decode error, the others got (nil, nil): "every caller
// returns with the result — the same chunk bytes, boolean or error — of an upstream request").  k callers ask a real
// DedupQueue for one ID while the upstream request is held; the upstream store hands out a chunk in storage form that was
// not verified when it was built (what a chunk server with --skip-verify-read has) and is intact, damaged or empty; every
// caller then uses what it was given — Data(), twice — and all outcomes must be the same: the same bytes, or an error for all.

import (
	"fmt"
	"math/rand"
	"sync"
	"time"

	"github.com/folbricht/desync"
)

type c12GateStore struct {
	chunk *desync.Chunk
	gate  chan struct{}
	mu    sync.Mutex
	calls int
}

func (s *c12GateStore) GetChunk(id desync.ChunkID) (*desync.Chunk, error) {
	s.mu.Lock()
	s.calls++
	s.mu.Unlock()
	<-s.gate
	return s.chunk, nil
}
func (s *c12GateStore) HasChunk(id desync.ChunkID) (bool, error) { return true, nil }
func (s *c12GateStore) Close() error                              { return nil }
func (s *c12GateStore) String() string                            { return "c12gate" }

func c12SharedChunk(cfg Config, rep *Report, rng *rand.Rand) {
	setDigest("sha512")
	for it := 0; it < cfg.N(60, 1200); it++ {
		data := randBytes(rng, 50+rng.Intn(2000))
		good := desync.NewChunk(data)
		id := good.ID()
		comp := it%2 == 0
		var conv desync.Converters
		if comp {
			conv = desync.Converters{desync.Compressor{}}
		}
		storage := append([]byte{}, data...)
		if comp {
			z, err := desync.Compress(data)
			if err != nil {
				fatal(err)
			}
			storage = append([]byte{}, z...)
		}
		kind := []string{"intact", "damaged", "cut"}[it%3]
		switch kind {
		case "damaged":
			for q := 0; q < 1+rng.Intn(8); q++ {
				storage[rng.Intn(len(storage))] ^= byte(1 + rng.Intn(255))
			}
		case "cut":
			storage = storage[:1+rng.Intn(len(storage)-1)]
		}
		c, err := desync.NewChunkFromStorage(id, storage, conv, true)
		if err != nil {
			continue
		}
		st := &c12GateStore{chunk: c, gate: make(chan struct{})}
		q := desync.NewDedupQueue(st)
		k := 2 + rng.Intn(6)
		type outcome struct {
			err1, err2 error
			d1, d2     string
			got        *desync.Chunk
			gerr       error
		}
		outs := make([]outcome, k)
		var wg sync.WaitGroup
		for i := 0; i < k; i++ {
			wg.Add(1)
			go func(i int) {
				defer wg.Done()
				defer func() {
					if r := recover(); r != nil {
						outs[i].gerr = fmt.Errorf("panic: %v", r)
					}
				}()
				ch, err := q.GetChunk(id)
				outs[i].got, outs[i].gerr = ch, err
				if err != nil || ch == nil {
					return
				}
				b1, e1 := ch.Data()
				b2, e2 := ch.Data()
				outs[i].d1, outs[i].err1, outs[i].d2, outs[i].err2 = string(b1), e1, string(b2), e2
			}(i)
		}
		// let the callers reach the queue, then release the one upstream request
		time.Sleep(time.Duration(200+rng.Intn(800)) * time.Microsecond)
		close(st.gate)
		done := make(chan struct{})
		go func() { wg.Wait(); close(done) }()
		caseLine := fmt.Sprintf("dedup.shared kind=%s comp=%v callers=%d len=%d it=%d", kind, comp, k, len(data), it)
		select {
		case <-done:
		case <-time.After(10 * time.Second):
			rep.Disagree(Disagreement{Kind: "monitor", Case: caseLine, What: "callers of a DedupQueue did not return within 10 s"})
			continue
		}
		rep.Count(caseLine, st.calls < k, "shared:"+kind)
		describe := func(o outcome) string {
			if o.gerr != nil {
				return "GetChunk error"
			}
			s := ""
			for _, p := range []struct {
				d string
				e error
			}{{o.d1, o.err1}, {o.d2, o.err2}} {
				switch {
				case p.e != nil:
					s += "error;"
				case p.d == string(data):
					s += "the chunk;"
				case p.d == "":
					s += "no data and no error;"
				default:
					s += "other bytes without error;"
				}
			}
			return s
		}
		first := describe(outs[0])
		for i := 1; i < k; i++ {
			if d := describe(outs[i]); d != first {
				rep.Disagree(Disagreement{Kind: "monitor", Case: caseLine,
					What: fmt.Sprintf("callers that shared one de-duplicated request for a %s chunk in storage form got different outcomes from it: caller 0 [%s] caller %d [%s]", kind, first, i, d)})
				break
			}
		}
		for i := 0; i < k; i++ {
			o := outs[i]
			if o.gerr == nil && ((o.err1 == nil && o.d1 != string(data) && kind == "intact") || (o.err1 == nil) != (o.err2 == nil) || (o.err1 == nil && o.d1 != o.d2)) {
				rep.Disagree(Disagreement{Kind: "monitor", Case: caseLine,
					What: fmt.Sprintf("using a chunk object twice gave different results (caller %d: [%s])", i, describe(o))})
				break
			}
		}
	}
}
