package main

// C11 with real backends as chain members (added in session 7 after seeded change C11-m: S3Store.GetChunk wrapped its final
// error — the ChunkMissing value included — with the store location, so an S3 member that merely lacks a chunk made a
// router fail instead of falling through, and a cache in front of it was never filled; the chain logic of C11 was
// exercised with scripted members only, and that S3's miss IS a ChunkMissing is a C03/C06 fact).  A router, a cache and a
// failover group are built over a first member that truthfully lacks the chunk — a local, HTTP, S3 or SFTP store — and a
// second one that has it: the documented policy must hold whatever the kind of the member.

import (
	"fmt"
	"math/rand"
	"net/http/httptest"
	"net/url"
	"os"
	"path/filepath"

	"github.com/folbricht/desync"
)

func c11RealMembers(cfg Config, rep *Report, rng *rand.Rand) {
	setDigest("sha512")
	sshWrap, sshErr := sftpWrapper(cfg.Work)
	s3f := newFakeS3()
	defer s3f.Close()
	for it := 0; it < cfg.N(4, 40); it++ {
		opt := desync.StoreOptions{Uncompressed: it%2 == 1, ErrorRetry: it % 3}
		emptyDir := filepath.Join(cfg.Work, fmt.Sprintf("c11m-empty-%d", it))
		fullDir := filepath.Join(cfg.Work, fmt.Sprintf("c11m-full-%d", it))
		for _, d := range []string{emptyDir, fullDir} {
			os.RemoveAll(d)
			os.MkdirAll(d, 0755)
		}
		full, err := desync.NewLocalStore(fullDir, opt)
		if err != nil {
			fatal(err)
		}
		data := randBytes(rng, 100+rng.Intn(900))
		c := desync.NewChunk(data)
		if err := full.StoreChunk(c); err != nil {
			fatal(err)
		}
		absent := desync.NewChunk(randBytes(rng, 64)).ID()
		lacking := map[string]desync.Store{}
		var closers []func()
		if ls, err := desync.NewLocalStore(emptyDir, opt); err == nil {
			lacking["local"] = ls
		}
		ts := httptest.NewServer(&rawHTTP{objs: map[string][]byte{}})
		closers = append(closers, ts.Close)
		u, _ := url.Parse(ts.URL)
		if hs, err := desync.NewRemoteHTTPStore(u, opt); err == nil {
			lacking["http"] = hs
		}
		s3f.mu.Lock()
		s3f.objects = map[string][]byte{"bkt/c11/keep": []byte("x")} // the bucket exists, the chunk does not
		s3f.mu.Unlock()
		if s3s, err := s3f.chunkStore("bkt", "c11/", opt); err == nil {
			lacking["s3"] = s3s
		}
		if sshErr == nil {
			os.Setenv("CASYNC_SSH_PATH", sshWrap)
			su, _ := url.Parse("sftp://localhost" + emptyDir)
			o := opt
			o.N = 1
			if ss, err := desync.NewSFTPStore(su, o); err == nil {
				lacking["sftp"] = ss
				closers = append(closers, func() { ss.Close() })
			}
		}
		for kind, first := range lacking {
			caseLine := fmt.Sprintf("chain.members first=%s uncompressed=%v retry=%d it=%d", kind, opt.Uncompressed, opt.ErrorRetry, it)
			rep.Count(caseLine, true, "members:"+kind)
			say := func(what string) { rep.Disagree(Disagreement{Kind: "monitor", Case: caseLine, What: what}) }
			// the member alone: a miss is a miss
			if _, err := first.GetChunk(c.ID()); err == nil {
				say("a " + kind + " store without the chunk delivered it")
			} else if _, ok := err.(desync.ChunkMissing); !ok {
				say(fmt.Sprintf("a %s store that merely lacks the chunk does not report ChunkMissing but: %v", kind, err))
			}
			// router: earlier members merely lack it
			r := desync.NewStoreRouter(first, full)
			if got, err := r.GetChunk(c.ID()); err != nil {
				say(fmt.Sprintf("a router whose first member (%s) merely lacks the chunk and whose second has it failed: %v", kind, err))
			} else if b, err := got.Data(); err != nil || string(b) != string(data) {
				say("a router over a " + kind + " store and a local store delivered other data")
			}
			if has, err := r.HasChunk(c.ID()); err != nil || !has {
				say(fmt.Sprintf("HasChunk of a router whose first member (%s) lacks the chunk and whose second has it: %v %v", kind, has, err))
			}
			if _, err := r.GetChunk(absent); err == nil {
				say("a router delivered a chunk no member has")
			} else if _, ok := err.(desync.ChunkMissing); !ok {
				say(fmt.Sprintf("a router none of whose members (%s, local) has the chunk does not report ChunkMissing but: %v", kind, err))
			}
			// failover group: a member that truthfully lacks the chunk is not a failure, and the miss is not masked
			g := desync.NewFailoverGroup(first, full)
			if _, err := g.GetChunk(c.ID()); err == nil {
				say("a failover group whose active member (" + kind + ") lacks the chunk delivered it from another member (a missing chunk was masked)")
			} else if _, ok := err.(desync.ChunkMissing); !ok {
				say(fmt.Sprintf("a failover group whose active member (%s) merely lacks the chunk does not report ChunkMissing but: %v", kind, err))
			}
		}
		for _, cl := range closers {
			cl()
		}
	}
}
