package main

// Behavioural correspondence for the Google Cloud Storage backend (gcs.go, gcsindex.go) with Model/GCStore.lean.
//
// The REAL desync.GCStore / desync.GCIndexStore with the REAL cloud.google.com/go/storage client talk to the
// in-process service of gcsfake.go (found through STORAGE_EMULATOR_HOST), which answers the requests for the object
// under test as a script says.  Compared with the model: the result, the NUMBER OF HTTP REQUESTS the service saw
// (this pins the claim about the client library's own retries and re-opened downloads made in Driver/GCS.lean), and
// the object afterwards.
//
//   gcs.get      GetChunk on both formats, skip-verify on and off; objects intact / bit-flipped / empty / another chunk's;
//                scripts of 404, 403, 400, 416, 503 (retried inside the client: ~0.5 s each — few), trunc:k (a body that
//                breaks off; the client re-opens with a Range request), badcrc, wrong (a consistent answer for other bytes)
//   gcs.store    StoreChunk with the upload answered 200 / 403 / 412 / 503 (uploads are NOT retried) / lost (stored,
//                connection dropped without an answer), with and without an older object
//   gcs.has      HasChunk: object there / not there / the metadata request refused with 400, 401, 403
//   gcs.bulk     desync.NewChunkStorage(store).StoreChunk: HasChunk, then StoreChunk
//   gcs.prune    Prune over generated buckets (own format, other format, junk, misplaced, upper case, alias names), page
//                sizes 1..5 and 1000, a refused page request, refused / lost deletes
//   gcsindex.ops StoreIndex / GetIndex histories on a GCIndexStore with the same scripts
//
// Monitors (independent of the model): GetChunk nil ⇒ the data hashes to the ID unless verification was off;
// StoreChunk nil ⇒ the object holds exactly toStorage(data); Prune ⇒ referenced / other-format / non-chunk objects and
// everything outside the prefix survive, and nil ⇒ no unreferenced canonical chunk is left.

import (
	"bytes"
	"context"
	"fmt"
	"math/rand"
	"sort"
	"strconv"
	"strings"
	"time"

	"github.com/folbricht/desync"
)

func gcsChunkName(id desync.ChunkID, comp bool) string {
	return s3ChunkKey(id, comp)
}

// gcs.get script= id= raw= dec= comp= skip= alg=
func implGcsGet(line string) string {
	_, a := parseCase(line)
	return guard(func() string {
		setDigest(a["alg"])
		defer setDigest("sha512")
		comp, skip := a["comp"] == "1", a["skip"] == "1"
		var id desync.ChunkID
		copy(id[:], unhx(a["id"]))
		name := gcsChunkName(id, comp)
		f := newFakeGCS()
		defer f.Close()
		f.put("bkt", name, unhx(a["raw"]))
		f.script["GET "+name] = splitScript(a["script"])
		st, err := f.chunkStore("bkt", "c/", desync.StoreOptions{Uncompressed: !comp, SkipVerify: skip, ErrorRetry: 3})
		if err != nil {
			return "setup: " + err.Error()
		}
		return fmt.Sprintf("%s gets=%d", getResult(st, id), f.count("GET "+name))
	})
}

func gcsStoreCase(a kv, bulk bool) string {
	return guard(func() string {
		setDigest("sha512")
		comp := a["comp"] == "1"
		data := unhx(a["data"])
		chunk := desync.NewChunk(data)
		name := gcsChunkName(chunk.ID(), comp)
		f := newFakeGCS()
		defer f.Close()
		var pre []byte
		if a["pre"] != "-" {
			pre = unhx(a["pre"])
			f.put("bkt", name, pre)
		}
		f.script["POST "+name] = splitScript(a["script"])
		if bulk {
			switch a["stat"] {
			case "found": // pre is there
			case "failure":
				f.script["META "+name] = []string{a["status"]}
			}
		}
		st, err := f.chunkStore("bkt", "c/", desync.StoreOptions{Uncompressed: !comp, ErrorRetry: 3})
		if err != nil {
			return "setup: " + err.Error()
		}
		res := "ok"
		if bulk {
			err = desync.NewChunkStorage(st).StoreChunk(chunk)
		} else {
			err = st.StoreChunk(chunk)
		}
		if err != nil {
			res = "error"
		}
		obj, present := f.get("bkt", name)
		state := "none"
		if present {
			want := data
			if comp {
				want, _ = desync.Compress(data)
			}
			switch {
			case bytes.Equal(obj, want):
				state = "new"
			case pre != nil && bytes.Equal(obj, pre):
				state = "old"
			default:
				state = "other:" + hx(obj)
			}
		}
		return fmt.Sprintf("res=%s posts=%d obj=%s", res, f.count("POST "+name), state)
	})
}

// gcs.store script= pre= data= comp=
func implGcsStore(line string) string {
	_, a := parseCase(line)
	return gcsStoreCase(a, false)
}

// gcs.bulk stat= [status=] script= pre= data= comp=
func implGcsBulk(line string) string {
	_, a := parseCase(line)
	return gcsStoreCase(a, true)
}

// gcs.has stat=found|notfound|failure [status=]
func implGcsHas(line string) string {
	_, a := parseCase(line)
	return guard(func() string {
		setDigest("sha512")
		id := desync.ChunkID(desync.Digest.Sum([]byte("has")))
		name := gcsChunkName(id, true)
		f := newFakeGCS()
		defer f.Close()
		switch a["stat"] {
		case "found":
			f.put("bkt", name, []byte("x"))
		case "failure":
			f.script["META "+name] = []string{a["status"]}
			if a["there"] == "1" {
				f.put("bkt", name, []byte("x"))
			}
		}
		st, err := f.chunkStore("bkt", "c/", desync.StoreOptions{})
		if err != nil {
			return "setup: " + err.Error()
		}
		has, herr := st.HasChunk(id)
		return fmt.Sprintf("has=%d err=%d", b2i(has), b2i(herr != nil))
	})
}

// gcs.prune unc= keep= files= page= listfail= dels= prefix=
func implGcsPrune(line string) string {
	_, a := parseCase(line)
	return guard(func() string {
		setDigest("sha512")
		f := newFakeGCS()
		defer f.Close()
		prefix := string(unhx(a["prefix"]))
		if a["files"] != "" {
			for _, fl := range strings.Split(a["files"], ";") {
				p := strings.Split(fl, "/")
				d, n := string(unhx(p[0])), string(unhx(p[1]))
				key := prefix + n
				if d != "" {
					key = prefix + d + "/" + n
				}
				f.put("bkt", key, []byte("x"))
			}
		}
		// an object outside the store's prefix; with the empty prefix every object of the bucket lies inside the store, so
		// there is none to add (it would be a listed name the case line does not tell the model about: a third page request
		// in the run VERIF_SEED=5, a false alarm of this harness, corrected in session 7)
		if prefix != "" {
			f.put("bkt", "unrelated-"+prefix+"object", []byte("y"))
		}
		f.pageSize, _ = strconv.Atoi(a["page"])
		if n, err := strconv.Atoi(a["listfail"]); err == nil {
			sc := make([]string, n+1)
			for i := range sc {
				sc[i] = "200"
			}
			sc[n] = "403"
			f.script["LIST "+prefix] = sc
		}
		// the k-th DELETE request, whatever its object
		var dels []string
		if a["dels"] != "" {
			dels = strings.Split(a["dels"], ",")
		}
		f.delAnswers = dels
		keep := map[desync.ChunkID]struct{}{}
		if a["keep"] != "" {
			for _, k := range strings.Split(a["keep"], ",") {
				var id desync.ChunkID
				copy(id[:], unhx(k))
				keep[id] = struct{}{}
			}
		}
		st, err := f.chunkStore("bkt", prefix, desync.StoreOptions{Uncompressed: a["unc"] == "1"})
		if err != nil {
			return "setup: " + err.Error()
		}
		perr := st.Prune(context.Background(), keep)
		var rem []string
		other := false
		for _, k := range f.keys("bkt", "") {
			if strings.HasPrefix(k, "unrelated-") {
				other = true
				continue
			}
			k = strings.TrimPrefix(k, prefix)
			d, n := "", k
			if i := strings.LastIndex(k, "/"); i >= 0 {
				d, n = k[:i], k[i+1:]
			}
			rem = append(rem, hx([]byte(d))+"/"+hx([]byte(n)))
		}
		sort.Strings(rem)
		if !other && prefix != "" {
			return "removed-an-object-outside-the-prefix " + strings.Join(rem, ";")
		}
		if perr != nil {
			return "failed " + strings.Join(rem, ";")
		}
		return "ok " + strings.Join(rem, ";")
	})
}

func gcsIndexBytes(rng *rand.Rand) []byte {
	idx := desync.Index{Index: desync.FormatIndex{FeatureFlags: desync.CaFormatSHA512256 | desync.CaFormatExcludeNoDump, ChunkSizeMin: 16, ChunkSizeAvg: 64, ChunkSizeMax: 256}}
	var off uint64
	for i, n := 0, rng.Intn(6); i < n; i++ {
		var id desync.ChunkID
		rng.Read(id[:])
		sz := uint64(1 + rng.Intn(256))
		idx.Chunks = append(idx.Chunks, desync.IndexChunk{ID: id, Start: off, Size: sz})
		off += sz
	}
	var b bytes.Buffer
	idx.WriteTo(&b)
	return b.Bytes()
}

// gcsindex.ops ops=s:<namehex>:<index bytes hex>:<answer>;g:<namehex>:<script, + between entries>
func implGcsIndexOps(line string) string {
	_, a := parseCase(line)
	return guard(func() string {
		f := newFakeGCS()
		defer f.Close()
		st, err := f.indexStore("bkt", "idx", desync.StoreOptions{})
		if err != nil {
			return "setup: " + err.Error()
		}
		var out []string
		for _, op := range strings.Split(a["ops"], ";") {
			p := strings.SplitN(op, ":", 3)
			if len(p) < 3 {
				out = append(out, "bad-op")
				continue
			}
			name := string(unhx(p[1]))
			switch p[0] {
			case "s":
				q := strings.SplitN(p[2], ":", 2)
				idx, err := desync.IndexFromReader(bytes.NewReader(unhx(q[0])))
				if err != nil {
					out = append(out, "bad-op")
					continue
				}
				f.mu.Lock()
				f.script["POST idx/"+name] = splitScript(q[1])
				f.mu.Unlock()
				if err := st.StoreIndex(name, idx); err != nil {
					out = append(out, "err")
				} else {
					out = append(out, "ok")
				}
			case "g":
				f.mu.Lock()
				f.script["GET idx/"+name] = nil
				if p[2] != "" {
					f.script["GET idx/"+name] = strings.Split(p[2], "+")
				}
				f.mu.Unlock()
				idx, err := st.GetIndex(name)
				if err != nil {
					out = append(out, "err")
				} else {
					var b bytes.Buffer
					idx.WriteTo(&b)
					out = append(out, "ok:"+hx(b.Bytes()))
				}
			default:
				out = append(out, "bad-op")
			}
		}
		return strings.Join(out, ",")
	})
}

// ---------------------------------------------------------------------------------------------------------------

// gcsMkObject: a chunk and what the bucket holds for it
func gcsMkObject(rng *rand.Rand, i int) (id desync.ChunkID, raw []byte, comp bool, dec, kind string) {
	data := randBytes(rng, 1+rng.Intn(400))
	id = desync.Digest.Sum(data)
	comp = i%2 == 0
	raw = data
	if comp {
		raw, _ = desync.Compress(data)
	}
	kind = []string{"intact", "intact", "flipped", "empty", "foreign", "intact"}[i%6]
	switch kind {
	case "flipped":
		raw = append([]byte{}, raw...)
		raw[rng.Intn(len(raw))] ^= 1 << uint(rng.Intn(8))
	case "empty":
		raw = nil
	case "foreign":
		other := randBytes(rng, 1+rng.Intn(400))
		raw = other
		if comp {
			raw, _ = desync.Compress(other)
		}
	}
	dec = "err"
	if d, err := desync.Decompress(nil, raw); err == nil {
		dec = "ok:" + hx(d)
	}
	if !comp {
		dec = "ok:" + hx(raw)
	}
	return
}

// gcsWrongDec: what the decompressor makes of the bytes a `wrong` answer carries (gcsfake.go: every byte xor 0x5a)
func gcsWrongDec(raw []byte, comp bool) string {
	w := append([]byte{}, raw...)
	for i := range w {
		w[i] ^= 0x5a
	}
	if len(w) == 0 {
		w = []byte("x")
	}
	if !comp {
		return "ok:" + hx(w)
	}
	if d, err := desync.Decompress(nil, w); err == nil {
		return "ok:" + hx(d)
	}
	return "err"
}

// gcsScript: answers to successive download requests; at most `slow` entries the client retries with a back-off
func gcsScript(rng *rand.Rand, rawLen int, slow *int) string {
	n := rng.Intn(4)
	var s []string
	for i := 0; i < n; i++ {
		switch rng.Intn(9) {
		case 0, 1:
			s = append(s, "404")
		case 2:
			s = append(s, []string{"403", "400", "401", "416"}[rng.Intn(4)])
		case 3, 4, 5:
			s = append(s, fmt.Sprintf("trunc:%d", rng.Intn(rawLen+2)))
		case 6:
			s = append(s, "badcrc")
		case 7:
			s = append(s, "wrong")
		case 8:
			if *slow > 0 {
				*slow--
				s = append(s, []string{"503", "500", "429", "408"}[rng.Intn(4)])
			} else {
				s = append(s, "200")
			}
		}
	}
	return strings.Join(s, ",")
}

// runGCSRead: the read side (C03, C14)
func runGCSRead(cfg Config, rep *Report, m *Model, rng *rand.Rand) {
	t0 := time.Now()
	setDigest("sha512")
	slow := cfg.N(4, 40)
	for i := 0; i < cfg.N(260, 3000); i++ {
		id, raw, comp, dec, kind := gcsMkObject(rng, i)
		sc := gcsScript(rng, len(raw), &slow)
		skip := i%7 == 3
		line := fmt.Sprintf("gcs.get script=%s id=%s raw=%s dec=%s comp=%d skip=%d alg=sha512 wdec=%s", sc, hx(id[:]), hx(raw), dec, b2i(comp), b2i(skip), gcsWrongDec(raw, comp))
		got := timed(implGcsGet, line)
		first := "none"
		if sc != "" {
			first = strings.SplitN(strings.SplitN(sc, ",", 2)[0], ":", 2)[0]
		}
		rep.Count(line, sc != "" || kind != "intact", "gcs.get", "gcs.get/"+kind, "gcs.get/first="+first, "gcs.get/result="+strings.SplitN(got, " ", 2)[0])
		rep.Compare(m, line, implGcsGet, nil)
		// monitor: a delivered chunk hashes to the ID unless verification was off
		if strings.HasPrefix(got, "ok ") && !skip {
			f := strings.Fields(got)
			if len(f) >= 2 && f[1] != "nodata" {
				if sum := desync.Digest.Sum(unhx(f[1])); sum != id {
					rep.Disagree(Disagreement{Kind: "monitor", Case: clip(line, 100000), Impl: clip(got, 400),
						What: "GCStore.GetChunk delivered data that does not hash to the requested ID"})
				}
			}
		}
	}
	// the malformed stream: scripts of arbitrary tokens the service answers as errors, odd trunc arguments
	for i := 0; i < cfg.N(20, 200); i++ {
		id, raw, comp, dec, _ := gcsMkObject(rng, i)
		sc := randScript(rng, []string{"404", "403", "trunc:0", "trunc:1", "trunc:100000", "wrong", "badcrc", "200", "451", "409"}, 5)
		line := fmt.Sprintf("gcs.get script=%s id=%s raw=%s dec=%s comp=%d skip=%d alg=sha512 wdec=%s", sc, hx(id[:]), hx(raw), dec, b2i(comp), i%2, gcsWrongDec(raw, comp))
		rep.Count(line, true, "gcs.get", "gcs.get/malformed-stream")
		rep.Compare(m, line, implGcsGet, nil)
	}
	rep.Notes = append(rep.Notes, fmt.Sprintf("GCS (gcs.get against Model/GCStore.lean; real cloud.google.com/go/storage client against gcsfake.go): %.1fs", time.Since(t0).Seconds()))
}

// runGCSWrite: the store side (C06)
func runGCSWrite(cfg Config, rep *Report, rng *rand.Rand) {
	m, err := StartModel(cfg.Driver)
	if err != nil {
		fatal(err)
	}
	defer m.Close()
	t0 := time.Now()
	answers := []string{"", "200", "403", "412", "503", "500", "lost", "404", "401"}
	for i := 0; i < cfg.N(120, 1500); i++ {
		sc := answers[rng.Intn(len(answers))]
		if i < len(answers) {
			sc = answers[i]
		}
		pre := "-"
		if i%3 == 1 {
			pre = hx([]byte("an older object"))
		}
		data := randBytes(rng, 1+rng.Intn(300))
		line := fmt.Sprintf("gcs.store script=%s pre=%s comp=%d data=%s", sc, pre, i%2, hx(data))
		got := timed(implGcsStore, line)
		rep.Count(line, sc != "" && sc != "200", "gcs.store", "gcs.store/answer="+sc, "gcs.store/"+strings.SplitN(got, " ", 2)[0])
		rep.Compare(m, line, implGcsStore, nil)
		if strings.HasPrefix(got, "res=ok") && !strings.HasSuffix(got, "obj=new") {
			rep.Disagree(Disagreement{Kind: "monitor", Case: clip(line, 100000), Impl: clip(got, 400),
				What: "GCStore.StoreChunk returned nil but the object does not hold toStorage(data)"})
		}
	}
	for _, c := range []string{"stat=found", "stat=notfound", "stat=failure status=403", "stat=failure status=400", "stat=failure status=401",
		"stat=failure status=403 there=1", "stat=failure status=412 there=1"} {
		line := "gcs.has " + c
		rep.Count(line, true, "gcs.has", "gcs.has/"+strings.Fields(c)[0])
		rep.Compare(m, line, implGcsHas, nil)
	}
	for i := 0; i < cfg.N(30, 300); i++ {
		stat := []string{"found", "notfound", "failure status=403", "failure status=400"}[i%4]
		sc := answers[rng.Intn(len(answers))]
		pre := "-"
		if stat == "found" {
			pre = hx([]byte("what is there"))
		}
		line := fmt.Sprintf("gcs.bulk stat=%s script=%s pre=%s comp=%d data=%s", stat, sc, pre, i%2, hx(randBytes(rng, 1+rng.Intn(100))))
		got := timed(implGcsBulk, line)
		rep.Count(line, true, "gcs.bulk", "gcs.bulk/"+strings.Fields(stat)[0])
		rep.Compare(m, line, implGcsBulk, nil)
		if strings.HasPrefix(got, "res=ok") && strings.HasSuffix(got, "obj=none") {
			rep.Disagree(Disagreement{Kind: "monitor", Case: clip(line, 100000), Impl: clip(got, 400),
				What: "ChunkStorage.StoreChunk over a GCS store returned nil but there is no object"})
		}
	}
	rep.Notes = append(rep.Notes, fmt.Sprintf("GCS (gcs.store, gcs.has, gcs.bulk against Model/GCStore.lean): %.1fs", time.Since(t0).Seconds()))
}

// runGCSPrune: C16
func runGCSPrune(cfg Config, rep *Report, m *Model, rng *rand.Rand) {
	t0 := time.Now()
	monitor := func(what, line, got string) {
		rep.Disagree(Disagreement{Kind: "monitor", Case: clip(line, 100000), Impl: clip(got, 1000), What: what})
	}
	for it := 0; it < cfg.N(220, 2500); it++ {
		unc := rng.Intn(2) == 0
		ownExt, otherExt := ".cacnk", ""
		if unc {
			ownExt, otherExt = "", ".cacnk"
		}
		type ent struct {
			dir, name, kind string
			id              desync.ChunkID
			keep            bool
		}
		var ents []ent
		seen := map[string]bool{}
		for i, nf := 0, rng.Intn(10); i < nf; i++ {
			var id desync.ChunkID
			rng.Read(id[:])
			id[0] = byte(rng.Intn(4)) << 4 // few leading digits: aliases and canonical names of different IDs interleave
			sid := hx(id[:])
			e := ent{id: id, keep: rng.Intn(2) == 0}
			switch rng.Intn(11) {
			case 0, 1, 2, 3:
				e.dir, e.name, e.kind = sid[:4], sid+ownExt, "own"
			case 4:
				e.dir, e.name, e.kind = sid[:4], sid+otherExt, "other"
			case 5:
				e.dir, e.name, e.kind = []string{sid[:4], "junk", ""}[rng.Intn(3)], []string{"README", "x.cacnk", sid[:60] + ownExt, sid + "00" + ownExt, sid + ownExt}[rng.Intn(5)], "junk"
			case 6:
				e.dir, e.name, e.kind = "zzzz", sid+ownExt, "misplaced"
			case 7:
				e.dir, e.name, e.kind = strings.ToUpper(sid[:4]), strings.ToUpper(sid)+ownExt, "upper"
				e.keep = false
			case 8, 9: // an alias (a shorter directory) — alone, or next to the canonical object
				e.dir, e.name, e.kind = sid[:1+rng.Intn(3)], sid+ownExt, "alias"
				if rng.Intn(2) == 0 {
					ents = append(ents, ent{dir: sid[:4], name: sid + ownExt, kind: "own", id: id, keep: e.keep})
					seen[sid[:4]+"/"+sid+ownExt] = true
				}
			default:
				e.dir, e.name, e.kind = sid[:4], sid+ownExt, "own"
				e.keep = true
			}
			if seen[e.dir+"/"+e.name] {
				continue
			}
			seen[e.dir+"/"+e.name] = true
			ents = append(ents, e)
		}
		prefix := []string{"", "pfx/", "a/b/"}[rng.Intn(3)]
		// listing order: by full object name
		sort.Slice(ents, func(i, j int) bool {
			ki, kj := ents[i].dir+"/"+ents[i].name, ents[j].dir+"/"+ents[j].name
			if ents[i].dir == "" {
				ki = ents[i].name
			}
			if ents[j].dir == "" {
				kj = ents[j].name
			}
			return ki < kj
		})
		var files, keep []string
		for _, e := range ents {
			files = append(files, hx([]byte(e.dir))+"/"+hx([]byte(e.name)))
			if e.keep && e.kind != "upper" {
				keep = append(keep, hx(e.id[:]))
			}
		}
		for k := 0; k < rng.Intn(3); k++ {
			keep = append(keep, hx(randBytes(rng, 32)))
		}
		page := []int{1, 2, 3, 5, 1000, 1000}[rng.Intn(6)]
		listfail := "-"
		if rng.Intn(8) == 0 {
			listfail = fmt.Sprint(rng.Intn(3))
		}
		dels := ""
		if rng.Intn(4) == 0 {
			dels = randScript(rng, []string{"normal", "normal", "refuse", "lost"}, 4)
		}
		line := fmt.Sprintf("gcs.prune unc=%d keep=%s files=%s page=%d listfail=%s dels=%s prefix=%s", b2i(unc), strings.Join(keep, ","),
			strings.Join(files, ";"), page, listfail, dels, hx([]byte(prefix)))
		got := timed(implGcsPrune, line)
		rep.Count(line, len(files) >= 3, "gcs.prune", "gcs.prune/result="+strings.SplitN(got, " ", 2)[0], fmt.Sprintf("gcs.prune/page=%d", page),
			"gcs.prune/listfail="+listfail, "gcs.prune/dels="+fmt.Sprint(dels != ""))
		rep.Compare(m, line, implGcsPrune, nil)
		remaining := map[string]bool{}
		f := strings.SplitN(got, " ", 2)
		if len(f) > 1 && f[1] != "" {
			for _, r := range strings.Split(f[1], ";") {
				remaining[r] = true
			}
		}
		if f[0] != "ok" && f[0] != "failed" {
			monitor("GCS prune: "+f[0], line, got)
			continue
		}
		kept := map[desync.ChunkID]bool{}
		for _, e := range ents {
			if e.keep && e.kind != "upper" {
				kept[e.id] = true
			}
		}
		for _, e := range ents {
			key := hx([]byte(e.dir)) + "/" + hx([]byte(e.name))
			canonical := e.dir == hx(e.id[:])[:4] && e.name == hx(e.id[:])+ownExt
			switch {
			case canonical && kept[e.id] && !remaining[key]:
				monitor("GCS prune deleted a referenced chunk", line, got)
			case canonical && !kept[e.id] && remaining[key] && f[0] == "ok":
				monitor("GCS prune reported success but left an unreferenced chunk of its own format", line, got)
			case !canonical && !remaining[key]:
				monitor("GCS prune deleted an object that is not a canonical chunk object of this store ("+e.kind+")", line, got)
			}
		}
	}
	rep.Notes = append(rep.Notes, fmt.Sprintf("GCS (gcs.prune against Model/GCStore.lean): %.1fs", time.Since(t0).Seconds()))
}

// runGCSIndex: C04
func runGCSIndex(cfg Config, rep *Report, m *Model, rng *rand.Rand) {
	t0 := time.Now()
	slow := cfg.N(2, 20)
	for it := 0; it < cfg.N(60, 800); it++ {
		names := []string{"a.caibx", "dir/b.caidx", "c"}
		var ops []string
		for k, n := 0, 1+rng.Intn(6); k < n; k++ {
			name := names[rng.Intn(len(names))]
			if rng.Intn(2) == 0 {
				ans := []string{"200", "200", "403", "lost", "503", "412"}[rng.Intn(6)]
				ops = append(ops, fmt.Sprintf("s:%s:%s:%s", hx([]byte(name)), hx(gcsIndexBytes(rng)), ans))
			} else {
				sc := strings.ReplaceAll(gcsScript(rng, 60, &slow), ",", "+")
				sc = strings.ReplaceAll(strings.ReplaceAll(sc, "wrong", "200"), "badcrc", "200") // other bytes are the decoder's business (C04 proper)
				ops = append(ops, fmt.Sprintf("g:%s:%s", hx([]byte(name)), sc))
			}
		}
		line := "gcsindex.ops ops=" + strings.Join(ops, ";")
		rep.Count(line, len(ops) >= 2, "gcsindex.ops", fmt.Sprintf("gcsindex.ops/len=%d", len(ops)))
		rep.Compare(m, line, implGcsIndexOps, nil)
	}
	rep.Notes = append(rep.Notes, fmt.Sprintf("GCS (gcsindex.ops against Model/GCStore.lean): %.1fs", time.Since(t0).Seconds()))
}

// runGCSMissingVsFailed: C14 — a missing object against a failing request, on GetChunk and HasChunk
func runGCSMissingVsFailed(cfg Config, rep *Report, m *Model, rng *rand.Rand) {
	t0 := time.Now()
	setDigest("sha512")
	scripts := []string{"", "404", "403", "401", "400", "trunc:3,404", "trunc:3,403", "trunc:0,trunc:2,404", "badcrc", "trunc:1,200", "416"}
	for i := 0; i < cfg.N(44, 440); i++ {
		id, raw, comp, dec, kind := gcsMkObject(rng, 6*i) // intact objects
		sc := scripts[i%len(scripts)]
		line := fmt.Sprintf("gcs.get script=%s id=%s raw=%s dec=%s comp=%d skip=%d alg=sha512 wdec=%s", sc, hx(id[:]), hx(raw), dec, b2i(comp), i%2, gcsWrongDec(raw, comp))
		got := timed(implGcsGet, line)
		rep.Count(line, sc != "", "gcs.get", "gcs.get/"+kind, "gcs.get/script="+sc, "gcs.get/result="+strings.SplitN(got, " ", 2)[0])
		rep.Compare(m, line, implGcsGet, nil)
		missing := strings.HasSuffix(sc, "404")
		if strings.HasPrefix(got, "missing") != missing {
			rep.Disagree(Disagreement{Kind: "monitor", Case: clip(line, 100000), Impl: clip(got, 400),
				What: "GCStore.GetChunk: ChunkMissing must be reported exactly when the service said the object does not exist"})
		}
	}
	for _, c := range []string{"stat=found", "stat=notfound", "stat=failure status=403", "stat=failure status=400", "stat=failure status=401",
		"stat=failure status=403 there=1"} {
		line := "gcs.has " + c
		rep.Count(line, true, "gcs.has", "gcs.has/"+strings.Fields(c)[0])
		rep.Compare(m, line, implGcsHas, nil)
	}
	rep.Notes = append(rep.Notes, fmt.Sprintf("GCS (missing vs failed: gcs.get, gcs.has): %.1fs", time.Since(t0).Seconds()))
}
