package main

import (
	gnutar "archive/tar"
	"bytes"
	"context"
	"fmt"
	"golang.org/x/sys/unix"
	"io"
	"math/rand"
	"os"
	"path"
	"path/filepath"
	"sort"
	"strings"
	"syscall"
	"time"

	"github.com/folbricht/desync"
	"github.com/pkg/xattr"
)

// expected node strings for a record stream (what UnTar must hand to the writer)
func expectedNodes(recs []fileRec) []string {
	var out []string
	for i, f := range recs {
		if f.kind == "other" {
			continue
		}
		name := f.path
		if i == 0 {
			name = "."
		}
		meta := fmt.Sprintf("%d:%d:%d:%d:%s", uint64(f.uid), uint64(f.gid), uint32(f.fileMode()), uint64(f.mtime), xattrStr(f.xattrs))
		switch f.kind {
		case "dir":
			out = append(out, "D:"+hx([]byte(name))+":"+meta)
		case "reg":
			out = append(out, fmt.Sprintf("F:%s:%s:%d:%s", hx([]byte(name)), meta, len(f.data), hx(f.data)))
		case "symlink":
			out = append(out, "L:"+hx([]byte(name))+":"+meta+":"+hx([]byte(f.target)))
		case "device":
			out = append(out, fmt.Sprintf("V:%s:%s:%d:%d", hx([]byte(name)), meta, f.major, f.minor))
		}
	}
	return out
}

// snapshot of a directory tree on disk: one line per entry, sorted
func snapshotTree(root string, withDirMtime bool) []string {
	var out []string
	filepath.Walk(root, func(p string, info os.FileInfo, err error) error {
		if err != nil {
			out = append(out, "ERR "+p)
			return nil
		}
		rel, _ := filepath.Rel(root, p)
		st := info.Sys().(*syscall.Stat_t)
		line := fmt.Sprintf("%s mode=%o uid=%d gid=%d", rel, st.Mode, st.Uid, st.Gid)
		mt := info.ModTime().UnixNano()
		if withDirMtime || !info.IsDir() { // symbolic links included: their own time stamp (lstat)
			line += fmt.Sprintf(" mtime=%d", mt)
		}
		switch {
		case info.Mode().IsRegular():
			b, _ := os.ReadFile(p)
			line += fmt.Sprintf(" size=%d data=%x", len(b), desync.Digest.Sum(b))
		case info.Mode()&os.ModeSymlink != 0:
			t, _ := os.Readlink(p)
			line += " target=" + hx([]byte(t))
		case info.Mode()&os.ModeDevice != 0:
			line += fmt.Sprintf(" rdev=%d", st.Rdev)
		}
		if keys, err := xattr.LList(p); err == nil {
			sort.Strings(keys)
			for _, k := range keys {
				v, _ := xattr.LGet(p, k)
				line += fmt.Sprintf(" x:%s=%x", k, v)
			}
		}
		out = append(out, line)
		return nil
	})
	sort.Strings(out)
	return out
}

// build a tree on disk; returns false if the sandbox cannot create something (not root, no xattr support)
func buildDiskTree(rng *rand.Rand, root string) {
	os.MkdirAll(root, 0755)
	var mk func(dir string, depth int)
	n := 0
	mk = func(dir string, depth int) {
		for i := 0; i < rng.Intn(6); i++ {
			n++
			name := fmt.Sprintf("%c%d", 'a'+rune(rng.Intn(26)), n)
			if rng.Intn(6) == 0 {
				name = "we ird\tnäme" + fmt.Sprint(n)
			}
			p := filepath.Join(dir, name)
			mt := time.Unix(int64(1000000000+rng.Intn(900000000)), int64(rng.Intn(1000000000)))
			perm := os.FileMode(rng.Intn(0o1000))
			switch k := rng.Intn(10); {
			case k < 2 && depth < 3:
				os.Mkdir(p, 0755)
				mk(p, depth+1)
				os.Chown(p, rng.Intn(3000), rng.Intn(3000))
				syscall.Chmod(p, uint32(0700|rng.Intn(0o100))|uint32(rng.Intn(2))*syscall.S_ISVTX)
				os.Chtimes(p, mt, mt)
			case k < 7:
				os.WriteFile(p, randBytes(rng, rng.Intn(3000)), 0644)
				if rng.Intn(4) == 0 {
					xattr.LSet(p, "user.k"+fmt.Sprint(rng.Intn(3)), randBytes(rng, rng.Intn(10)))
				}
				os.Chown(p, rng.Intn(3000), rng.Intn(3000))
				m := uint32(perm)
				switch rng.Intn(8) {
				case 0:
					m |= syscall.S_ISUID
				case 1:
					m |= syscall.S_ISGID
				}
				syscall.Chmod(p, m)
				os.Chtimes(p, mt, mt)
			case k < 9:
				os.Symlink(string(randBytes(rng, 1+rng.Intn(20))), p)
				os.Lchown(p, rng.Intn(3000), rng.Intn(3000))
				ts := unix.NsecToTimespec(mt.UnixNano())
				unix.UtimesNanoAt(unix.AT_FDCWD, p, []unix.Timespec{ts, ts}, unix.AT_SYMLINK_NOFOLLOW) // the link's own mtime
			default:
				typ := uint32(syscall.S_IFBLK)
				if rng.Intn(2) == 0 {
					typ = syscall.S_IFCHR
				}
				dev := desync.VerifMkdev(uint64(rng.Intn(4096)), uint64(rng.Intn(1<<20)))
				if err := syscall.Mknod(p, typ|0644, int(dev)); err == nil {
					os.Chown(p, rng.Intn(3000), rng.Intn(3000))
					os.Chtimes(p, mt, mt)
				}
			}
		}
	}
	mk(root, 0)
	addSparseFiles(rng, root) // regular files with holes (sparse.go)
	mt := time.Unix(1500000000, 0)
	os.Chtimes(root, mt, mt)
}

func runC05(cfg Config) {
	rep := NewReport("C05", cfg.Tier, cfg.Seed,
		"(a) generated record streams (nesting, all node kinds, any name bytes, uid/gid/mode/mtime, xattrs, devices) -> Tar -> UnTar with a "+
			"recording writer: node list == records (monitor) and == model (correspondence), archive bytes identical on a second run; (b) mode "+
			"conversions over all 2^16 stat modes / all type x set-id x permission FileModes, mkdev/Rdev split; (c) on disk as root: generated "+
			"trees -> Tar(LocalFS) -> UnTar(LocalFS) and -> ChunkStream+store -> UnTarIndex, under both digests, and via a GNU tar stream "+
			"(TarReader), snapshots (lstat, readlink, xattrs, content, mtimes incl. directories) compared; gnu-tar and mtree writers checked "+
			"for type, set-id bits and devices; (e) tarfs.go: archive/tar's FileInfo mode/name and path.Clean (tarfs.mode), headers over all type flags "+
			"written in USTAR/PAX/GNU and read through TarReader (tarfs.read), whole tar streams through Tar (tarfs.tar), nodes through TarWriter "+
			"against archive/tar's encoding of the model's header and read back through TarReader (tarfs.write). non-trivial = distinct case with >= 3 records "+
			"(tarfs: every distinct case)")
	m, err := StartModel(cfg.Driver)
	if err != nil {
		fatal(err)
	}
	defer m.Close()
	rng := rand.New(rand.NewSource(cfg.Seed))
	monitor := func(what, caseLine, impl, sig string) {
		rep.Disagree(Disagreement{Kind: "monitor", Case: clip(caseLine, 100000), Impl: clip(impl, 1500), What: what, Sig: sig})
	}

	// (e) tarfs.go: tar-stream input and GNU-tar output legs against Model/TarFS.lean (tarfs.go of this harness); a generator of
	// its own derived from the seed, so that the sections below see the stream of choices they always saw
	runTarfs(cfg, rep, m, rand.New(rand.NewSource(cfg.Seed^0x7461726673)))
	runMtreeFS(cfg, rep, m, rand.New(rand.NewSource(cfg.Seed^0x6d74726565)))

	// (b) modes
	for mo := 0; mo < 65536; mo++ {
		if cfg.Tier == "quick" && mo%5 != 0 && mo&0xfff > 0o1000 {
			continue
		}
		line := fmt.Sprintf("mode.s2f m=%d", mo)
		rep.Compare(m, line, implMode, nil)
		rep.Count(line, true, "mode.s2f")
		// implementation round trip for the seven types
		t := uint32(mo) & syscall.S_IFMT
		switch t {
		case syscall.S_IFREG, syscall.S_IFDIR, syscall.S_IFLNK, syscall.S_IFBLK, syscall.S_IFCHR, syscall.S_IFIFO, syscall.S_IFSOCK:
			if back := desync.FilemodeToStatMode(desync.StatModeToFilemode(uint32(mo))); back != uint32(mo) {
				monitor(fmt.Sprintf("stat mode %o does not survive StatModeToFilemode/FilemodeToStatMode (got %o)", mo, back), line, "", "")
			}
		}
	}
	types := []os.FileMode{0, os.ModeDir, os.ModeSymlink, os.ModeDevice, os.ModeDevice | os.ModeCharDevice, os.ModeNamedPipe, os.ModeSocket, os.ModeIrregular, os.ModeDevice | os.ModeDir}
	for _, t := range types {
		for fl := 0; fl < 8; fl++ {
			for perm := 0; perm < 512; perm += 1 + 6*b2i(cfg.Tier == "quick") {
				fm := t | os.FileMode(perm)
				if fl&1 != 0 {
					fm |= os.ModeSetuid
				}
				if fl&2 != 0 {
					fm |= os.ModeSetgid
				}
				if fl&4 != 0 {
					fm |= os.ModeSticky
				}
				line := fmt.Sprintf("mode.f2s m=%d", uint32(fm))
				rep.Compare(m, line, implMode, nil)
				rep.Count(line, true, "mode.f2s")
			}
		}
	}
	for it := 0; it < cfg.N(2000, 50000); it++ {
		ma, mi := uint64(rng.Intn(4096)), uint64(rng.Intn(1<<20))
		if it%10 == 0 {
			ma, mi = rng.Uint64(), rng.Uint64()
		}
		line := fmt.Sprintf("mode.mkdev ma=%d mi=%d", ma, mi)
		rep.Compare(m, line, implMode, nil)
		dev := desync.VerifMkdev(ma, mi)
		line2 := fmt.Sprintf("mode.rdev r=%d", dev)
		rep.Compare(m, line2, implMode, nil)
		rep.Count(line, true, "mkdev")
		if ma < 4096 && mi < 1<<20 {
			if got := implMode(line2); got != fmt.Sprintf("%d:%d", ma, mi) {
				monitor("device numbers do not survive mkdev / Rdev split", line, got, "")
			}
		}
	}

	// (a) in-memory round trip
	for it := 0; it < cfg.N(400, 10000); it++ {
		recs := genRecords(rng, rng.Intn(10), 30)
		line := recsCase(recs)
		enc := tarRecs(recs)
		rep.Compare(m, line, implTar, nil)
		rep.Count(line, len(recs) >= 3, "roundtrip", "records:"+bucket(len(recs)))
		if enc == "err" || enc == "panic" {
			monitor("Tar failed", line, enc, "")
			continue
		}
		if enc2 := tarRecs(recs); enc2 != enc {
			monitor("packing the same tree twice yields different archive bytes", line, "", "")
		}
		uline := "arch.untar bytes=" + enc
		got, nodes := untarNodes(unhx(enc))
		rep.Compare(m, uline, implUntar, nil)
		if !strings.HasPrefix(got, "ok") {
			monitor("untar of a freshly written archive failed", line, got, "")
			continue
		}
		exp := expectedNodes(recs)
		if strings.Join(nodes, ";") != strings.Join(exp, ";") {
			monitor("tar ; untar does not reproduce the tree (in memory)", line, strings.Join(nodes, ";")+"  EXPECTED  "+strings.Join(exp, ";"), "")
		}
	}

	// gnu-tar output, deterministic: a setuid file and a sticky directory (in memory)
	{
		recs := []fileRec{{name: ".", path: ".", kind: "dir", perm: 0755 | uint32(os.ModeSticky)},
			{name: "su", path: "su", kind: "reg", perm: 0755 | uint32(os.ModeSetuid), data: []byte("x")}}
		enc := tarRecs(recs)
		var gt bytes.Buffer
		tw := desync.NewTarWriter(&gt)
		if err := desync.UnTar(context.Background(), bytes.NewReader(unhx(enc)), tw); err == nil {
			tw.Close()
			tr := gnutar.NewReader(&gt)
			want := map[string]int64{".": 01755, "su": 04755}
			for {
				h, err := tr.Next()
				if err != nil {
					break
				}
				if w, ok := want[h.Name]; ok && h.Mode&07777 != w || h.Mode>>12 != 0 {
					monitor(fmt.Sprintf("gnu-tar output header mode %o does not carry the file's permission/set-id bits %o (%s)", h.Mode, want[h.Name], h.Name),
						"gnutar.modes "+recsCase(recs), "", "gnutar.header-mode.filemode-bits")
				}
			}
		} else {
			gnutarFailed(monitor, err, "gnutar.modes "+recsCase(recs))
		}
		rep.Count("gnutar.modes", true, "gnutar-modes")
	}

	// (d) archives in archive order, not directory-walk order (a tar stream or another tool's catar need not be sorted):
	// sibling names that are prefixes of one another, directories before files — packed from the record stream,
	// unpacked onto the real file system, final tree compared with the LocalFS model's (kinds, contents, targets,
	// owners, modes, every mtime the model says was set explicitly: files, links, directories incl. those that
	// got children after they were created)
	if m.cmd != nil {
		sandbox := filepath.Join(cfg.Work, "order-sandbox")
		pool := []string{"app", "app.d", "ap", "app.d.bak", "appx", "b", "b0", "b.d"}
		for it := 0; it < cfg.N(40, 800); it++ {
			os.RemoveAll(sandbox)
			dst := filepath.Join(sandbox, "dst")
			os.MkdirAll(dst, 0755)
			mtOf := func() int64 { return int64(1000000000+rng.Intn(900000000))*1000000000 + int64(rng.Intn(1000)) }
			recs := []fileRec{{name: ".", path: ".", kind: "dir", perm: 0755, mtime: mtOf()}}
			var fill func(dir string, depth int)
			fill = func(dir string, depth int) {
				names := append([]string{}, pool...)
				rng.Shuffle(len(names), func(i, j int) { names[i], names[j] = names[j], names[i] })
				for _, nm := range names[:2+rng.Intn(5)] {
					p := nm
					if dir != "." {
						p = dir + "/" + nm
					}
					r := fileRec{name: nm, path: p, perm: uint32(0600 | rng.Intn(0o200)), mtime: mtOf()}
					switch k := rng.Intn(8); {
					case k < 3 && depth < 2:
						r.kind, r.perm = "dir", 0755
						recs = append(recs, r)
						fill(p, depth+1)
						continue
					case k < 6:
						r.kind, r.data = "reg", randBytes(rng, rng.Intn(40))
					default:
						r.kind, r.target, r.perm = "symlink", "t"+nm, 0777
					}
					recs = append(recs, r)
				}
			}
			fill(".", 0)
			enc := tarRecs(recs)
			if enc == "err" || enc == "panic" {
				continue
			}
			b := unhx(enc)
			initial := fsEntries(sandbox)
			uerr := desync.UnTar(context.Background(), bytes.NewReader(b), desync.NewLocalFS(dst, desync.LocalFSOptions{}))
			verdict := "err"
			if uerr == nil {
				verdict = "ok"
			}
			lline := fmt.Sprintf("lfs.untar root=%s nso=0 nsp=0 fs=%s bytes=%s", hx([]byte(dst)), strings.Join(append(ancestorEntries(sandbox), initial...), ";"), hx(b))
			want := m.Ask(lline)
			rep.Count(lline, len(recs) >= 3, "archive-order:"+verdict)
			if want == "no-model" {
				continue
			}
			if uerr != nil {
				monitor("UnTar of a packed record stream failed on disk: "+uerr.Error(), clip(lline, 100000), "", "")
			} else if diff := compareFS(want, verdict, fsEntries(sandbox), sandbox); diff != "" {
				rep.Disagree(Disagreement{Kind: "correspondence", Case: clip(lline, 100000), Model: clip(want, 3000), Impl: clip(strings.Join(fsEntries(sandbox), ";"), 3000),
					What: "tar ; untar of an archive in archive order does not give the tree the LocalFS model gives: " + diff})
			}
		}
		os.RemoveAll(sandbox)
	}

	// (c) on disk
	nd := cfg.N(12, 300)
	for it := 0; it < nd; it++ {
		alg := []string{"sha512", "sha256"}[it%2]
		setDigest(alg)
		src := filepath.Join(cfg.Work, "src")
		os.RemoveAll(src)
		buildDiskTree(rng, src)
		want := snapshotTree(src, true)
		caseLine := fmt.Sprintf("disk.roundtrip alg=%s seed=%d it=%d entries=%d", alg, cfg.Seed, it, len(want))
		rep.Count(caseLine, len(want) >= 3, "disk:"+alg)

		var catar bytes.Buffer
		if err := desync.Tar(context.Background(), &catar, desync.NewLocalFS(src, desync.LocalFSOptions{})); err != nil {
			monitor("Tar from disk failed: "+err.Error(), caseLine, "", "")
			continue
		}
		if err := catarWellFormed(catar.Bytes()); err != nil {
			monitor("archive from disk is not well-formed: "+err.Error(), caseLine, "", "")
		}
		// direct
		dst := filepath.Join(cfg.Work, "dst")
		os.RemoveAll(dst)
		os.MkdirAll(dst, 0755)
		if err := desync.UnTar(context.Background(), bytes.NewReader(catar.Bytes()), desync.NewLocalFS(dst, desync.LocalFSOptions{})); err != nil {
			monitor("UnTar to disk failed: "+err.Error(), caseLine, "", "")
		} else if got := snapshotTree(dst, true); strings.Join(got, "\n") != strings.Join(want, "\n") {
			monitor("tar ; untar does not reproduce the tree on disk", caseLine, diffLines(want, got), "")
		}
		// --one-file-system: a directory of the tree is a mount point of another file system: everything on the
		// root's own file system must still be packed (the mount point and what lies beneath it are left out)
		if it%3 == 0 {
			mp := ""
			filepath.Walk(src, func(p string, info os.FileInfo, err error) error {
				if err == nil && info.IsDir() && p != src && mp == "" {
					mp = p
				}
				return nil
			})
			if mp == "" {
				mp = filepath.Join(src, "aa-mountpoint")
				os.Mkdir(mp, 0755)
				mt := time.Unix(1500000000, 0)
				os.Chtimes(src, mt, mt)
			}
			srcMtime, _ := os.Lstat(filepath.Dir(mp))
			if err := syscall.Mount("none", mp, "tmpfs", 0, ""); err != nil {
				rep.Histogram["onefs:mount-not-permitted"]++
			} else {
				os.WriteFile(filepath.Join(mp, "inside"), []byte("on the other file system"), 0644)
				var ar bytes.Buffer
				err := desync.Tar(context.Background(), &ar, desync.NewLocalFS(src, desync.LocalFSOptions{OneFileSystem: true}))
				syscall.Unmount(mp, syscall.MNT_DETACH) // lazily: a reader goroutine that was left behind may still hold a directory open
				os.Chtimes(filepath.Dir(mp), srcMtime.ModTime(), srcMtime.ModTime())
				rel, _ := filepath.Rel(src, mp)
				var wantX []string
				for _, l := range snapshotTree(src, true) {
					name := strings.SplitN(l, " mode=", 2)[0]
					if name != rel && !strings.HasPrefix(name, rel+"/") {
						wantX = append(wantX, l)
					}
				}
				cl := caseLine + " one-file-system mountpoint=" + rel
				rep.Count(cl, true, "disk:one-file-system")
				os.RemoveAll(dst)
				os.MkdirAll(dst, 0755)
				if err != nil {
					monitor("Tar --one-file-system failed: "+err.Error(), cl, "", "")
				} else if err := desync.UnTar(context.Background(), bytes.NewReader(ar.Bytes()), desync.NewLocalFS(dst, desync.LocalFSOptions{})); err != nil {
					monitor("UnTar of a --one-file-system archive failed: "+err.Error(), cl, "", "")
				} else if got := snapshotTree(dst, true); strings.Join(got, "\n") != strings.Join(wantX, "\n") {
					monitor("tar --one-file-system ; untar loses entries of the root's own file system", cl, diffLines(wantX, got), "")
				}
				// the source tree is used again below: the emptied mount point is part of it
				want = snapshotTree(src, true)
				catar.Reset()
				if err := desync.Tar(context.Background(), &catar, desync.NewLocalFS(src, desync.LocalFSOptions{})); err != nil {
					continue
				}
			}
		}
		// through a chunked index and a store
		sdir := filepath.Join(cfg.Work, "cstore")
		os.RemoveAll(sdir)
		os.MkdirAll(sdir, 0755)
		st, _ := desync.NewLocalStore(sdir, desync.StoreOptions{})
		ch, _ := desync.NewChunker(bytes.NewReader(catar.Bytes()), 64, 256, 1024)
		idx, err := desync.ChunkStream(context.Background(), ch, st, 3)
		if err != nil {
			monitor("ChunkStream failed: "+err.Error(), caseLine, "", "")
		} else {
			// the index must be readable under the digest it was written with
			var ib bytes.Buffer
			idx.WriteTo(&ib)
			if _, err := desync.IndexFromReader(bytes.NewReader(ib.Bytes())); err != nil {
				monitor("index written by ChunkStream is rejected by IndexFromReader under "+alg+": "+err.Error(), caseLine, "", "index.digest-flag")
			}
			os.RemoveAll(dst)
			os.MkdirAll(dst, 0755)
			if err := desync.UnTarIndex(context.Background(), desync.NewLocalFS(dst, desync.LocalFSOptions{}), idx, st, 3, desync.NewProgressBar("")); err != nil {
				monitor("UnTarIndex failed: "+err.Error(), caseLine, "", "")
			} else if got := snapshotTree(dst, true); strings.Join(got, "\n") != strings.Join(want, "\n") {
				monitor("tar -i ; untar -i does not reproduce the tree on disk", caseLine, diffLines(want, got), "")
			}
		}
		// gnu-tar output: types, set-id bits, devices
		var gt bytes.Buffer
		tw := desync.NewTarWriter(&gt)
		if err := desync.UnTar(context.Background(), bytes.NewReader(catar.Bytes()), tw); err == nil {
			tw.Close()
			tr := gnutar.NewReader(&gt)
			for {
				h, err := tr.Next()
				if err != nil {
					break
				}
				p := filepath.Join(src, h.Name)
				info, err := os.Lstat(p)
				if err != nil {
					continue
				}
				stm := info.Sys().(*syscall.Stat_t).Mode
				if h.Typeflag == gnutar.TypeChar && stm&syscall.S_IFMT != syscall.S_IFCHR || h.Typeflag == gnutar.TypeBlock && stm&syscall.S_IFMT != syscall.S_IFBLK {
					monitor("gnu-tar output records the wrong device type for "+h.Name, caseLine, "", "")
				}
				if uint32(h.Mode)&07777 != stm&07777 {
					monitor(fmt.Sprintf("gnu-tar output header mode %o does not carry the file's permission/set-id bits %o (%s)", h.Mode, stm&07777, h.Name),
						caseLine, "", "gnutar.header-mode.filemode-bits")
				}
				// the extended attributes of the entry (a PAX header since 8595654)
				if keys, err := xattr.LList(p); err == nil {
					onDisk := map[string]string{}
					for _, k := range keys {
						v, _ := xattr.LGet(p, k)
						onDisk[k] = string(v)
					}
					if xattrStr(nonEmptyXattrs(onDisk)) != xattrStr(desync.Xattrs(h.Xattrs)) { // (an attribute with an empty value is in the stream, but archive/tar's reader drops it)
						monitor("gnu-tar output does not carry the extended attributes of "+h.Name, caseLine, xattrStr(desync.Xattrs(h.Xattrs)), "")
					}
				}
			}
		} else {
			// (until the repair of the tar-stream legs this failure was silently skipped: it hid the refusal of every entry with an xattr)
			gnutarFailed(monitor, err, caseLine)
		}
		// tar-stream input: the same tree as a GNU tar archive -> catar -> disk
		if tarStreamOK(src) {
			var tb bytes.Buffer
			writeGnuTar(&tb, src)
			var catar2 bytes.Buffer
			if err := desync.Tar(context.Background(), &catar2, desync.NewTarReader(&tb, desync.TarReaderOptions{})); err != nil {
				monitor("Tar from a tar stream failed: "+err.Error(), caseLine, "", "")
			} else {
				os.RemoveAll(dst)
				os.MkdirAll(dst, 0755)
				if err := desync.UnTar(context.Background(), bytes.NewReader(catar2.Bytes()), desync.NewLocalFS(dst, desync.LocalFSOptions{})); err != nil {
					monitor("UnTar of a catar made from a tar stream failed: "+err.Error(), caseLine, "", "")
				} else if got := snapshotTree(dst, false); strings.Join(got, "\n") != strings.Join(snapshotTree(src, false), "\n") {
					monitor("tar-stream input ; untar does not reproduce the tree", caseLine, diffLines(snapshotTree(src, false), got), "")
				}
			}
		}
	}
	setDigest("sha512")
	// the reading side of LocalFS against the model of the directory walk (lfsread.go)
	lfsReadCases(cfg, rep, m, rand.New(rand.NewSource(cfg.Seed^0x1f5)), cfg.N(30, 800))
	c05CLI(cfg, rep, rng)
	cliGlobalFlags(cfg, rep, rand.New(rand.NewSource(cfg.Seed^0x676c6f62))) // cliarch.go: the global options in front of the archive commands
	rep.Write(cfg.Out)
}

// gnutarFailed reports a failing UnTar onto the GNU-tar writer.  One cause is a consequence of the recorded finding
// gnutar.header-mode.filemode-bits: the os.FileMode bits TarWriter puts into the header's mode field (2^21 and above for
// every directory, link, device and set-id file) can only be held by a GNU header, extended attributes only by a PAX
// header, so archive/tar refuses such an entry when it has an xattr ("PAX cannot encode Mode=..."); anything else is new.
func gnutarFailed(monitor func(what, caseLine, impl, sig string), err error, caseLine string) {
	if strings.Contains(err.Error(), "cannot encode Mode=") {
		monitor("untar to a GNU tar stream fails on an entry with extended attributes whose header mode field holds os.FileMode bits: "+err.Error(),
			caseLine, "", "gnutar.header-mode.filemode-bits")
		return
	}
	monitor("untar to a GNU tar stream failed: "+err.Error(), caseLine, "", "")
}

func diffLines(want, got []string) string {
	ws := map[string]bool{}
	for _, w := range want {
		ws[w] = true
	}
	gs := map[string]bool{}
	for _, g := range got {
		gs[g] = true
	}
	var d []string
	for _, w := range want {
		if !gs[w] {
			d = append(d, "- "+w)
		}
	}
	for _, g := range got {
		if !ws[g] {
			d = append(d, "+ "+g)
		}
	}
	if len(d) > 8 {
		d = d[:8]
	}
	return strings.Join(d, " | ")
}

// the tar stream reader cannot carry sub-second precision beyond what the GNU format stores, nor
// names that archive/tar cannot encode; restrict that leg to trees it can represent
// and an extended attribute with an empty value cannot travel in a PAX record (an empty value means
// "delete this keyword": archive/tar's reader drops it), so such a tree is not put through that leg
func tarStreamOK(root string) bool {
	ok := true
	filepath.Walk(root, func(p string, info os.FileInfo, err error) error {
		if err != nil {
			return nil
		}
		if keys, err := xattr.LList(p); err == nil {
			for _, k := range keys {
				if v, err := xattr.LGet(p, k); err == nil && len(v) == 0 {
					ok = false
				}
			}
		}
		return nil
	})
	return ok
}

func writeGnuTar(w io.Writer, root string) {
	tw := gnutar.NewWriter(w)
	filepath.Walk(root, func(p string, info os.FileInfo, err error) error {
		if err != nil {
			return nil
		}
		rel, _ := filepath.Rel(root, p)
		link := ""
		if info.Mode()&os.ModeSymlink != 0 {
			link, _ = os.Readlink(p)
		}
		h, err := gnutar.FileInfoHeader(info, link)
		if err != nil {
			return nil
		}
		h.Name = path.Clean(rel)
		if info.IsDir() {
			h.Name += "/"
		}
		h.Format = gnutar.FormatPAX
		st := info.Sys().(*syscall.Stat_t)
		h.Uid, h.Gid = int(st.Uid), int(st.Gid)
		if info.Mode()&os.ModeDevice != 0 {
			h.Devmajor = int64((st.Rdev >> 8) & 0xfff)
			h.Devminor = int64((st.Rdev % 256) | ((st.Rdev & 0xfff00000) >> 12))
		}
		h.Uname, h.Gname = "", ""
		if keys, err := xattr.LList(p); err == nil && len(keys) > 0 {
			h.PAXRecords = map[string]string{}
			for _, k := range keys {
				v, _ := xattr.LGet(p, k)
				h.PAXRecords["SCHILY.xattr."+k] = string(v)
			}
		}
		tw.WriteHeader(h)
		if info.Mode().IsRegular() {
			b, _ := os.ReadFile(p)
			tw.Write(b)
		}
		return nil
	})
	tw.Close()
}
