package main

// Option and location plumbing of cmd/desync (C15 / C03 / C20 / C14), implementation side.
//
//	so.srv       the real `desync chunk-server` / `index-server` binary started with a flag / environment /
//	             configuration-file combination and probed with requests: which authorization value it wants, whether
//	             it accepts uploads, verifies them, verifies what it reads upstream, which chunk format it serves and
//	             which format its store is read in — against the model's prediction (defaults from the regenerated
//	             flag table)
//	so.glob      filepath.Match on generated patterns (the glob subset the model covers: ASCII)
//	so.locmatch  locationMatch            \
//	so.store     storeFromLocation + GetStoreOptionsFor + MergedWith   > through the line protocol of the binary built
//	so.index     indexStoreFromLocation   /                              with build tag verif (verif_storeopts.go)

import (
	"bufio"
	"bytes"
	"encoding/hex"
	"encoding/json"
	"flag"
	"fmt"
	"io"
	"math/rand"
	"net/url"
	"os"
	"os/exec"
	"path/filepath"
	"strings"
	"sync"

	"github.com/folbricht/desync"
)

// ---------------------------------------------------------------------------------------------------------------
// the verif-tagged binary, one child process for the whole run

type soChild struct {
	cmd *exec.Cmd
	in  io.WriteCloser
	out *bufio.Reader
	dir string
}

var (
	soChildMu  sync.Mutex
	soTheChild *soChild
	soChildErr error
	soBinPath  string
)

func soRepo() string {
	if f := flag.Lookup("repo"); f != nil {
		return f.Value.String()
	}
	return "/repo"
}

// soVerifBin builds cmd/desync with build tag verif (the line protocol lives in verif_storeopts.go)
func soVerifBin() (string, error) {
	if soBinPath != "" {
		return soBinPath, nil
	}
	dir, err := os.MkdirTemp("", "verif-storeopts-bin-")
	if err != nil {
		return "", err
	}
	bin := filepath.Join(dir, "desync-verif")
	cmd := exec.Command("go", "build", "-tags", "verif", "-o", bin, "./cmd/desync")
	cmd.Dir = soRepo()
	cmd.Env = append(os.Environ(), "GOFLAGS=-mod=mod", "GOPROXY=off", "GOSUMDB=off", "GOTOOLCHAIN=local")
	if out, err := cmd.CombinedOutput(); err != nil {
		return "", fmt.Errorf("go build -tags verif ./cmd/desync: %v: %s", err, clip(string(out), 400))
	}
	soBinPath = bin
	return bin, nil
}

func soGetChild() (*soChild, error) {
	if soTheChild != nil || soChildErr != nil {
		return soTheChild, soChildErr
	}
	bin, err := soVerifBin()
	if err != nil {
		soChildErr = err
		return nil, err
	}
	wd, err := os.MkdirTemp("", "verif-storeopts-wd-")
	if err != nil {
		soChildErr = err
		return nil, err
	}
	wd, _ = filepath.EvalSymlinks(wd)
	cmd := exec.Command(bin)
	cmd.Dir = wd
	cmd.Env = append(os.Environ(), "DESYNC_VERIF_STOREOPTS=1", "HOME=/nonexistent-home")
	cmd.Env = append(cmd.Env, soRemoteEnv(wd)...) // storeopts_more.go: sftp / gs index stores can be constructed without a network
	in, _ := cmd.StdinPipe()
	out, _ := cmd.StdoutPipe()
	if err := cmd.Start(); err != nil {
		soChildErr = err
		return nil, err
	}
	soTheChild = &soChild{cmd: cmd, in: in, out: bufio.NewReaderSize(out, 1<<20), dir: wd}
	return soTheChild, nil
}

func soCloseChild() {
	soChildMu.Lock()
	defer soChildMu.Unlock()
	if soTheChild != nil {
		soTheChild.in.Close()
		soTheChild.cmd.Wait()
		os.RemoveAll(soTheChild.dir)
		soTheChild = nil
	}
	if soBinPath != "" {
		os.RemoveAll(filepath.Dir(soBinPath))
		soBinPath = ""
	}
}

func soAsk(line string) (kv, string) {
	soChildMu.Lock()
	defer soChildMu.Unlock()
	ch, err := soGetChild()
	if err != nil {
		return nil, "no-child: " + err.Error()
	}
	if _, err := io.WriteString(ch.in, line+"\n"); err != nil {
		return nil, "child-write: " + err.Error()
	}
	resp, err := ch.out.ReadString('\n')
	if err != nil {
		soTheChild, soChildErr = nil, nil
		return nil, "child-died"
	}
	resp = strings.TrimSpace(resp)
	m := kv{}
	for _, w := range strings.Fields(resp) {
		if i := strings.IndexByte(w, '='); i >= 0 {
			m[w[:i]] = w[i+1:]
		} else {
			m[w] = ""
		}
	}
	return m, resp
}

func hexs(s string) string {
	if s == "" {
		return "-"
	}
	return hex.EncodeToString([]byte(s))
}

// ---------------------------------------------------------------------------------------------------------------
// so.glob

func soIsASCII(s string) bool {
	for i := 0; i < len(s); i++ {
		if s[i] >= 128 {
			return false
		}
	}
	return true
}

func implSoGlob(line string) string {
	_, a := parseCase(line)
	pat, name := string(unhx(a["pat"])), string(unhx(a["name"]))
	if !soIsASCII(pat) || !soIsASCII(name) {
		return "nonascii"
	}
	m, err := filepath.Match(pat, name)
	switch {
	case err != nil:
		return "bad"
	case m:
		return "true"
	}
	return "false"
}

var soGlobAlphabet = []string{"a", "b", "c", "/", "*", "?", "[", "]", "-", "^", "\\", ".", "a", "b", "ab", "[a-c]", "[^a]", "*/", "\\*", ":"}

func soGenPattern(rng *rand.Rand, n int) string {
	var b strings.Builder
	for i := 0; i < n; i++ {
		b.WriteString(soGlobAlphabet[rng.Intn(len(soGlobAlphabet))])
	}
	return b.String()
}

// soGenName: a name that has a chance to match: the pattern with its meta characters replaced
func soGenName(rng *rand.Rand, pat string) string {
	var b strings.Builder
	for i := 0; i < len(pat); i++ {
		c := pat[i]
		switch c {
		case '*':
			for k := rng.Intn(3); k > 0; k-- {
				b.WriteByte("abc/."[rng.Intn(5)])
			}
		case '?':
			b.WriteByte("abc/"[rng.Intn(4)])
		case '[':
			j := strings.IndexByte(pat[i:], ']')
			if j > 0 {
				i += j
			}
			b.WriteByte("abcd"[rng.Intn(4)])
		case '\\':
		default:
			if rng.Intn(12) == 0 {
				b.WriteByte("abc/"[rng.Intn(4)])
			} else {
				b.WriteByte(c)
			}
		}
	}
	if rng.Intn(8) == 0 {
		b.WriteByte("ab/"[rng.Intn(3)])
	}
	return b.String()
}

// ---------------------------------------------------------------------------------------------------------------
// so.locmatch / so.store / so.index (through the verif binary)

func implSoLocMatch(line string) string {
	_, a := parseCase(line)
	dash := func(h string) string {
		if h == "" {
			return "-"
		}
		return h
	}
	m, raw := soAsk("match " + dash(a["pat"]) + " " + dash(a["loc"]))
	if m == nil {
		return raw
	}
	if !soIsASCII(string(unhx(a["pat"]))) || !soIsASCII(string(unhx(a["loc"]))) {
		return "unsupported"
	}
	// what url.Parse said and the working directory are parameters of the model: they must be the ones on the line
	if m["scheme"] != a["scheme"] || m["cwd"] != a["cwd"] {
		return "stale-parameters " + raw
	}
	return m["m"]
}

// soParams asks the implementation for the parameters of a location (url.Parse, working directory)
func soParams(loc string) (scheme, sname, upath, cwd string) {
	m, _ := soAsk("match " + hexs("x") + " " + hexs(loc))
	if m == nil {
		return "err", "", "", ""
	}
	return m["scheme"], m["sname"], m["upath"], m["cwd"]
}

type soEntry struct {
	Pattern      string
	SkipVerify   bool
	Uncompressed bool
	Retry        string // "-": not in the file
}

func soConfigJSON(ents []soEntry) string {
	so := map[string]any{}
	for _, e := range ents {
		o := map[string]any{"skip-verify": e.SkipVerify, "uncompressed": e.Uncompressed}
		if e.Retry != "-" {
			var n int
			fmt.Sscan(e.Retry, &n)
			o["error-retry"] = n
		}
		so[e.Pattern] = o
	}
	b, _ := json.Marshal(map[string]any{"store-options": so})
	return string(b)
}

func soParseEntries(s string) []soEntry {
	var out []soEntry
	if s == "" {
		return nil
	}
	for _, e := range strings.Split(s, ";") {
		f := strings.Split(e, ":")
		if len(f) != 4 {
			continue
		}
		out = append(out, soEntry{Pattern: string(unhx(f[0])), SkipVerify: f[1] == "1", Uncompressed: f[2] == "1", Retry: f[3]})
	}
	return out
}

func implSoStore(line string) string {
	_, a := parseCase(line)
	ents := soParseEntries(a["ents"])
	// two entries with the same pattern are one key of the JSON object: such a case is not generated
	var args []string
	if a["skip"] == "1" {
		args = append(args, hexs("--skip-verify-read"))
	}
	if a["retry"] != "-" {
		args = append(args, hexs("--error-retry="+a["retry"]))
	}
	if a["ti"] == "1" {
		args = append(args, hexs("--trust-insecure"))
	}
	args = append(args, hexs("-n"), hexs(a["n"]))
	loc := string(unhx(a["loc"]))
	if fi, err := os.Stat(loc); a["sname"] == "" && (err != nil || !fi.IsDir()) && strings.HasPrefix(loc, "/") {
		os.MkdirAll(loc, 0755)
		defer os.RemoveAll(loc)
	}
	m, raw := soAsk("store " + hexs(soConfigJSON(ents)) + " " + hexs(loc) + " " + strings.Join(args, ","))
	if m == nil {
		return raw
	}
	for _, e := range ents {
		if !soIsASCII(e.Pattern) {
			return "unsupported"
		}
	}
	if !soIsASCII(loc) {
		return "unsupported"
	}
	if m["scheme"] != a["scheme"] || m["cwd"] != a["cwd"] || m["sname"] != a["sname"] {
		return "stale-parameters " + raw
	}
	if _, ok := m["err"]; ok {
		if strings.HasPrefix(m["err"], "other") {
			b, _ := hex.DecodeString(strings.TrimPrefix(m["err"], "other:"))
			return "err=other " + clip(string(b), 200)
		}
		return "err=" + m["err"]
	}
	if _, ok := m["ok"]; !ok {
		return raw
	}
	// the two steps on their own must say what the store was made with
	backend := map[string]string{"desync.LocalStore": "local", "*desync.RemoteHTTP": "http"}[m["type"]]
	if backend == "" {
		backend = m["type"]
	}
	tf := func(s string) string { return b01(s == "true") }
	sv, unc, retry, n, layers := tf(m["msv"]), tf(m["munc"]), m["mretry"], m["mn"], "1"
	if m["munc"] == "true" {
		layers = "0"
	}
	if backend == "local" {
		if tf(m["sv"]) != sv || tf(m["unc"]) != unc || m["retry"] != retry || m["n"] != n {
			return "store-differs-from-merged-options " + raw
		}
		layers = m["layers"]
	}
	return fmt.Sprintf("ok backend=%s sv=%s unc=%s retry=%s n=%s layers=%s", backend, sv, unc, retry, n, layers)
}

func implSoIndex(line string) string {
	_, a := parseCase(line)
	loc := string(unhx(a["loc"]))
	if a["sname"] == "" && strings.HasPrefix(loc, "/") {
		d := filepath.Dir(loc)
		if _, err := os.Stat(d); err != nil {
			os.MkdirAll(d, 0755)
			defer os.RemoveAll(d)
		}
	}
	defer soPrepareRemoteIndex(a)() // storeopts_more.go: an SFTP store wants its directory to exist
	m, raw := soAsk("index " + hexs("{}") + " " + hexs(loc))
	if m == nil {
		return raw
	}
	if m["scheme"] != a["scheme"] || m["sname"] != a["sname"] || m["upath"] != a["upath"] {
		return "stale-parameters " + raw
	}
	if _, ok := m["err"]; ok {
		return "err=" + m["err"]
	}
	// the key of the configuration lookup is not observable from outside: the model's value is compared with the
	// specification `location up to the last separator` here
	key := ""
	switch {
	case strings.Contains(loc, "/"):
		key = loc[:strings.LastIndex(loc, "/")]
	case strings.Contains(loc, "\\"):
		key = loc[:strings.LastIndex(loc, "\\")]
	}
	backend := map[string]string{"desync.LocalIndexStore": "local", "*desync.RemoteHTTPIndex": "http", "desync.S3IndexStore": "s3",
		"*desync.SFTPIndexStore": "sftp", "desync.GCIndexStore": "gcs"}[m["type"]]
	store := string(unhx(m["store"]))
	dir := ""
	switch backend {
	case "local":
		dir = strings.TrimSuffix(store, "/")
		if dir == "" {
			dir = "/"
		}
	case "http", "s3", "sftp", "gcs": // the store's URL is scheme://host + directory [+ "/"]
		if i := strings.Index(store, "://"); i >= 0 {
			rest := store[i+3:]
			if q := strings.IndexAny(rest, "?#"); q >= 0 {
				rest = rest[:q]
			}
			if j := strings.Index(rest, "/"); j >= 0 {
				dir = strings.TrimSuffix(rest[j:], "/")
				if u, err := url.PathUnescape(dir); err == nil {
					dir = u
				}
				if dir == "" {
					dir = "/"
				}
				// url.URL.String() puts a "/" in front of a relative path when there is a host
				if up := string(unhx(a["upath"])); !strings.HasPrefix(up, "/") && strings.HasPrefix(dir, "/") && dir != "/" {
					dir = dir[1:]
				}
			}
		}
	}
	return fmt.Sprintf("key=%s backend=%s name=%s dir=%s", hx([]byte(key)), backend, m["name"], hx([]byte(dir)))
}

// ---------------------------------------------------------------------------------------------------------------
// so.srv: the real server binary

func implSoSrv(line string) string {
	bin := desyncBin()
	if bin == "" {
		return "no-binary"
	}
	_, a := parseCase(line)
	chunkKind := a["kind"] == "chunk"
	var seed int64
	fmt.Sscan(a["seed"], &seed)
	rng := rand.New(rand.NewSource(seed))
	dir, err := os.MkdirTemp("", "verif-sosrv-")
	if err != nil {
		return "no-tempdir"
	}
	defer os.RemoveAll(dir)
	dir, _ = filepath.EvalSymlinks(dir)
	storeDir := filepath.Join(dir, "store")
	otherDir := filepath.Join(dir, "other")
	os.MkdirAll(storeDir, 0755)
	os.MkdirAll(otherDir, 0755)
	cfgsv, cfgu := a["cfgsv"] == "1", a["cfgu"] == "1"
	// up=http (index-server): the served store is a remote one, an HTTP index store whose files are those of storeDir
	storeArg, upstream := soServedStore(a, dir, storeDir) // storeopts_more.go
	defer upstream.Close()
	// the configuration file: the entry of the served store, and (other=1) an entry for another location saying the
	// opposite; ts=1 writes the store's key with a trailing slash, glob=1 as a pattern
	key := storeDir
	if a["ts"] == "1" {
		key += "/"
	}
	if a["glob"] == "1" {
		key = filepath.Join(dir, "st?re")
	}
	ents := []soEntry{{Pattern: key, SkipVerify: cfgsv, Uncompressed: cfgu, Retry: "-"}}
	if a["other"] == "1" {
		ents = append(ents, soEntry{Pattern: otherDir, SkipVerify: !cfgsv, Uncompressed: !cfgu, Retry: "-"})
	}
	conf := filepath.Join(dir, "config.json")
	os.WriteFile(conf, []byte(soConfigJSON(ents)), 0644)

	mk := func() *desync.Chunk { return desync.NewChunk(randBytes(rng, 200+rng.Intn(800))) }
	chA, chB, chC, chD, chG, chG2 := mk(), mk(), mk(), mk(), mk(), mk()
	pathOf := func(c *desync.Chunk, compressed bool) string {
		id := c.ID()
		s := id.String()
		p := "/" + s[:4] + "/" + s
		if compressed {
			p += ".cacnk"
		}
		return p
	}
	put := func(rel string, b []byte) {
		p := filepath.Join(storeDir, rel)
		os.MkdirAll(filepath.Dir(p), 0755)
		os.WriteFile(p, b, 0644)
	}
	var getIdx, putIdx string
	var idxBytes []byte
	if chunkKind {
		put(pathOf(chA, true), soCompress(chA))    // A: only as a compressed file
		put(pathOf(chB, false), soRaw(chB))        // B: only as a raw file
		put(pathOf(chC, true), soCompress(chD))    // C: both files hold D's data
		put(pathOf(chC, false), soRaw(chD))
	} else {
		d, _ := chA.Data()
		idx := desync.Index{Index: desync.FormatIndex{FeatureFlags: desync.CaFormatSHA512256, ChunkSizeMin: 16, ChunkSizeAvg: 64, ChunkSizeMax: 4096},
			Chunks: []desync.IndexChunk{{ID: chA.ID(), Start: 0, Size: uint64(len(d))}}}
		var ib bytes.Buffer
		idx.WriteTo(&ib)
		idxBytes = ib.Bytes()
		os.WriteFile(filepath.Join(storeDir, "present.caibx"), idxBytes, 0644)
		getIdx, putIdx = "/present.caibx", "/new.caibx"
	}

	addr := fmt.Sprintf("127.0.0.1:%d", freePort())
	cmdName := "index-server"
	if chunkKind {
		cmdName = "chunk-server"
	}
	args := []string{"--config", conf, cmdName, "-s", storeArg, "-l", addr}
	if chunkKind && a["sf"] == "1" { // the stores come from a store file
		sf := filepath.Join(dir, "stores.json")
		b, _ := json.Marshal(map[string]any{"stores": []string{storeDir}})
		os.WriteFile(sf, b, 0644)
		args = []string{"--config", conf, cmdName, "--store-file", sf, "-l", addr}
	}
	boolArg := func(key, long, short string) {
		switch a[key] {
		case "1":
			if short != "" && a["short"] == "1" {
				args = append(args, short)
			} else {
				args = append(args, "--"+long)
			}
		case "0":
			args = append(args, "--"+long+"=false")
		}
	}
	boolArg("w", "writeable", "-w")
	if chunkKind {
		boolArg("svw", "skip-verify-write", "")
		boolArg("svr", "skip-verify-read", "")
		boolArg("u", "uncompressed", "-u")
	}
	fauth, eauth := "", ""
	if a["fauth"] != "-" {
		fauth = string(unhx(a["fauth"]))
		args = append(args, "--authorization", fauth)
	}
	var env []string
	if a["eauth"] != "-" {
		eauth = string(unhx(a["eauth"]))
	}
	env = append(env, "DESYNC_HTTP_AUTH="+eauth) // (a variable that is not set and an empty one are the same to os.Getenv)
	stop, err := startServer(bin, env, addr, args...)
	if err != nil {
		return "server-did-not-start " + clip(err.Error(), 200)
	}
	defer stop()
	base := "http://" + addr

	// which chunk format does the server speak, and which object of the store can be read at all?  These probes
	// need the authorization value, so that is found first: on whatever path, 401 means "not this value"
	anyPath := getIdx
	if chunkKind {
		anyPath = pathOf(chA, true)
	}
	try := func(val string) int {
		h := map[string]string{}
		if val != "" {
			h["Authorization"] = val
		}
		code, _ := httpDo("GET", base+anyPath, h, nil)
		return code
	}
	anon := try("") != 401
	auth, authKnown := "", anon
	if !anon {
		for _, cand := range []string{fauth, eauth} {
			if cand != "" && try(cand) != 401 {
				auth, authKnown = cand, true
				break
			}
		}
	}
	if !authKnown {
		return "auth=? (neither the flag's nor the environment's value is accepted)"
	}
	// a configured value must be the only one accepted
	if !anon {
		for _, cand := range []string{fauth, eauth, auth + "x"} {
			if cand != "" && cand != auth && try(cand) != 401 {
				return fmt.Sprintf("auth=%s but the value %q is accepted as well", hx([]byte(auth)), cand)
			}
		}
	}
	hdr := map[string]string{}
	if auth != "" {
		hdr["Authorization"] = auth
	}
	common := fmt.Sprintf("auth=%s anon=%s", hx([]byte(auth)), b01(anon))
	if !chunkKind {
		gcode, _ := httpDo("GET", base+getIdx, hdr, nil)
		code, _ := httpDo("PUT", base+putIdx, hdr, idxBytes)
		if what := upstream.Stray(); what != "" { // a request of the server to its upstream that is not below the configured store
			return common + " " + what
		}
		if gcode != 200 {
			return common + fmt.Sprintf(" present-index-status=%d", gcode)
		}
		_, statErr := os.Stat(filepath.Join(storeDir, "new.caibx"))
		if (code == 200) != (statErr == nil) {
			return common + fmt.Sprintf(" put-status=%d but stored=%v", code, statErr == nil)
		}
		return common + fmt.Sprintf(" writable=%s verifyW=- upSkip=- compressed=- storeU=-", b01(code == 200))
	}
	// served format: a path with the extension is accepted by a compressed server only
	cA, _ := httpDo("GET", base+pathOf(chA, true), hdr, nil)
	rA, _ := httpDo("GET", base+pathOf(chA, false), hdr, nil)
	var compressed bool
	switch {
	case cA != 400 && rA == 400:
		compressed = true
	case cA == 400 && rA != 400:
		compressed = false
	default:
		return common + fmt.Sprintf(" format-probe=%d/%d", cA, rA)
	}
	get := func(c *desync.Chunk) (int, []byte) { return httpDo("GET", base+pathOf(c, compressed), hdr, nil) }
	// store format: A exists compressed only, B raw only
	sa, _ := get(chA)
	sb, _ := get(chB)
	storeU := "?"
	switch {
	case sa == 200 && sb == 404:
		storeU = "0"
	case sa == 404 && sb == 200:
		storeU = "1"
	default:
		storeU = fmt.Sprintf("?%d/%d", sa, sb)
	}
	// upstream verification: C's files hold other data
	sc, _ := get(chC)
	upSkip := "?"
	switch {
	case sc == 200:
		upSkip = "1"
	case sc >= 500:
		upSkip = "0"
	default:
		upSkip = fmt.Sprintf("?%d", sc)
	}
	// uploads
	body := func(c *desync.Chunk) []byte {
		if compressed {
			return soCompress(c)
		}
		return soRaw(c)
	}
	pc, _ := httpDo("PUT", base+pathOf(chG, compressed), hdr, body(chG))
	writable := pc == 200
	verifyW := "-"
	if writable {
		pb, _ := httpDo("PUT", base+pathOf(chG2, compressed), hdr, body(chD))
		switch pb {
		case 200:
			verifyW = "0"
		case 400:
			verifyW = "1"
		default:
			verifyW = fmt.Sprintf("?%d", pb)
		}
	} else if pc != 400 {
		return common + fmt.Sprintf(" put-status=%d", pc)
	}
	return common + fmt.Sprintf(" writable=%s verifyW=%s upSkip=%s compressed=%s storeU=%s", b01(writable), verifyW, upSkip, b01(compressed), storeU)
}

func soRaw(c *desync.Chunk) []byte {
	b, _ := c.Data()
	return b
}

// soCompress: the storage form of a chunk in a compressed store, made by the library itself (a scratch local store)
func soCompress(c *desync.Chunk) []byte {
	d, err := os.MkdirTemp("", "verif-socomp-")
	if err != nil {
		return nil
	}
	defer os.RemoveAll(d)
	ls, err := desync.NewLocalStore(d, desync.StoreOptions{})
	if err != nil {
		return nil
	}
	if err := ls.StoreChunk(c); err != nil {
		return nil
	}
	id := c.ID()
	b, _ := os.ReadFile(filepath.Join(d, id.String()[:4], id.String()+".cacnk"))
	return b
}

// ---------------------------------------------------------------------------------------------------------------
// generators and the entry points called from the properties' run functions

func soPick(rng *rand.Rand, xs ...string) string { return xs[rng.Intn(len(xs))] }

// storeOptsServers (C15): flag / environment / configuration combinations of the two server commands
func storeOptsServers(cfg Config, rep *Report, m *Model, rng *rand.Rand) {
	if desyncBin() == "" {
		rep.Notes = append(rep.Notes, "desync binary not built: so.srv skipped")
		return
	}
	n := cfg.N(48, 600)
	for it := 0; it < n; it++ {
		kind := "chunk"
		if it%3 == 2 {
			kind = "index"
		}
		secretF := hexs("Bearer flag-" + fmt.Sprint(rng.Intn(1000)))
		secretE := hexs("Basic env-" + fmt.Sprint(rng.Intn(1000)))
		// "-": not given at all; "": given with an empty value (`--authorization ""`, `DESYNC_HTTP_AUTH=`)
		fauth := soPick(rng, "-", "-", secretF, secretF, "")
		eauth := soPick(rng, "-", secretE, secretE, "")
		tri := func() string { return soPick(rng, "-", "-", "0", "1", "1") }
		line := fmt.Sprintf("so.srv kind=%s fauth=%s eauth=%s w=%s svw=%s svr=%s u=%s cfgsv=%d cfgu=%d other=%d ts=%d glob=%d short=%d sf=%d seed=%d",
			kind, fauth, eauth, tri(), tri(), tri(), tri(), rng.Intn(2), rng.Intn(2), rng.Intn(2), rng.Intn(2), rng.Intn(4)/3, rng.Intn(2), rng.Intn(3)/2, rng.Int63n(1<<40))
		if kind == "index" { // the served index store: a directory, or a remote (HTTP) store given with or without a trailing slash
			line += fmt.Sprintf(" up=%s uts=%d", soPick(rng, "-", "http", "http"), rng.Intn(2))
		}
		_, a := parseCase(line)
		rep.Count(line, true, "so.srv:"+kind, "so.srv:auth-flag="+b01(a["fauth"] != "-" && a["fauth"] != "")+",env="+b01(a["eauth"] != "-" && a["eauth"] != ""),
			"so.srv:w="+a["w"], "so.srv:svw="+a["svw"]+",svr="+a["svr"], "so.srv:u="+a["u"]+",cfgu="+a["cfgu"], "so.srv:up="+a["up"]+",uts="+a["uts"])
		rep.Compare(m, line, implSoSrv, nil)
	}
}

// storeOptsGlob: filepath.Match and locationMatch (C03: which configuration entry applies to a location)
func storeOptsMatching(cfg Config, rep *Report, m *Model, rng *rand.Rand) {
	defer soCloseChild()
	n := cfg.N(4000, 80000)
	for it := 0; it < n; it++ {
		pat := soGenPattern(rng, 1+rng.Intn(7))
		name := soGenName(rng, pat)
		if rng.Intn(10) == 0 {
			name = soGenPattern(rng, 1+rng.Intn(5))
		}
		if rng.Intn(200) == 0 {
			name += "\xc3\xa9"
		}
		line := buildCase("so.glob", kv{"pat": hx([]byte(pat)), "name": hx([]byte(name))}, "pat", "name")
		res := implSoGlob(line)
		rep.Count(line, res == "true" || res == "false", "so.glob:"+res)
		rep.Compare(m, line, implSoGlob, nil)
	}
	if _, err := soGetChild(); err != nil {
		rep.Disagree(Disagreement{Kind: "monitor", Case: "so.locmatch", What: "the verif-tagged desync binary could not be built or started: " + err.Error()})
		return
	}
	_, _, _, cwd := soParams("x")
	schemes := []string{"http://", "https://", "s3+http://", "sftp://", "ssh://", "gs://", "c:", "x://", ""}
	n = cfg.N(1500, 30000)
	for it := 0; it < n; it++ {
		var pat, loc string
		if rng.Intn(2) == 0 { // URLs
			sch := soPick(rng, schemes[:8]...)
			host := soPick(rng, "host", "h:80", "[::1]", "u@h")
			p := "/" + soGenName(rng, soGenPattern(rng, 1+rng.Intn(4)))
			loc = sch + host + p + soPick(rng, "", "", "/", "?lookup=dns")
			switch rng.Intn(4) {
			case 0:
				pat = loc
			case 1:
				pat = strings.TrimSuffix(loc, "/") + soPick(rng, "", "/")
			case 2:
				pat = sch + host + "/" + soGenPattern(rng, 1+rng.Intn(4))
			default:
				pat = sch + soPick(rng, "host", "*", "h*") + p
			}
		} else { // paths, absolute and relative to the working directory
			p := soGenName(rng, soGenPattern(rng, 1+rng.Intn(4)))
			loc = soPick(rng, "/", "", "./", "../", "/tmp/") + p + soPick(rng, "", "/", "/.", "/..")
			switch rng.Intn(4) {
			case 0:
				pat = loc
			case 1:
				pat = filepath.Join(cwd, loc) + soPick(rng, "", "/")
			case 2:
				pat = soPick(rng, "/", "", "/tmp/") + soGenPattern(rng, 1+rng.Intn(4))
			default:
				pat = strings.TrimSuffix(loc, "/") + soPick(rng, "", "/", "*", "/*")
			}
		}
		if rng.Intn(60) == 0 {
			loc += "%zz"
		}
		if rng.Intn(60) == 0 {
			loc = ":" + loc
		}
		scheme, _, _, _ := soParams(loc)
		line := buildCase("so.locmatch", kv{"scheme": scheme, "cwd": cwd, "pat": hx([]byte(pat)), "loc": hx([]byte(loc))}, "scheme", "cwd", "pat", "loc")
		res := implSoLocMatch(line)
		kind := "path"
		if scheme == "err" {
			kind = "unparsable"
		} else if scheme != "0" && scheme != "1" {
			kind = "url"
		}
		rep.Count(line, res == "1", "so.locmatch:"+kind+"="+res)
		rep.Compare(m, line, implSoLocMatch, nil)
	}
}

// storeOptsStores: storeFromLocation on generated configurations (C03 / C20 / C14) and the index-location split
func storeOptsStores(cfg Config, rep *Report, m *Model, rng *rand.Rand) {
	defer soCloseChild()
	if _, err := soGetChild(); err != nil {
		rep.Disagree(Disagreement{Kind: "monitor", Case: "so.store", What: "the verif-tagged desync binary could not be built or started: " + err.Error()})
		return
	}
	work, err := os.MkdirTemp("", "verif-sostore-")
	if err != nil {
		return
	}
	defer os.RemoveAll(work)
	work, _ = filepath.EvalSymlinks(work)
	n := cfg.N(1200, 20000)
	for it := 0; it < n; it++ {
		var loc string
		names := []string{"alpha", "beta", "al", "store1", "store2"}
		local := rng.Intn(4) != 0
		if local {
			loc = filepath.Join(work, soPick(rng, names...)) + soPick(rng, "", "", "/")
		} else {
			loc = soPick(rng, "http://", "https://") + soPick(rng, "host", "h:8080") + "/" + soPick(rng, names...) + soPick(rng, "", "/")
		}
		// entries: the location itself, variants that are the same location, globs that do or do not match, other places
		var ents []soEntry
		seen := map[string]bool{}
		for k := rng.Intn(4); k > 0; k-- {
			var p string
			trimmed := strings.TrimSuffix(loc, "/")
			switch rng.Intn(9) {
			case 8: // the entry of the PARENT directory: another location
				p = filepath.Dir(trimmed) + soPick(rng, "", "/")
			case 0:
				p = trimmed
			case 1:
				p = trimmed + "/"
			case 2:
				p = trimmed[:len(trimmed)-1] + "?"
			case 3:
				p = trimmed[:len(trimmed)-2] + "*"
			case 4:
				p = filepath.Dir(trimmed) + "/*"
			case 5:
				p = filepath.Dir(trimmed) + "/" + soPick(rng, names...)
			case 6:
				p = trimmed + "x"
			default:
				p = filepath.Dir(trimmed) + "/[a-b]*"
			}
			if !local && rng.Intn(6) == 0 {
				p = strings.Replace(p, "http", "h*", 1)
			}
			if seen[p] {
				continue
			}
			seen[p] = true
			ents = append(ents, soEntry{Pattern: p, SkipVerify: rng.Intn(2) == 1, Uncompressed: rng.Intn(2) == 1, Retry: soPick(rng, "-", "-", "0", "7")})
		}
		var es []string
		for _, e := range ents {
			es = append(es, fmt.Sprintf("%s:%s:%s:%s", hx([]byte(e.Pattern)), b01(e.SkipVerify), b01(e.Uncompressed), e.Retry))
		}
		scheme, sname, _, cwd := soParams(loc)
		line := buildCase("so.store", kv{"scheme": scheme, "sname": sname, "cwd": cwd, "loc": hx([]byte(loc)), "ents": strings.Join(es, ";"),
			"skip": b01(rng.Intn(4) == 0), "retry": soPick(rng, "-", "-", "0", "5"), "n": fmt.Sprint(1 + rng.Intn(20)), "ti": b01(rng.Intn(4) == 0)},
			"scheme", "sname", "cwd", "loc", "ents", "skip", "retry", "n", "ti")
		res := implSoStore(line)
		tag := strings.Fields(res + " ?")[0]
		if strings.HasPrefix(res, "ok") {
			f := strings.Fields(res)
			tag = "ok:" + f[1] + "," + f[2] + "," + f[3]
		}
		rep.Count(line, strings.HasPrefix(res, "ok"), "so.store:"+tag, fmt.Sprintf("so.store:entries=%d", len(ents)))
		rep.Compare(m, line, implSoStore, nil)
	}
	// index locations
	n = cfg.N(600, 10000)
	for it := 0; it < n; it++ {
		var loc string
		name := soPick(rng, "a.caibx", "x", "i.caidx", "..", ".", "a b")
		switch rng.Intn(4) {
		case 0:
			loc = filepath.Join(work, soPick(rng, "d1", "d1/d2", ".")) + "/" + name
		case 1:
			loc = filepath.Join(work, "d1") + soPick(rng, "/", "//", "/./") + name + soPick(rng, "", "/")
		case 2:
			loc = soPick(rng, "http://", "https://") + "host" + soPick(rng, "", "/", "/p", "/p/q", "/p//q/") + soPick(rng, "/", "") + name + soPick(rng, "", "/", "?x=y/z")
		default:
			loc = soPick(rng, "http://host/p/../q/", "http://host/%2Fa/", "http://host") + name
		}
		scheme, sname, upath, _ := soParams(loc)
		line := buildCase("so.index", kv{"loc": hx([]byte(loc)), "scheme": scheme, "sname": sname, "upath": upath}, "loc", "scheme", "sname", "upath")
		res := implSoIndex(line)
		rep.Count(line, strings.HasPrefix(res, "key="), "so.index:"+strings.Fields(res + " ?")[0][:3]+":"+sname)
		rep.Compare(m, line, implSoIndex, nil)
	}
	storeOptsSymlinks(cfg, rep, m, rng, work) // storeopts_more.go: locations and patterns that pass through symbolic links
}

// storeOptsC03: which configuration entry applies to a location, and what the store is made with
func storeOptsC03(cfg Config, rep *Report, m *Model, rng *rand.Rand) {
	storeOptsMatching(cfg, rep, m, rng)
	storeOptsStores(cfg, rep, m, rng)
}
