package main

import (
	"fmt"
	"math/rand"
	"net/http/httptest"
	"net/url"
	"os"
	"path/filepath"

	"github.com/folbricht/desync"
)

// c03Held: a chunk object handed out by a store stays what it was while the same store instance serves further
// requests (a backend that keeps a read buffer per connection, a response buffer per client or a decoder's output
// buffer must not hand out slices of it).  For every real backend (local files, HTTP, S3 service, SFTP server with one
// and two pooled connections) in both storage formats: fetch k chunks one after the other, keep every chunk object,
// and only then ask each for its data — it must be the chunk's data and hash to the requested ID.  Also the
// interleaved order (fetch a, fetch b, look at a) and two seekable readers over one store that take turns.
func c03Held(cfg Config, rep *Report, rng *rand.Rand, s3f *fakeS3, sshWrap string, sshOK bool) {
	setDigest("sha512")
	for it := 0; it < cfg.N(6, 60); it++ {
		comp := it%2 == 0
		opt := desync.StoreOptions{Uncompressed: !comp}
		dir := filepath.Join(cfg.Work, fmt.Sprintf("held-%d", it))
		os.RemoveAll(dir)
		os.MkdirAll(dir, 0755)
		ls, err := desync.NewLocalStore(dir, opt)
		if err != nil {
			fatal(err)
		}
		k := 3 + rng.Intn(8)
		var ids []desync.ChunkID
		datas := map[desync.ChunkID][]byte{}
		var idx desync.Index
		var blob []byte
		for j := 0; j < k; j++ {
			// same length for all of them: a re-used buffer then holds a complete other chunk
			d := randBytes(rng, 200)
			if it%3 == 0 {
				d = randBytes(rng, 50+rng.Intn(400))
			}
			c := desync.NewChunk(d)
			if err := ls.StoreChunk(c); err != nil {
				fatal(err)
			}
			ids = append(ids, c.ID())
			datas[c.ID()] = d
			idx.Chunks = append(idx.Chunks, desync.IndexChunk{ID: c.ID(), Start: uint64(len(blob)), Size: uint64(len(d))})
			blob = append(blob, d...)
		}
		idx.Index.ChunkSizeMax = 1 << 20
		backends := map[string]desync.Store{"local": ls}
		var closers []func()
		// HTTP and S3: the same files as objects
		objs := map[string][]byte{}
		s3objs := map[string][]byte{}
		filepath.Walk(dir, func(p string, info os.FileInfo, err error) error {
			if err == nil && info.Mode().IsRegular() {
				b, _ := os.ReadFile(p)
				rel, _ := filepath.Rel(dir, p)
				objs["/"+rel] = b
				s3objs["bkt/held/"+rel] = b
			}
			return nil
		})
		ts := httptest.NewServer(&rawHTTP{objs: objs})
		closers = append(closers, ts.Close)
		u, _ := url.Parse(ts.URL)
		if hs, err := desync.NewRemoteHTTPStore(u, opt); err == nil {
			backends["http"] = hs
		}
		s3f.mu.Lock()
		s3f.objects = s3objs
		s3f.mu.Unlock()
		if s3s, err := s3f.chunkStore("bkt", "held/", opt); err == nil {
			backends["s3"] = s3s
		}
		if sshOK {
			os.Setenv("CASYNC_SSH_PATH", sshWrap)
			su, _ := url.Parse("sftp://localhost" + dir)
			for _, n := range []int{1, 2} {
				o := opt
				o.N = n
				if ss, err := desync.NewSFTPStore(su, o); err == nil {
					backends[fmt.Sprintf("sftp-n%d", n)] = ss
					closers = append(closers, func() { ss.Close() })
				}
			}
		}
		for bname, st := range backends {
			caseLine := fmt.Sprintf("store.held backend=%s comp=%v chunks=%d it=%d", bname, comp, k, it)
			rep.Count(caseLine, true, "held:"+bname)
			// all at once
			var held []*desync.Chunk
			for _, id := range ids {
				c, err := st.GetChunk(id)
				if err != nil {
					rep.Disagree(Disagreement{Kind: "monitor", Case: caseLine, What: fmt.Sprintf("an intact stored chunk is not delivered (%s): %v", bname, err)})
					continue
				}
				held = append(held, c)
			}
			for j, c := range held {
				d, err := c.Data()
				if err != nil || string(d) != string(datas[ids[j]]) || desync.Digest.Sum(d) != ids[j] {
					rep.Disagree(Disagreement{Kind: "monitor", Case: caseLine,
						What: fmt.Sprintf("a chunk object handed out by the %s store no longer holds its chunk after %d later requests on the same store (data of chunk %d does not hash to its ID)", bname, len(held)-1-j, j)})
					break
				}
			}
			// two seekable readers over the one store, taking turns
			r1 := desync.NewIndexReadSeeker(idx, st)
			r2 := desync.NewIndexReadSeeker(idx, st)
			buf1, buf2 := make([]byte, 37), make([]byte, 211)
			p1, p2 := 0, len(blob)/2
			for step := 0; step < 3*k && p1 < len(blob); step++ {
				n1, e1 := r1.Read(buf1)
				if e1 == nil && string(buf1[:n1]) != string(blob[p1:p1+n1]) {
					rep.Disagree(Disagreement{Kind: "monitor", Case: caseLine,
						What: fmt.Sprintf("two readers over one %s store: a read at offset %d returned %d bytes that are not the blob's, with no error", bname, p1, n1)})
					break
				}
				p1 += n1
				if _, err := r2.Seek(int64(p2), 0); err == nil {
					n2, _ := r2.Read(buf2)
					p2 = (p2 + n2 + 101) % len(blob)
				}
			}
		}
		for _, f := range closers {
			f()
		}
		os.RemoveAll(dir)
	}
}
