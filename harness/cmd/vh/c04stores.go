package main

// C04, index stores: histories of StoreIndex / GetIndex with faults on the real stores — a LocalIndexStore in a
// scratch directory, a RemoteHTTPIndex client talking to a real HTTPIndexHandler over that local store (with a
// scripted fate per attempt in front of the handler), the S3 index store against the in-process S3 service and the
// SFTP index store against pkg/sftp's server — compared with Model/IndexStore.lean (driver command `istore.ops`):
// every result, the number of attempts, and the final content of the store byte for byte.
//
// A write that fails after k bytes is produced for real: RLIMIT_FSIZE is lowered to k around the call, so the
// kernel cuts the write short and the next one fails with EFBIG (SIGXFSZ is ignored).

import (
	"encoding/xml"
	"fmt"
	"io"
	"math/rand"
	"net"
	"net/http"
	"net/http/httptest"
	"net/url"
	"os"
	"os/signal"
	"path/filepath"
	"sort"
	"strconv"
	"strings"
	"sync"
	"syscall"
	"time"

	"github.com/folbricht/desync"
)

var istoreWork string // scratch root (the check's work directory; a temp dir under replay)
var istoreSeq int
var fsizeMu sync.Mutex
var xfszOnce sync.Once

// withFileSizeLimit runs f with RLIMIT_FSIZE = k: a file cannot grow beyond k bytes
func withFileSizeLimit(k uint64, f func()) {
	xfszOnce.Do(func() { signal.Ignore(syscall.SIGXFSZ) })
	fsizeMu.Lock()
	defer fsizeMu.Unlock()
	var old syscall.Rlimit
	if err := syscall.Getrlimit(syscall.RLIMIT_FSIZE, &old); err != nil {
		f()
		return
	}
	lim := old
	lim.Cur = k
	syscall.Setrlimit(syscall.RLIMIT_FSIZE, &lim)
	defer syscall.Setrlimit(syscall.RLIMIT_FSIZE, &old)
	f()
}

// fatedHandler decides the fate of the i-th request before (and after) the real handler sees it
type fatedHandler struct {
	mu    sync.Mutex
	inner http.Handler
	fates []string
	n     int
}

func resetConn(w http.ResponseWriter) {
	hj, ok := w.(http.Hijacker)
	if !ok {
		return
	}
	conn, _, err := hj.Hijack()
	if err != nil {
		return
	}
	if tc, ok := conn.(*net.TCPConn); ok {
		tc.SetLinger(0)
	}
	conn.Close()
}

func (h *fatedHandler) ServeHTTP(w http.ResponseWriter, r *http.Request) {
	h.mu.Lock()
	i := h.n
	h.n++
	fate := "r" // attempts beyond the script never reach the handler
	if i < len(h.fates) {
		fate = h.fates[i]
	}
	h.mu.Unlock()
	switch fate {
	case "b":
		io.Copy(io.Discard, r.Body)
		w.WriteHeader(http.StatusServiceUnavailable)
		return
	case "r":
		resetConn(w)
		return
	}
	lost := false
	limit := int64(-1)
	if fate == "l" {
		lost = true
	} else if strings.HasPrefix(fate, "w") {
		s := fate[1:]
		if strings.HasSuffix(s, "l") {
			lost, s = true, s[:len(s)-1]
		}
		limit, _ = strconv.ParseInt(s, 10, 64)
	}
	out := w
	var rec *httptest.ResponseRecorder
	if lost {
		rec = httptest.NewRecorder()
		out = rec
	}
	if limit >= 0 {
		withFileSizeLimit(uint64(limit), func() { h.inner.ServeHTTP(out, r) })
	} else {
		h.inner.ServeHTTP(out, r)
	}
	if lost {
		resetConn(w)
	}
}

// multipartS3 adds the multipart-upload calls minio uses for a stream of unknown length (what
// S3IndexStore.StoreIndex sends) in front of the in-process S3 service: the object appears when the upload completes
type multipartS3 struct {
	f       *fakeS3
	mu      sync.Mutex
	parts   map[string]map[int][]byte
	next    int
	denyPut bool // fault: every write request is refused (403, not retried by minio)
}

func (m *multipartS3) ServeHTTP(w http.ResponseWriter, r *http.Request) {
	q := r.URL.Query()
	p := strings.TrimPrefix(r.URL.Path, "/")
	parts := strings.SplitN(p, "/", 2)
	if len(parts) != 2 || parts[1] == "" {
		m.f.serve(w, r)
		return
	}
	bucket, key := parts[0], parts[1]
	m.mu.Lock()
	deny := m.denyPut
	m.mu.Unlock()
	if deny && (r.Method == http.MethodPut || r.Method == http.MethodPost) {
		io.Copy(io.Discard, r.Body)
		s3Error(w, 403, "AccessDenied", key)
		return
	}
	_, initiate := q["uploads"]
	id := q.Get("uploadId")
	switch {
	case r.Method == http.MethodPost && initiate:
		m.mu.Lock()
		m.next++
		id = fmt.Sprintf("up%d", m.next)
		m.parts[id] = map[int][]byte{}
		m.mu.Unlock()
		w.Header().Set("Content-Type", "application/xml")
		fmt.Fprintf(w, `<?xml version="1.0" encoding="UTF-8"?><InitiateMultipartUploadResult><Bucket>%s</Bucket><Key>%s</Key><UploadId>%s</UploadId></InitiateMultipartUploadResult>`, bucket, key, id)
	case r.Method == http.MethodPut && id != "":
		b, _ := io.ReadAll(r.Body)
		n, _ := strconv.Atoi(q.Get("partNumber"))
		m.mu.Lock()
		if m.parts[id] != nil {
			m.parts[id][n] = b
		}
		m.mu.Unlock()
		w.Header().Set("ETag", fmt.Sprintf(`"part%d"`, n))
		w.WriteHeader(200)
	case r.Method == http.MethodPost && id != "":
		var req struct {
			XMLName xml.Name `xml:"CompleteMultipartUpload"`
			Parts   []struct {
				PartNumber int
				ETag       string
			} `xml:"Part"`
		}
		body, _ := io.ReadAll(r.Body)
		xml.Unmarshal(body, &req)
		m.mu.Lock()
		var whole []byte
		nums := []int{}
		for _, pt := range req.Parts {
			nums = append(nums, pt.PartNumber)
		}
		sort.Ints(nums)
		for _, n := range nums {
			whole = append(whole, m.parts[id][n]...)
		}
		delete(m.parts, id)
		m.mu.Unlock()
		m.f.put(bucket, key, whole)
		w.Header().Set("Content-Type", "application/xml")
		fmt.Fprintf(w, `<?xml version="1.0" encoding="UTF-8"?><CompleteMultipartUploadResult><Location>/%s/%s</Location><Bucket>%s</Bucket><Key>%s</Key><ETag>"0"</ETag></CompleteMultipartUploadResult>`, bucket, key, bucket, key)
	case r.Method == http.MethodDelete && id != "":
		m.mu.Lock()
		delete(m.parts, id)
		m.mu.Unlock()
		w.WriteHeader(204)
	default:
		m.f.serve(w, r)
	}
}

func compactIndex(i desync.Index) string {
	var sb strings.Builder
	fmt.Fprintf(&sb, "%d/%d/%d/%d/", i.Index.FeatureFlags, i.Index.ChunkSizeMin, i.Index.ChunkSizeAvg, i.Index.ChunkSizeMax)
	for k, c := range i.Chunks {
		if k > 0 {
			sb.WriteByte(',')
		}
		fmt.Fprintf(&sb, "%d:%d:%s", c.Start, c.Size, hx(c.ID[:]))
	}
	return sb.String()
}

func istoreGetStr(idx desync.Index, err error) string {
	if err == nil {
		return "ok " + compactIndex(idx)
	}
	if _, ok := err.(desync.NoSuchObject); ok || os.IsNotExist(err) {
		return "notfound"
	}
	return "err " + fmtErrKind(err)
}

func istoreParseIndex(hdr, chunks string) desync.Index {
	var idx desync.Index
	f := strings.Split(hdr, ":")
	if len(f) == 4 {
		idx.Index.FeatureFlags, _ = strconv.ParseUint(f[0], 10, 64)
		idx.Index.ChunkSizeMin, _ = strconv.ParseUint(f[1], 10, 64)
		idx.Index.ChunkSizeAvg, _ = strconv.ParseUint(f[2], 10, 64)
		idx.Index.ChunkSizeMax, _ = strconv.ParseUint(f[3], 10, 64)
	}
	idx.Chunks = parseChunksArg(chunks)
	return idx
}

func dirListing(dir string) string {
	ents, _ := os.ReadDir(dir)
	var out []string
	for _, e := range ents {
		if e.IsDir() {
			continue
		}
		b, _ := os.ReadFile(filepath.Join(dir, e.Name()))
		out = append(out, hx([]byte(e.Name()))+":"+hx(b))
	}
	sort.Strings(out)
	return strings.Join(out, ",")
}

// implIstoreOps runs one `istore.ops` case on the real stores
func implIstoreOps(line string) string {
	_, a := parseCase(line)
	setDigest(a["alg"])
	defer setDigest("sha512")
	root := istoreWork
	if root == "" {
		root, _ = os.MkdirTemp("", "verif-istore-")
		istoreWork = root
	}
	istoreSeq++
	dir := filepath.Join(root, fmt.Sprintf("istore-%d", istoreSeq))
	if err := os.MkdirAll(dir, 0755); err != nil {
		return "harness-error mkdir"
	}
	defer os.RemoveAll(dir)
	retry, _ := strconv.Atoi(a["retry"])
	kind := a["kind"]

	var st desync.IndexWriteStore
	var fh *fatedHandler
	var ms *multipartS3
	listing := func() string { return dirListing(dir) }
	switch kind {
	case "local", "http":
		ls, err := desync.NewLocalIndexStore(dir)
		if err != nil {
			return "harness-error local"
		}
		st = ls
		if kind == "http" {
			fh = &fatedHandler{inner: desync.NewHTTPIndexHandler(ls, a["writable"] != "0", "")}
			ts := httptest.NewUnstartedServer(fh)
			ts.Config.SetKeepAlivesEnabled(false) // net/http would re-send an idempotent request that failed on a reused connection
			ts.Start()
			defer ts.Close()
			u, _ := url.Parse(ts.URL + "/")
			hs, err := desync.NewRemoteHTTPIndexStore(u, desync.StoreOptions{ErrorRetry: retry, ErrorRetryBaseInterval: 0, Timeout: 10 * time.Second})
			if err != nil {
				return "harness-error http"
			}
			st = hs
		}
	case "s3":
		f := &fakeS3{objects: map[string][]byte{}, failGet: map[string]int{}}
		ms = &multipartS3{f: f, parts: map[string]map[int][]byte{}}
		f.srv = httptest.NewServer(ms)
		defer f.Close()
		s3, err := f.indexStore("bucket", "idx", desync.StoreOptions{})
		if err != nil {
			return "harness-error s3"
		}
		st = s3
		listing = func() string {
			f.mu.Lock()
			defer f.mu.Unlock()
			var out []string
			for k, b := range f.objects {
				out = append(out, hx([]byte(strings.TrimPrefix(k, "bucket/idx/")))+":"+hx(b))
			}
			sort.Strings(out)
			return strings.Join(out, ",")
		}
	case "sftp":
		wrap, err := sftpWrapper(root)
		if err != nil {
			return "harness-error sftp-wrapper"
		}
		os.Setenv("CASYNC_SSH_PATH", wrap)
		su, _ := url.Parse("sftp://localhost" + dir)
		ss, err := desync.NewSFTPIndexStore(su, desync.StoreOptions{})
		if err != nil {
			return "harness-error sftp"
		}
		defer ss.Close()
		st = ss
	default:
		return "bad-op"
	}

	var results []string
	if a["ops"] != "" {
		for _, op := range strings.Split(a["ops"], ";") {
			f := strings.Split(op, "|")
			res := guard(func() string {
				switch {
				case f[0] == "S" && len(f) == 5:
					name := string(unhx(f[1]))
					idx := istoreParseIndex(f[3], f[4])
					var err error
					switch kind {
					case "local":
						if strings.HasPrefix(f[2], "w") {
							k, _ := strconv.ParseUint(f[2][1:], 10, 64)
							withFileSizeLimit(k, func() { err = st.StoreIndex(name, idx) })
						} else {
							err = st.StoreIndex(name, idx)
						}
					case "http":
						fh.mu.Lock()
						fh.fates, fh.n = nil, 0
						if f[2] != "-" && f[2] != "" {
							fh.fates = strings.Split(f[2], ",")
						}
						fh.mu.Unlock()
						err = st.StoreIndex(name, idx)
					case "s3":
						ms.mu.Lock()
						ms.denyPut = f[2] != "-"
						ms.mu.Unlock()
						err = st.StoreIndex(name, idx)
					default:
						err = st.StoreIndex(name, idx)
					}
					r := "ok"
					if err != nil {
						r = "err"
					}
					if kind == "http" {
						fh.mu.Lock()
						r += fmt.Sprintf("@%d", fh.n)
						fh.mu.Unlock()
					}
					return r
				case f[0] == "G" && len(f) == 3:
					name := string(unhx(f[1]))
					if kind == "http" {
						fh.mu.Lock()
						fh.fates, fh.n = nil, 0
						if f[2] != "-" && f[2] != "" {
							fh.fates = strings.Split(f[2], ",")
						}
						fh.mu.Unlock()
					}
					idx, err := st.GetIndex(name)
					r := istoreGetStr(idx, err)
					if kind == "http" {
						fh.mu.Lock()
						r += fmt.Sprintf("@%d", fh.n)
						fh.mu.Unlock()
					}
					return r
				}
				return "bad-op"
			})
			if res == "bad-op" {
				return "bad-op"
			}
			results = append(results, res)
		}
	}
	return strings.Join(results, ";") + " dir=" + listing()
}

// a small index; `rep` says whether it reads back as itself under sha512
func genSmallIndex(rng *rand.Rand) desync.Index {
	var idx desync.Index
	idx.Index.FeatureFlags = desync.CaFormatSHA512256 | desync.CaFormatExcludeNoDump
	switch rng.Intn(12) {
	case 0:
		idx.Index.FeatureFlags = desync.CaFormatExcludeNoDump // SHA256 flag under a SHA512/256 process: rejected on reading
	case 1:
		idx.Index.FeatureFlags = desync.TarFeatureFlags | desync.CaFormatSHA512256
	}
	max := uint64(1 + rng.Intn(1<<uint(1+rng.Intn(16))))
	idx.Index.ChunkSizeMax = max
	idx.Index.ChunkSizeAvg = uint64(rng.Int63n(int64(max) + 1))
	idx.Index.ChunkSizeMin = uint64(rng.Int63n(int64(idx.Index.ChunkSizeAvg) + 1))
	n := []int{0, 0, 1, 1, 2, 3, 4, 6, 9, 14}[rng.Intn(10)]
	if rng.Intn(14) == 0 {
		n = 100 + rng.Intn(60) // the encoding is longer than one bufio buffer (4096)
	}
	var start uint64
	for i := 0; i < n; i++ {
		sz := 1 + uint64(rng.Int63n(int64(max)))
		switch rng.Intn(25) {
		case 0:
			sz = max
		case 1:
			sz = 0 // not representable as the first chunk (offset 0 ends the table); later: two equal offsets
		case 2:
			sz = max + 1 // a chunk above the declared maximum: written, rejected on reading
		}
		var id desync.ChunkID
		rng.Read(id[:])
		idx.Chunks = append(idx.Chunks, desync.IndexChunk{ID: id, Start: start, Size: sz})
		start += sz
	}
	return idx
}

func istoreIndexFields(idx desync.Index) string {
	var sb strings.Builder
	fmt.Fprintf(&sb, "%d:%d:%d:%d|", idx.Index.FeatureFlags, idx.Index.ChunkSizeMin, idx.Index.ChunkSizeAvg, idx.Index.ChunkSizeMax)
	for k, c := range idx.Chunks {
		if k > 0 {
			sb.WriteByte(',')
		}
		fmt.Fprintf(&sb, "%d:%s", c.Size, hx(c.ID[:]))
	}
	return sb.String()
}

var istoreNames = []string{"a.caibx", "b.caidx", "c", "x y%41.caibx", "nodir/a.caibx"}

func genFates(rng *rand.Rand, put bool, encLen, retry int) string {
	// mostly: some transient failures, then an attempt that gets through; sometimes more failures than the budget
	var fs []string
	nfail := 0
	switch rng.Intn(5) {
	case 0:
		nfail = 0
	case 1, 2:
		nfail = rng.Intn(retry + 1)
	case 3:
		nfail = rng.Intn(3)
	default:
		nfail = retry + rng.Intn(2)
	}
	for i := 0; i < nfail; i++ {
		choices := []string{"b", "r", "l"}
		if put && encLen > 0 {
			k := rng.Intn(encLen)
			switch rng.Intn(4) {
			case 0:
				k = 0
			case 1:
				k = encLen - 1
			}
			choices = append(choices, fmt.Sprintf("w%d", k), fmt.Sprintf("w%dl", k))
		}
		fs = append(fs, choices[rng.Intn(len(choices))])
	}
	if rng.Intn(8) != 0 {
		fs = append(fs, "p")
		if rng.Intn(3) == 0 {
			fs = append(fs, []string{"p", "b", "r"}[rng.Intn(3)])
		}
	}
	if len(fs) == 0 {
		return "-"
	}
	return strings.Join(fs, ",")
}

func genIstoreCase(rng *rand.Rand, kind string) string {
	retry := rng.Intn(5)
	writable := 1
	if kind == "http" && rng.Intn(12) == 0 {
		writable = 0
	}
	names := istoreNames
	if kind == "s3" || kind == "sftp" {
		names = istoreNames[:4] // one path element only (a key with '/' is a valid object; the SFTP store creates the directory)
	}
	nops := 2 + rng.Intn(9)
	if kind == "sftp" {
		nops = 2 + rng.Intn(6)
	}
	if kind == "s3" {
		nops = 2 + rng.Intn(3)
	}
	// indexes by decreasing / increasing length so that shorter-over-longer and longer-over-shorter both happen
	var ops []string
	var prev *desync.Index
	for k := 0; k < nops; k++ {
		name := names[rng.Intn(len(names))]
		if rng.Intn(3) > 0 {
			name = names[rng.Intn(2)] // reuse a few names
		}
		if rng.Intn(3) == 0 {
			f := "-"
			if kind == "http" {
				f = genFates(rng, false, 0, retry)
			}
			ops = append(ops, "G|"+hx([]byte(name))+"|"+f)
			continue
		}
		idx := genSmallIndex(rng)
		if prev != nil && len(prev.Chunks) > 0 && rng.Intn(3) == 0 {
			// a strictly shorter index over (possibly) the same name: a prefix of the previous table
			idx = *prev
			idx.Chunks = append([]desync.IndexChunk{}, prev.Chunks[:rng.Intn(len(prev.Chunks))]...)
		}
		cp := idx
		prev = &cp
		encLen := 48 + 16 + 40*len(idx.Chunks) + 40
		f := "-"
		switch kind {
		case "local":
			if rng.Intn(4) == 0 {
				k := rng.Intn(encLen)
				switch rng.Intn(4) {
				case 0:
					k = 0
				case 1:
					k = encLen - 1
				case 2:
					if encLen > 4096 {
						k = 4096
					}
				}
				f = fmt.Sprintf("w%d", k)
			}
		case "http":
			f = genFates(rng, true, encLen, retry)
		case "s3":
			if rng.Intn(5) == 0 {
				f = "w0"
			}
		}
		ops = append(ops, "S|"+hx([]byte(name))+"|"+f+"|"+istoreIndexFields(idx))
		if rng.Intn(2) == 0 {
			g := "-"
			if kind == "http" {
				g = genFates(rng, false, 0, retry)
			}
			ops = append(ops, "G|"+hx([]byte(name))+"|"+g)
		}
	}
	return fmt.Sprintf("istore.ops kind=%s alg=sha512 retry=%d writable=%d ops=%s", kind, retry, writable, strings.Join(ops, ";"))
}

// shrink: drop one op, drop fates
func shrinkIstore(line string) []string {
	cmd, a := parseCase(line)
	ops := strings.Split(a["ops"], ";")
	var out []string
	mk := func(nops []string) {
		na := kv{}
		for k, v := range a {
			na[k] = v
		}
		na["ops"] = strings.Join(nops, ";")
		out = append(out, buildCase(cmd, na, "kind", "alg", "retry", "writable", "ops"))
	}
	for i := range ops {
		if len(ops) > 1 {
			mk(append(append([]string{}, ops[:i]...), ops[i+1:]...))
		}
	}
	for i, op := range ops {
		f := strings.Split(op, "|")
		if len(f) >= 3 && strings.Contains(f[2], ",") {
			fs := strings.Split(f[2], ",")
			for j := range fs {
				nf := append(append([]string{}, fs[:j]...), fs[j+1:]...)
				g := append([]string{}, f...)
				g[2] = strings.Join(nf, ",")
				nops := append([]string{}, ops...)
				nops[i] = strings.Join(g, "|")
				mk(nops)
			}
		}
	}
	if len(out) > 40 {
		out = out[:40]
	}
	return out
}

// runC04Stores: the store histories; called from runC04
func runC04Stores(cfg Config, rep *Report, m *Model, rng *rand.Rand) {
	istoreWork = filepath.Join(cfg.Work, "istore")
	os.MkdirAll(istoreWork, 0755)
	monitor := func(what, caseLine, impl string) {
		rep.Disagree(Disagreement{Kind: "monitor", Case: clip(caseLine, 100000), Impl: clip(impl, 2000), What: what})
	}
	run := func(kind string, n int) {
		t0 := time.Now()
		defer func() {
			rep.Notes = append(rep.Notes, fmt.Sprintf("index store histories (%s): %d cases in %.1fs", kind, n, time.Since(t0).Seconds()))
		}()
		for it := 0; it < n; it++ {
			line := genIstoreCase(rng, kind)
			got := timed(implIstoreOps, line)
			if m.cmd != nil {
				if want := m.Ask(line); want != got {
					rep.Compare(m, line, implIstoreOps, shrinkIstore) // runs it again, shrinks, records
				}
			}
			faulty := false
			for _, op := range strings.Split(strings.SplitN(line, " ops=", 2)[1], ";") {
				if f := strings.Split(op, "|"); len(f) >= 3 && f[2] != "-" && f[2] != "p" {
					faulty = true
				}
			}
			rep.Count(line, true, "istore:"+kind, fmt.Sprintf("istore-faults:%v", faulty))
			if strings.HasPrefix(got, "harness-error") || got == "panic" {
				monitor("index store history could not be run: "+got, line, got)
				continue
			}
			// monitor, independent of the model: a GetIndex that succeeds returns the index whose store on that name
			// (same name as the handler sees it) was the last one reported successful, if any store on it came in between
			istoreMonitor(kind, line, got, monitor)
		}
	}
	run("local", cfg.N(400, 8000))
	run("http", cfg.N(250, 5000))
	// minio's PutObject with an unknown length (what S3IndexStore.StoreIndex asks for) allocates a part buffer of
	// several hundred MiB per call: a store costs ~0.15 s, so only a few histories in the quick tier
	run("s3", cfg.N(5, 200))
	run("sftp", cfg.N(12, 300))
}

// istoreMonitor checks, without the model: a GetIndex that succeeds returns an index that was stored under that name —
// the one of the last store that reported success or, after stores that reported failure, possibly one of those
func istoreMonitor(kind, line, got string, monitor func(what, caseLine, impl string)) {
	_, a := parseCase(line)
	ops := strings.Split(a["ops"], ";")
	res := strings.Split(strings.SplitN(got, " dir=", 2)[0], ";")
	if len(res) != len(ops) {
		return
	}
	base := func(n string) string {
		if kind == "http" {
			if i := strings.LastIndex(n, "/"); i >= 0 {
				return n[i+1:]
			}
		}
		return n
	}
	wellFormed := func(idx desync.Index) bool {
		if idx.Index.FeatureFlags&desync.CaFormatSHA512256 == 0 {
			return false
		}
		for k, c := range idx.Chunks {
			if c.Size > idx.Index.ChunkSizeMax || (k == 0 && c.Size == 0) || c.Start+c.Size < c.Start {
				return false
			}
		}
		return true
	}
	last := map[string][]string{} // name -> the indexes a GetIndex may return ("*": anything)
	for i, op := range ops {
		f := strings.Split(op, "|")
		name := base(string(unhx(f[1])))
		r := strings.SplitN(res[i], "@", 2)[0]
		switch f[0] {
		case "S":
			idx := istoreParseIndex(f[3], f[4])
			c := compactIndex(idx)
			if !wellFormed(idx) {
				c = "*"
			}
			if r == "ok" {
				last[name] = []string{c}
			} else if kind == "local" || kind == "http" {
				last[name] = append(last[name], c)
			}
		case "G":
			if !strings.HasPrefix(r, "ok ") {
				continue
			}
			gotIdx := strings.TrimPrefix(r, "ok ")
			okay := false
			for _, w := range last[name] {
				if w == "*" || w == gotIdx {
					okay = true
				}
			}
			if !okay {
				monitor("GetIndex returned an index that is not one stored under the name last ("+kind+")", line, got)
			}
		}
	}
}
