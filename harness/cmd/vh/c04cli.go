package main

// C04 at the level of the command line: "reading rejects ... any file whose digest flag disagrees with the configured
// digest".  The configured digest of a desync process is what the global option --digest says (default SHA512-256), for
// every sub-command alike, the long-running servers included.  The library-level cases of runC04 set desync.Digest
// themselves, so they cannot see whether the option reaches the code that reads and writes indexes.  Here the real
// binary (cmd/desync built from the tree under check) is run under both configurations on index files of both digest
// flags, through every sub-command that reads or writes an index:
//
//	readers:  info, list-chunks, inspect-chunks, cat, extract, extract --seed, verify-index, prune, cache, cache --ignore,
//	          chop, chop --ignore, untar -i, mtree -i   (index given as a file, on stdin, or by a plain HTTP file server)
//	writers:  make, tar -i                              (index written to a file or to stdout)
//	servers:  index-server GET / HEAD / PUT over raw HTTP, and desync clients (info, make) through it
//
// a mismatching index must be refused (exit status != 0, HTTP status >= 400, nothing stored), a matching one accepted,
// and an index written under a configuration carries that configuration's digest flag.  HEAD of the index server does not
// read the index (GetIndexReader only): it is counted, and only a matching index is required to answer 200.

import (
	"bytes"
	"context"
	"encoding/binary"
	"fmt"
	"math/rand"
	"net/http"
	"net/http/httptest"
	"os"
	"path/filepath"
	"strings"
	"time"

	"github.com/folbricht/desync"
)

var c04Algs = []string{"sha512-256", "sha256"}

// c04RawDigest tells which digest the header of an index file claims, from the bytes alone
func c04RawDigest(b []byte) string {
	if len(b) < 48 || binary.LittleEndian.Uint64(b[8:16]) != desync.CaFormatIndex {
		return "not-an-index"
	}
	if binary.LittleEndian.Uint64(b[16:24])&desync.CaFormatSHA512256 != 0 {
		return "sha512-256"
	}
	return "sha256"
}

// c04DigestArgs renders a configuration as command-line arguments: the option before the sub-command or right after
// its name, as two words or one, the default digest also by saying nothing
func c04DigestArgs(rng *rand.Rand, alg string, sub []string) (argv []string, how string) {
	var opt []string
	switch {
	case alg == "sha512-256" && rng.Intn(3) > 0:
		return sub, "default"
	case rng.Intn(2) == 0:
		opt = []string{"--digest", alg}
	default:
		opt = []string{"--digest=" + alg}
	}
	if rng.Intn(2) == 0 {
		return append(append([]string{}, opt...), sub...), "option-first"
	}
	argv = append([]string{sub[0]}, opt...)
	return append(argv, sub[1:]...), "option-after-command"
}

func c04CopyDir(src, dst string) {
	filepath.Walk(src, func(p string, info os.FileInfo, err error) error {
		if err != nil {
			return nil
		}
		rel, _ := filepath.Rel(src, p)
		if info.IsDir() {
			os.MkdirAll(filepath.Join(dst, rel), 0755)
			return nil
		}
		if b, err := os.ReadFile(p); err == nil {
			os.WriteFile(filepath.Join(dst, rel), b, 0644)
		}
		return nil
	})
}

func c04CLI(cfg Config, rep *Report, rng *rand.Rand) {
	bin := desyncBin()
	if bin == "" {
		rep.Notes = append(rep.Notes, "desync binary not built: command-line digest-flag runs skipped")
		return
	}
	dir, err := os.MkdirTemp(cfg.Work, "cli04-")
	if err != nil {
		rep.Notes = append(rep.Notes, "cli04: no scratch directory: "+err.Error())
		return
	}
	defer os.RemoveAll(dir)
	dir, _ = filepath.EvalSymlinks(dir)
	t0, e0 := time.Now(), rep.Evaluations
	defer func() {
		rep.Notes = append(rep.Notes, fmt.Sprintf("command-line digest-flag runs (cli.digest): %d runs / requests in %.1fs", rep.Evaluations-e0, time.Since(t0).Seconds()))
	}()
	monitor := func(what, caseLine, impl string) {
		rep.Disagree(Disagreement{Kind: "monitor", Case: caseLine, Impl: clip(impl, 600), What: what})
	}

	// ---- fixtures, made in-process (the library side of the format is what the rest of runC04 checks) -------------
	storeDir := filepath.Join(dir, "store")
	idxDir := filepath.Join(dir, "idx")
	srcTree := filepath.Join(dir, "tree")
	os.MkdirAll(storeDir, 0755)
	os.MkdirAll(idxDir, 0755)
	os.MkdirAll(filepath.Join(srcTree, "sub"), 0755)
	blob := randBytes(rng, 40000+rng.Intn(60000))
	blobFile := filepath.Join(dir, "blob")
	os.WriteFile(blobFile, blob, 0644)
	for i := 0; i < 3+rng.Intn(4); i++ {
		p := filepath.Join(srcTree, fmt.Sprintf("f%d", i))
		if i%2 == 1 {
			p = filepath.Join(srcTree, "sub", fmt.Sprintf("g%d", i))
		}
		os.WriteFile(p, randBytes(rng, 1+rng.Intn(9000)), 0644)
	}
	var catar bytes.Buffer
	if err := desync.Tar(context.Background(), &catar, desync.NewLocalFS(srcTree, desync.LocalFSOptions{})); err != nil {
		rep.Notes = append(rep.Notes, "cli04: cannot archive the fixture tree: "+err.Error())
		return
	}
	fixture := map[string][]byte{} // file name in idxDir -> bytes
	fixtureStr := map[string]string{}
	name := func(kind, alg string) string {
		if kind == "tree" {
			return "tree-" + alg + ".caidx"
		}
		return "blob-" + alg + ".caibx"
	}
	st, err := desync.NewLocalStore(storeDir, desync.StoreOptions{})
	if err != nil {
		rep.Notes = append(rep.Notes, "cli04: "+err.Error())
		return
	}
	for _, alg := range c04Algs {
		for _, kind := range []string{"blob", "tree"} {
			data := blob
			if kind == "tree" {
				data = catar.Bytes()
			}
			setDigest(alg)
			ch, _ := desync.NewChunker(bytes.NewReader(data), 1024, 2048, 8192)
			idx, err := desync.ChunkStream(context.Background(), ch, st, 2)
			setDigest("sha512")
			if err != nil {
				rep.Notes = append(rep.Notes, "cli04: cannot chunk the fixture: "+err.Error())
				return
			}
			var b bytes.Buffer
			idx.WriteTo(&b)
			if c04RawDigest(b.Bytes()) != alg { // the library itself writes the wrong flag: the in-process cases report that
				rep.Notes = append(rep.Notes, "cli04: ChunkStream under "+alg+" wrote an index flagged "+c04RawDigest(b.Bytes())+": command-line runs skipped")
				return
			}
			fixture[name(kind, alg)] = b.Bytes()
			fixtureStr[name(kind, alg)] = indexStr(idx)
			os.WriteFile(filepath.Join(idxDir, name(kind, alg)), b.Bytes(), 0644)
		}
	}
	raw := httptest.NewServer(http.FileServer(http.Dir(idxDir))) // serves the bytes as they are, checks nothing
	defer raw.Close()

	scratchN := 0
	scratch := func() string {
		scratchN++
		p := filepath.Join(dir, fmt.Sprintf("s%d", scratchN))
		os.MkdirAll(p, 0755)
		return p
	}
	mkd := func(p string) string {
		os.MkdirAll(p, 0755)
		return p
	}
	other := func(alg string) string {
		if alg == "sha256" {
			return "sha512-256"
		}
		return "sha256"
	}
	rel := func(argv []string) string { return strings.ReplaceAll(strings.Join(argv, " "), dir, "$T") }

	// ---- readers ---------------------------------------------------------------------------------------------------
	type reader struct {
		name string
		kind string   // which fixture is the subject: blob | tree
		locs []string // how the subject index can be handed over
		args func(loc, tmp, cfgAlg string) []string
	}
	anyLoc := []string{"file", "stdin", "http"}
	mainIdx := func(cfgAlg string) string { return filepath.Join(idxDir, name("blob", cfgAlg)) }
	readers := []reader{
		{"info", "blob", anyLoc, func(loc, tmp, c string) []string { return []string{"info", loc} }},
		{"info -s", "blob", anyLoc, func(loc, tmp, c string) []string { return []string{"info", "-s", storeDir, loc} }},
		{"list-chunks", "blob", anyLoc, func(loc, tmp, c string) []string { return []string{"list-chunks", loc} }},
		{"inspect-chunks", "blob", anyLoc, func(loc, tmp, c string) []string { return []string{"inspect-chunks", "-s", storeDir, loc} }},
		{"cat", "blob", anyLoc, func(loc, tmp, c string) []string {
			return []string{"cat", "-s", storeDir, loc, filepath.Join(tmp, "out")}
		}},
		{"extract", "blob", anyLoc, func(loc, tmp, c string) []string {
			return []string{"extract", "-s", storeDir, loc, filepath.Join(tmp, "out")}
		}},
		{"extract --seed", "blob", []string{"file"}, func(loc, tmp, c string) []string {
			return []string{"extract", "-s", storeDir, "--seed", loc + ":" + blobFile, mainIdx(c), filepath.Join(tmp, "out")}
		}},
		{"verify-index", "blob", anyLoc, func(loc, tmp, c string) []string { return []string{"verify-index", loc, blobFile} }},
		{"prune", "blob", anyLoc, func(loc, tmp, c string) []string {
			c04CopyDir(storeDir, filepath.Join(tmp, "store"))
			return []string{"prune", "-s", mkd(filepath.Join(tmp, "store")), "--yes", loc}
		}},
		{"cache", "blob", anyLoc, func(loc, tmp, c string) []string {
			return []string{"cache", "-s", storeDir, "-c", mkd(filepath.Join(tmp, "cache")), loc}
		}},
		{"cache --ignore", "blob", []string{"file", "http"}, func(loc, tmp, c string) []string {
			return []string{"cache", "-s", storeDir, "-c", mkd(filepath.Join(tmp, "cache")), "--ignore", loc, mainIdx(c)}
		}},
		{"chop", "blob", anyLoc, func(loc, tmp, c string) []string {
			return []string{"chop", "-s", mkd(filepath.Join(tmp, "chopped")), loc, blobFile}
		}},
		{"chop --ignore", "blob", []string{"file", "http"}, func(loc, tmp, c string) []string {
			return []string{"chop", "-s", mkd(filepath.Join(tmp, "chopped")), "--ignore", loc, mainIdx(c), blobFile}
		}},
		{"untar -i", "tree", anyLoc, func(loc, tmp, c string) []string {
			return []string{"untar", "-i", "-s", storeDir, "--no-same-owner", loc, filepath.Join(tmp, "tree")}
		}},
		{"mtree -i", "tree", []string{"file"} /* mtree stats its input: a local file only */, func(loc, tmp, c string) []string { return []string{"mtree", "-i", "-s", storeDir, loc} }},
	}
	for _, ri := range rng.Perm(len(readers)) {
		rd := readers[ri]
		for _, cfgAlg := range c04Algs {
			for _, idxAlg := range c04Algs {
				locKind := rd.locs[rng.Intn(len(rd.locs))]
				fname := name(rd.kind, idxAlg)
				var loc string
				var stdin []byte
				switch locKind {
				case "file":
					loc = filepath.Join(idxDir, fname)
				case "stdin":
					loc, stdin = "-", fixture[fname]
				default:
					loc = raw.URL + "/" + fname
				}
				tmp := scratch()
				argv, how := c04DigestArgs(rng, cfgAlg, rd.args(loc, tmp, cfgAlg))
				r := runCLI(bin, nil, stdin, 60*time.Second, argv...)
				os.RemoveAll(tmp)
				caseLine := fmt.Sprintf("cli.digest cmd=%q configured=%s (%s) index-flag=%s index-from=%s argv: desync %s",
					rd.name, cfgAlg, how, idxAlg, locKind, rel(argv))
				rep.Count(caseLine, true, "cli.digest:"+rd.name, fmt.Sprintf("cli.digest-match:%v", cfgAlg == idxAlg), "cli.digest-from:"+locKind)
				switch {
				case r.exit == -1:
					rep.Notes = append(rep.Notes, "cli04: did not finish: "+caseLine)
				case cfgAlg != idxAlg && r.exit == 0:
					monitor(fmt.Sprintf("desync %s configured for %s read an index whose digest flag says %s and exited with status 0 (the reader must reject it)",
						rd.name, cfgAlg, idxAlg), caseLine, "exit 0 stdout: "+r.stdout)
				case cfgAlg == idxAlg && r.exit != 0:
					monitor(fmt.Sprintf("desync %s configured for %s refused an index whose digest flag says %s (exit status %d)",
						rd.name, cfgAlg, idxAlg, r.exit), caseLine, "stderr: "+r.stderr)
				}
			}
		}
	}

	// ---- writers ---------------------------------------------------------------------------------------------------
	type writer struct {
		name string
		args func(dest, tmp string) []string
	}
	writers := []writer{
		{"make", func(dest, tmp string) []string {
			return []string{"make", "-s", mkd(filepath.Join(tmp, "store")), "-m", "1:2:8", dest, blobFile}
		}},
		{"tar -i", func(dest, tmp string) []string {
			return []string{"tar", "-i", "-s", mkd(filepath.Join(tmp, "store")), "-m", "1:2:8", dest, srcTree}
		}},
	}
	for _, wr := range writers {
		for _, cfgAlg := range c04Algs {
			tmp := scratch()
			destKind := []string{"file", "stdout"}[rng.Intn(2)]
			dest := filepath.Join(tmp, "written.idx")
			if destKind == "stdout" {
				dest = "-"
			}
			argv, how := c04DigestArgs(rng, cfgAlg, wr.args(dest, tmp))
			r := runCLI(bin, nil, nil, 60*time.Second, argv...)
			written := []byte(r.stdout)
			if destKind == "file" {
				written, _ = os.ReadFile(dest)
			}
			os.RemoveAll(tmp)
			caseLine := fmt.Sprintf("cli.digest cmd=%q configured=%s (%s) index-to=%s argv: desync %s", wr.name, cfgAlg, how, destKind, rel(argv))
			rep.Count(caseLine, true, "cli.digest:"+wr.name, "cli.digest-to:"+destKind)
			if r.exit != 0 {
				rep.Notes = append(rep.Notes, fmt.Sprintf("cli04: exit status %d, nothing to look at: %s: %s", r.exit, caseLine, clip(r.stderr, 200)))
				continue
			}
			if got := c04RawDigest(written); got != cfgAlg {
				monitor(fmt.Sprintf("desync %s configured for %s wrote an index whose header says %s", wr.name, cfgAlg, got), caseLine, "header: "+hx(written[:min(len(written), 48)]))
			}
		}
	}

	// ---- index servers -----------------------------------------------------------------------------------------------
	type server struct {
		alg, addr, dir, how string
		stop                func()
	}
	var servers []server
	for _, alg := range c04Algs {
		sdir := filepath.Join(dir, "served-"+alg)
		c04CopyDir(idxDir, sdir)
		addr := fmt.Sprintf("127.0.0.1:%d", freePort())
		argv, how := c04DigestArgs(rng, alg, []string{"index-server", "-s", sdir, "-l", addr, "-w"})
		stop, err := startServer(bin, nil, addr, argv...)
		if err != nil {
			rep.Notes = append(rep.Notes, "cli04: index-server did not start: "+err.Error())
			continue
		}
		defer stop()
		servers = append(servers, server{alg, addr, sdir, how + ": desync " + rel(argv), stop})
	}
	for _, sv := range servers {
		for _, idxAlg := range c04Algs {
			fname := name("blob", idxAlg)
			base := fmt.Sprintf("cli.digest cmd=\"index-server\" configured=%s (%s) index-flag=%s", sv.alg, sv.how, idxAlg)
			match := sv.alg == idxAlg

			// GET
			caseLine := base + " request: GET /" + fname
			status, body := httpDo("GET", "http://"+sv.addr+"/"+fname, nil, nil)
			rep.Count(caseLine, true, "cli.digest:index-server GET", fmt.Sprintf("cli.digest-match:%v", match))
			switch {
			case status == -1:
				rep.Notes = append(rep.Notes, "cli04: no answer: "+caseLine)
			case !match && status < 400:
				monitor(fmt.Sprintf("index-server configured for %s parsed and served an index whose digest flag says %s (GET answered %d, must refuse)",
					sv.alg, idxAlg, status), caseLine, fmt.Sprintf("status %d, %d body bytes, header of the body says %s", status, len(body), c04RawDigest(body)))
			case match && status != 200:
				monitor(fmt.Sprintf("index-server configured for %s refused to serve an index whose digest flag says %s (GET answered %d)",
					sv.alg, idxAlg, status), caseLine, string(body))
			case match:
				setDigest(idxAlg)
				back, err := desync.IndexFromReader(bytes.NewReader(body))
				setDigest("sha512")
				if err != nil || indexStr(back) != fixtureStr[fname] {
					monitor("index-server GET of a matching index does not answer the stored index", caseLine, fmt.Sprint(err))
				}
			}

			// HEAD: does not read the index; only a matching one is required to be there
			caseLine = base + " request: HEAD /" + fname
			status, _ = httpDo("HEAD", "http://"+sv.addr+"/"+fname, nil, nil)
			rep.Count(caseLine, true, "cli.digest:index-server HEAD", fmt.Sprintf("cli.digest-head-status:%d", status))
			if match && status != 200 && status != -1 {
				monitor(fmt.Sprintf("index-server configured for %s answers HEAD of an index flagged %s with %d", sv.alg, idxAlg, status), caseLine, "")
			}

			// PUT
			putName := "put-" + idxAlg + ".caibx"
			caseLine = base + " request: PUT /" + putName
			status, body = httpDo("PUT", "http://"+sv.addr+"/"+putName, nil, fixture[fname])
			stored, serr := os.ReadFile(filepath.Join(sv.dir, putName))
			rep.Count(caseLine, true, "cli.digest:index-server PUT", fmt.Sprintf("cli.digest-match:%v", match))
			switch {
			case status == -1:
				rep.Notes = append(rep.Notes, "cli04: no answer: "+caseLine)
			case !match && (status < 400 || serr == nil):
				monitor(fmt.Sprintf("index-server configured for %s accepted an uploaded index whose digest flag says %s (PUT answered %d, stored: %v; must refuse)",
					sv.alg, idxAlg, status, serr == nil), caseLine, string(body))
			case match && (status != 200 || serr != nil):
				monitor(fmt.Sprintf("index-server configured for %s refused an uploaded index whose digest flag says %s (PUT answered %d)",
					sv.alg, idxAlg, status), caseLine, string(body))
			case match && c04RawDigest(stored) != sv.alg:
				monitor(fmt.Sprintf("index-server configured for %s stored an uploaded index with a header that says %s", sv.alg, c04RawDigest(stored)), caseLine, "")
			}

			// a desync client of the index's own digest reads it through the server: fine when the server agrees,
			// refused by the server otherwise
			argv, how := c04DigestArgs(rng, idxAlg, []string{"info", "http://" + sv.addr + "/" + fname})
			r := runCLI(bin, nil, nil, 60*time.Second, argv...)
			caseLine = base + fmt.Sprintf(" client: configured=%s (%s) argv: desync %s", idxAlg, how, rel(argv))
			rep.Count(caseLine, true, "cli.digest:index-server client info", fmt.Sprintf("cli.digest-match:%v", match))
			switch {
			case r.exit == -1:
				rep.Notes = append(rep.Notes, "cli04: did not finish: "+caseLine)
			case !match && r.exit == 0:
				monitor(fmt.Sprintf("index-server configured for %s served an index whose digest flag says %s to a desync client (info exited with status 0)",
					sv.alg, idxAlg), caseLine, r.stdout)
			case match && r.exit != 0:
				monitor(fmt.Sprintf("desync info configured for %s could not read an index flagged %s through an index-server configured for %s",
					idxAlg, idxAlg, sv.alg), caseLine, r.stderr)
			}
		}

		// a desync client writes through the server (make): stored with the server's flag when both agree, refused when
		// the client is configured for the other digest
		for _, clAlg := range []string{sv.alg, other(sv.alg)} {
			tmp := scratch()
			made := "made-" + clAlg + ".caibx"
			argv, how := c04DigestArgs(rng, clAlg, []string{"make", "-s", mkd(filepath.Join(tmp, "store")), "-m", "1:2:8", "http://" + sv.addr + "/" + made, blobFile})
			r := runCLI(bin, nil, nil, 60*time.Second, argv...)
			os.RemoveAll(tmp)
			stored, serr := os.ReadFile(filepath.Join(sv.dir, made))
			caseLine := fmt.Sprintf("cli.digest cmd=\"index-server\" configured=%s (%s) client: make configured=%s (%s) argv: desync %s", sv.alg, sv.how, clAlg, how, rel(argv))
			rep.Count(caseLine, true, "cli.digest:index-server client make", fmt.Sprintf("cli.digest-match:%v", clAlg == sv.alg))
			switch {
			case r.exit == -1:
				rep.Notes = append(rep.Notes, "cli04: did not finish: "+caseLine)
			case clAlg != sv.alg && (r.exit == 0 || serr == nil):
				monitor(fmt.Sprintf("index-server configured for %s accepted an index made by a client configured for %s (make exit status %d, stored: %v, header says %s)",
					sv.alg, clAlg, r.exit, serr == nil, c04RawDigest(stored)), caseLine, r.stderr)
			case clAlg == sv.alg && (r.exit != 0 || serr != nil):
				monitor(fmt.Sprintf("desync make configured for %s could not store its index on an index-server configured for %s (exit status %d)",
					clAlg, sv.alg, r.exit), caseLine, r.stderr)
			case clAlg == sv.alg && c04RawDigest(stored) != sv.alg:
				monitor(fmt.Sprintf("desync make and index-server, both configured for %s, stored an index whose header says %s", sv.alg, c04RawDigest(stored)), caseLine, "")
			}
		}
	}
}
