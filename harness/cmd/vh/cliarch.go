package main

// The archive commands of the built binary (tar, untar, mtree) under the options that are NOT theirs, and `desync tar`
// on damaged input.
//
// cliGlobalFlags (C05): every global option of the root command (--verbose, --digest, --config, alone and together,
// before and after the sub-command) in front of tar ; untar through an archive file and through an index and a store,
// from disk and from a tar stream: the tree on disk is the source tree — directory time stamps included — and the
// GNU-tar / mtree outputs are the ones the command writes without the option.
//
// c13CLIFaults (C13): `desync tar` with and without -i, from both input formats, on input that is complete, cut off at
// a random byte (inside a header, inside a file, in the padding, in the trailer), empty, followed or interrupted by
// garbage, or absent: whenever the command exits 0, what it stored (the file, or the chunks under the index it wrote)
// is a well-formed catar, the one the library writes for that input, and the input was one archive/tar reads to its end.

import (
	gnutar "archive/tar"
	"bytes"
	"context"
	"fmt"
	"io"
	"math/rand"
	"os"
	"path/filepath"
	"strings"
	"time"

	"github.com/folbricht/desync"
)

// cliTreeWithDirs: a generated tree that has at least one directory with entries in it below the root
func cliTreeWithDirs(rng *rand.Rand, root string) {
	buildDiskTree(rng, root)
	mt := time.Unix(int64(1000000000+rng.Intn(900000000)), int64(rng.Intn(1000000000)))
	d := filepath.Join(root, fmt.Sprintf("dir%d", rng.Intn(100)))
	os.MkdirAll(filepath.Join(d, "inner"), 0755)
	os.WriteFile(filepath.Join(d, "inner", "f"), randBytes(rng, rng.Intn(500)), 0644)
	os.WriteFile(filepath.Join(d, "g"), randBytes(rng, rng.Intn(500)), 0600)
	os.Symlink("g", filepath.Join(d, "l"))
	for _, p := range []string{filepath.Join(d, "inner", "f"), filepath.Join(d, "g"), filepath.Join(d, "inner"), d, root} {
		os.Chtimes(p, mt, mt)
		mt = mt.Add(-time.Duration(rng.Intn(1000000)) * time.Millisecond)
	}
}

func cliGlobalFlags(cfg Config, rep *Report, rng *rand.Rand) {
	bin := desyncBin()
	if bin == "" {
		rep.Notes = append(rep.Notes, "cli.global: no desync binary next to the harness; the global options were not run")
		return
	}
	t0 := time.Now()
	defer func() { rep.Notes = append(rep.Notes, fmt.Sprintf("cli.global: %.1fs", time.Since(t0).Seconds())) }()
	dir := filepath.Join(cfg.Work, "cliglobal")
	os.RemoveAll(dir)
	defer os.RemoveAll(dir)
	os.MkdirAll(dir, 0755)
	cfgFile := filepath.Join(dir, "config.json")
	os.WriteFile(cfgFile, []byte("{}\n"), 0600)
	bad := func(caseLine, what, impl string) {
		rep.Disagree(Disagreement{Kind: "monitor", Case: caseLine, Impl: clip(impl, 1500), What: what})
	}
	sets := [][]string{
		{"--verbose"},
		{"--digest", "sha256"},
		{"--digest", "sha512-256"},
		{"--config", cfgFile},
		{"--verbose", "--digest", "sha256", "--config", cfgFile},
	}
	// the commands of the whole run: one source tree per round, the reference outputs made without any global option
	rounds := cfg.N(2, 6)
	for round := 0; round < rounds; round++ {
		src := filepath.Join(dir, fmt.Sprintf("src%d", round))
		cliTreeWithDirs(rng, src)
		streamOK := tarStreamOK(src)
		tarFile := filepath.Join(dir, "src.tar")
		if streamOK {
			var tb bytes.Buffer
			writeGnuTar(&tb, src)
			os.WriteFile(tarFile, tb.Bytes(), 0644)
		}
		for si, set := range sets {
			for _, after := range []bool{false, true} {
				digest := "sha512-256"
				for i, f := range set {
					if f == "--digest" {
						digest = set[i+1]
					}
				}
				want := snapshotTree(src, true)
				wantNoDir := snapshotTree(src, false)
				// cmdline puts the global options before or after the sub-command and its own arguments
				cmdline := func(sub string, args ...string) []string {
					if after {
						return append(append([]string{sub}, args...), set...)
					}
					return append(append(append([]string{}, set...), sub), args...)
				}
				run := func(args ...string) cliResult { return runCLI(bin, nil, nil, 120*time.Second, args...) }
				pos := map[bool]string{false: "before", true: "after"}[after]
				for _, leg := range []string{"catar", "index", "tar-stream"} {
					if leg == "tar-stream" && !streamOK {
						continue
					}
					work := filepath.Join(dir, "w")
					os.RemoveAll(work)
					dst, storeDir := filepath.Join(work, "dst"), filepath.Join(work, "store")
					os.MkdirAll(dst, 0755)
					os.MkdirAll(storeDir, 0755)
					caseLine := fmt.Sprintf("cli.global round=%d options=[%s] position=%s leg=%s entries=%d", round, strings.Join(set, " "), pos, leg, len(want))
					rep.Count(caseLine, len(want) >= 3, "cli.global", "cli.global:"+leg, "cli.global-set:"+fmt.Sprint(si), "cli.global-pos:"+pos)
					var r1, r2 cliResult
					expect := want
					switch leg {
					case "catar":
						ar := filepath.Join(work, "t.catar")
						if r1 = run(cmdline("tar", ar, src)...); r1.exit == 0 {
							r2 = run(cmdline("untar", ar, dst)...)
						}
					case "index":
						ix := filepath.Join(work, "t.caidx")
						if r1 = run(cmdline("tar", "-i", "-s", storeDir, "-m", "1:2:8", ix, src)...); r1.exit == 0 {
							r2 = run(cmdline("untar", "-i", "-s", storeDir, ix, dst)...)
						}
					case "tar-stream":
						// (the tar stream holds the time stamps of directories in full, of the rest as archive/tar's PAX
						// writer stores them; the comparison is the one the in-process leg of this property makes)
						ar := filepath.Join(work, "t.catar")
						if r1 = run(cmdline("tar", "--input-format", "tar", ar, tarFile)...); r1.exit == 0 {
							r2 = run(cmdline("untar", ar, dst)...)
						}
						expect = wantNoDir
					}
					switch {
					case r1.exit != 0:
						bad(caseLine, "desync tar fails under a global option on a tree it packs without it: "+clip(r1.stderr, 200), "")
						continue
					case r2.exit != 0:
						bad(caseLine, "desync untar fails under a global option on what desync tar wrote: "+clip(r2.stderr, 200), "")
						continue
					}
					got := snapshotTree(dst, leg != "tar-stream")
					if strings.Join(got, "\n") != strings.Join(expect, "\n") {
						bad(caseLine, "desync tar ; desync untar under global options ["+strings.Join(set, " ")+"] does not reproduce the tree on disk (time stamps of directories included)",
							diffLines(expect, got))
					}
					if leg == "tar-stream" {
						// directories too: the tree unpacked under the options against the tree unpacked without them
						ref := filepath.Join(work, "ref")
						os.MkdirAll(ref, 0755)
						if r := run("--digest", digest, "untar", filepath.Join(work, "t.catar"), ref); r.exit == 0 {
							a, b := snapshotTree(ref, true), snapshotTree(dst, true)
							if strings.Join(a, "\n") != strings.Join(b, "\n") {
								bad(caseLine, "desync untar under global options ["+strings.Join(set, " ")+"] leaves a different tree than desync untar without them (time stamps of directories included)",
									diffLines(a, b))
							}
						}
					}
				}
				// the outputs that are not a tree on disk: the same bytes with and without the option
				ar := filepath.Join(dir, "ref.catar")
				if r := run("--digest", digest, "tar", ar, src); r.exit == 0 {
					for _, out := range [][]string{{"untar", "--output-format", "gnu-tar", ar, "-"}, {"mtree", ar}, {"mtree", src}, {"tar", "-", src}} {
						caseLine := fmt.Sprintf("cli.global round=%d options=[%s] position=%s output=%s", round, strings.Join(set, " "), pos, strings.Join(out[:len(out)-1], " "))
						rep.Count(caseLine, true, "cli.global", "cli.global:stdout")
						a := run(append([]string{"--digest", digest}, out...)...)
						b := run(cmdline(out[0], out[1:]...)...)
						if a.exit != b.exit {
							bad(caseLine, fmt.Sprintf("exit status %d under the global options, %d without them", b.exit, a.exit), b.stderr)
						} else if a.exit == 0 && a.stdout != b.stdout {
							bad(caseLine, fmt.Sprintf("the output under the global options (%d bytes) differs from the output without them (%d bytes)", len(b.stdout), len(a.stdout)), "")
						}
					}
				}
			}
		}
		os.RemoveAll(src)
	}
}

// ---------------------------------------------------------------------------------------

// tarStreamReads: archive/tar on its own reads the stream to its end — every header and every byte of every entry
func tarStreamReads(b []byte) (entries int, err error) {
	tr := gnutar.NewReader(bytes.NewReader(b))
	for {
		_, err := tr.Next()
		if err == io.EOF {
			return entries, nil
		}
		if err != nil {
			return entries, err
		}
		if _, err := io.Copy(io.Discard, tr); err != nil {
			return entries, err
		}
		entries++
	}
}

// faultKind: the name of an input without its numbers
func faultKind(name string) string {
	return strings.TrimRight(strings.Map(func(r rune) rune {
		if r >= '0' && r <= '9' {
			return -1
		}
		return r
	}, name), "-")
}

// storedArchive: the bytes an index and a local store hold
func storedArchive(indexFile, storeDir string) ([]byte, error) {
	f, err := os.Open(indexFile)
	if err != nil {
		return nil, err
	}
	defer f.Close()
	idx, err := desync.IndexFromReader(f)
	if err != nil {
		return nil, err
	}
	s, err := desync.NewLocalStore(storeDir, desync.StoreOptions{})
	if err != nil {
		return nil, err
	}
	var out []byte
	for i, c := range idx.Chunks {
		ch, err := s.GetChunk(c.ID)
		if err != nil {
			return nil, fmt.Errorf("chunk %d of the index: %v", i, err)
		}
		b, err := ch.Data()
		if err != nil {
			return nil, fmt.Errorf("chunk %d of the index: %v", i, err)
		}
		if uint64(len(b)) != c.Size || c.Start != uint64(len(out)) {
			return nil, fmt.Errorf("chunk %d of the index: %d bytes at %d, the index says %d at %d", i, len(b), len(out), c.Size, c.Start)
		}
		out = append(out, b...)
	}
	return out, nil
}

func c13CLIFaults(cfg Config, rep *Report, rng *rand.Rand, monitor func(what, caseLine, impl string)) {
	bin := desyncBin()
	if bin == "" {
		return
	}
	t0 := time.Now()
	defer func() { rep.Notes = append(rep.Notes, fmt.Sprintf("cli.tar-fault: %.1fs", time.Since(t0).Seconds())) }()
	dir := filepath.Join(cfg.Work, "cli13f")
	os.RemoveAll(dir)
	defer os.RemoveAll(dir)
	type input struct {
		name   string
		stream []byte // tar-stream input; nil: disk input from path
		path   string
	}
	for it := 0; it < cfg.N(6, 40); it++ {
		os.RemoveAll(dir)
		os.MkdirAll(dir, 0755)
		src := filepath.Join(dir, "src")
		cliTreeWithDirs(rng, src)
		var tb bytes.Buffer
		writeGnuTar(&tb, src)
		full := tb.Bytes()
		cut := func(n int) []byte { return append([]byte{}, full[:n]...) }
		// where the entries end: the two zero blocks of the trailer (and the record padding) follow
		body := len(full)
		for body >= 512 && bytes.Equal(full[body-512:body], make([]byte, 512)) {
			body -= 512
		}
		inputs := []input{
			{name: "disk", path: src},
			{name: "disk-absent", path: filepath.Join(dir, "no-such-directory")},
			{name: "tar-complete", stream: full},
			{name: "tar-empty", stream: []byte{}},
			{name: "tar-garbage-after-trailer", stream: append(cut(len(full)), randBytes(rng, 1+rng.Intn(2000))...)},
		}
		if body >= 1024 {
			n := rng.Intn(body)
			inputs = append(inputs, input{name: fmt.Sprintf("tar-cut-at-%d-of-%d", n, len(full)), stream: cut(n)})
			h := 512 * rng.Intn(body/512) // a block boundary, then into the block
			inputs = append(inputs, input{name: fmt.Sprintf("tar-cut-at-%d-of-%d", h+1+rng.Intn(511), len(full)), stream: cut(h + 1 + rng.Intn(511))})
			inputs = append(inputs, input{name: fmt.Sprintf("tar-cut-at-block-%d-of-%d", h/512, len(full)/512), stream: cut(h)})
			t := body + rng.Intn(len(full)-body+1)
			inputs = append(inputs, input{name: fmt.Sprintf("tar-cut-in-trailer-at-%d-of-%d", t, len(full)), stream: cut(t)})
			g := cut(len(full))
			at := 512 * rng.Intn(body/512)
			copy(g[at:], randBytes(rng, 512))
			inputs = append(inputs, input{name: fmt.Sprintf("tar-garbage-block-%d-of-%d", at/512, len(full)/512), stream: g})
			inputs = append(inputs, input{name: fmt.Sprintf("tar-cut-at-%d-then-garbage", n), stream: append(cut(n), randBytes(rng, 1+rng.Intn(700))...)})
		}
		for ii, in := range inputs {
			// what the library makes of this input, and what archive/tar on its own says about the stream
			var lib bytes.Buffer
			var libErr, streamErr error
			entries := 0
			if in.stream != nil {
				libErr = desync.Tar(context.Background(), &lib, desync.NewTarReader(bytes.NewReader(in.stream), desync.TarReaderOptions{}))
				entries, streamErr = tarStreamReads(in.stream)
			} else {
				libErr = desync.Tar(context.Background(), &lib, desync.NewLocalFS(in.path, desync.LocalFSOptions{}))
			}
			for _, withIndex := range []bool{false, true} {
				for _, stdin := range []bool{false, true} {
					if stdin && (in.stream == nil || (ii+it)%2 == 0 && cfg.Tier == "quick") {
						continue
					}
					work := filepath.Join(dir, "w")
					os.RemoveAll(work)
					storeDir := filepath.Join(work, "store")
					os.MkdirAll(storeDir, 0755)
					var args []string
					out := filepath.Join(work, "out.catar")
					if withIndex {
						out = filepath.Join(work, "out.caidx")
						args = []string{"tar", "-i", "-s", storeDir}
						if rng.Intn(2) == 0 {
							args = append(args, "-m", []string{"1:2:8", "16:64:256", "2:4:4"}[rng.Intn(3)])
						}
					} else {
						args = []string{"tar"}
					}
					var feed []byte
					source := in.path
					if in.stream != nil {
						args = append(args, "--input-format", "tar")
						source = filepath.Join(work, "in.tar")
						if stdin {
							source, feed = "-", in.stream
							if len(feed) == 0 {
								feed = []byte{} // an empty, but present, standard input
							}
						} else {
							os.WriteFile(source, in.stream, 0644)
						}
					}
					args = append(args, out, source)
					caseLine := fmt.Sprintf("cli.tar-fault it=%d input=%s index=%v stdin=%v: desync %s", it, in.name, withIndex, stdin, strings.Join(args, " "))
					r := runCLI(bin, nil, feed, 120*time.Second, args...)
					rep.Count(caseLine, true, "cli.tar-fault", "cli.tar-fault:"+faultKind(in.name), fmt.Sprintf("cli.tar-fault-index:%v", withIndex),
						fmt.Sprintf("cli.tar-fault-exit0:%v", r.exit == 0))
					if r.exit == -1 {
						monitor("desync tar did not finish within two minutes", caseLine, clip(r.stderr, 300))
						continue
					}
					if r.exit != 0 {
						if libErr == nil && streamErr == nil && (in.stream == nil || len(in.stream) == len(full) && bytes.Equal(in.stream, full)) {
							monitor("desync tar fails on a complete input the library packs: "+clip(r.stderr, 200), caseLine, "")
						}
						continue
					}
					// exit 0: what was stored is the archive of the input
					var got []byte
					var err error
					if withIndex {
						got, err = storedArchive(out, storeDir)
					} else {
						got, err = os.ReadFile(out)
					}
					switch {
					case err != nil:
						monitor("desync tar exits 0 but what it stored cannot be read back: "+err.Error(), caseLine, "")
					case catarWellFormed(got) != nil:
						monitor(fmt.Sprintf("desync tar exits 0 and the archive it stored (%d bytes) is not a well-formed catar: %v", len(got), catarWellFormed(got)), caseLine, "")
					case streamErr != nil:
						monitor(fmt.Sprintf("desync tar exits 0 on a tar stream that does not read to its end (archive/tar after %d entries: %v): the archive stored is not the archive of the input", entries, streamErr), caseLine, "")
					case libErr != nil:
						monitor("desync tar exits 0 on an input the library's Tar refuses ("+libErr.Error()+")", caseLine, "")
					case !bytes.Equal(got, lib.Bytes()):
						monitor(fmt.Sprintf("desync tar exits 0 and the archive it stored (%d bytes) is not the archive of the input (%d bytes)", len(got), lib.Len()), caseLine, "")
					}
				}
			}
		}
	}
}
