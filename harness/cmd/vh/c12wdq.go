package main

// Trace validation of WriteDedupQueue (StoreChunk / GetChunk / HasChunk on ONE queue) and of
// DedupQueue.HasChunk (C12).  The callers run under a cooperative scheduler installed through the
// verifYieldID hook sites (wdq.store.*, wdq.get.*, dedup.get.*, dedup.has.*; build tag verif) and
// a scripted upstream store whose every call is a scheduling point: exactly one goroutine runs
// between two hook calls (the one exception is a leader's markDone step, in which the callers
// already blocked in wait() on that request run to their next hook as well; they touch no shared
// state on the way).  Whether a caller is blocked is derived from the trace (which request it
// joined, whether that request's leader has run markDone) — time-outs are only used to notice a
// caller that never comes back (reported as a deadlock), never for a scheduling decision.
// The totally ordered events are replayed through the Lean machines: `wdq.accept` (WdqSys.step =
// WDedup.step for the write queue + Dedup.step per kind for the embedded DedupQueue) and
// `dedup.accept` (plain DedupQueue, one machine per kind), and each caller's result is compared
// with the machine's.  A case line carries the scheduler's picks (`sched=`), so that a replay
// re-executes the same schedule on the real code.

import (
	"errors"
	"fmt"
	"math/rand"
	"sort"
	"strconv"
	"strings"
	"sync"
	"time"

	"github.com/folbricht/desync"
)

type coCaller struct {
	kind  byte // 'W' StoreChunk, 'R' GetChunk, 'H' HasChunk
	id, d int
}

type coArrival struct {
	t    int
	site string
}

type coSched struct {
	mu     sync.Mutex
	gids   map[int]int
	arrive chan coArrival
	resume []chan int
}

func (s *coSched) yield(site string) int {
	s.mu.Lock()
	t, ok := s.gids[goid()]
	s.mu.Unlock()
	if !ok {
		return 0
	}
	s.arrive <- coArrival{t, site}
	return <-s.resume[t]
}

var (
	errCoStoreA = errors.New("scripted upstream store failure A")
	errCoStoreB = errors.New("scripted upstream store failure B")
	errCoGet    = errors.New("scripted upstream read failure")
	errCoHas    = errors.New("scripted upstream lookup failure")
)

func coErrCode(err error) int {
	switch {
	case err == nil:
		return 0
	case err == errCoStoreA:
		return 1
	case err == errCoStoreB:
		return 2
	case err == errCoGet:
		return 3
	case err == errCoHas:
		return 5
	}
	if _, ok := err.(desync.ChunkMissing); ok {
		return 4
	}
	return 9
}

func coID(i int) desync.ChunkID { var id desync.ChunkID; id[0] = byte(i); return id }

// coStore is the scripted upstream store: every call is a scheduling point and the scheduler
// chooses what it answers.
//
//	StoreChunk: 0 nil, 1 failure A, 2 failure B
//	GetChunk:   0 missing, 1 failure, 10+d a chunk whose data carry d
//	HasChunk:   bit 0 the answer, bit 1 an error next to it
type coStore struct{ s *coSched }

func (u coStore) StoreChunk(c *desync.Chunk) error {
	switch u.s.yield("up.store") {
	case 0:
		return nil
	case 1:
		return errCoStoreA
	default:
		return errCoStoreB
	}
}
func (u coStore) GetChunk(id desync.ChunkID) (*desync.Chunk, error) {
	switch v := u.s.yield("up.get"); {
	case v == 0:
		return nil, desync.ChunkMissing{ID: id}
	case v >= 10:
		return desync.NewChunkWithID(id, []byte{id[0], byte(v - 10), 7}, true)
	default:
		return nil, errCoGet
	}
}
func (u coStore) HasChunk(id desync.ChunkID) (bool, error) {
	v := u.s.yield("up.has")
	var err error
	if v&2 != 0 {
		err = errCoHas
	}
	return v&1 != 0, err
}
func (u coStore) Close() error   { return nil }
func (u coStore) String() string { return "coop" }

// what a caller brought back
type coResult struct {
	chunk int // data carried by the returned chunk; -1 = nil chunk, -2 = unreadable
	has   bool
	err   int
	panic bool
}

type coRun struct {
	events   []string // in the notation of wdq.accept
	kinds    []string
	final    []string // per caller, in caller order
	picks    []string
	deadlock string
	problems []string // monitors on the implementation alone
	midx     []int    // caller -> its number in the machine
}

// coPicker chooses the next caller to run among the ready ones and the upstream answer
type coPicker interface {
	hold(t int) bool // keep a follower parked at its join site until its leader has published
	pick(ready []int, site func(int) string) (t, v int, ok bool)
}

type coRandom struct {
	rng    *rand.Rand
	policy int
	prio   []int
	low    int
	last   int
	holds  []bool
}

func newCoRandom(rng *rand.Rand, n int) *coRandom {
	p := &coRandom{rng: rng, policy: rng.Intn(4), prio: rng.Perm(n), last: -1, holds: make([]bool, n)}
	for i := range p.holds {
		p.holds[i] = rng.Intn(2) == 0
	}
	return p
}

func (p *coRandom) hold(t int) bool { return p.holds[t] }

func (p *coRandom) pick(ready []int, site func(int) string) (int, int, bool) {
	t := ready[0]
	switch p.policy {
	case 0: // uniform
		t = ready[p.rng.Intn(len(ready))]
	case 1: // priorities with change points
		for _, a := range ready {
			if p.prio[a] > p.prio[t] {
				t = a
			}
		}
		if p.rng.Intn(5) == 0 {
			p.low--
			p.prio[t] = p.low
		}
	case 2: // later callers first
		t = ready[len(ready)-1]
		if p.rng.Intn(8) == 0 {
			t = ready[p.rng.Intn(len(ready))]
		}
	default: // bursts: stay with the caller that ran last
		t = ready[p.rng.Intn(len(ready))]
		if p.rng.Intn(4) != 0 {
			for _, a := range ready {
				if a == p.last {
					t = a
				}
			}
		}
	}
	p.last = t
	v := 0
	switch site(t) {
	case "up.store":
		if p.rng.Intn(5) >= 3 {
			v = 1 + p.rng.Intn(2)
		}
	case "up.get":
		switch p.rng.Intn(4) {
		case 0:
			v = 0
		case 1:
			v = 1
		default:
			v = 10 + p.rng.Intn(4)
		}
	case "up.has":
		v = p.rng.Intn(4)
		if p.rng.Intn(3) == 0 {
			v &= 1
		}
	}
	return t, v, true
}

type coForced struct {
	picks []string
	k     int
}

func (p *coForced) hold(t int) bool { return false }
func (p *coForced) pick(ready []int, site func(int) string) (int, int, bool) {
	if p.k >= len(p.picks) {
		return 0, 0, false
	}
	f := strings.Split(p.picks[p.k], ".")
	p.k++
	t, _ := strconv.Atoi(f[0])
	v := 0
	if len(f) > 1 {
		v, _ = strconv.Atoi(f[1])
	}
	for _, a := range ready {
		if a == t {
			return t, v, true
		}
	}
	return 0, 0, false
}

// queue and phase of a hook site
func coSite(site string) (mach string, phase string) {
	i := strings.LastIndexByte(site, '.')
	if i < 0 {
		return "", site
	}
	switch site[:i] {
	case "wdq.store":
		return "w", site[i+1:]
	case "wdq.get":
		return "r", site[i+1:]
	case "dedup.get":
		return "g", site[i+1:]
	case "dedup.has":
		return "h", site[i+1:]
	}
	return "", site
}

// runCoop runs the callers on one WriteDedupQueue (plain = false) or one DedupQueue (plain = true: 'R'
// callers call DedupQueue.GetChunk directly) under the schedule chosen by p
func runCoop(callers []coCaller, plain bool, p coPicker) coRun {
	n := len(callers)
	s := &coSched{gids: map[int]int{}, arrive: make(chan coArrival, 64), resume: make([]chan int, n)}
	var run coRun
	run.midx = make([]int, n)
	nw, nh := 0, 0
	for t, c := range callers {
		if c.kind == 'H' {
			run.midx[t] = nh
			nh++
		} else {
			run.midx[t] = nw
			nw++
		}
	}
	up := coStore{s}
	var q interface {
		GetChunk(desync.ChunkID) (*desync.Chunk, error)
		HasChunk(desync.ChunkID) (bool, error)
	}
	var wq *desync.WriteDedupQueue
	if plain {
		q = desync.NewDedupQueue(up)
	} else {
		wq = desync.NewWriteDedupQueue(up)
		q = wq
	}
	desync.VerifYieldID = func(site string, id desync.ChunkID) { s.yield(site) }
	defer func() { desync.VerifYieldID = nil }()

	results := make([]coResult, n)
	finished := make(chan int, n)
	at := make([]string, n)     // the site a parked caller is at
	status := make([]string, n) // parked | waiting | running | finished
	for t := 0; t < n; t++ {
		s.resume[t] = make(chan int)
		at[t], status[t] = "start", "parked"
		t, c := t, callers[t]
		go func() {
			s.mu.Lock()
			s.gids[goid()] = t
			s.mu.Unlock()
			<-s.resume[t]
			defer func() {
				if r := recover(); r != nil {
					results[t].panic = true
				}
				finished <- t
			}()
			switch c.kind {
			case 'W':
				chunk, _ := desync.NewChunkWithID(coID(c.id), []byte{byte(c.id), byte(c.d), 7}, true)
				results[t].err = coErrCode(wq.StoreChunk(chunk))
			case 'R':
				ch, err := q.GetChunk(coID(c.id))
				results[t].err = coErrCode(err)
				results[t].chunk = -1
				if ch != nil {
					if b, e := ch.Data(); e == nil && len(b) == 3 {
						results[t].chunk = int(b[1])
					} else {
						results[t].chunk = -2
					}
				}
			case 'H':
				ok, err := q.HasChunk(coID(c.id))
				results[t].has, results[t].err = ok, coErrCode(err)
			}
		}()
	}
	for {
		s.mu.Lock()
		reg := len(s.gids)
		s.mu.Unlock()
		if reg == n {
			break
		}
		time.Sleep(50 * time.Microsecond)
	}

	inflight := map[string]int{} // kind+id -> upstream calls in flight
	leaderOf := map[string]int{} // queue+id -> the caller registered as its leader
	joined := make([]int, n)     // follower -> the leader whose request it joined (-1: none known)
	marked := make([]bool, n)    // leader -> markDone has run
	lastUp := make([]int, n)     // what the caller's upstream call was told to answer
	path := make([]string, n)    // reader: "J" joined a write, "P" passed
	for i := range joined {
		joined[i] = -1
	}
	key := func(mach string, t int) string {
		if mach == "r" {
			mach = "w" // a reader looks at the write queue
		}
		return mach + ":" + strconv.Itoa(callers[t].id)
	}
	ev := func(mach, op string, t int, v ...int) {
		e := op + ":" + strconv.Itoa(run.midx[t])
		for _, x := range v {
			e += ":" + strconv.Itoa(x)
		}
		_ = mach
		run.events = append(run.events, e)
	}
	note := func(a coArrival) {
		t := a.t
		if a.site == "finished" {
			status[t] = "finished"
			return
		}
		status[t], at[t] = "parked", a.site
		mach, phase := coSite(a.site)
		switch {
		case mach == "":
			k := strings.TrimPrefix(a.site, "up.") + ":" + strconv.Itoa(callers[t].id)
			inflight[k]++
			if inflight[k] > 1 {
				run.problems = append(run.problems, "two upstream "+strings.TrimPrefix(a.site, "up.")+" requests for one chunk ID were in flight at the same time")
			}
		case mach == "r":
			switch phase {
			case "join":
				ev(mach, "rp", t)
				run.kinds = append(run.kinds, "RJ")
				path[t] = "J"
				if l, ok := leaderOf[key(mach, t)]; ok {
					joined[t] = l
				}
			case "pass":
				ev(mach, "rp", t)
				run.kinds = append(run.kinds, "RP")
				path[t] = "P"
			case "woke":
				ev(mach, "rw", t)
			}
		default:
			pre := mach // event prefix: w / g / h
			switch phase {
			case "lead":
				ev(mach, pre+"c", t)
				run.kinds = append(run.kinds, strings.ToUpper(pre)+"L")
				leaderOf[key(mach, t)] = t
			case "join":
				ev(mach, pre+"c", t)
				run.kinds = append(run.kinds, strings.ToUpper(pre)+"F")
				if l, ok := leaderOf[key(mach, t)]; ok {
					joined[t] = l
				}
			case "upret":
				ev(mach, pre+"u", t, lastUp[t])
			case "marked":
				ev(mach, pre+"m", t)
			case "deleted":
				ev(mach, pre+"d", t)
				if l, ok := leaderOf[key(mach, t)]; ok && l == t {
					delete(leaderOf, key(mach, t))
				}
			case "woke":
				ev(mach, pre+"w", t)
			}
		}
	}
	// runN resumes caller t with value v and waits for `expect` callers to reach their next hook (or the end);
	// arrivals of one step are ordered marked-before-woke, the order the close of the channel imposes (the wake-ups
	// of one step commute: each only reads the published request)
	runN := func(t, v, expect int) bool {
		status[t] = "running"
		s.resume[t] <- v
		var arrs []coArrival
		for i := 0; i < expect; i++ {
			select {
			case a := <-s.arrive:
				arrs = append(arrs, a)
			case f := <-finished:
				arrs = append(arrs, coArrival{f, "finished"})
			case <-time.After(5 * time.Second):
				for _, a := range arrs {
					note(a)
				}
				return false
			}
		}
		sort.SliceStable(arrs, func(i, j int) bool { // the woken callers by number: the record does not depend on who was faster
			mi, mj := strings.HasSuffix(arrs[i].site, ".marked"), strings.HasSuffix(arrs[j].site, ".marked")
			if mi != mj {
				return mi
			}
			return arrs[i].t < arrs[j].t
		})
		for _, a := range arrs {
			note(a)
		}
		return true
	}
	blockedAtJoin := func(t int) bool {
		_, phase := coSite(at[t])
		return phase == "join" && joined[t] >= 0 && !marked[joined[t]]
	}
	for {
		var ready []int
		for t := 0; t < n; t++ {
			if status[t] == "parked" && !(blockedAtJoin(t) && p.hold(t)) {
				ready = append(ready, t)
			}
		}
		if len(ready) == 0 {
			for t := 0; t < n; t++ {
				if status[t] != "finished" && run.deadlock == "" {
					run.deadlock = fmt.Sprintf("caller %d never returned (%s at %s)", t, status[t], at[t])
				}
			}
			break
		}
		t, v, ok := p.pick(ready, func(t int) string { return at[t] })
		if !ok {
			run.deadlock = "the forced schedule does not fit this run"
			break
		}
		_, phase := coSite(at[t])
		switch {
		case strings.HasPrefix(at[t], "up."):
			run.picks = append(run.picks, fmt.Sprintf("%d.%d", t, v))
			inflight[strings.TrimPrefix(at[t], "up.")+":"+strconv.Itoa(callers[t].id)]--
			lastUp[t] = v
			ok = runN(t, v, 1)
		case blockedAtJoin(t):
			// enters wait() and blocks there until its leader's markDone; it runs again in that step
			run.picks = append(run.picks, strconv.Itoa(t))
			status[t] = "waiting"
			s.resume[t] <- 0
		case phase == "upret":
			// this step runs markDone: the leader and every caller blocked in wait() on its request run
			run.picks = append(run.picks, strconv.Itoa(t))
			marked[t] = true
			cnt := 1
			for f := 0; f < n; f++ {
				if status[f] == "waiting" && joined[f] == t {
					status[f] = "running"
					cnt++
				}
			}
			ok = runN(t, 0, cnt)
		default:
			run.picks = append(run.picks, strconv.Itoa(t))
			ok = runN(t, 0, 1)
		}
		if !ok {
			run.deadlock = fmt.Sprintf("no caller reached its next hook within 5 s after caller %d was resumed at %s", t, at[t])
			break
		}
	}
	// results, in the machine's notation, and the monitors that need no model
	run.final = make([]string, n)
	for t, c := range callers {
		r := results[t]
		switch {
		case status[t] != "finished":
			run.final[t] = "unfinished"
		case r.panic:
			run.final[t] = "panic"
		case c.kind == 'W':
			run.final[t] = fmt.Sprintf("w:%d", r.err)
		case c.kind == 'H':
			b := 0
			if r.has {
				b = 1
			}
			switch r.err {
			case 0:
				run.final[t] = fmt.Sprintf("h:%d", b)
			case 5:
				run.final[t] = fmt.Sprintf("h:%d", b+2)
			default:
				run.final[t] = fmt.Sprintf("h:?%v/%d", r.has, r.err)
			}
		case path[t] == "J":
			ch := strconv.Itoa(r.chunk)
			if r.chunk < 0 {
				ch = map[int]string{-1: "nil", -2: "unreadable"}[r.chunk]
			}
			run.final[t] = fmt.Sprintf("rj:%s:%d", ch, r.err)
			if l := joined[t]; l >= 0 && callers[l].kind == 'W' && run.deadlock == "" {
				if r.chunk != callers[l].d {
					run.problems = append(run.problems, fmt.Sprintf("a read that found a write of its chunk in flight returned chunk %s; the write in flight carried data %d", ch, callers[l].d))
				}
				if r.err != lastUp[l] {
					run.problems = append(run.problems, fmt.Sprintf("a read that joined a write returned error %d; the upstream StoreChunk returned %d", r.err, lastUp[l]))
				}
			}
		default: // went through the read path
			switch {
			case r.chunk == -1 && r.err == 4:
				run.final[t] = "rp:0"
			case r.chunk == -1 && r.err == 3:
				run.final[t] = "rp:1"
			case r.chunk >= 0 && r.err == 0:
				run.final[t] = fmt.Sprintf("rp:%d", 10+r.chunk)
			default:
				run.final[t] = fmt.Sprintf("rp:?%d/%d", r.chunk, r.err)
			}
		}
		if c.kind == 'W' && status[t] == "finished" && !r.panic && run.deadlock == "" {
			l := t
			if joined[t] >= 0 {
				l = joined[t]
			}
			if r.err != lastUp[l] {
				run.problems = append(run.problems, fmt.Sprintf("StoreChunk returned error %d; the upstream StoreChunk of the request it used returned %d", r.err, lastUp[l]))
			}
		}
	}
	return run
}

func (c coCaller) role() string {
	if c.kind == 'W' {
		return fmt.Sprintf("W%d.%d", c.id, c.d)
	}
	return fmt.Sprintf("R%d", c.id)
}

// wdqLine builds the case line and the answer expected from the machine for a run on a WriteDedupQueue
func wdqLine(callers []coCaller, run coRun) (line, want string) {
	var roles, has, fw, fh []string
	for t, c := range callers {
		if c.kind == 'H' {
			has = append(has, strconv.Itoa(c.id))
			fh = append(fh, run.final[t])
		} else {
			roles = append(roles, c.role())
			fw = append(fw, run.final[t])
		}
	}
	line = fmt.Sprintf("wdq.accept roles=%s has=%s events=%s sched=%s", strings.Join(roles, ","), strings.Join(has, ","),
		strings.Join(run.events, ","), strings.Join(run.picks, ","))
	want = "accept kinds=" + strings.Join(run.kinds, ".") + " final=" + strings.Join(fw, ",") + ";" + strings.Join(fh, ",")
	return
}

// dqLines: a run on a plain DedupQueue gives one dedup.accept case per kind of request
func dqLines(callers []coCaller, run coRun) (lines, wants []string) {
	for _, kind := range []byte{'H', 'R'} {
		pre := map[byte]string{'H': "h", 'R': "g"}[kind]
		var ids, fin, evs []string
		kinds := ""
		for t, c := range callers {
			if c.kind == kind {
				ids = append(ids, strconv.Itoa(c.id))
				fin = append(fin, "ret:"+strings.TrimPrefix(strings.TrimPrefix(run.final[t], "h:"), "rp:"))
			}
		}
		if len(ids) == 0 {
			continue
		}
		for _, e := range run.events {
			if strings.HasPrefix(e, pre) {
				evs = append(evs, e[1:])
			}
		}
		for _, k := range run.kinds {
			if strings.HasPrefix(k, strings.ToUpper(pre)) {
				kinds += k[1:]
			}
		}
		lines = append(lines, fmt.Sprintf("dedup.accept ids=%s events=%s kind=%s", strings.Join(ids, ","), strings.Join(evs, ","),
			map[byte]string{'H': "HasChunk", 'R': "GetChunk"}[kind]))
		wants = append(wants, "accept kinds="+kinds+" final="+strings.Join(fin, ","))
	}
	return
}

func parseCoCallers(roles, has string) []coCaller {
	var cs []coCaller
	if roles != "" {
		for _, r := range strings.Split(roles, ",") {
			f := strings.Split(r[1:], ".")
			id, _ := strconv.Atoi(f[0])
			d := 0
			if len(f) > 1 {
				d, _ = strconv.Atoi(f[1])
			}
			cs = append(cs, coCaller{kind: r[0], id: id, d: d})
		}
	}
	if has != "" {
		for _, h := range strings.Split(has, ",") {
			id, _ := strconv.Atoi(h)
			cs = append(cs, coCaller{kind: 'H', id: id})
		}
	}
	return cs
}

// implWdqAccept re-executes a recorded schedule on the real code (replay): the answer is what the machine must
// say about the case line if the implementation still produces the line's events under that schedule
func implWdqAccept(line string) string {
	_, a := parseCase(line)
	callers := parseCoCallers(a["roles"], a["has"])
	// in a case line the writers and readers come first, then the HasChunk callers: the schedule numbers
	// callers in generation order, which `order=` restores
	if o := a["order"]; o != "" {
		var re []coCaller
		wi, hi := 0, 0
		var ws, hs []coCaller
		for _, c := range callers {
			if c.kind == 'H' {
				hs = append(hs, c)
			} else {
				ws = append(ws, c)
			}
		}
		for _, k := range o {
			if k == 'H' {
				re = append(re, hs[hi])
				hi++
			} else {
				re = append(re, ws[wi])
				wi++
			}
		}
		callers = re
	}
	var picks []string
	if a["sched"] != "" {
		picks = strings.Split(a["sched"], ",")
	}
	run := runCoop(callers, false, &coForced{picks: picks})
	l2, want := wdqLine(callers, run)
	if run.deadlock != "" {
		return "deadlock: " + run.deadlock
	}
	_, a2 := parseCase(l2)
	if a2["events"] != a["events"] {
		return "other-events=" + a2["events"]
	}
	return want
}

// runC12Wdq: the trace validation part of C12 for WriteDedupQueue and DedupQueue.HasChunk
func runC12Wdq(cfg Config, rep *Report, m *Model, rng *rand.Rand) {
	monitor := func(what, caseLine string) {
		rep.Disagree(Disagreement{Kind: "monitor", Case: caseLine, What: what})
	}
	bucket := func(n int) string {
		switch {
		case n < 10:
			return "<10"
		case n < 20:
			return "10-19"
		case n < 40:
			return "20-39"
		}
		return ">=40"
	}
	// a caller that does not come back costs a 5 s wait: three such runs are evidence enough
	stuck := 0
	// (1) mixed workloads on one WriteDedupQueue
	for it := 0; it < cfg.N(320, 6000) && stuck < 3; it++ {
		n := 2 + rng.Intn(6)
		nid := 1 + rng.Intn(2)
		if rng.Intn(8) == 0 {
			nid = 3
		}
		callers := make([]coCaller, n)
		order := ""
		for i := range callers {
			c := coCaller{id: 1 + rng.Intn(nid)}
			switch x := rng.Intn(10); {
			case x < 4:
				c.kind, c.d = 'W', rng.Intn(3)
			case x < 8:
				c.kind = 'R'
			default:
				c.kind = 'H'
			}
			callers[i] = c
			order += string(c.kind)
		}
		p := newCoRandom(rng, n)
		run := runCoop(callers, false, p)
		line, want := wdqLine(callers, run)
		line += " order=" + order
		joins := 0
		for _, k := range run.kinds {
			if k[1] == 'F' || k == "RJ" {
				joins++
			}
		}
		tags := []string{"wdq-trace", fmt.Sprintf("wdq-policy:%d", p.policy), "wdq-events:" + bucket(len(run.events)), fmt.Sprintf("wdq-callers:%d", n)}
		cnt := func(k string) int {
			c := 0
			for _, x := range run.kinds {
				if x == k {
					c++
				}
			}
			return c
		}
		if cnt("RJ") > 0 {
			tags = append(tags, "wdq-read-overlaps-write")
		}
		if cnt("WF") > 0 {
			tags = append(tags, "wdq-write-joins-write")
		}
		if cnt("GF") > 0 {
			tags = append(tags, "wdq-read-joins-read")
		}
		if cnt("HF") > 0 {
			tags = append(tags, "wdq-has-joins-has")
		}
		if cnt("WL") > 1 {
			tags = append(tags, "wdq-several-write-requests")
		}
		failed, after := false, false
		var wcallers []coCaller // the callers of the write queue's machine, by machine number
		for _, c := range callers {
			if c.kind != 'H' {
				wcallers = append(wcallers, c)
			}
		}
		// stale: a read that starts after a write of its chunk has finished joins a read request that is older than
		// the end of that write (it is handed whatever that request's upstream call answers; cmd/staleread shows it
		// on a real store) — allowed by the property as worded, counted here
		stale := false
		deleted := map[int]bool{}
		wroteAt := map[int]int{} // id -> index of the last wd
		gLeadAt := map[int]int{} // id -> index of the gc of the read request in flight
		lookAt := map[int]int{}  // reader -> index of its rp
		for i, e := range run.events {
			f := strings.Split(e, ":")
			mi, _ := strconv.Atoi(f[1])
			switch f[0] {
			case "wu":
				failed = failed || f[2] != "0"
			case "wd":
				deleted[wcallers[mi].id] = true
				wroteAt[wcallers[mi].id] = i + 1
			case "rp":
				after = after || deleted[wcallers[mi].id]
				lookAt[mi] = i + 1
			case "gc":
				id := wcallers[mi].id
				if l, ok := gLeadAt[id]; ok { // joins the request in flight
					if w := wroteAt[id]; w > 0 && l < w && w < lookAt[mi] {
						stale = true
					}
				} else {
					gLeadAt[id] = i + 1
				}
			case "gd":
				delete(gLeadAt, wcallers[mi].id)
			}
		}
		if stale {
			tags = append(tags, "wdq-read-after-finished-write-joins-older-read")
		}
		if failed {
			tags = append(tags, "wdq-failed-write")
		}
		if after {
			tags = append(tags, "wdq-read-after-write-finished")
		}
		rep.Count(line, joins > 0, tags...)
		rep.Traces++
		if run.deadlock != "" {
			what := "WriteDedupQueue under a cooperative schedule: deadlock / lost wake-up: " + run.deadlock
			if m.cmd != nil { // what the machine says about the events recorded up to there
				if got := m.Ask(line); !strings.HasPrefix(got, "accept") {
					what += "; the machine about the recorded events: " + got
				} else if !strings.HasPrefix(got, strings.SplitN(want, " final=", 2)[0]+" ") {
					what += "; calls resolved (leader/follower, joined/passed) in the implementation: " + strings.Join(run.kinds, ".") + ", in the machine: " + got
				}
			}
			monitor(what, line)
			stuck++
			continue
		}
		for _, pr := range run.problems {
			monitor("WriteDedupQueue under a cooperative schedule: "+pr, line)
		}
		if m.cmd == nil {
			continue
		}
		if got := m.Ask(line); got != want {
			rep.Disagree(Disagreement{Kind: "correspondence", Case: line, Model: got, Impl: want,
				What: "the event trace of the real WriteDedupQueue is not a behaviour of the machine (or a caller's result differs)"})
		}
	}
	// (2) HasChunk (and GetChunk next to it) on one plain DedupQueue: one machine per kind
	for it := 0; it < cfg.N(120, 2400) && stuck < 6; it++ {
		n := 1 + rng.Intn(6)
		nid := 1 + rng.Intn(2)
		callers := make([]coCaller, n)
		for i := range callers {
			callers[i] = coCaller{kind: 'H', id: 1 + rng.Intn(nid)}
			if i > 0 && rng.Intn(5) == 0 {
				callers[i].kind = 'R'
			}
		}
		p := newCoRandom(rng, n)
		run := runCoop(callers, true, p)
		lines, wants := dqLines(callers, run)
		hf := 0
		for _, k := range run.kinds {
			if k == "HF" {
				hf++
			}
		}
		if len(lines) == 0 {
			continue
		}
		for i, line := range lines {
			isHas := strings.HasSuffix(line, "kind=HasChunk")
			if isHas {
				rep.Count(line, hf > 0, "has-trace", fmt.Sprintf("has-followers:%d", hf), fmt.Sprintf("has-policy:%d", p.policy))
				rep.Traces++
			} else {
				rep.Count(line, false, "has-trace-get-next-to-it")
			}
			if run.deadlock != "" {
				if i == 0 {
					monitor("DedupQueue.HasChunk under a cooperative schedule: deadlock / lost wake-up: "+run.deadlock, line)
					stuck++
				}
				continue
			}
			if i == 0 {
				for _, pr := range run.problems {
					monitor("DedupQueue under a cooperative schedule: "+pr, line)
				}
			}
			if m.cmd == nil {
				continue
			}
			if got := m.Ask(line); got != wants[i] {
				rep.Disagree(Disagreement{Kind: "correspondence", Case: line, Model: got, Impl: wants[i],
					What: "the event trace of the real DedupQueue is not a behaviour of the machine of its kind (or a caller's result differs)"})
			}
		}
	}
}
