package main

// Behavioural correspondence for the S3 and SFTP CHUNK stores (s3.go, sftp.go) with Model/RemoteStores.lean.
//
//   s3.store / s3.get / s3.has : the real desync.S3Store against the in-process S3 service (s3fake.go) that answers
//       the requests for the chunk's key as a script says, one entry per request; ErrorRetry 0..3.  Compared with the
//       model: the result, the NUMBER OF REQUESTS the service saw, and the object afterwards.  Only answers minio-go
//       does not retry by itself are scripted (403, 404, 507, a body shorter than announced): 429/500/502/503/504 and
//       the codes InternalError, SlowDown, RequestTimeout, … are retried inside minio up to 10 times with a back-off
//       of seconds before S3Store sees anything.
//   sftp.store / sftp.get / sftp.has : the real desync.SFTPStore (ONE pooled connection) against pkg/sftp's server
//       (a child process, as in c03.go / c16.go), with obstacles in the served file system: the fan-out directory
//       missing, or a regular file in its place, the store's root gone, a directory in place of the chunk file, and a
//       server whose files cannot grow beyond k bytes (RLIMIT_FSIZE in the server process: `io.Copy` fails after k bytes).
//       Compared: the result, the content under the final name, what is left under a temp name (final name followed
//       by digits).  After every operation — failed or not — a further request must be answered: a connection that
//       was not put back would block it for ever (`pool=blocked`).
//
// Every case line carries both the scenario for the implementation and the step outcomes that scenario stands for
// in the model (e.g. scen=final-is-dir ⇒ rename=0): that mapping is this file's claim about the file system.

import (
	"bytes"
	"fmt"
	"math/rand"
	"net/url"
	"os"
	"os/signal"
	"path/filepath"
	"strconv"
	"strings"
	"syscall"
	"time"

	"github.com/folbricht/desync"
)

var remoteWork string // a scratch directory (set by the run functions; a temp dir under replay)

func remoteDir() string {
	if remoteWork == "" {
		d, err := os.MkdirTemp("", "vh-remote")
		if err != nil {
			fatal(err)
		}
		remoteWork = d
	}
	os.MkdirAll(remoteWork, 0755)
	return remoteWork
}

func s3ChunkKey(id desync.ChunkID, comp bool) string {
	s := id.String()
	ext := ""
	if comp {
		ext = ".cacnk"
	}
	return "c/" + s[:4] + "/" + s + ext
}

func countLog(f *fakeS3, entry string) int {
	f.mu.Lock()
	defer f.mu.Unlock()
	n := 0
	for _, l := range f.log {
		if l == entry {
			n++
		}
	}
	return n
}

func splitScript(s string) []string {
	if s == "" {
		return nil
	}
	return strings.Split(s, ",")
}

// s3.store retry= script= pre= data= comp=
func implS3Store(line string) string {
	_, a := parseCase(line)
	return guard(func() string {
		setDigest("sha512")
		comp := a["comp"] == "1"
		data := unhx(a["data"])
		chunk := desync.NewChunk(data)
		key := s3ChunkKey(chunk.ID(), comp)
		f := newFakeS3()
		defer f.Close()
		var pre []byte
		if a["pre"] != "-" {
			pre = unhx(a["pre"])
			f.put("bkt", key, pre)
		}
		f.script["PUT "+key] = splitScript(a["script"])
		var retry int
		fmt.Sscan(a["retry"], &retry)
		st, err := f.chunkStore("bkt", "c/", desync.StoreOptions{ErrorRetry: retry, Uncompressed: !comp})
		if err != nil {
			return "setup: " + err.Error()
		}
		res := "ok"
		if err := st.StoreChunk(chunk); err != nil {
			res = "error"
		}
		f.mu.Lock()
		obj, present := f.objects["bkt/"+key]
		f.mu.Unlock()
		state := "none"
		if present {
			want := data
			if comp {
				want, _ = desync.Compress(data)
			}
			switch {
			case bytes.Equal(obj, want):
				state = "new"
			case pre != nil && bytes.Equal(obj, pre):
				state = "old"
			default:
				state = "other:" + hx(obj)
			}
		}
		return fmt.Sprintf("res=%s puts=%d obj=%s", res, countLog(f, "PUT "+key), state)
	})
}

// s3.get retry= script= id= raw= dec= comp= skip= alg=
func implS3Get(line string) string {
	_, a := parseCase(line)
	return guard(func() string {
		setDigest(a["alg"])
		defer setDigest("sha512")
		comp, skip := a["comp"] == "1", a["skip"] == "1"
		var id desync.ChunkID
		copy(id[:], unhx(a["id"]))
		key := s3ChunkKey(id, comp)
		f := newFakeS3()
		defer f.Close()
		f.put("bkt", key, unhx(a["raw"]))
		f.script["GET "+key] = splitScript(a["script"])
		var retry int
		fmt.Sscan(a["retry"], &retry)
		st, err := f.chunkStore("bkt", "c/", desync.StoreOptions{ErrorRetry: retry, Uncompressed: !comp, SkipVerify: skip})
		if err != nil {
			return "setup: " + err.Error()
		}
		return fmt.Sprintf("%s gets=%d", getResult(st, id), countLog(f, "GET "+key))
	})
}

// s3.has stat=found|notfound|failure
func implS3Has(line string) string {
	_, a := parseCase(line)
	return guard(func() string {
		setDigest("sha512")
		id := desync.Digest.Sum([]byte("has"))
		key := s3ChunkKey(id, true)
		f := newFakeS3()
		defer f.Close()
		switch a["stat"] {
		case "found":
			f.put("bkt", key, []byte("x"))
		case "failure":
			f.script["HEAD "+key] = []string{a["status"]}
		}
		st, err := f.chunkStore("bkt", "c/", desync.StoreOptions{})
		if err != nil {
			return "setup: " + err.Error()
		}
		has, herr := st.HasChunk(id)
		return fmt.Sprintf("has=%d err=%d", b2i(has), b2i(herr != nil))
	})
}

// ---------------------------------------------------------------------------------------------------------------

// sftpServerLimits runs in the SFTP server child: VH_SFTP_FSIZE=k makes every file of the served tree refuse to grow
// beyond k bytes — a write is cut short and the rest fails with EFBIG, the way a full disk or a quota does
func sftpServerLimits() {
	if v := os.Getenv("VH_SFTP_FSIZE"); v != "" {
		k, _ := strconv.ParseUint(v, 10, 64)
		signal.Ignore(syscall.SIGXFSZ)
		syscall.Setrlimit(syscall.RLIMIT_FSIZE, &syscall.Rlimit{Cur: k, Max: k})
	}
}

// sftpCase opens a store with ONE connection on a fresh directory; `after` runs when the connection stands
func sftpCase(uncompressed, skip bool) (*desync.SFTPStore, string, error) {
	wrap, err := sftpWrapper(remoteDir())
	if err != nil {
		return nil, "", err
	}
	dir, err := os.MkdirTemp(remoteDir(), "sftp")
	if err != nil {
		return nil, "", err
	}
	os.Setenv("CASYNC_SSH_PATH", wrap)
	su, _ := url.Parse("sftp://localhost" + dir)
	ss, err := desync.NewSFTPStore(su, desync.StoreOptions{N: 1, Uncompressed: uncompressed, SkipVerify: skip})
	return ss, dir, err
}

// poolAnswers: one more request on the store; "blocked" when it does not return (the only connection was kept)
func poolAnswers(ss *desync.SFTPStore) string {
	done := make(chan struct{})
	go func() {
		ss.HasChunk(desync.ChunkID{1})
		close(done)
	}()
	select {
	case <-done:
		return "pool=ok"
	case <-time.After(5 * time.Second):
		return "pool=blocked"
	}
}

func closeSoon(ss *desync.SFTPStore) {
	done := make(chan struct{})
	go func() { ss.Close(); close(done) }()
	select {
	case <-done:
	case <-time.After(2 * time.Second):
	}
}

// sftp.store scen= data= pre=  (+ the model's exists= create1= … rename=)
func implSftpStore(line string) string {
	_, a := parseCase(line)
	return guard(func() string {
		setDigest("sha512")
		data := unhx(a["data"])
		chunk := desync.NewChunk(data)
		cid := chunk.ID()
		sid := cid.String()
		if strings.HasPrefix(a["scen"], "disk-full") { // the server's files cannot grow beyond copyfail= bytes
			os.Setenv("VH_SFTP_FSIZE", a["copyfail"])
		}
		ss, dir, err := sftpCase(true, false)
		os.Unsetenv("VH_SFTP_FSIZE")
		if err != nil {
			return "setup: " + err.Error()
		}
		defer os.RemoveAll(dir)
		defer closeSoon(ss)
		fan := filepath.Join(dir, sid[:4])
		final := filepath.Join(fan, sid)
		switch a["scen"] {
		case "nodir":
		case "dir":
			os.Mkdir(fan, 0755)
		case "replace":
			os.Mkdir(fan, 0755)
			os.WriteFile(final, unhx(a["pre"]), 0644)
		case "dir-is-file":
			os.WriteFile(fan, []byte("in the way"), 0644)
		case "no-root":
			os.RemoveAll(dir)
		case "disk-full":
			os.Mkdir(fan, 0755)
		case "disk-full-replace":
			os.Mkdir(fan, 0755)
			os.WriteFile(final, unhx(a["pre"]), 0644)
		case "final-is-dir":
			os.MkdirAll(filepath.Join(final, "occupied"), 0755)
		case "readonly-dir":
			os.Mkdir(fan, 0555)
			defer os.Chmod(fan, 0755)
		default:
			return "setup: unknown scenario"
		}
		res := "ok"
		if err := ss.StoreChunk(chunk); err != nil {
			res = "error"
		}
		fin, tmp := "-", "-"
		if ents, err := os.ReadDir(fan); err == nil {
			for _, e := range ents {
				if !e.Type().IsRegular() {
					continue
				}
				b, _ := os.ReadFile(filepath.Join(fan, e.Name()))
				switch {
				case e.Name() == sid:
					fin = "x" + hx(b)
				case strings.HasPrefix(e.Name(), sid) && strings.Trim(e.Name()[len(sid):], "0123456789") == "":
					if tmp != "-" {
						tmp += "+"
					}
					tmp = "x" + hx(b)
				default:
					tmp = "stray:" + e.Name()
				}
			}
		}
		return fmt.Sprintf("res=%s final=%s tmp=%s %s", res, fin, tmp, poolAnswers(ss))
	})
}

// sftp.get scen= id= raw= comp= skip= alg=  (+ the model's out= dec=)
func implSftpGet(line string) string {
	_, a := parseCase(line)
	return guard(func() string {
		setDigest(a["alg"])
		defer setDigest("sha512")
		comp, skip := a["comp"] == "1", a["skip"] == "1"
		var id desync.ChunkID
		copy(id[:], unhx(a["id"]))
		sid := id.String()
		ss, dir, err := sftpCase(!comp, skip)
		if err != nil {
			return "setup: " + err.Error()
		}
		defer os.RemoveAll(dir)
		defer closeSoon(ss)
		fan := filepath.Join(dir, sid[:4])
		name := sid
		if comp {
			name += ".cacnk"
		}
		switch a["scen"] {
		case "file":
			os.Mkdir(fan, 0755)
			os.WriteFile(filepath.Join(fan, name), unhx(a["raw"]), 0644)
		case "missing":
			os.Mkdir(fan, 0755)
		case "missing-dir":
		case "is-dir":
			os.MkdirAll(filepath.Join(fan, name), 0755)
		case "dir-is-file":
			os.WriteFile(fan, []byte("in the way"), 0644)
		default:
			return "setup: unknown scenario"
		}
		return getResult(ss, id) + " " + poolAnswers(ss)
	})
}

// sftp.has scen=found|notfound|dir-is-file  (+ stat=)
func implSftpHas(line string) string {
	_, a := parseCase(line)
	return guard(func() string {
		setDigest("sha512")
		id := desync.ChunkID(desync.Digest.Sum([]byte("has")))
		sid := id.String()
		ss, dir, err := sftpCase(true, false)
		if err != nil {
			return "setup: " + err.Error()
		}
		defer os.RemoveAll(dir)
		defer closeSoon(ss)
		fan := filepath.Join(dir, sid[:4])
		switch a["scen"] {
		case "found":
			os.Mkdir(fan, 0755)
			os.WriteFile(filepath.Join(fan, sid), []byte("x"), 0644)
		case "notfound":
		case "dir-is-file":
			os.WriteFile(fan, []byte("in the way"), 0644)
		case "no-root":
			os.RemoveAll(dir)
		}
		has, herr := ss.HasChunk(id)
		return fmt.Sprintf("has=%d err=%d %s", b2i(has), b2i(herr != nil), poolAnswers(ss))
	})
}

// ---------------------------------------------------------------------------------------------------------------

func randScript(rng *rand.Rand, alphabet []string, maxLen int) string {
	n := rng.Intn(maxLen + 1)
	s := make([]string, n)
	for i := range s {
		s[i] = alphabet[rng.Intn(len(alphabet))]
	}
	return strings.Join(s, ",")
}

// runRemoteStoresWrite: the store side (C06)
func runRemoteStoresWrite(cfg Config, rep *Report, rng *rand.Rand) {
	remoteWork = filepath.Join(cfg.Work, "remote06")
	m, err := StartModel(cfg.Driver)
	if err != nil {
		fatal(err)
	}
	defer m.Close()
	t0 := time.Now()
	// S3Store.StoreChunk: every retry budget 0..3 x every script of refusals up to length 4 followed by a success or
	// not (exhaustive over {403,507}^k for k <= 4 would be 31 scripts; random ones with a 200 mixed in on top)
	for retry := 0; retry <= 3; retry++ {
		var scripts []string
		for k := 0; k <= 4; k++ {
			s := make([]string, k)
			for i := range s {
				s[i] = []string{"403", "507"}[(i+k+retry)%2]
			}
			scripts = append(scripts, strings.Join(s, ","))
			scripts = append(scripts, strings.Join(append(s, "403", "403", "403", "403"), ",")) // never accepted within any budget
		}
		for i := 0; i < cfg.N(40, 400); i++ {
			scripts = append(scripts, randScript(rng, []string{"403", "507", "507", "412", "200"}, 6))
		}
		for i, sc := range scripts {
			pre := "-"
			if i%3 == 1 {
				pre = hx([]byte("an older object"))
			}
			data := randBytes(rng, 1+rng.Intn(300))
			line := fmt.Sprintf("s3.store retry=%d script=%s pre=%s comp=%d data=%s", retry, sc, pre, i%2, hx(data))
			refused := strings.Count(sc, "4")+strings.Count(sc, "5") > 0
			rep.Count(line, refused, "remote:s3.store", fmt.Sprintf("remote:s3.store/retry=%d", retry))
			rep.Compare(m, line, implS3Store, nil)
		}
	}
	for _, c := range []string{"stat=found", "stat=notfound", "stat=failure status=403", "stat=failure status=400", "stat=failure status=507"} {
		line := "s3.has " + c
		rep.Count(line, true, "remote:s3.has")
		rep.Compare(m, line, implS3Has, nil)
	}
	// SFTPStoreBase.StoreObject
	type sc struct{ scen, env, pre string }
	scens := []sc{
		{"nodir", "exists=0 create1=1 mkdir=1 create2=1 copyfail=- remove=1 close=1 rename=1", "-"},
		{"dir", "exists=1 create1=1 mkdir=1 create2=1 copyfail=- remove=1 close=1 rename=1", "-"},
		{"replace", "exists=1 create1=1 mkdir=0 create2=1 copyfail=- remove=1 close=1 rename=1", hx([]byte("an older object"))},
		{"dir-is-file", "exists=0 create1=0 mkdir=0 create2=0 copyfail=- remove=1 close=1 rename=1", "-"},
		{"no-root", "exists=0 create1=0 mkdir=0 create2=0 copyfail=- remove=1 close=1 rename=1", "-"},
		{"final-is-dir", "exists=1 create1=1 mkdir=0 create2=1 copyfail=- remove=1 close=1 rename=0", "-"},
	}
	if os.Getuid() != 0 {
		scens = append(scens, sc{"readonly-dir", "exists=1 create1=0 mkdir=0 create2=0 copyfail=- remove=1 close=1 rename=1", "-"})
	}
	if _, err := sftpWrapper(remoteDir()); err == nil {
		for round := 0; round < cfg.N(6, 30); round++ {
			k := rng.Intn(120)
			all := append(append([]sc{}, scens...),
				sc{"disk-full", fmt.Sprintf("exists=1 create1=1 mkdir=0 create2=1 copyfail=%d remove=1 close=1 rename=1", k), "-"},
				sc{"disk-full-replace", fmt.Sprintf("exists=1 create1=1 mkdir=0 create2=1 copyfail=%d remove=1 close=1 rename=1", k/8), hx([]byte("an older object"))})
			for _, s := range all {
				data := randBytes(rng, 200+rng.Intn(2000))
				line := fmt.Sprintf("sftp.store scen=%s %s data=%s pre=%s", s.scen, s.env, hx(data), s.pre)
				rep.Count(line, strings.Contains(s.env, "=0"), "remote:sftp.store", "remote:sftp.store/"+s.scen)
				rep.Compare(m, line, implSftpStore, nil)
			}
		}
		for _, c := range []string{"scen=found stat=found", "scen=notfound stat=notfound", "scen=dir-is-file stat=failure", "scen=no-root stat=failure"} {
			line := "sftp.has " + c
			rep.Count(line, true, "remote:sftp.has")
			rep.Compare(m, line, implSftpHas, nil)
		}
	} else {
		rep.Notes = append(rep.Notes, "remote stores: the SFTP server could not be set up: "+err.Error())
	}
	rep.Notes = append(rep.Notes, fmt.Sprintf("remote stores (s3.store, s3.has, sftp.store, sftp.has against Model/RemoteStores.lean): %.1fs", time.Since(t0).Seconds()))
}

// runRemoteStoresRead: the read side (C03)
func runRemoteStoresRead(cfg Config, rep *Report, m *Model, rng *rand.Rand) {
	remoteWork = filepath.Join(cfg.Work, "remote03")
	t0 := time.Now()
	mk := func(i int) (id desync.ChunkID, raw []byte, comp bool, dec, kind string) {
		data := randBytes(rng, 1+rng.Intn(400))
		id = desync.Digest.Sum(data)
		comp = i%2 == 0
		raw = data
		if comp {
			raw, _ = desync.Compress(data)
		}
		kind = []string{"intact", "intact", "flipped", "empty", "foreign"}[i%5]
		switch kind {
		case "flipped":
			raw = append([]byte{}, raw...)
			raw[rng.Intn(len(raw))] ^= 1 << uint(rng.Intn(8))
		case "empty":
			raw = nil
		case "foreign":
			other := randBytes(rng, 1+rng.Intn(400))
			raw = other
			if comp {
				raw, _ = desync.Compress(other)
			}
		}
		dec = "err"
		if d, err := desync.Decompress(nil, raw); err == nil {
			dec = "ok:" + hx(d)
		}
		if !comp {
			dec = "ok:" + hx(raw)
		}
		return
	}
	setDigest("sha512")
	n := 0
	for retry := 0; retry <= 3; retry++ {
		for i := 0; i < cfg.N(60, 600); i++ {
			id, raw, comp, dec, kind := mk(n)
			n++
			sc := randScript(rng, []string{"404k", "404k", "404b", "403", "507", "trunc"}, 5)
			skip := i%7 == 3
			line := fmt.Sprintf("s3.get retry=%d script=%s id=%s raw=%s dec=%s comp=%d skip=%d alg=sha512", retry, sc, hx(id[:]), hx(raw), dec, b2i(comp), b2i(skip))
			rep.Count(line, sc != "" || kind != "intact", "remote:s3.get", fmt.Sprintf("remote:s3.get/retry=%d", retry), "remote:s3.get/"+kind)
			rep.Compare(m, line, implS3Get, nil)
		}
	}
	if _, err := sftpWrapper(remoteDir()); err == nil {
		scens := [][2]string{{"file", "body"}, {"file", "body"}, {"file", "body"}, {"missing", "notexist"}, {"missing-dir", "notexist"}, {"is-dir", "readerr"}, {"dir-is-file", "openerr"}}
		for round := 0; round < cfg.N(5, 30); round++ {
			for _, s := range scens {
				id, raw, comp, dec, kind := mk(n)
				n++
				skip := n%7 == 3
				line := fmt.Sprintf("sftp.get scen=%s out=%s id=%s raw=%s dec=%s comp=%d skip=%d alg=sha512", s[0], s[1], hx(id[:]), hx(raw), dec, b2i(comp), b2i(skip))
				rep.Count(line, true, "remote:sftp.get", "remote:sftp.get/"+s[0], "remote:sftp.get/"+kind)
				rep.Compare(m, line, implSftpGet, nil)
			}
		}
	}
	rep.Notes = append(rep.Notes, fmt.Sprintf("remote stores (s3.get, sftp.get against Model/RemoteStores.lean): %.1fs", time.Since(t0).Seconds()))
}
