package main

// C12, the composition a chunk server runs: the real HTTP handler (NewHTTPHandler) over a real WriteDedupQueue over
// a store whose write of one chosen chunk is held back.  The queue hands the UPLOADER'S chunk object to every read
// that overlaps the upload, so whatever the handler built that object from (the request body's buffer) is shared
// with those readers from then on.  "Reads that overlap a de-duplicated write of the same chunk see that chunk"
// therefore has to hold for as long as the reader uses what it was given, not only at the instant GetChunk returns:
//
//   - library readers call q.GetChunk(X) while the PUT of X is in flight, KEEP the chunk object, and look at it
//     only after the server has taken further uploads (sequential and a concurrent burst) of other chunks of the
//     same length — c03Held's idea (a handed-out chunk object stays what it was while the store serves further
//     requests) applied to handler + queue instead of the backends;
//   - slow clients GET X through the same handler while the PUT is in flight; their connection accepts the
//     response bytes only after the later uploads (a ResponseWriter whose Write blocks first), which is where a
//     compressed server's fast path (serve chunk.storage as is) shows a re-used body buffer;
//   - chunk objects obtained through the queue with no write in flight are held across further uploads as well.
//
// Both storage formats, upload verification on and off, an in-memory upstream and a real LocalStore, the hold
// before or after the upstream write.  Whether a reader has joined the in-flight write is read off the verif yield
// site wdq.get.join, not guessed with a sleep; time-outs only notice a caller that never comes back.
// Every choice derives from the case's seed, which the case line carries.

import (
	"bytes"
	"fmt"
	"math/rand"
	"net/http"
	"net/http/httptest"
	"os"
	"path/filepath"
	"runtime"
	"sync"
	"sync/atomic"
	"time"

	"github.com/folbricht/desync"
)

// hhMemStore keeps its own copy of what is written, like a disk would, and hands out fresh copies.
type hhMemStore struct {
	mu     sync.Mutex
	chunks map[desync.ChunkID][]byte
}

func (s *hhMemStore) GetChunk(id desync.ChunkID) (*desync.Chunk, error) {
	s.mu.Lock()
	b, ok := s.chunks[id]
	s.mu.Unlock()
	if !ok {
		return nil, desync.ChunkMissing{ID: id}
	}
	return desync.NewChunk(append([]byte(nil), b...)), nil
}
func (s *hhMemStore) HasChunk(id desync.ChunkID) (bool, error) {
	s.mu.Lock()
	defer s.mu.Unlock()
	_, ok := s.chunks[id]
	return ok, nil
}
func (s *hhMemStore) StoreChunk(c *desync.Chunk) error {
	b, err := c.Data()
	if err != nil {
		return err
	}
	b = append([]byte(nil), b...)
	s.mu.Lock()
	s.chunks[c.ID()] = b
	s.mu.Unlock()
	return nil
}
func (s *hhMemStore) Close() error   { return nil }
func (s *hhMemStore) String() string { return "mem" }

// hhGate holds the write of one chunk ID, before or after it reaches the store below.
type hhGate struct {
	desync.WriteStore
	hold      desync.ChunkID
	holdAfter bool
	once      sync.Once
	entered   chan struct{}
	release   chan struct{}
	reads     int64 // GetChunk(hold) calls that made it past the queue
}

func (g *hhGate) GetChunk(id desync.ChunkID) (*desync.Chunk, error) {
	if id == g.hold {
		atomic.AddInt64(&g.reads, 1)
	}
	return g.WriteStore.GetChunk(id)
}
func (g *hhGate) StoreChunk(c *desync.Chunk) error {
	if c.ID() != g.hold {
		return g.WriteStore.StoreChunk(c)
	}
	if g.holdAfter {
		err := g.WriteStore.StoreChunk(c)
		g.once.Do(func() { close(g.entered) })
		<-g.release
		return err
	}
	g.once.Do(func() { close(g.entered) })
	<-g.release
	return g.WriteStore.StoreChunk(c)
}

// hhSlowClient is a client connection that takes the response bytes late: Write blocks until goOn is closed and
// copies what it is given only then.
type hhSlowClient struct {
	hdr     http.Header
	code    int
	body    []byte
	once    sync.Once
	atWrite chan struct{}
	goOn    chan struct{}
}

func newHHSlowClient(goOn chan struct{}) *hhSlowClient {
	return &hhSlowClient{hdr: http.Header{}, atWrite: make(chan struct{}), goOn: goOn}
}
func (w *hhSlowClient) Header() http.Header { return w.hdr }
func (w *hhSlowClient) WriteHeader(c int) {
	if w.code == 0 {
		w.code = c
	}
}
func (w *hhSlowClient) Write(p []byte) (int, error) {
	if w.code == 0 {
		w.code = http.StatusOK
	}
	w.once.Do(func() { close(w.atWrite) })
	<-w.goOn
	w.body = append(w.body, p...)
	return len(p), nil
}

type hhServer struct {
	h    http.Handler
	comp bool
}

func (s hhServer) path(id desync.ChunkID) string {
	sid := id.String()
	ext := desync.UncompressedChunkExt
	if s.comp {
		ext = desync.CompressedChunkExt
	}
	return "/" + sid[:4] + "/" + sid + ext
}

func (s hhServer) put(data []byte) int {
	body := data
	if s.comp {
		var err error
		if body, err = desync.Compress(data); err != nil {
			fatal(err)
		}
	}
	req := httptest.NewRequest("PUT", s.path(hhID(data)), bytes.NewReader(body))
	rec := httptest.NewRecorder()
	s.h.ServeHTTP(rec, req)
	return rec.Code
}

// decode turns a response body into plain chunk data
func (s hhServer) decode(body []byte) ([]byte, error) {
	if !s.comp {
		return body, nil
	}
	return desync.Decompress(nil, body)
}

// hhHolds says what is wrong with a chunk object that is supposed to hold the chunk `data`, "" if nothing
func hhHolds(c *desync.Chunk, id desync.ChunkID, data []byte, others map[desync.ChunkID]string) string {
	if c == nil {
		return "is a nil chunk"
	}
	b, err := c.Data()
	if err != nil {
		return fmt.Sprintf("does not decode any more (%v)", err)
	}
	return hhBytes(b, id, data, others)
}

func hhBytes(b []byte, id desync.ChunkID, data []byte, others map[desync.ChunkID]string) string {
	if bytes.Equal(b, data) && hhID(b) == id {
		return ""
	}
	sum := hhID(b)
	if o, ok := others[sum]; ok {
		return fmt.Sprintf("holds the %d bytes of %s (%s), not those of %s", len(b), sum.String()[:12], o, id.String()[:12])
	}
	return fmt.Sprintf("holds %d bytes that hash to %s, not to its ID %s", len(b), sum.String()[:12], id.String()[:12])
}

func c12HandlerHeld(cfg Config, rep *Report, rng *rand.Rand) {
	var joinID atomic.Value // desync.ChunkID the current case counts joins for
	var joined int64
	desync.VerifYieldID = func(site string, id desync.ChunkID) {
		if site == "wdq.get.join" {
			if want, ok := joinID.Load().(desync.ChunkID); ok && want == id {
				atomic.AddInt64(&joined, 1)
			}
		}
	}
	defer func() { desync.VerifYieldID = nil }()
	const patience = 5 * time.Second

	for it := 0; it < cfg.N(48, 600); it++ {
		seed := rng.Int63()
		r := rand.New(rand.NewSource(seed))
		comp := it%2 == 0
		skipVerify := r.Intn(2) == 0
		useLocal := r.Intn(4) == 0
		holdAfter := r.Intn(2) == 0
		size := 64 + r.Intn(6000)
		nLib, nSlow := 1+r.Intn(2), 1+r.Intn(2)
		laterSeq := 6 + r.Intn(8)
		laterPar := 2 * runtime.GOMAXPROCS(0)
		if laterPar < 4 {
			laterPar = 4
		}
		if laterPar > 16 {
			laterPar = 16
		}
		format, upName := "uncompressed", "mem"
		if comp {
			format = "compressed"
		}
		var below desync.WriteStore = &hhMemStore{chunks: map[desync.ChunkID][]byte{}}
		dir := ""
		if useLocal {
			dir = filepath.Join(cfg.Work, fmt.Sprintf("hheld-%d", it))
			os.RemoveAll(dir)
			os.MkdirAll(dir, 0755)
			ls, err := desync.NewLocalStore(dir, desync.StoreOptions{Uncompressed: r.Intn(2) == 0})
			if err != nil {
				fatal(err)
			}
			below, upName = ls, "local"
		}
		caseLine := fmt.Sprintf("handler.held seed=%d format=%s skipverify=%v upstream=%s holdafter=%v size=%d readers=%d+%d later=%d+%d",
			seed, format, skipVerify, upName, holdAfter, size, nLib, nSlow, laterSeq, laterPar)
		monitor := func(what string) {
			rep.Disagree(Disagreement{Kind: "monitor", Case: caseLine, What: what})
		}
		where := fmt.Sprintf("chunk server handler (%s chunks, skip-verify-write=%v) over a WriteDedupQueue", format, skipVerify)

		dataX := randBytes(r, size)
		idX := hhID(dataX)
		others := map[desync.ChunkID]string{}
		gate := &hhGate{WriteStore: below, hold: idX, holdAfter: holdAfter, entered: make(chan struct{}), release: make(chan struct{})}
		q := desync.NewWriteDedupQueue(gate)
		var conv desync.Converters
		if comp {
			conv = desync.Converters{desync.Compressor{}}
		}
		srv := hhServer{h: desync.NewHTTPHandler(q, true, skipVerify, conv, ""), comp: comp}
		atomic.StoreInt64(&joined, 0)
		joinID.Store(idX)

		// the upload of X, held in the upstream store
		putDone := make(chan int, 1)
		go func() { putDone <- srv.put(dataX) }()
		select {
		case <-gate.entered:
		case code := <-putDone:
			rep.Count(caseLine, false, "handlerheld:upload-not-upstream")
			_ = code
			close(gate.release)
			continue
		case <-time.After(patience):
			monitor("an upload through the " + where + " never reached the upstream store")
			close(gate.release)
			continue
		}

		// readers of X that overlap it
		type libRes struct {
			c   *desync.Chunk
			err error
		}
		libCh := make([]chan libRes, nLib)
		for i := range libCh {
			libCh[i] = make(chan libRes, 1)
			go func(ch chan libRes) {
				c, err := q.GetChunk(idX)
				ch <- libRes{c, err}
			}(libCh[i])
		}
		goOn := make(chan struct{})
		slow := make([]*hhSlowClient, nSlow)
		slowDone := make([]chan struct{}, nSlow)
		for i := range slow {
			slow[i] = newHHSlowClient(goOn)
			slowDone[i] = make(chan struct{})
			go func(w *hhSlowClient, done chan struct{}) {
				defer close(done)
				srv.h.ServeHTTP(w, httptest.NewRequest("GET", srv.path(idX), nil))
			}(slow[i], slowDone[i])
		}
		for t0 := time.Now(); atomic.LoadInt64(&joined) < int64(nLib+nSlow) && time.Since(t0) < 2*time.Second; {
			time.Sleep(20 * time.Microsecond)
		}
		close(gate.release)

		stuck := false
		putCode := 0
		select {
		case putCode = <-putDone:
		case <-time.After(patience):
			monitor("an upload through the " + where + " never returned after its upstream write did")
			stuck = true
		}
		lib := make([]libRes, nLib)
		for i := range libCh {
			select {
			case lib[i] = <-libCh[i]:
			case <-time.After(patience):
				monitor("a GetChunk overlapping the upload of the same chunk (" + where + ") never returned")
				stuck = true
			}
		}
		for i := range slow {
			select {
			case <-slow[i].atWrite:
			case <-slowDone[i]:
			case <-time.After(patience):
				monitor("a GET overlapping the upload of the same chunk (" + where + ") never got to its response")
				stuck = true
			}
		}
		if stuck {
			close(goOn)
			continue
		}
		overlapped := atomic.LoadInt64(&gate.reads) == 0 && atomic.LoadInt64(&joined) == int64(nLib+nSlow)
		rep.Count(caseLine, overlapped, "handlerheld", "handlerheld:"+format, "handlerheld:up-"+upName)
		if overlapped && putCode == http.StatusOK {
			for i := range lib {
				if lib[i].err != nil {
					monitor(fmt.Sprintf("a GetChunk that joined the in-flight upload of its chunk (%s) returned an error although the upload succeeded: %v", where, lib[i].err))
				}
			}
		}
		// some readers look at once (and again later), the others only later
		for i := range lib {
			if i%2 == 1 && lib[i].err == nil {
				if bad := hhHolds(lib[i].c, idX, dataX, others); bad != "" {
					monitor(fmt.Sprintf("the chunk object a GetChunk overlapping the upload of the same chunk was handed with a nil error (%s) %s", where, bad))
				}
			}
		}

		// the server carries on: uploads of other chunks of the same length, one after the other and in a burst
		var laterData [][]byte
		for j := 0; j < laterSeq+laterPar; j++ {
			d := randBytes(r, size)
			laterData = append(laterData, d)
			others[hhID(d)] = fmt.Sprintf("later upload %d", j)
		}
		for j := 0; j < laterSeq; j++ {
			if code := srv.put(laterData[j]); code != http.StatusOK && putCode == http.StatusOK {
				monitor(fmt.Sprintf("%s: a later valid upload was answered with status %d after the same kind of upload got %d", where, code, putCode))
			}
		}
		var wg sync.WaitGroup
		for j := laterSeq; j < laterSeq+laterPar; j++ {
			wg.Add(1)
			go func(d []byte) {
				defer wg.Done()
				srv.put(d)
			}(laterData[j])
		}
		wg.Wait()

		// chunk objects obtained with no write in flight, held across further requests
		type heldChunk struct {
			c    *desync.Chunk
			id   desync.ChunkID
			data []byte
		}
		var held []heldChunk
		for j := 0; j < 3 && j < laterSeq; j++ {
			id := hhID(laterData[j])
			if c, err := q.GetChunk(id); err == nil {
				held = append(held, heldChunk{c, id, laterData[j]})
			}
		}
		for j := 0; j < 3; j++ {
			d := randBytes(r, size)
			others[hhID(d)] = fmt.Sprintf("upload %d after the held reads", j)
			srv.put(d)
			rec := httptest.NewRecorder()
			gid := hhID(laterData[laterSeq+j])
			srv.h.ServeHTTP(rec, httptest.NewRequest("GET", srv.path(gid), nil))
			if rec.Code == http.StatusOK {
				if b, err := srv.decode(rec.Body.Bytes()); err != nil || hhBytes(b, gid, laterData[laterSeq+j], others) != "" {
					monitor(fmt.Sprintf("%s: a GET of a chunk uploaded earlier was answered 200 with a body that is not that chunk", where))
				}
			}
		}

		// now the readers use what they were given
		close(goOn)
		for i := range slow {
			select {
			case <-slowDone[i]:
			case <-time.After(patience):
				monitor("a GET overlapping the upload of the same chunk (" + where + ") never finished its response")
				continue
			}
			if slow[i].code != http.StatusOK {
				continue
			}
			b, err := srv.decode(slow[i].body)
			bad := ""
			if err != nil {
				bad = fmt.Sprintf("does not decode (%v)", err)
			} else {
				bad = hhBytes(b, idX, dataX, others)
			}
			if bad != "" {
				monitor(fmt.Sprintf("a GET that overlapped the upload of the same chunk (%s) was answered 200, and the body its slow client received after %d later uploads of other chunks %s",
					where, laterSeq+laterPar, bad))
			}
		}
		for i := range lib {
			if lib[i].err != nil {
				continue
			}
			if bad := hhHolds(lib[i].c, idX, dataX, others); bad != "" {
				monitor(fmt.Sprintf("the chunk object a GetChunk overlapping the upload of the same chunk was handed with a nil error (%s) no longer holds that chunk after %d later uploads of other chunks of the same length to the same server: it %s",
					where, laterSeq+laterPar, bad))
			}
		}
		for _, hc := range held {
			if bad := hhHolds(hc.c, hc.id, hc.data, others); bad != "" {
				monitor(fmt.Sprintf("a chunk object handed out by the WriteDedupQueue under the %s no longer holds its chunk after later requests to the same server: it %s", where, bad))
			}
		}
		// and the store got what was uploaded
		if putCode == http.StatusOK {
			if c, err := below.GetChunk(idX); err != nil {
				monitor(fmt.Sprintf("%s: the upload was answered 200 but the upstream store does not deliver the chunk: %v", where, err))
			} else if bad := hhHolds(c, idX, dataX, others); bad != "" {
				monitor(fmt.Sprintf("%s: the upload was answered 200 but the chunk in the upstream store %s", where, bad))
			}
		}
		if dir != "" {
			os.RemoveAll(dir)
		}
	}
}

func hhID(b []byte) desync.ChunkID { return desync.ChunkID(desync.Digest.Sum(b)) }
