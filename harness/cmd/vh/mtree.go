package main

// C05, the mtree output leg (mtreefs.go <-> lean/Desync/Model/MtreeFS.lean).
//
//	mtree.line   NewMtreeFS on a writer with limited room, then Create* calls up to the first error, on generated nodes
//	             (names and link targets from the full byte range, modes with set-id/sticky and stray FileMode bits,
//	             character and block devices, huge and negative uid/gid, sizes up to 2^64-1, negative and sub-second
//	             modification times, a Data reader that fails, both digests and an unsupported one): the return values
//	             and every byte that reached the writer against the model
//	mtree.parse  the line the REAL writer printed for a node, read by the model's independent mtree(5) reader: every field
//	             against the node's (names and targets without a space and non-empty names: the proved round trip;
//	             the others are counted, see Properties/C05Mtree.lean `mtree_line_not_injective`)
//	mtree.name   mtreeFilename (cut out of the real line) against the model, and its un-escaping
//
// Op strings are the ones of lean/Driver/Mtree.lean.

import (
	"bytes"
	"context"
	"crypto"
	"crypto/sha256"
	"crypto/sha512"
	"errors"
	"fmt"
	"io"
	"math"
	"math/rand"
	"os"
	"strconv"
	"strings"
	"syscall"
	"time"

	"github.com/folbricht/desync"
)

type mtreeOp struct {
	kind         string
	name, target string
	uid, gid     int
	mode         os.FileMode
	sec          int64
	nsec         int64
	size         uint64
	major, minor uint64
	data         []byte
	dataErr      bool
}

func (o mtreeOp) String() string {
	data := "-"
	if o.kind == "file" {
		data = hx(o.data)
		if o.dataErr {
			data = "err"
		}
	}
	return fmt.Sprintf("%s,%s,%d,%d,%d,%d,%d,%d,%s,%d,%d,%s", o.kind, hx([]byte(o.name)), o.uid, o.gid, uint32(o.mode), o.sec,
		o.nsec, o.size, hx([]byte(o.target)), o.major, o.minor, data)
}

func parseMtreeOp(s string) (o mtreeOp, ok bool) {
	f := strings.Split(s, ",")
	if len(f) != 12 {
		return o, false
	}
	defer func() {
		if recover() != nil {
			ok = false
		}
	}()
	o.kind = f[0]
	o.name = string(unhx(f[1]))
	uid, _ := strconv.ParseInt(f[2], 10, 64)
	gid, _ := strconv.ParseInt(f[3], 10, 64)
	mode, _ := strconv.ParseUint(f[4], 10, 32)
	o.uid, o.gid, o.mode = int(uid), int(gid), os.FileMode(mode)
	o.sec, _ = strconv.ParseInt(f[5], 10, 64)
	o.nsec, _ = strconv.ParseInt(f[6], 10, 64)
	o.size, _ = strconv.ParseUint(f[7], 10, 64)
	o.target = string(unhx(f[8]))
	o.major, _ = strconv.ParseUint(f[9], 10, 64)
	o.minor, _ = strconv.ParseUint(f[10], 10, 64)
	switch {
	case f[11] == "err":
		o.dataErr = true
	case f[11] != "-":
		o.data = unhx(f[11])
	}
	return o, true
}

// a writer that takes `room` bytes (room < 0: any number) and then fails with a short count
type limitedWriter struct {
	buf  bytes.Buffer
	room int
}

func (w *limitedWriter) Write(p []byte) (int, error) {
	if w.room < 0 || len(p) <= w.room {
		if w.room >= 0 {
			w.room -= len(p)
		}
		return w.buf.Write(p)
	}
	n := w.room
	w.buf.Write(p[:n])
	w.room = 0
	return n, syscall.ENOSPC
}

var errMtreeRead = errors.New("mtree harness: data reader fails")

type failingReader struct{}

func (failingReader) Read([]byte) (int, error) { return 0, errMtreeRead }

type otherDigest struct{ desync.SHA256 }

func (otherDigest) Algorithm() crypto.Hash { return crypto.SHA1 }

func mtreeSetDigest(alg string) (restore func()) {
	old := desync.Digest
	switch alg {
	case "sha512-256":
		desync.Digest = desync.SHA512256{}
	case "sha256":
		desync.Digest = desync.SHA256{}
	default:
		desync.Digest = otherDigest{}
	}
	return func() { desync.Digest = old }
}

func (o mtreeOp) apply(fs desync.FilesystemWriter) error {
	mt := time.Unix(o.sec, o.nsec)
	switch o.kind {
	case "dir":
		return fs.CreateDir(desync.NodeDirectory{Name: o.name, UID: o.uid, GID: o.gid, Mode: o.mode, MTime: mt})
	case "file":
		var r io.Reader = bytes.NewReader(o.data)
		if o.dataErr {
			r = failingReader{}
		}
		return fs.CreateFile(desync.NodeFile{Name: o.name, UID: o.uid, GID: o.gid, Mode: o.mode, MTime: mt, Size: o.size, Data: r})
	case "symlink":
		return fs.CreateSymlink(desync.NodeSymlink{Name: o.name, UID: o.uid, GID: o.gid, Mode: o.mode, MTime: mt, Target: o.target})
	case "device":
		return fs.CreateDevice(desync.NodeDevice{Name: o.name, UID: o.uid, GID: o.gid, Mode: o.mode, MTime: mt, Major: o.major, Minor: o.minor})
	}
	return errors.New("mtree harness: unknown kind")
}

func mtreeRet(err error) string {
	switch {
	case err == nil:
		return "ok"
	case errors.Is(err, errMtreeRead):
		return "readErr"
	case strings.HasPrefix(err.Error(), "unsupported mtree hash algorithm"):
		return "unsupported"
	case errors.Is(err, syscall.ENOSPC):
		return "writeErr"
	}
	return "other:" + strings.ReplaceAll(err.Error(), " ", "_")
}

// the real MtreeFS on a writer with `room` bytes: NewMtreeFS, then the calls up to the first error (as UnTar makes them)
func mtreeRun(room int, alg string, ops []mtreeOp) (res string, out []byte) {
	defer mtreeSetDigest(alg)()
	w := &limitedWriter{room: room}
	fs, err := desync.NewMtreeFS(w)
	if err != nil {
		return fmt.Sprintf("new=%s ret=- calls=0 out=%s", mtreeRet(err), hx(w.buf.Bytes())), w.buf.Bytes()
	}
	ret, calls := "ok", 0
	for _, o := range ops {
		calls++
		if err := o.apply(fs); err != nil {
			ret = mtreeRet(err)
			break
		}
	}
	return fmt.Sprintf("new=ok ret=%s calls=%d out=%s", ret, calls, hx(w.buf.Bytes())), w.buf.Bytes()
}

func mtreeParseOps(a kv) (room int, ops []mtreeOp, ok bool) {
	room = -1
	if a["room"] != "-" {
		fmt.Sscan(a["room"], &room)
	}
	if a["ops"] != "" {
		for _, s := range strings.Split(a["ops"], ";") {
			o, ok := parseMtreeOp(s)
			if !ok {
				return 0, nil, false
			}
			ops = append(ops, o)
		}
	}
	return room, ops, true
}

func implMtreeLine(line string) string {
	_, a := parseCase(line)
	room, ops, ok := mtreeParseOps(a)
	if !ok {
		return "bad-case"
	}
	return guard(func() string { r, _ := mtreeRun(room, a["alg"], ops); return r })
}

// the one line the real writer prints for a node (with its newline), nil when the call fails
func mtreeRealLine(alg string, o mtreeOp) []byte {
	res, out := mtreeRun(-1, alg, []mtreeOp{o})
	if !strings.Contains(res, "ret=ok") {
		return nil
	}
	return bytes.TrimPrefix(out, []byte("#mtree v1.0\n"))
}

// what the line of a node is meant to say, computed from the node alone (digest by Go's crypto packages)
func mtreeWant(alg string, o mtreeOp) string {
	typ := map[string]string{"dir": "dir", "file": "file", "symlink": "link"}[o.kind]
	if o.kind == "device" {
		typ = "block"
		if o.mode&os.ModeCharDevice != 0 {
			typ = "char"
		}
	}
	size, link, dg := "-", "-", "-"
	switch o.kind {
	case "file":
		size = fmt.Sprint(o.size)
		if alg == "sha256" {
			s := sha256.Sum256(o.data)
			dg = "sha256:" + hx(s[:])
		} else {
			s := sha512.Sum512_256(o.data)
			dg = "sha512-256:" + hx(s[:])
		}
	case "symlink":
		link = "x" + hx([]byte(o.target))
	}
	return fmt.Sprintf("entry path=%s type=%s mode=%d uid=%d gid=%d sec=%d nsec=%d size=%s link=%s dg=%s", hx([]byte(o.name)), typ,
		desync.FilemodeToStatMode(o.mode)&0o7777, o.uid, o.gid, o.sec, o.nsec, size, link, dg)
}

func implMtreeParse(line string) string {
	_, a := parseCase(line)
	o, ok := parseMtreeOp(a["op"])
	if !ok {
		return "bad-case"
	}
	return guard(func() string {
		real := mtreeRealLine(a["alg"], o)
		if real == nil || hx(real) != a["line"] {
			return "stale-case"
		}
		return mtreeWant(a["alg"], o)
	})
}

// mtreeFilename(s), cut out of the real line of a directory named s
func mtreeRealName(s string) []byte {
	o := mtreeOp{kind: "dir", name: s, mode: os.ModeDir | 0o755}
	e := mtreeOp{kind: "dir", name: "", mode: os.ModeDir | 0o755}
	l, suffix := mtreeRealLine("sha256", o), mtreeRealLine("sha256", e)
	if l == nil || suffix == nil || !bytes.HasSuffix(l, suffix) {
		return nil
	}
	return l[:len(l)-len(suffix)]
}

func implMtreeName(line string) string {
	_, a := parseCase(line)
	return guard(func() string {
		s := unhx(a["s"])
		e := mtreeRealName(string(s))
		if e == nil {
			return "no-line"
		}
		return hx(e) + " back=" + hx(s)
	})
}

// ---------------------------------------------------------------------------------------
// generators

func mtreeGenName(rng *rand.Rand) string {
	n := []int{0, 1, 1, 2, 3, 5, 8, 13, 40}[rng.Intn(9)]
	b := make([]byte, n)
	style := rng.Intn(6)
	for i := range b {
		switch style {
		case 0: // any byte
			b[i] = byte(rng.Intn(256))
		case 1: // printable without the space
			b[i] = byte(33 + rng.Intn(94))
		case 2: // what the escape predicate is about, and what it leaves alone
			b[i] = []byte{'\\', '#', ' ', '=', 31, 32, 33, 126, 127, 0, 9, 10, 128, 255, '.', '/', '0', '7', '8'}[rng.Intn(19)]
		case 3: // path-like
			b[i] = "abcxyz/._-0123456789"[rng.Intn(20)]
		case 4: // printable with spaces
			b[i] = byte(32 + rng.Intn(95))
		default: // text that looks like the rest of a line
			w := []string{"type=dir", "uid=0", " ", "mode=0777", "\\040", "\\134", "target=", "a", "time=1.5", "#"}[rng.Intn(10)]
			return strings.Repeat(w+" ", rng.Intn(3)) + w
		}
	}
	return string(b)
}

func mtreeGenID(rng *rand.Rand) int {
	switch rng.Intn(8) {
	case 0:
		return 0
	case 1:
		return 1000 + rng.Intn(100)
	case 2:
		return 65534
	case 3:
		return math.MaxInt32
	case 4:
		return math.MaxUint32
	case 5:
		return -1 - rng.Intn(5)
	case 6:
		return []int{math.MaxInt64, math.MinInt64, math.MinInt64 + 1, 1 << 53}[rng.Intn(4)]
	}
	return int(rng.Uint64())
}

func mtreeGenOp(rng *rand.Rand) mtreeOp {
	o := mtreeOp{kind: []string{"dir", "file", "file", "symlink", "device"}[rng.Intn(5)], name: mtreeGenName(rng),
		uid: mtreeGenID(rng), gid: mtreeGenID(rng)}
	o.mode = os.FileMode(rng.Intn(0o1000))
	if rng.Intn(3) == 0 {
		o.mode = os.FileMode([]int{0, 0o644, 0o755, 0o777, 0o7, 0o70, 0o700, 0o1}[rng.Intn(8)])
	}
	for _, b := range []os.FileMode{os.ModeSetuid, os.ModeSetgid, os.ModeSticky} {
		if rng.Intn(4) == 0 {
			o.mode |= b
		}
	}
	switch o.kind {
	case "dir":
		o.mode |= os.ModeDir
	case "symlink":
		o.mode |= os.ModeSymlink
		o.target = mtreeGenName(rng)
	case "device":
		o.mode |= os.ModeDevice
		if rng.Intn(2) == 0 {
			o.mode |= os.ModeCharDevice
		}
		o.major, o.minor = uint64(rng.Intn(4096)), uint64(rng.Intn(1<<20))
	case "file":
		o.size = []uint64{0, 1, uint64(rng.Intn(100000)), 1 << 32, math.MaxInt64, math.MaxUint64, rng.Uint64()}[rng.Intn(7)]
		o.data = randBytes(rng, []int{0, 1, 3, 55, 56, 64, 111, 112, 128, 300}[rng.Intn(10)])
		o.dataErr = rng.Intn(25) == 0
	}
	if rng.Intn(10) == 0 { // bits the kind does not call for (a char-device bit on a block device's sibling, an irregular file, …)
		o.mode |= []os.FileMode{os.ModeCharDevice, os.ModeIrregular, os.ModeNamedPipe, os.ModeSocket, os.ModeAppend, os.ModeTemporary}[rng.Intn(6)]
	}
	switch rng.Intn(7) {
	case 0:
		o.sec, o.nsec = 0, 0
	case 1:
		o.sec, o.nsec = int64(rng.Intn(2000000000)), 0
	case 2:
		o.sec, o.nsec = int64(rng.Intn(2000000000)), int64(rng.Intn(1000000000))
	case 3:
		o.sec, o.nsec = -1-int64(rng.Intn(100000)), int64(rng.Intn(1000000000))
	case 4:
		o.sec, o.nsec = int64(rng.Intn(100)), []int64{1, 5, 10, 999, 100000000, 999999999, 999999990}[rng.Intn(7)]
	case 5:
		o.sec, o.nsec = []int64{math.MaxInt64, math.MinInt64, 1 << 40, -(1 << 40), 253402300800}[rng.Intn(5)], int64(rng.Intn(1000000000))
	default:
		o.sec, o.nsec = int64(rng.Uint64()), int64(rng.Intn(1000000000))
	}
	return o
}

func mtreeNameTags(prefix, s string) []string {
	tags := []string{}
	has := func(f func(c byte) bool) bool {
		for i := 0; i < len(s); i++ {
			if f(s[i]) {
				return true
			}
		}
		return false
	}
	if s == "" {
		tags = append(tags, prefix+":empty")
	}
	if has(func(c byte) bool { return c == ' ' }) {
		tags = append(tags, prefix+":space")
	}
	if has(func(c byte) bool { return c == '\\' || c == '#' }) {
		tags = append(tags, prefix+":backslash-or-hash")
	}
	if has(func(c byte) bool { return c < 32 }) {
		tags = append(tags, prefix+":control")
	}
	if has(func(c byte) bool { return c > 126 }) {
		tags = append(tags, prefix+":del-or-high")
	}
	if has(func(c byte) bool { return c == '=' }) {
		tags = append(tags, prefix+":equals")
	}
	return tags
}

func mtreeShrink(line string) []string {
	_, a := parseCase(line)
	if a["ops"] == "" {
		return nil
	}
	ops := strings.Split(a["ops"], ";")
	var out []string
	with := func(ops []string) string {
		b := kv{}
		for k, v := range a {
			b[k] = v
		}
		b["ops"] = strings.Join(ops, ";")
		return buildCase("mtree.line", b, "room", "alg", "ops")
	}
	if len(ops) > 1 {
		for i := range ops {
			out = append(out, with(append(append([]string{}, ops[:i]...), ops[i+1:]...)))
		}
	}
	for i, s := range ops {
		o, ok := parseMtreeOp(s)
		if !ok {
			continue
		}
		for _, v := range []func(o mtreeOp) mtreeOp{
			func(o mtreeOp) mtreeOp { o.name = o.name[:len(o.name)/2]; return o },
			func(o mtreeOp) mtreeOp { o.name = o.name[(len(o.name)+1)/2:]; return o },
			func(o mtreeOp) mtreeOp { o.target = o.target[:len(o.target)/2]; return o },
			func(o mtreeOp) mtreeOp { o.data = o.data[:len(o.data)/2]; return o },
			func(o mtreeOp) mtreeOp { o.uid, o.gid = 0, 0; return o },
			func(o mtreeOp) mtreeOp { o.sec, o.nsec = 0, 0; return o },
			func(o mtreeOp) mtreeOp { o.size = 0; return o },
		} {
			if n := v(o); n.String() != s {
				c := append([]string{}, ops...)
				c[i] = n.String()
				out = append(out, with(c))
			}
		}
	}
	if a["room"] != "-" {
		b := kv{}
		for k, v := range a {
			b[k] = v
		}
		b["room"] = "-"
		out = append(out, buildCase("mtree.line", b, "room", "alg", "ops"))
	}
	return out
}

// runMtreeFS is called from runC05
func runMtreeFS(cfg Config, rep *Report, m *Model, rng *rand.Rand) {
	mtreeCLIGlue(cfg, rep)
	if m.cmd == nil {
		return
	}
	algs := []string{"sha512-256", "sha256", "sha512-256", "sha256", "other"}
	// (1) the writer: return values and bytes
	for it := 0; it < cfg.N(2500, 100000); it++ {
		alg := algs[rng.Intn(len(algs))]
		nops := []int{1, 1, 1, 2, 3, 6}[rng.Intn(6)]
		ops, strs := []mtreeOp{}, []string{}
		for i := 0; i < nops; i++ {
			o := mtreeGenOp(rng)
			ops = append(ops, o)
			strs = append(strs, o.String())
		}
		room := "-"
		if rng.Intn(4) == 0 {
			room = fmt.Sprint([]int{0, 5, 11, 12, 13, 30, 60, 100, 150, 400}[rng.Intn(10)])
		}
		line := fmt.Sprintf("mtree.line room=%s alg=%s ops=%s", room, alg, strings.Join(strs, ";"))
		rep.Compare(m, line, implMtreeLine, mtreeShrink)
		res := implMtreeLine(line)
		_, f := parseCase("x " + res)
		tags := []string{"mtree.line", "mtree.line:alg:" + alg, "mtree.line:new:" + f["new"], "mtree.line:ret:" + f["ret"]}
		for _, o := range ops {
			tags = append(tags, "mtree.line:kind:"+o.kind)
			tags = append(tags, mtreeNameTags("mtree.line:name", o.name)...)
			if o.kind == "symlink" {
				tags = append(tags, mtreeNameTags("mtree.line:target", o.target)...)
			}
			if o.uid < 0 || o.gid < 0 {
				tags = append(tags, "mtree.line:negative-id")
			}
			if o.sec < 0 {
				tags = append(tags, "mtree.line:mtime-negative")
			}
			if o.nsec != 0 {
				tags = append(tags, "mtree.line:mtime-subsecond")
			}
			if o.mode&(os.ModeSetuid|os.ModeSetgid|os.ModeSticky) != 0 {
				tags = append(tags, "mtree.line:set-id-or-sticky")
			}
		}
		if room != "-" && f["new"] == "ok" && f["ret"] == "ok" {
			// did everything arrive?  (the result of Fprintln is not looked at by the Create* methods)
			_, full := mtreeRun(-1, alg, ops)
			if hx(full) != f["out"] {
				tags = append(tags, "mtree.observation:write-error-swallowed(success-reported,output-cut)")
			}
		}
		rep.Count(line, true, tags...)
	}
	// (2) the independent reader on the real writer's lines
	for it := 0; it < cfg.N(2500, 100000); it++ {
		alg := algs[rng.Intn(4)]
		o := mtreeGenOp(rng)
		if it%3 != 0 { // mostly names the round trip is proved for
			o.name = strings.ReplaceAll(o.name, " ", "_")
			o.target = strings.ReplaceAll(o.target, " ", "\t")
			if o.name == "" {
				o.name = "."
			}
		}
		o.dataErr = false
		real := mtreeRealLine(alg, o)
		if real == nil {
			rep.Disagree(Disagreement{Kind: "monitor", Case: "mtree.line room=- alg=" + alg + " ops=" + o.String(), What: "the real MtreeFS printed no line for this node"})
			continue
		}
		line := fmt.Sprintf("mtree.parse alg=%s op=%s line=%s", alg, o.String(), hx(real))
		expected := !strings.Contains(o.name, " ") && !strings.Contains(o.target, " ") && o.name != ""
		if expected {
			rep.Compare(m, line, implMtreeParse, nil)
			rep.Count(line, true, "mtree.parse", "mtree.parse:kind:"+o.kind, "mtree.parse:alg:"+alg)
			continue
		}
		// a space in the name or the target, or an empty name: the line is not expected to read back (observation, counted)
		got, want := m.Ask(line), mtreeWant(alg, o)
		tag := "mtree.observation:space-or-empty-name:reads-back"
		if got != want {
			tag = "mtree.observation:space-or-empty-name:MISREAD(" + strings.SplitN(got, " ", 2)[0] + ")"
		}
		rep.Count(line, true, "mtree.parse:unescaped-space", tag)
	}
	// (3) mtreeFilename over the byte range
	for it := 0; it < 256+cfg.N(500, 20000); it++ {
		var s string
		if it < 256 {
			s = string([]byte{byte(it)})
		} else {
			s = mtreeGenName(rng)
		}
		line := "mtree.name s=" + hx([]byte(s))
		rep.Compare(m, line, implMtreeName, nil)
		rep.Count(line, true, "mtree.name")
	}
}

// ---------------------------------------------------------------------------------------
// cli.glue: the option plumbing of cmd/desync tar / untar / mtree on the built binary

func mtreeCLIGlue(cfg Config, rep *Report) {
	bin := desyncBin()
	if bin == "" {
		rep.Notes = append(rep.Notes, "cli.glue: no desync binary next to the harness; the option plumbing was not run")
		return
	}
	bad := func(caseLine, what, impl string) {
		rep.Disagree(Disagreement{Kind: "monitor", Case: caseLine, Impl: clip(impl, 600), What: what})
	}
	work, err := os.MkdirTemp(cfg.Work, "cliglue")
	if err != nil {
		return
	}
	defer os.RemoveAll(work)
	root := os.Geteuid() == 0
	src := work + "/tree"
	os.MkdirAll(src+"/sub dir", 0o750)
	os.WriteFile(src+"/a", []byte("hello"), 0o600)
	os.WriteFile(src+"/sub dir/b c", []byte("world!"), 0o640)
	os.Symlink("a", src+"/l")
	os.Chmod(src+"/a", 0o600)
	os.Chmod(src+"/sub dir/b c", 0o4750) // set-uid
	if root {
		os.Lchown(src+"/a", 1234, 2345)
		os.Lchown(src+"/sub dir/b c", 1234, 2345)
		os.Lchown(src+"/sub dir", 1234, 2345)
		os.Chmod(src+"/sub dir/b c", 0o4750)
		syscall.Mknod(src+"/chr", syscall.S_IFCHR|0o600, 1<<8|3)
		syscall.Mknod(src+"/blk", syscall.S_IFBLK|0o600, 7<<8|0)
	}
	mt := time.Unix(1500000000, 123456789)
	for _, p := range []string{"/a", "/sub dir/b c", "/sub dir", "/chr", "/blk", ""} {
		os.Chtimes(src+p, mt, mt)
	}
	catar := work + "/x.catar"
	env := []string{}
	run := func(args ...string) cliResult { return runCLI(bin, env, nil, 60*time.Second, args...) }
	if r := run("tar", catar, src); r.exit != 0 {
		bad("cli.glue tar", "desync tar of a small tree failed", r.stderr)
		return
	}
	stat := func(p string) (uid, gid, mode uint32, ok bool) {
		var st syscall.Stat_t
		if syscall.Lstat(p, &st) != nil {
			return 0, 0, 0, false
		}
		return st.Uid, st.Gid, st.Mode, true
	}
	type want struct {
		name        string
		owner, mode bool // as in the archive?
	}
	for _, v := range []struct {
		flags       []string
		owner, mode bool
	}{{nil, true, true}, {[]string{"--no-same-owner"}, false, true}, {[]string{"--no-same-permissions"}, true, false},
		{[]string{"--no-same-owner", "--no-same-permissions"}, false, false}} {
		dst, _ := os.MkdirTemp(work, "out")
		caseLine := "cli.glue untar " + strings.Join(v.flags, " ")
		r := run(append(append([]string{"untar"}, v.flags...), catar, dst)...)
		rep.Count(caseLine, true, "cli.glue", "cli.glue:untar")
		if r.exit != 0 {
			bad(caseLine, "desync untar failed", r.stderr)
			continue
		}
		for _, f := range []string{"/a", "/sub dir/b c"} {
			su, sg, sm, ok1 := stat(src + f)
			du, dg, dm, ok2 := stat(dst + f)
			if !ok1 || !ok2 {
				bad(caseLine, "a file of the archive is missing after untar: "+f, "")
				continue
			}
			if root {
				if v.owner && (su != du || sg != dg) {
					bad(caseLine, fmt.Sprintf("untar without --no-same-owner: %s has owner %d:%d, the archive says %d:%d", f, du, dg, su, sg), "")
				}
				if !v.owner && (du != 0 || dg != 0) {
					bad(caseLine, fmt.Sprintf("untar --no-same-owner: %s has owner %d:%d, not the current user's", f, du, dg), "")
				}
			}
			// with the owner applied chown clears set-id bits before chmod puts them back; compare the permission bits
			if v.mode && sm&0o777 != dm&0o777 {
				bad(caseLine, fmt.Sprintf("untar without --no-same-permissions: %s has mode %o, the archive says %o", f, dm&0o7777, sm&0o7777), "")
			}
			if !v.mode && dm&0o7777 == sm&0o7777 {
				bad(caseLine, fmt.Sprintf("untar --no-same-permissions: %s has the archive's mode %o (expected the creation default)", f, dm&0o7777), "")
			}
		}
	}
	// output formats
	tarOut := work + "/out.tar"
	if r := run("untar", "--output-format", "gnu-tar", catar, tarOut); r.exit != 0 {
		bad("cli.glue untar --output-format gnu-tar", "failed", r.stderr)
	} else if b, _ := os.ReadFile(tarOut); len(b) < 1024 || len(b)%512 != 0 {
		bad("cli.glue untar --output-format gnu-tar", fmt.Sprintf("the tar file has %d bytes", len(b)), "")
	} else {
		r2 := run("untar", "--output-format", "gnu-tar", catar, "-")
		if r2.exit != 0 || r2.stdout != string(b) {
			bad("cli.glue untar --output-format gnu-tar -", "the archive on stdout differs from the one written to a file", "")
		}
		if r3 := run("tar", "--input-format", "tar", work+"/y.catar", tarOut); r3.exit != 0 {
			bad("cli.glue tar --input-format tar", "failed on the tar file untar wrote", r3.stderr)
		}
		if r4 := runCLI(bin, env, b, 60*time.Second, "tar", "--input-format", "tar", work+"/z.catar", "-"); r4.exit != 0 {
			bad("cli.glue tar --input-format tar -", "failed on stdin", r4.stderr)
		} else {
			y, _ := os.ReadFile(work + "/y.catar")
			z, _ := os.ReadFile(work + "/z.catar")
			if !bytes.Equal(y, z) || len(y) == 0 {
				bad("cli.glue tar --input-format tar -", "the archive made from stdin differs from the one made from the file", "")
			}
		}
	}
	rep.Count("cli.glue formats", true, "cli.glue", "cli.glue:formats")
	if r := run("untar", "--output-format", "bogus", catar, work+"/nowhere"); r.exit == 0 || !strings.Contains(r.stderr, "invalid output format") {
		bad("cli.glue untar --output-format bogus", "not refused", r.stderr)
	}
	if r := run("tar", "--input-format", "bogus", work+"/n.catar", src); r.exit == 0 || !strings.Contains(r.stderr, "invalid input format") {
		bad("cli.glue tar --input-format bogus", "not refused", r.stderr)
	}
	if r := run("tar", "--tar-add-root", work+"/n.catar", src); r.exit == 0 {
		bad("cli.glue tar --tar-add-root (disk input)", "not refused", r.stderr)
	}
	if r := run("untar", "-i", catar, work+"/nowhere"); r.exit == 0 {
		bad("cli.glue untar -i without a store", "not refused", r.stderr)
	}
	// tar to stdout = tar to a file
	if r := run("tar", "-", src); r.exit != 0 {
		bad("cli.glue tar -", "failed", r.stderr)
	} else if b, _ := os.ReadFile(catar); r.stdout != string(b) {
		bad("cli.glue tar -", "the archive on stdout differs from the one written to a file", "")
	}
	// desync mtree: catar input against the in-process writer on the same archive, directory input against both
	ar, _ := os.ReadFile(catar)
	for _, dg := range []string{"sha512-256", "sha256"} {
		restore := mtreeSetDigest(dg)
		var buf bytes.Buffer
		fs, _ := desync.NewMtreeFS(&buf)
		err := desync.UnTar(context.Background(), bytes.NewReader(ar), fs)
		restore()
		if err != nil {
			bad("cli.glue mtree", "in-process UnTar into MtreeFS failed: "+err.Error(), "")
			continue
		}
		args := []string{"mtree"}
		if dg == "sha256" {
			args = append(args, "--digest", "sha256")
		}
		r1 := run(append(args, catar)...)
		r2 := run(append(args, src)...)
		rep.Count("cli.glue mtree "+dg, true, "cli.glue", "cli.glue:mtree")
		if r1.exit != 0 || r1.stdout != buf.String() {
			bad("cli.glue mtree <catar> digest="+dg, "the output differs from UnTar into MtreeFS on the same archive", r1.stdout+r1.stderr)
		}
		if r2.exit != 0 || r2.stdout != buf.String() {
			bad("cli.glue mtree <dir> digest="+dg, "the output for the directory differs from the output for its archive", r2.stdout+r2.stderr)
		}
		// every line of the real output is read back by the model's reader: type and name per line
		if lines := strings.Split(strings.TrimSuffix(buf.String(), "\n"), "\n"); len(lines) < 5 {
			bad("cli.glue mtree", "fewer lines than nodes", buf.String())
		}
	}
}
