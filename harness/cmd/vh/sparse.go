package main

// Sparse regular files for the trees the C05 / C13 checks build on disk. What a file IS to Tar (C05: every field of every
// record, C13: the payload element of the archive) is its logical content: `size` bytes, zeros wherever no block is
// allocated. How the bytes are laid out on disk (st_blocks*512 < st_size, holes that SEEK_HOLE reports) is not part of it.
// The generators below describe a file by its logical bytes (that is what the case line carries and what the model sees)
// and the writer lays every all-zero file-system block out as a hole (ftruncate to the size, WriteAt for the rest), so
// that "data then hole", "hole then data", "data, hole, data", "all hole" and "data, hole, data, hole" all occur with
// holes of several blocks. sparseProbe says whether the scratch file system really leaves the holes unallocated.

import (
	"fmt"
	"io"
	"math/rand"
	"os"
	"path"
	"path/filepath"
	"strings"
	"syscall"
	"time"

	"golang.org/x/sys/unix"
)

var sparseShapeNames = []string{"data-hole", "hole-data", "data-hole-data", "all-hole", "data-hole-data-hole"}

// the block size holes are made of on the file system that holds dir
func holeBlockSize(dir string) int {
	var st unix.Statfs_t
	if err := unix.Statfs(dir, &st); err != nil || st.Bsize < 512 || st.Bsize > 1<<16 {
		return 4096
	}
	return int(st.Bsize)
}

func allZero(b []byte) bool {
	for _, c := range b {
		if c != 0 {
			return false
		}
	}
	return true
}

// writeFileHoles is os.WriteFile, except that blocks that hold nothing but zeros are not written: the file gets its size
// from ftruncate and the blocks in between stay unallocated
func writeFileHoles(p string, data []byte, perm os.FileMode) error {
	bs := holeBlockSize(filepath.Dir(p))
	f, err := os.OpenFile(p, os.O_WRONLY|os.O_CREATE|os.O_TRUNC, perm)
	if err != nil {
		return err
	}
	if err := f.Truncate(int64(len(data))); err != nil {
		f.Close()
		return err
	}
	next := func(off int) int {
		if off+bs > len(data) {
			return len(data)
		}
		return off + bs
	}
	for off := 0; off < len(data); {
		end := next(off)
		if allZero(data[off:end]) {
			off = end
			continue
		}
		for end < len(data) && !allZero(data[end:next(end)]) {
			end = next(end)
		}
		if _, err := f.WriteAt(data[off:end], int64(off)); err != nil {
			f.Close()
			return err
		}
		off = end
	}
	return f.Close()
}

// sparseContent: the logical bytes of a file of the given shape. A data stretch is 1 .. 2 blocks of random bytes that
// starts with a non-zero byte (padded with zeros to the block boundary when a hole follows), a hole is 4 .. 7 blocks of
// zeros (the last one of a file may end anywhere).
func sparseContent(rng *rand.Rand, bs int, shape int) []byte {
	var out []byte
	data := func(last bool) {
		d := randBytes(rng, 1+rng.Intn(2*bs))
		d[0] |= 1
		d[len(d)-1] |= 1
		out = append(out, d...)
		if !last && len(out)%bs != 0 {
			out = append(out, make([]byte, bs-len(out)%bs)...)
		}
	}
	hole := func(last bool) {
		n := (4 + rng.Intn(4)) * bs
		if last && rng.Intn(2) == 0 {
			n -= rng.Intn(bs)
		}
		out = append(out, make([]byte, n)...)
	}
	switch shape % len(sparseShapeNames) {
	case 0:
		data(false)
		hole(true)
	case 1:
		hole(false)
		data(true)
	case 2:
		data(false)
		hole(false)
		data(true)
	case 3:
		hole(true)
	case 4:
		data(false)
		hole(false)
		data(false)
		hole(true)
	}
	return out
}

// isSparseOnDisk: fewer blocks allocated than the size asks for
func isSparseOnDisk(p string) bool {
	var st syscall.Stat_t
	if err := syscall.Lstat(p, &st); err != nil {
		return false
	}
	return st.Blocks*512 < st.Size
}

// sparseProbe: the block size of the file system under dir, or 0 if a file written by writeFileHoles does not come out
// sparse there (st_blocks*512 >= st_size, or no hole for SEEK_HOLE to find before the end of the file)
func sparseProbe(dir string) int {
	os.MkdirAll(dir, 0755)
	defer os.RemoveAll(dir)
	bs := holeBlockSize(dir)
	p := filepath.Join(dir, "sparse-probe")
	b := sparseContent(rand.New(rand.NewSource(1)), bs, 2)
	if writeFileHoles(p, b, 0644) != nil || !isSparseOnDisk(p) {
		return 0
	}
	got, err := os.ReadFile(p)
	if err != nil || string(got) != string(b) {
		return 0
	}
	f, err := os.Open(p)
	if err != nil {
		return 0
	}
	defer f.Close()
	if h, err := unix.Seek(int(f.Fd()), 0, unix.SEEK_HOLE); err != nil || h >= int64(len(b)) {
		return 0
	}
	return bs
}

// addSparseFiles puts a sparse regular file (or two) into a directory that buildDiskTree made
func addSparseFiles(rng *rand.Rand, dir string) {
	bs := holeBlockSize(dir)
	for i, n := 0, 1+rng.Intn(2); i < n; i++ {
		shape := rng.Intn(len(sparseShapeNames))
		p := filepath.Join(dir, "sparse-"+sparseShapeNames[shape]+"-"+string(rune('0'+i)))
		if writeFileHoles(p, sparseContent(rng, bs, shape), 0644) != nil {
			continue
		}
		os.Chown(p, rng.Intn(3000), rng.Intn(3000))
		syscall.Chmod(p, uint32(rng.Intn(0o1000)))
		mt := time.Unix(int64(1000000000+rng.Intn(900000000)), int64(rng.Intn(1000000000)))
		os.Chtimes(p, mt, mt)
	}
}

// readAllDirty is io.ReadAll with a buffer that does not start out as zeros: a reader that reports n bytes as read has
// to have put them there
func readAllDirty(r io.Reader) ([]byte, error) {
	buf := make([]byte, 32<<10)
	var out []byte
	for {
		for i := range buf {
			buf[i] = 0xa5
		}
		n, err := r.Read(buf)
		out = append(out, buf[:n]...)
		if err != nil {
			if err == io.EOF {
				return out, nil
			}
			return out, err
		}
	}
}

// sparseMonitor: the tree of an lfs.read case line is built and read once more, and the content LocalFS delivers for each
// regular file that has a run of at least four blocks of zeros is held against the file's bytes, with the place of the
// first difference in the report (the correspondence on the same line says the same with the whole record stream)
func sparseMonitor(rep *Report, line string, ents []lfsEntry) {
	got := implLfsRead(line)
	if !strings.HasPrefix(got, "ok ") {
		return // the root does not lead to the tree
	}
	_, a := parseCase(line)
	bs := holeBlockSize(filepath.Dir(string(unhx(a["top"]))))
	recs := map[string][]byte{} // base name -> content, for names that occur once among the records
	seen := map[string]int{}
	for _, r := range strings.Split(got[3:], ";") {
		f := strings.Split(r, "|")
		if len(f) == 14 && f[3] == "reg" {
			b := string(unhx(f[1]))
			seen[b]++
			recs[b] = unhx(f[9])
		}
	}
	for _, e := range ents {
		if e.kind != "f" || !e.attrs || !strings.Contains(string(e.data), string(make([]byte, 4*bs))) {
			continue
		}
		base := path.Base(e.p)
		data, ok := recs[base]
		if !ok || seen[base] != 1 {
			continue
		}
		rep.Histogram["lfsread:sparse-file-content-checked"]++
		if string(data) == string(e.data) {
			continue
		}
		at := 0
		for at < len(data) && at < len(e.data) && data[at] == e.data[at] {
			at++
		}
		what := fmt.Sprintf("packing from disk: the content LocalFS delivers for the sparse regular file %q (size %d, every block of zeros a hole) is not the file's content: %d bytes delivered, first difference at offset %d",
			e.p, len(e.data), len(data), at)
		if at < len(data) && at < len(e.data) {
			what += fmt.Sprintf(" (%#02x delivered, the file reads %#02x there)", data[at], e.data[at])
		}
		rep.Disagree(Disagreement{Kind: "monitor", Case: line, What: what})
	}
}
