package main

import (
	"bytes"
	"errors"
	"fmt"
	"math/rand"
	"os"
	"path/filepath"
	"strconv"
	"strings"
	"sync"
	"time"

	"github.com/folbricht/desync"
)

// the ID universe of the chain tests: id k is the digest of goodData(k)
func goodData(k int) []byte  { return []byte(fmt.Sprintf("good-%d", k)) }
func badData(tag int) []byte { return []byte(fmt.Sprintf("bad-%d", tag)) }
func chainID(k int) desync.ChunkID {
	return desync.Digest.Sum(goodData(k))
}

type chainObj struct {
	tag   int
	valid bool
}

func (o chainObj) data(id int) []byte {
	if o.valid {
		return goodData(id)
	}
	return badData(o.tag)
}

// scriptedLeaf mirrors Chain.Leaf of the model
type scriptedLeaf struct {
	mu      sync.Mutex
	content map[int]chainObj
	faults  map[int]bool
	verify  bool
	calls   int
	log     []string
	ids     map[desync.ChunkID]int
}

func (l *scriptedLeaf) GetChunk(id desync.ChunkID) (*desync.Chunk, error) {
	l.mu.Lock()
	defer l.mu.Unlock()
	k := l.ids[id]
	l.log = append(l.log, fmt.Sprintf("g%d", k))
	c := l.calls
	l.calls++
	if l.faults[c] {
		return nil, errors.New("scripted failure")
	}
	o, ok := l.content[k]
	if !ok {
		return nil, desync.ChunkMissing{ID: id}
	}
	return desync.NewChunkWithID(id, o.data(k), !l.verify)
}
func (l *scriptedLeaf) HasChunk(id desync.ChunkID) (bool, error) {
	l.mu.Lock()
	defer l.mu.Unlock()
	k := l.ids[id]
	l.log = append(l.log, fmt.Sprintf("h%d", k))
	c := l.calls
	l.calls++
	if l.faults[c] {
		return false, errors.New("scripted failure")
	}
	_, ok := l.content[k]
	return ok, nil
}
func (l *scriptedLeaf) StoreChunk(ch *desync.Chunk) error {
	id := ch.ID()
	b, err := ch.Data()
	if err != nil {
		return err
	}
	l.mu.Lock()
	defer l.mu.Unlock()
	k := l.ids[id]
	l.log = append(l.log, fmt.Sprintf("s%d", k))
	c := l.calls
	l.calls++
	if l.faults[c] {
		return errors.New("scripted failure")
	}
	if string(b) == string(goodData(k)) {
		l.content[k] = chainObj{k, true}
	} else {
		t, _ := strconv.Atoi(strings.TrimPrefix(string(b), "bad-"))
		l.content[k] = chainObj{t, false}
	}
	return nil
}
func (l *scriptedLeaf) Close() error   { return nil }
func (l *scriptedLeaf) String() string { return "leaf" }

func implChainOps(line string) string {
	_, a := parseCase(line)
	ids := map[desync.ChunkID]int{}
	for k := 0; k < 8; k++ {
		ids[chainID(k)] = k
	}
	var leaves []*scriptedLeaf
	if a["leaves"] != "" {
		for _, ls := range strings.Split(a["leaves"], ";") {
			f := strings.Split(ls, "/")
			l := &scriptedLeaf{content: map[int]chainObj{}, faults: map[int]bool{}, verify: f[2] == "1", ids: ids}
			if f[0] != "" {
				for _, o := range strings.Split(f[0], ".") {
					p := strings.Split(o, ":")
					id, _ := strconv.Atoi(p[0])
					tag, _ := strconv.Atoi(p[1])
					if _, dup := l.content[id]; !dup { // first entry wins (List.lookup)
						l.content[id] = chainObj{tag, p[2] == "1"}
					}
				}
			}
			if f[1] != "" {
				for _, x := range strings.Split(f[1], ".") {
					k, _ := strconv.Atoi(x)
					l.faults[k] = true
				}
			}
			leaves = append(leaves, l)
		}
	}
	var groups []desync.Store
	var fgs []*desync.FailoverGroup
	if a["groups"] != "" {
		for _, g := range strings.Split(a["groups"], "|") {
			var members []desync.Store
			for _, m := range strings.Split(g, ".") {
				i, _ := strconv.Atoi(m)
				members = append(members, leaves[i])
			}
			if len(members) == 1 {
				groups = append(groups, members[0])
				fgs = append(fgs, nil)
			} else {
				fg := desync.NewFailoverGroup(members...)
				groups = append(groups, fg)
				fgs = append(fgs, fg)
			}
		}
	}
	var st desync.Store = desync.NewStoreRouter(groups...)
	if a["cache"] != "" && a["cache"] != "-" {
		p := strings.Split(a["cache"], ":")
		c, _ := strconv.Atoi(p[0])
		var cache desync.WriteStore = leaves[c]
		if p[1] == "1" {
			cache = desync.NewRepairableCache(cache)
		}
		st = desync.NewCache(st, cache)
	}
	return guard(func() string {
		var out []string
		for _, op := range strings.Split(a["ops"], ",") {
			if op == "" {
				continue
			}
			k, _ := strconv.Atoi(op[1:])
			if op[0] == 'G' {
				c, err := st.GetChunk(chainID(k))
				switch {
				case err == nil:
					b, derr := c.Data()
					switch {
					case derr != nil:
						out = append(out, "c:nodata")
					case string(b) == string(goodData(k)):
						out = append(out, fmt.Sprintf("c:%d:1", k))
					default:
						t, _ := strconv.Atoi(strings.TrimPrefix(string(b), "bad-"))
						out = append(out, fmt.Sprintf("c:%d:0", t))
					}
				default:
					// by error type, as the wrappers themselves dispatch (a wrapped error is just an error)
					switch err.(type) {
					case desync.ChunkMissing:
						out = append(out, "m")
					case desync.ChunkInvalid:
						out = append(out, "i")
					default:
						out = append(out, "f")
					}
				}
			} else {
				has, err := st.HasChunk(chainID(k))
				switch {
				case err != nil:
					out = append(out, "e")
				case has:
					out = append(out, "t")
				default:
					out = append(out, "n")
				}
			}
		}
		var logs []string
		for _, l := range leaves {
			logs = append(logs, strings.Join(l.log, "."))
		}
		return strings.Join(out, ",") + " logs=" + strings.Join(logs, ";")
	})
}

func runC11(cfg Config) {
	rep := NewReport("C11", cfg.Tier, cfg.Seed,
		"operation sequences (GetChunk/HasChunk over a 4-ID universe) on real Cache / RepairableCache / StoreRouter / FailoverGroup "+
			"wrappers around scripted members (contents incl. invalid objects, verify on/off, fault schedules: healthy, permanently failing, "+
			"failing at call k) in every chain shape the CLI builds (router of single stores and failover groups, with/without cache, "+
			"repairable or not): results and member call logs vs the model; FailoverGroup (2-6 GetChunk/HasChunk callers, 2-4 scripted members, "+
			"one healthy) and SwapStore/SwapWriteStore (2-5 requesters, 1-3 Swap calls, a Close) under a cooperative scheduler through the "+
			"verifChain hooks: the totally ordered event trace must be a run of the Lean lock-level machine with the same values and results "+
			"(trace validation; monitors: no request fails with a healthy member, missing is reported missing, no store used after Swap closed "+
			"it, every request returns); plus free-running stress of both (monitors). non-trivial = distinct case with >= 2 groups or a cache "+
			"and >= 2 ops; failover trace with a failover; swap trace with a swap overlapping a request")
	m, err := StartModel(cfg.Driver)
	if err != nil {
		fatal(err)
	}
	defer m.Close()
	rng := rand.New(rand.NewSource(cfg.Seed))
	monitor := func(what, caseLine string) {
		rep.Disagree(Disagreement{Kind: "monitor", Case: caseLine, What: what})
	}
	n := cfg.N(4000, 100000)
	for it := 0; it < n; it++ {
		nleaves := 1 + rng.Intn(5)
		var ls []string
		tag := 100
		for i := 0; i < nleaves; i++ {
			var objs []string
			for id := 0; id < 4; id++ {
				switch rng.Intn(5) {
				case 0, 1:
					objs = append(objs, fmt.Sprintf("%d:%d:1", id, id))
				case 2:
					tag++
					objs = append(objs, fmt.Sprintf("%d:%d:0", id, tag))
				}
			}
			var faults []string
			switch rng.Intn(5) {
			case 0: // permanently failing
				for k := 0; k < 40; k++ {
					faults = append(faults, strconv.Itoa(k))
				}
			case 1:
				for k := 0; k < 1+rng.Intn(3); k++ {
					faults = append(faults, strconv.Itoa(rng.Intn(8)))
				}
			}
			ls = append(ls, fmt.Sprintf("%s/%s/%d", strings.Join(objs, "."), strings.Join(faults, "."), b2i(rng.Intn(4) > 0)))
		}
		// partition leaves 0..nleaves-1 (minus the cache) into groups
		cache := "-"
		avail := nleaves
		if nleaves >= 2 && rng.Intn(2) == 0 {
			cache = fmt.Sprintf("%d:%d", nleaves-1, rng.Intn(2))
			avail = nleaves - 1
		}
		var groups []string
		i := 0
		for i < avail {
			sz := 1
			if rng.Intn(3) == 0 {
				sz = 1 + rng.Intn(avail-i)
			}
			var ms []string
			for k := 0; k < sz; k++ {
				ms = append(ms, strconv.Itoa(i+k))
			}
			groups = append(groups, strings.Join(ms, "."))
			i += sz
		}
		var ops []string
		for k := 0; k < 1+rng.Intn(8); k++ {
			ops = append(ops, fmt.Sprintf("%c%d", "GGGH"[rng.Intn(4)], rng.Intn(4)))
		}
		line := fmt.Sprintf("chain.ops groups=%s cache=%s leaves=%s ops=%s", strings.Join(groups, "|"), cache, strings.Join(ls, ";"), strings.Join(ops, ","))
		got := implChainOps(line)
		// the model also prints the active indices; compare the common part
		want := m.Ask(line)
		if i := strings.Index(want, " active="); i >= 0 {
			want = want[:i]
		}
		rep.Count(line, (len(groups) >= 2 || cache != "-") && len(ops) >= 2, "chain", fmt.Sprintf("groups:%d", len(groups)), "cache:"+cache[len(cache)-1:])
		if m.cmd != nil && got != want {
			rep.Disagree(Disagreement{Kind: "correspondence", Case: line, Model: want, Impl: got, What: "model and implementation differ"})
		}
		// monitor: a chunk delivered as valid must be the good data of its ID (C03 through the chain) — by construction of the result string
	}

	// FailoverGroup and SwapStore under a cooperative scheduler: event traces replayed through the step machines
	runC11Conc(cfg, rep, m, rand.New(rand.NewSource(cfg.Seed^0x11c0)))

	// concurrent failover: one healthy member, the others fail; every request must succeed
	for it := 0; it < cfg.N(100, 2000); it++ {
		nm := 2 + rng.Intn(4)
		h := rng.Intn(nm)
		ids := map[desync.ChunkID]int{chainID(1): 1}
		var members []desync.Store
		for i := 0; i < nm; i++ {
			l := &scriptedLeaf{content: map[int]chainObj{1: {1, true}}, faults: map[int]bool{}, verify: true, ids: ids}
			if i != h {
				for k := 0; k < 100000; k++ {
					if rng.Intn(3) > 0 || k < 3 {
						l.faults[k] = true
					}
					if k > 200 {
						break
					}
				}
			}
			members = append(members, l)
		}
		fg := desync.NewFailoverGroup(members...)
		var wg sync.WaitGroup
		var failed int32
		var mu sync.Mutex
		for g := 0; g < 6; g++ {
			wg.Add(1)
			go func() {
				defer wg.Done()
				for k := 0; k < 8; k++ {
					if _, err := fg.GetChunk(chainID(1)); err != nil {
						mu.Lock()
						failed++
						mu.Unlock()
					}
				}
			}()
		}
		wg.Wait()
		caseLine := fmt.Sprintf("failover.concurrent members=%d healthy=%d", nm, h)
		rep.Count(caseLine+fmt.Sprint(it), true, "failover-concurrent")
		if failed > 0 {
			monitor(fmt.Sprintf("a failover group with a healthy member failed %d requests", failed), caseLine)
		}
	}

	// swap under load: requests must never fail or hit a closed store
	for it := 0; it < cfg.N(60, 1000); it++ {
		mk := func() *closableStore { return &closableStore{} }
		cur := mk()
		sw := desync.NewSwapStore(cur)
		stop := make(chan struct{})
		var wg sync.WaitGroup
		var bad int32
		var mu sync.Mutex
		for g := 0; g < 4; g++ {
			wg.Add(1)
			go func() {
				defer wg.Done()
				for {
					select {
					case <-stop:
						return
					default:
					}
					if _, err := sw.GetChunk(chainID(1)); err != nil {
						mu.Lock()
						bad++
						mu.Unlock()
					}
				}
			}()
		}
		for k := 0; k < 20; k++ {
			sw.Swap(mk())
			time.Sleep(20 * time.Microsecond)
		}
		close(stop)
		wg.Wait()
		rep.Count(fmt.Sprintf("swap.concurrent it=%d", it), true, "swap-concurrent")
		if bad > 0 {
			monitor(fmt.Sprintf("%d requests failed or ran on a closed store while swapping", bad), "swap.concurrent")
		}
	}
	// Swap while a write (or a read) is in flight in the old store: Swap waits for it; the request completes on the store
	// it started on, before that store is closed
	for it := 0; it < cfg.N(20, 200); it++ {
		for _, kind := range []string{"store", "get", "has"} {
			old := &gatedCloseStore{gate: make(chan struct{}), entered: make(chan struct{}, 1)}
			sw := desync.NewSwapWriteStore(old)
			ch := desync.NewChunk(randBytes(rng, 30))
			res := make(chan error, 1)
			go func() {
				switch kind {
				case "store":
					res <- sw.StoreChunk(ch)
				case "get":
					_, err := sw.GetChunk(ch.ID())
					res <- err
				default:
					_, err := sw.HasChunk(ch.ID())
					res <- err
				}
			}()
			select {
			case <-old.entered:
			case <-time.After(5 * time.Second):
			}
			swapped := make(chan struct{})
			go func() { sw.Swap(newClosableWriteStore(1)); close(swapped) }()
			early := false
			select {
			case <-swapped:
				early = true
			case <-time.After(15 * time.Millisecond):
			}
			close(old.gate)
			var err error
			select {
			case err = <-res:
			case <-time.After(5 * time.Second):
				err = errors.New("the request did not return")
			}
			select {
			case <-swapped:
			case <-time.After(5 * time.Second):
				monitor("Swap did not return after the in-flight request had finished", "swap.in-flight kind="+kind)
			}
			caseLine := fmt.Sprintf("swap.in-flight it=%d kind=%s", it, kind)
			rep.Count(caseLine, true, "swap-in-flight")
			if early {
				monitor("Swap closed the old store while a "+kind+" request was in flight in it", caseLine)
			}
			if err != nil {
				monitor("a "+kind+" request that was in flight during a Swap failed: "+err.Error(), caseLine)
			}
		}
	}

	// swap histories on a writable wrapper: after Swap(new) every request — reads and writes alike — goes to the new
	// store, nothing reaches the store that Swap closed, and what was written can be read back through the wrapper
	for it := 0; it < cfg.N(60, 1000); it++ {
		stores := []*closableWriteStore{newClosableWriteStore(0)}
		sw := desync.NewSwapWriteStore(stores[0])
		active := 0
		var hist []string
		for k := 0; k < 3+rng.Intn(12); k++ {
			switch rng.Intn(4) {
			case 0:
				stores = append(stores, newClosableWriteStore(len(stores)))
				sw.Swap(stores[len(stores)-1])
				active = len(stores) - 1
				hist = append(hist, "swap")
			case 1, 2:
				ch := desync.NewChunk(randBytes(rng, 20+rng.Intn(40)))
				err := sw.StoreChunk(ch)
				hist = append(hist, "store")
				caseLine := fmt.Sprintf("swap.history it=%d ops=%s", it, strings.Join(hist, ","))
				has, herr := sw.HasChunk(ch.ID())
				_, gerr := sw.GetChunk(ch.ID())
				switch {
				case err != nil:
					monitor("StoreChunk through a SwapWriteStore failed: "+err.Error(), caseLine)
				case !stores[active].has(ch.ID()):
					monitor(fmt.Sprintf("a chunk stored after a swap did not reach the active store (store %d of %d)", active, len(stores)), caseLine)
				case herr != nil || !has || gerr != nil:
					monitor("a chunk stored through a SwapWriteStore cannot be read back through it", caseLine)
				}
			default:
				_, _ = sw.HasChunk(chainID(1))
				hist = append(hist, "has")
			}
			for i, st := range stores {
				if st.usedAfterClose() {
					monitor(fmt.Sprintf("a request reached store %d after Swap had closed it", i), fmt.Sprintf("swap.history it=%d ops=%s", it, strings.Join(hist, ",")))
				}
			}
		}
		rep.Count(fmt.Sprintf("swap.history it=%d ops=%s", it, strings.Join(hist, ",")), true, "swap-history")
	}

	// cache repair on disk: Cache(Router(upstream), RepairableCache(LocalStore)) — what the command line builds for
	// `-s upstream -c dir --cache-repair`.  A cached object damaged in place (same length: one flipped byte; or cut;
	// or emptied) is replaced from upstream on the next GetChunk: the caller gets the right data, the object on disk
	// is valid afterwards, and a later GetChunk is served from the cache with upstream down
	for it := 0; it < cfg.N(24, 300); it++ {
		unc := it%2 == 1
		dir := filepath.Join(cfg.Work, fmt.Sprintf("cache-%d", it))
		os.MkdirAll(dir, 0755)
		local, err := desync.NewLocalStore(dir, desync.StoreOptions{Uncompressed: unc})
		if err != nil {
			continue
		}
		data := randBytes(rng, 100+rng.Intn(3000))
		ch := desync.NewChunk(data)
		id := ch.ID()
		up := &countingStore{chunks: map[desync.ChunkID][]byte{id: data}}
		cache := desync.NewCache(desync.NewStoreRouter(up), desync.NewRepairableCache(local))
		caseLine := fmt.Sprintf("cache.repair.disk it=%d uncompressed=%v damage=%d", it, unc, it%3)
		rep.Count(caseLine, true, "cache-repair-disk")
		if _, err := cache.GetChunk(id); err != nil {
			monitor("the first GetChunk through the cache failed: "+err.Error(), caseLine)
			continue
		}
		ext := ".cacnk"
		if unc {
			ext = ""
		}
		obj := filepath.Join(dir, id.String()[:4], id.String()+ext)
		b, err := os.ReadFile(obj)
		if err != nil || len(b) == 0 {
			monitor("the cache did not fill itself on a miss", caseLine)
			continue
		}
		switch it % 3 {
		case 0:
			b[rng.Intn(len(b))] ^= 0x20 // same length
		case 1:
			b = b[:len(b)/2]
		default:
			b = nil
		}
		os.WriteFile(obj, b, 0644)
		calls := up.calls
		got, err := cache.GetChunk(id)
		if err != nil {
			monitor("GetChunk with a damaged cached object and a healthy upstream failed: "+err.Error(), caseLine)
			continue
		}
		if gd, _ := got.Data(); !bytes.Equal(gd, data) {
			monitor("GetChunk with a damaged cached object returned wrong data", caseLine)
		}
		if up.calls != calls+1 {
			monitor(fmt.Sprintf("repairing a cached object took %d upstream requests, not 1", up.calls-calls), caseLine)
		}
		if c2, err := local.GetChunk(id); err != nil {
			monitor("the damaged cached object was not replaced: the cache still holds an invalid object ("+err.Error()+")", caseLine)
		} else if d2, _ := c2.Data(); !bytes.Equal(d2, data) {
			monitor("the repaired cached object holds wrong data", caseLine)
		}
		up.down = true
		if _, err := cache.GetChunk(id); err != nil {
			monitor("after a repair the chunk is not served from the cache (upstream down): "+err.Error(), caseLine)
		}
		os.RemoveAll(dir)
	}
	c11CLI(cfg, rep, rng)
	c11RealMembers(cfg, rep, rng)
	rep.Write(cfg.Out)
}

// countingStore: an upstream with a call counter that can go down
type countingStore struct {
	mu     sync.Mutex
	chunks map[desync.ChunkID][]byte
	calls  int
	down   bool
}

func (s *countingStore) GetChunk(id desync.ChunkID) (*desync.Chunk, error) {
	s.mu.Lock()
	defer s.mu.Unlock()
	s.calls++
	if s.down {
		return nil, errors.New("upstream is down")
	}
	b, ok := s.chunks[id]
	if !ok {
		return nil, desync.ChunkMissing{ID: id}
	}
	return desync.NewChunkWithID(id, b, false)
}
func (s *countingStore) HasChunk(id desync.ChunkID) (bool, error) {
	s.mu.Lock()
	defer s.mu.Unlock()
	_, ok := s.chunks[id]
	return ok, nil
}
func (s *countingStore) Close() error   { return nil }
func (s *countingStore) String() string { return "counting" }

// closableWriteStore: a write store that records use after Close
type closableWriteStore struct {
	mu     sync.Mutex
	n      int
	closed bool
	late   bool
	chunks map[desync.ChunkID]bool
}

func newClosableWriteStore(n int) *closableWriteStore {
	return &closableWriteStore{n: n, chunks: map[desync.ChunkID]bool{}}
}
func (s *closableWriteStore) touch() {
	if s.closed {
		s.late = true
	}
}
func (s *closableWriteStore) GetChunk(id desync.ChunkID) (*desync.Chunk, error) {
	s.mu.Lock()
	defer s.mu.Unlock()
	s.touch()
	if !s.chunks[id] {
		return nil, desync.ChunkMissing{ID: id}
	}
	return desync.NewChunkWithID(id, []byte("x"), true)
}
func (s *closableWriteStore) HasChunk(id desync.ChunkID) (bool, error) {
	s.mu.Lock()
	defer s.mu.Unlock()
	s.touch()
	return s.chunks[id], nil
}
func (s *closableWriteStore) StoreChunk(c *desync.Chunk) error {
	s.mu.Lock()
	defer s.mu.Unlock()
	s.touch()
	s.chunks[c.ID()] = true
	return nil
}
func (s *closableWriteStore) has(id desync.ChunkID) bool {
	s.mu.Lock()
	defer s.mu.Unlock()
	return s.chunks[id]
}
func (s *closableWriteStore) usedAfterClose() bool {
	s.mu.Lock()
	defer s.mu.Unlock()
	return s.late
}
func (s *closableWriteStore) Close() error {
	s.mu.Lock()
	s.closed = true
	s.mu.Unlock()
	return nil
}
func (s *closableWriteStore) String() string { return fmt.Sprintf("closable-%d", s.n) }

// closableStore fails once closed; a request that observes the close mid-flight fails too
type closableStore struct {
	mu     sync.Mutex
	closed bool
}

func (s *closableStore) GetChunk(id desync.ChunkID) (*desync.Chunk, error) {
	s.mu.Lock()
	c := s.closed
	s.mu.Unlock()
	if c {
		return nil, errors.New("store is closed")
	}
	time.Sleep(5 * time.Microsecond)
	s.mu.Lock()
	c = s.closed
	s.mu.Unlock()
	if c {
		return nil, errors.New("store was closed during the request")
	}
	return desync.NewChunkWithID(id, goodData(1), false)
}
func (s *closableStore) HasChunk(id desync.ChunkID) (bool, error) { return true, nil }
func (s *closableStore) Close() error {
	s.mu.Lock()
	s.closed = true
	s.mu.Unlock()
	return nil
}
func (s *closableStore) String() string { return "closable" }

// gatedCloseStore: every request stops at its entry until the gate opens, then fails if the store was closed meanwhile
type gatedCloseStore struct {
	mu      sync.Mutex
	closed  bool
	gate    chan struct{}
	entered chan struct{}
}

func (s *gatedCloseStore) wait() error {
	select {
	case s.entered <- struct{}{}:
	default:
	}
	<-s.gate
	s.mu.Lock()
	defer s.mu.Unlock()
	if s.closed {
		return errors.New("the store was closed during the request")
	}
	return nil
}
func (s *gatedCloseStore) GetChunk(id desync.ChunkID) (*desync.Chunk, error) {
	if err := s.wait(); err != nil {
		return nil, err
	}
	return desync.NewChunkWithID(id, []byte("x"), true)
}
func (s *gatedCloseStore) HasChunk(id desync.ChunkID) (bool, error) { return true, s.wait() }
func (s *gatedCloseStore) StoreChunk(c *desync.Chunk) error         { return s.wait() }
func (s *gatedCloseStore) Close() error {
	s.mu.Lock()
	s.closed = true
	s.mu.Unlock()
	return nil
}
func (s *gatedCloseStore) String() string { return "gated-close" }
