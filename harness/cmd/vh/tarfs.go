package main

// C05, the tar-stream input leg and the GNU-tar output leg (tarfs.go <-> lean/Desync/Model/TarFS.lean).
//
//	tarfs.mode   archive/tar's headerFileInfo.Mode()/.Name() and path.Clean against their models, over type flags,
//	             mode values (with and without c_IS* values, with Go FileMode bits, with bits above 32) and names
//	tarfs.read   headers over ALL type flags written by the real archive/tar Writer in USTAR / PAX / GNU / unspecified
//	             format (plus blocks whose type flag was patched to what the Writer refuses, plus archive/tar's own
//	             test archives), read through the real desync.TarReader; every File field against the model
//	tarfs.tar    whole tar streams through desync.Tar(TarReader) against the model's tarStream . recOfFile . readerFile
//	tarfs.write  Node* through the real desync.TarWriter; the bytes against what archive/tar's Writer makes of the
//	             model's header (the byte encoding is archive/tar's and stays a parameter); the two contract clauses
//	             (Xattrs refused under FormatGNU, which modification time is kept); TarWriter -> TarReader round trip
//
// Header and File strings are the ones of lean/Driver/TarFS.lean.

import (
	gnutar "archive/tar"
	"bytes"
	"context"
	"fmt"
	"io"
	"math/rand"
	"os"
	"path"
	"path/filepath"
	"runtime"
	"sort"
	"strings"
	"time"

	"github.com/folbricht/desync"
)

func tarFmtStr(f gnutar.Format) string {
	switch f {
	case gnutar.FormatUSTAR:
		return "ustar"
	case gnutar.FormatPAX:
		return "pax"
	case gnutar.FormatGNU:
		return "gnu"
	}
	return "unknown"
}

func tarFmtOf(s string) gnutar.Format {
	switch s {
	case "ustar":
		return gnutar.FormatUSTAR
	case "pax":
		return gnutar.FormatPAX
	case "gnu":
		return gnutar.FormatGNU
	}
	return gnutar.FormatUnknown
}

func tarHdrStr(h *gnutar.Header) string {
	return fmt.Sprintf("%d,%s,%s,%d,%d,%d,%d,%d,%d,%d,%d,%s,%s", h.Typeflag, hx([]byte(h.Name)), hx([]byte(h.Linkname)),
		uint64(h.Mode), uint64(h.Uid), uint64(h.Gid), uint64(h.Size), h.ModTime.Unix(), h.ModTime.Nanosecond(),
		uint64(h.Devmajor), uint64(h.Devminor), xattrStr(desync.Xattrs(h.Xattrs)), tarFmtStr(h.Format))
}

func parseTarHdr(s string) (*gnutar.Header, bool) {
	f := strings.Split(s, ",")
	if len(f) != 13 {
		return nil, false
	}
	var tf, mode, uid, gid, size, maj, min uint64
	var sec, nsec int64
	fmt.Sscan(f[0], &tf)
	fmt.Sscan(f[3], &mode)
	fmt.Sscan(f[4], &uid)
	fmt.Sscan(f[5], &gid)
	fmt.Sscan(f[6], &size)
	fmt.Sscan(f[7], &sec)
	fmt.Sscan(f[8], &nsec)
	fmt.Sscan(f[9], &maj)
	fmt.Sscan(f[10], &min)
	h := &gnutar.Header{Typeflag: byte(tf), Name: string(unhx(f[1])), Linkname: string(unhx(f[2])), Mode: int64(mode),
		Uid: int(uid), Gid: int(gid), Size: int64(size), ModTime: time.Unix(sec, nsec), Devmajor: int64(maj), Devminor: int64(min),
		Format: tarFmtOf(f[12])}
	if f[11] != "" {
		h.Xattrs = map[string]string{}
		for _, kv := range strings.Split(f[11], "|") {
			p := strings.SplitN(kv, "=", 2)
			if len(p) == 2 {
				h.Xattrs[string(unhx(p[0]))] = string(unhx(p[1]))
			}
		}
	}
	return h, true
}

func tfileStr(f *desync.File) string {
	return fmt.Sprintf("%s,%s,%d,%d,%d,%d,%s,%d,%d,%s,%d,%d", hx([]byte(f.Name)), hx([]byte(f.Path)), uint32(f.Mode),
		f.ModTime.Unix(), f.ModTime.Nanosecond(), f.Size, hx([]byte(f.LinkTarget)), uint64(f.Uid), uint64(f.Gid),
		xattrStr(desync.Xattrs(f.Xattrs)), f.DevMajor, f.DevMinor)
}

// ---------------------------------------------------------------------------------------
// tarfs.mode

func implTarfsMode(line string) string {
	_, a := parseCase(line)
	var tf, mode uint64
	fmt.Sscan(a["tf"], &tf)
	fmt.Sscan(a["mode"], &mode)
	name := string(unhx(a["name"]))
	return guard(func() string {
		h := &gnutar.Header{Typeflag: byte(tf), Mode: int64(mode), Name: name}
		info := h.FileInfo()
		fm := info.Mode()
		f := &desync.File{Mode: fm}
		kind := "other"
		switch { // the order of tar()'s switch
		case f.IsDir():
			kind = "dir"
		case f.IsRegular():
			kind = "reg"
		case f.IsSymlink():
			kind = "symlink"
		case f.IsDevice():
			kind = "device"
		}
		return fmt.Sprintf("fm=%d stat=%d kind=%s name=%s clean=%s", uint32(fm), desync.FilemodeToStatMode(fm), kind,
			hx([]byte(info.Name())), hx([]byte(path.Clean(name))))
	})
}

var tarfsFlags = []byte{0, '0', '1', '2', '3', '4', '5', '6', '7', 'x', 'g', 'S', 'L', 'K', 'D', 'M', 'N', 'V', 'A', 'X', 'Z', 0xff}

var tarfsNames = []string{"", ".", "..", "/", "a", "a/", "a//", "./a", "./a/", "./", "a/b", "a/b/", "a/./b", "a/../b", "a/..", "../a", "../..",
	"/a", "/a/", "//a//b", "/..", "/../a", "a/b/.", "a/b/..", "a/.", "./.", "a\x00b", "dir/\xff\xfe", "we ird\tnäme", "a/b/c/d/e/f"}

func tarfsName(rng *rand.Rand) string {
	switch rng.Intn(8) {
	case 0:
		return strings.Repeat("n", 90+rng.Intn(30)) // around the 100-byte name field
	case 1:
		return strings.Repeat("d", 1+rng.Intn(150)) + "/" + strings.Repeat("f", 1+rng.Intn(150)) // USTAR prefix split / long-name records
	case 2:
		var parts []string
		for i := 0; i < 1+rng.Intn(5); i++ {
			parts = append(parts, []string{"a", "b", ".", "..", "", "c.d", "x y"}[rng.Intn(7)])
		}
		return strings.Join(parts, "/")
	case 3:
		return "./" + fmt.Sprintf("f%d", rng.Intn(100)) + []string{"", "/", "//"}[rng.Intn(3)]
	default:
		return tarfsNames[rng.Intn(len(tarfsNames))]
	}
}

func tarfsModeValue(rng *rand.Rand) uint64 {
	cis := []uint64{0, 040000, 010000, 0100000, 0120000, 060000, 020000, 0140000, 0160000, 0170000, 030000}
	m := uint64(rng.Intn(01000))
	if rng.Intn(2) == 0 {
		m |= uint64(rng.Intn(8)) << 9 // set-id, sticky
	}
	switch rng.Intn(8) {
	case 0, 1, 2:
		m |= cis[rng.Intn(len(cis))]
	case 3: // what TarWriter writes: os.FileMode bits
		fmBits := []os.FileMode{os.ModeDir, os.ModeSymlink, os.ModeDevice, os.ModeDevice | os.ModeCharDevice, os.ModeNamedPipe, os.ModeSocket,
			os.ModeSetuid, os.ModeSetgid, os.ModeSticky, os.ModeIrregular, os.ModeAppend, os.ModeTemporary}
		m |= uint64(fmBits[rng.Intn(len(fmBits))])
		if rng.Intn(3) == 0 {
			m |= uint64(fmBits[rng.Intn(len(fmBits))])
		}
	case 4: // a c_IS* value plus bits above it
		m |= cis[rng.Intn(len(cis))] | uint64(1)<<uint(16+rng.Intn(16))
	case 5: // bits above 32 (the field is an int64; FileMode(h.Mode) truncates), negative values
		m |= uint64(rng.Intn(1<<20)) << 32
		if rng.Intn(3) == 0 {
			m |= 1 << 63
		}
	}
	return m
}

func tarfsModeCases(cfg Config, rep *Report, m *Model, rng *rand.Rand) {
	run := func(tf byte, mode uint64, name string) {
		line := fmt.Sprintf("tarfs.mode tf=%d mode=%d name=%s", tf, mode, hx([]byte(name)))
		rep.Compare(m, line, implTarfsMode, nil)
		rep.Count(line, true, "tarfs.mode")
	}
	// every type flag x every c_IS* value (and none, and unknown ones) x set-id combinations
	for _, tf := range tarfsFlags {
		for _, cis := range []uint64{0, 040000, 010000, 0100000, 0120000, 060000, 020000, 0140000, 0160000, 050000} {
			for fl := uint64(0); fl < 8; fl++ {
				run(tf, cis|fl<<9|0644, "n")
			}
		}
	}
	for _, n := range tarfsNames {
		run('0', 0644, n)
		run('5', 0755, n)
		run('0', 040644, n) // a regular-file flag whose mode field says directory: Name() cleans first
	}
	for it := 0; it < cfg.N(4000, 200000); it++ {
		tf := tarfsFlags[rng.Intn(len(tarfsFlags))]
		if rng.Intn(10) == 0 {
			tf = byte(rng.Intn(256))
		}
		run(tf, tarfsModeValue(rng), tarfsName(rng))
	}
}

// ---------------------------------------------------------------------------------------
// tarfs.read / tarfs.tar

// libView reads a tar stream with archive/tar's Reader: the headers it delivers, the content of each entry (bounded), how it ends
func libView(b []byte, withData bool) (hdrs []string, datas []string, end string) {
	tr := gnutar.NewReader(bytes.NewReader(b))
	for {
		h, err := tr.Next()
		if err != nil {
			if err == io.EOF {
				return hdrs, datas, "eof"
			}
			return hdrs, datas, "err"
		}
		hdrs = append(hdrs, tarHdrStr(h))
		if withData {
			d, _ := io.ReadAll(io.LimitReader(tr, 1<<20))
			datas = append(datas, hx(d))
		}
		if len(hdrs) > 200 {
			return hdrs, datas, "err"
		}
	}
}

func implTarfsRead(line string) string {
	_, a := parseCase(line)
	b := unhx(a["bytes"])
	return guard(func() string {
		hdrs, _, end := libView(b, false)
		if strings.Join(hdrs, ";") != a["hdrs"] || end != a["end"] {
			return "stale-case (archive/tar reads this stream differently from what the case line records)"
		}
		r := desync.NewTarReader(bytes.NewReader(b), desync.TarReaderOptions{AddRoot: a["root"] == "1"})
		var out []string
		for {
			f, err := r.Next()
			if err != nil {
				switch {
				case err == io.EOF:
					out = append(out, "end:eof")
				case strings.HasSuffix(err.Error(), ": hard links are not supported"):
					out = append(out, "end:hardlink:"+hx([]byte(strings.TrimSuffix(err.Error(), ": hard links are not supported"))))
				default:
					out = append(out, "end:err")
				}
				return strings.Join(out, ";")
			}
			out = append(out, tfileStr(f))
			if len(out) > 300 {
				return "runaway"
			}
		}
	})
}

func implTarfsTar(line string) string {
	_, a := parseCase(line)
	b := unhx(a["bytes"])
	return guard(func() string {
		hdrs, datas, end := libView(b, true)
		if strings.Join(hdrs, ";") != a["hdrs"] || strings.Join(datas, ";") != a["datas"] || end != a["end"] {
			return "stale-case (archive/tar reads this stream differently from what the case line records)"
		}
		var buf bytes.Buffer
		if err := desync.Tar(context.Background(), &buf, desync.NewTarReader(bytes.NewReader(b), desync.TarReaderOptions{AddRoot: a["root"] == "1"})); err != nil {
			return "err"
		}
		return hx(buf.Bytes())
	})
}

// a generated header for the reading side
func tarfsGenHeader(rng *rand.Rand, tf byte, name string) *gnutar.Header {
	h := &gnutar.Header{Typeflag: tf, Name: name, Mode: int64(tarfsModeValue(rng) & 0o7777)}
	switch rng.Intn(6) {
	case 0: // a c_IS* value as Go's FileInfoHeader writes it
		h.Mode |= map[byte]int64{'5': 040000, '6': 010000, '0': 0100000, '2': 0120000, '4': 060000, '3': 020000}[tf]
	case 1:
		h.Mode = int64(tarfsModeValue(rng))
	}
	switch rng.Intn(5) {
	case 0:
		h.Uid, h.Gid = 1<<21+rng.Intn(1<<20), 1<<21+rng.Intn(1<<30) // beyond seven octal digits
	case 1:
		h.Uid, h.Gid = rng.Intn(1<<31), 1<<32+rng.Intn(1000)
	default:
		h.Uid, h.Gid = rng.Intn(70000), rng.Intn(70000)
	}
	switch rng.Intn(6) {
	case 0:
		h.ModTime = time.Unix(-int64(rng.Intn(1<<31)), int64(rng.Intn(1000000000))) // before 1970
	case 1:
		h.ModTime = time.Unix(int64(rng.Intn(1<<31)), int64(rng.Intn(1000000000))) // sub-second
	case 2:
		h.ModTime = time.Unix(1<<33+int64(rng.Intn(1<<33)), 0) // beyond eleven octal digits
	default:
		h.ModTime = time.Unix(int64(1000000000+rng.Intn(900000000)), 0)
	}
	switch tf {
	case '1', '2':
		h.Linkname = tarfsName(rng)
		if h.Linkname == "" || rng.Intn(3) == 0 {
			h.Linkname = "target" + fmt.Sprint(rng.Intn(10))
		}
	case '3', '4':
		h.Devmajor, h.Devminor = int64(rng.Intn(4096)), int64(rng.Intn(1<<20))
		if rng.Intn(4) == 0 {
			h.Devmajor, h.Devminor = int64(1<<21+rng.Intn(1<<20)), int64(rng.Intn(1<<31))
		}
	}
	if rng.Intn(4) == 0 {
		h.Xattrs = map[string]string{}
		for i := 0; i < 1+rng.Intn(3); i++ {
			h.Xattrs[[]string{"user.a", "user.b", "security.selinux", "user.ü", "trusted.x"}[rng.Intn(5)]] = string(randBytes(rng, rng.Intn(6)))
		}
	}
	return h
}

func tarErrKind(err error) string {
	if err == nil {
		return "ok"
	}
	s := err.Error()
	for _, k := range []string{"only PAX supports Xattrs", "cannot encode", "cannot manually encode", "invalid PAX", "write too long", "missed writing", "unsupported", "invalid tar header", "unexpected EOF"} {
		if strings.Contains(s, k) {
			return strings.ReplaceAll(k, " ", "-")
		}
	}
	return "other"
}

// patchTypeflag rewrites the type flag of the header block at off and recomputes its checksum
func patchTypeflag(b []byte, off int, tf byte) {
	blk := b[off : off+512]
	blk[156] = tf
	for i := 148; i < 156; i++ {
		blk[i] = ' '
	}
	sum := 0
	for _, c := range blk {
		sum += int(c)
	}
	copy(blk[148:156], fmt.Sprintf("%06o\x00 ", sum))
}

// one entry (header and content) written by archive/tar's Writer, or the reason it refuses
func writeEntry(tw *gnutar.Writer, h *gnutar.Header, data []byte) error {
	if err := tw.WriteHeader(h); err != nil {
		return err
	}
	if len(data) > 0 {
		if _, err := tw.Write(data); err != nil {
			return err
		}
	}
	return tw.Flush()
}

func tarfsReadCases(cfg Config, rep *Report, m *Model, rng *rand.Rand) {
	monitor := func(what, caseLine, impl string) {
		rep.Disagree(Disagreement{Kind: "monitor", Case: clip(caseLine, 100000), Impl: clip(impl, 1500), What: what})
	}
	runStream := func(b []byte, root bool, tag string) {
		hdrs, _, end := libView(b, false)
		line := fmt.Sprintf("tarfs.read root=%d hdrs=%s end=%s bytes=%s", b2i(root), strings.Join(hdrs, ";"), end, hx(b))
		rep.Compare(m, line, implTarfsRead, nil)
		rep.Count(line, len(hdrs) > 0, "tarfs.read", "tarfs.read:"+tag, "tarfs.read:end-"+end)
		for _, hs := range hdrs {
			if h, ok := parseTarHdr(hs); ok {
				rep.Histogram[fmt.Sprintf("tarfs.read:flag-%q", string(h.Typeflag))]++
				rep.Histogram["tarfs.read:as-read-"+tarFmtStr(h.Format)]++
			}
		}
	}
	formats := []gnutar.Format{gnutar.FormatUnknown, gnutar.FormatUSTAR, gnutar.FormatPAX, gnutar.FormatGNU}
	flags := []byte{0, '0', '1', '2', '3', '4', '5', '6', '7', 'g'}
	patched := []byte{'S', 'x', 'L', 'K', 'D', 'M', 'N', 'V', 'A', 'g', 0xff, '8'}
	for it := 0; it < cfg.N(1500, 60000); it++ {
		var buf bytes.Buffer
		tw := gnutar.NewWriter(&buf)
		n := 1
		if rng.Intn(4) == 0 {
			n = 2 + rng.Intn(2)
		}
		tag := ""
		for i := 0; i < n; i++ {
			tf := flags[rng.Intn(len(flags))]
			h := tarfsGenHeader(rng, tf, tarfsName(rng))
			h.Format = formats[rng.Intn(len(formats))]
			var data []byte
			switch tf {
			case 0, '0', '7':
				data = randBytes(rng, rng.Intn(40))
				h.Size = int64(len(data))
			case 'g': // a PAX global header: only records, PAX format
				h = &gnutar.Header{Typeflag: 'g', Name: []string{"", "pax_global_header"}[rng.Intn(2)], Format: gnutar.FormatPAX,
					PAXRecords: map[string]string{"comment": "0123456789abcdef", "mtime": "1500000000.5"}}
			default:
				if rng.Intn(5) == 0 {
					h.Size = int64(rng.Intn(100)) // a size on a header-only entry: kept in the header, no content follows
				}
			}
			before := buf.Len()
			err := writeEntry(tw, h, data)
			rep.Histogram[fmt.Sprintf("tarfs.read:written-%s:%s", tarFmtStr(h.Format), tarErrKind(err))]++
			if err != nil {
				// not representable in that format: start the stream afresh without this entry
				buf.Truncate(before)
				tw = gnutar.NewWriter(&buf)
				continue
			}
			tag = "written-" + tarFmtStr(h.Format)
			if rng.Intn(6) == 0 && len(data) == 0 && h.Typeflag != 'g' {
				// what the Writer refuses to write: patch the type flag of the entry's own header block (the last block written)
				ptf := patched[rng.Intn(len(patched))]
				patchTypeflag(buf.Bytes(), buf.Len()-512, ptf)
				tag = "patched-flag"
			}
		}
		if tag == "" {
			continue
		}
		b := append([]byte{}, buf.Bytes()...)
		switch rng.Intn(12) {
		case 0: // cut inside the last block: archive/tar ends with an error, which Next passes on
			b = b[:len(b)-1-rng.Intn(300)]
		case 1, 2, 3:
			b = append(b, make([]byte, 1024)...) // the end-of-archive marker
		}
		runStream(b, rng.Intn(5) == 0, tag)
	}
	// archive/tar's own test archives (hard links, GNU and PAX sparse files, star, v7, xattrs, bad headers, ...)
	dir := filepath.Join(runtime.GOROOT(), "src", "archive", "tar", "testdata")
	ents, err := os.ReadDir(dir)
	if err != nil {
		rep.Notes = append(rep.Notes, "tarfs.read: archive/tar's test archives are not available in this GOROOT ("+err.Error()+")")
	}
	for _, e := range ents {
		if !strings.HasSuffix(e.Name(), ".tar") {
			continue
		}
		b, err := os.ReadFile(filepath.Join(dir, e.Name()))
		if err != nil || len(b) > 200000 {
			continue
		}
		runStream(b, false, "goroot-testdata")
	}

	// whole streams through Tar: "tar -C dir -cf - ." shaped trees with noise
	for it := 0; it < cfg.N(300, 12000); it++ {
		var buf bytes.Buffer
		tw := gnutar.NewWriter(&buf)
		root := rng.Intn(3) == 0
		prefix := []string{"", "./"}[rng.Intn(2)]
		type ent struct {
			h    *gnutar.Header
			data []byte
		}
		var ents []ent
		if !root || rng.Intn(8) == 0 { // (AddRoot on a stream with a root entry of its own: that entry becomes a child named ".")
			h := tarfsGenHeader(rng, '5', []string{"./", ".", ""}[rng.Intn(2)])
			ents = append(ents, ent{h, nil})
		}
		if rng.Intn(12) == 0 { // git archive style
			ents = append([]ent{{&gnutar.Header{Typeflag: 'g', Name: "pax_global_header", Format: gnutar.FormatPAX, PAXRecords: map[string]string{"comment": "abc"}}, nil}}, ents...)
		}
		var fill func(dir string, depth int)
		cnt := 0
		fill = func(dir string, depth int) {
			for i := 0; i < rng.Intn(4)+b2i(depth == 0); i++ {
				cnt++
				nm := fmt.Sprintf("%c%d", 'a'+rune(rng.Intn(26)), cnt)
				p := prefix + nm // children of the root: "./a1" or "a1" (path.Dir of either is ".")
				if dir != "" {
					p = dir + "/" + nm
				}
				tf := []byte{'0', '0', '0', '5', '5', '2', '3', '4', '6', '1', 0}[rng.Intn(11)]
				h := tarfsGenHeader(rng, tf, p)
				var data []byte
				switch tf {
				case '0', 0:
					data = randBytes(rng, rng.Intn(50))
					h.Size = int64(len(data))
				case '5':
					if rng.Intn(2) == 0 {
						h.Name += "/"
					}
				case '1', '2':
					if rng.Intn(8) == 0 {
						h.Size = int64(1 + rng.Intn(9)) // old archives give a hard link the size of the file: no content follows
					}
				}
				ents = append(ents, ent{h, data})
				if tf == '5' && depth < 2 {
					fill(p, depth+1)
				}
			}
		}
		fill("", 0)
		if rng.Intn(8) == 0 { // PAX global headers elsewhere: in the middle, several in a row, as the last record
			g := func() ent {
				return ent{&gnutar.Header{Typeflag: 'g', Name: "pax_global_header", Format: gnutar.FormatPAX, PAXRecords: map[string]string{"comment": fmt.Sprint(rng.Intn(1000))}}, nil}
			}
			at := rng.Intn(len(ents) + 1)
			ins := []ent{g()}
			if rng.Intn(2) == 0 {
				ins = append(ins, g())
			}
			ents = append(ents[:at:at], append(ins, ents[at:]...)...)
			if rng.Intn(2) == 0 {
				ents = append(ents, g())
			}
		}
		f := formats[rng.Intn(len(formats))]
		written := 0
		for _, e := range ents {
			if e.h.Typeflag != 'g' {
				e.h.Format = f
			}
			before := buf.Len()
			if err := writeEntry(tw, e.h, e.data); err != nil {
				buf.Truncate(before)
				tw = gnutar.NewWriter(&buf)
				continue
			}
			written++
		}
		if written == 0 {
			continue
		}
		tw.Close()
		b := buf.Bytes()
		if rng.Intn(10) == 0 && len(b) > 1024+512 { // a stream cut short: archive/tar ends it with an error, which Tar must pass on
			b = b[:len(b)-1024-1-rng.Intn(500)]
		}
		hdrs, datas, end := libView(b, true)
		line := fmt.Sprintf("tarfs.tar root=%d hdrs=%s datas=%s end=%s bytes=%s", b2i(root), strings.Join(hdrs, ";"), strings.Join(datas, ";"), end, hx(b))
		rep.Compare(m, line, implTarfsTar, nil)
		res := implTarfsTar(line)
		verdict := "ok"
		if res == "err" || res == "panic" {
			verdict = res
		}
		rep.Count(line, len(hdrs) >= 3, "tarfs.tar", "tarfs.tar:"+verdict, "tarfs.tar:entries-"+bucket(len(hdrs)), "tarfs.tar:end-"+end)
		for _, hs := range hdrs {
			if h, ok := parseTarHdr(hs); ok && (h.Typeflag == '1' || h.Typeflag == 'g') {
				rep.Histogram[fmt.Sprintf("tarfs.tar:with-flag-%q:%s", string(h.Typeflag), verdict)]++
			}
		}
		// a stream shaped like a tree (first entry the root directory, nothing else named "." or leading upwards, no
		// header whose mode field contradicts its type flag) must give a well-formed catar; for anything else what
		// Tar does is whatever the model says (compared above) and is only counted
		if verdict == "ok" {
			if treeShaped(b, root) {
				rep.Histogram["tarfs.tar:tree-shaped"]++
				if err := catarWellFormed(unhx(res)); err != nil {
					monitor("the catar made from a tar stream is not well-formed: "+err.Error(), line, res)
				}
			} else {
				rep.Histogram["tarfs.tar:not-tree-shaped"]++
			}
			// whatever the shape: a hard link entry or a PAX global header never becomes a node of the archive
			notNodes := map[string]string{}
			for _, hs := range hdrs {
				if h, ok := parseTarHdr(hs); ok {
					switch h.Typeflag {
					case '1':
						notNodes[path.Clean(h.Name)] = "a hard link entry"
					case 'g':
						notNodes[path.Clean(h.Name)] = "a PAX global header"
					}
				}
			}
			if len(notNodes) > 0 {
				_, nodes := untarNodes(unhx(res))
				for _, nd := range nodes {
					f := strings.Split(nd, ":")
					if len(f) > 1 {
						if what, bad := notNodes[string(unhx(f[1]))]; bad {
							monitor(what+" of the tar stream was packed as a node of the archive ("+string(unhx(f[1]))+")", line, nd)
						}
					}
				}
			}
		}
	}
}

// treeShaped: the Files a TarReader yields for this stream start with a directory "." and go on with entries below it,
// and no header carries a c_IS* type value that contradicts its type flag
func treeShaped(b []byte, addRoot bool) bool {
	tr := gnutar.NewReader(bytes.NewReader(b))
	first := !addRoot
	for {
		h, err := tr.Next()
		if err != nil {
			return err == io.EOF && !first
		}
		if h.Typeflag == 'g' {
			continue
		}
		cis := uint32(h.Mode) &^ 07777
		want := map[byte]uint32{'5': 040000, '6': 010000, '2': 0120000, '4': 060000, '3': 020000}[h.Typeflag]
		switch cis {
		case 040000, 010000, 0120000, 060000, 020000, 0140000:
			if cis != want {
				return false
			}
		}
		p := path.Clean(h.Name)
		if first {
			if p != "." || h.Typeflag != '5' {
				return false
			}
			first = false
			continue
		}
		if p == "." || p == ".." || strings.HasPrefix(p, "../") || strings.HasPrefix(p, "/") {
			return false
		}
	}
}

// ---------------------------------------------------------------------------------------
// tarfs.write

type tarfsNode struct {
	kind   string
	name   string
	uid    int
	gid    int
	mode   os.FileMode
	mtime  time.Time
	xattrs map[string]string
	size   uint64
	data   []byte
	target string
	major  uint64
	minor  uint64
}

func (n tarfsNode) caseLine() string {
	return fmt.Sprintf("tarfs.write kind=%s name=%s uid=%d gid=%d mode=%d sec=%d nsec=%d size=%d target=%s major=%d minor=%d xattrs=%s data=%s",
		n.kind, hx([]byte(n.name)), uint64(n.uid), uint64(n.gid), uint32(n.mode), n.mtime.Unix(), n.mtime.Nanosecond(), n.size,
		hx([]byte(n.target)), n.major, n.minor, xattrStr(desync.Xattrs(n.xattrs)), hx(n.data))
}

func parseTarfsNode(a kv) tarfsNode {
	var uid, gid, mode uint64
	var sec, nsec int64
	n := tarfsNode{kind: a["kind"], name: string(unhx(a["name"])), target: string(unhx(a["target"])), data: unhx(a["data"])}
	fmt.Sscan(a["uid"], &uid)
	fmt.Sscan(a["gid"], &gid)
	fmt.Sscan(a["mode"], &mode)
	fmt.Sscan(a["sec"], &sec)
	fmt.Sscan(a["nsec"], &nsec)
	fmt.Sscan(a["size"], &n.size)
	fmt.Sscan(a["major"], &n.major)
	fmt.Sscan(a["minor"], &n.minor)
	n.uid, n.gid, n.mode, n.mtime = int(uid), int(gid), os.FileMode(uint32(mode)), time.Unix(sec, nsec)
	if a["xattrs"] != "" {
		n.xattrs = map[string]string{}
		for _, kvs := range strings.Split(a["xattrs"], "|") {
			p := strings.SplitN(kvs, "=", 2)
			if len(p) == 2 {
				n.xattrs[string(unhx(p[0]))] = string(unhx(p[1]))
			}
		}
	}
	return n
}

// nonEmptyXattrs: what archive/tar's reader returns of a set of extended attributes (a PAX record with an empty value is "no value")
func nonEmptyXattrs(x map[string]string) desync.Xattrs {
	out := desync.Xattrs{}
	for k, v := range x {
		if v != "" {
			out[k] = v
		}
	}
	return out
}

func tarResult(b []byte, err error) string {
	if err != nil {
		return "err:" + strings.ReplaceAll(err.Error(), " ", "_")
	}
	return "ok:" + hx(b)
}

// the real writer: one node through desync.TarWriter, then Close
func tarWriterRun(n tarfsNode) ([]byte, error) {
	var buf bytes.Buffer
	tw := desync.NewTarWriter(&buf)
	var err error
	switch n.kind {
	case "dir":
		err = tw.CreateDir(desync.NodeDirectory{Name: n.name, UID: n.uid, GID: n.gid, Mode: n.mode, MTime: n.mtime, Xattrs: n.xattrs})
	case "file":
		err = tw.CreateFile(desync.NodeFile{Name: n.name, UID: n.uid, GID: n.gid, Mode: n.mode, MTime: n.mtime, Xattrs: n.xattrs, Size: n.size, Data: bytes.NewReader(n.data)})
	case "symlink":
		err = tw.CreateSymlink(desync.NodeSymlink{Name: n.name, UID: n.uid, GID: n.gid, Mode: n.mode, MTime: n.mtime, Xattrs: n.xattrs, Target: n.target})
	case "device":
		err = tw.CreateDevice(desync.NodeDevice{Name: n.name, UID: n.uid, GID: n.gid, Mode: n.mode, MTime: n.mtime, Xattrs: n.xattrs, Major: n.major, Minor: n.minor})
	default:
		return nil, fmt.Errorf("bad kind")
	}
	if err != nil {
		return nil, err
	}
	if err := tw.Close(); err != nil {
		return nil, err
	}
	return buf.Bytes(), nil
}

func implTarfsWrite(line string) string {
	_, a := parseCase(line)
	n := parseTarfsNode(a)
	return guard(func() string { return tarResult(tarWriterRun(n)) })
}

// what archive/tar's Writer makes of a header (and, for a file, of the content copied after it): the library as a parameter
func libWrite(h *gnutar.Header, kind string, data []byte) ([]byte, error) {
	var buf bytes.Buffer
	tw := gnutar.NewWriter(&buf)
	if err := tw.WriteHeader(h); err != nil {
		return nil, err
	}
	if kind == "file" {
		if _, err := io.Copy(tw, bytes.NewReader(data)); err != nil {
			return nil, err
		}
	}
	if err := tw.Close(); err != nil {
		return nil, err
	}
	return buf.Bytes(), nil
}

func tarfsGenNode(rng *rand.Rand) tarfsNode {
	n := tarfsNode{kind: []string{"dir", "file", "file", "symlink", "device"}[rng.Intn(5)]}
	// names as the archive decoder builds them (clean, relative), and some it does not
	switch rng.Intn(10) {
	case 0:
		n.name = "."
	case 1:
		n.name = tarfsName(rng)
	case 2:
		n.name = strings.Repeat("d", 1+rng.Intn(120)) + "/" + strings.Repeat("f", 1+rng.Intn(200))
	case 3:
		n.name = "dir/" + string(bytes.ReplaceAll(bytes.ReplaceAll(randBytes(rng, 1+rng.Intn(12)), []byte{'/'}, []byte{'_'}), []byte{0}, []byte{'0'}))
		if path.Clean(n.name) != n.name {
			n.name = "dir/x"
		}
	default:
		parts := []string{}
		for i := 0; i < 1+rng.Intn(4); i++ {
			parts = append(parts, fmt.Sprintf("%c%d", 'a'+rune(rng.Intn(26)), rng.Intn(100)))
		}
		n.name = strings.Join(parts, "/")
	}
	switch rng.Intn(5) {
	case 0:
		n.uid, n.gid = 1<<21+rng.Intn(1<<20), 1<<31+rng.Intn(1<<20)
	default:
		n.uid, n.gid = rng.Intn(70000), rng.Intn(70000)
	}
	n.mode = os.FileMode(rng.Intn(01000))
	switch rng.Intn(6) {
	case 0:
		n.mode |= os.ModeSetuid
	case 1:
		n.mode |= os.ModeSetgid
	case 2:
		n.mode |= os.ModeSticky
	case 3:
		n.mode |= []os.FileMode{os.ModeSetuid | os.ModeSetgid, os.ModeSetuid | os.ModeSticky, os.ModeSetuid | os.ModeSetgid | os.ModeSticky}[rng.Intn(3)]
	}
	switch n.kind {
	case "dir":
		n.mode |= os.ModeDir
	case "symlink":
		n.mode |= os.ModeSymlink
		n.target = tarfsName(rng)
		if n.target == "" || strings.ContainsRune(n.target, 0) {
			n.target = "t"
		}
	case "device":
		n.mode |= os.ModeDevice
		if rng.Intn(2) == 0 {
			n.mode |= os.ModeCharDevice
		}
		n.major, n.minor = uint64(rng.Intn(4096)), uint64(rng.Intn(1<<20))
		if rng.Intn(6) == 0 {
			n.major, n.minor = uint64(rng.Intn(1<<31)), rng.Uint64()>>uint(rng.Intn(40))
		}
	case "file":
		n.data = randBytes(rng, rng.Intn(60))
		n.size = uint64(len(n.data))
		if rng.Intn(12) == 0 && len(n.data) > 0 {
			n.size += uint64(rng.Intn(3)) - 1 // content longer or shorter than the size announced
		}
	}
	if rng.Intn(25) == 0 {
		n.mode |= os.FileMode(1) << uint(9+rng.Intn(10)) // a bit no os.FileMode of the decoder carries
	}
	switch rng.Intn(6) {
	case 0:
		n.mtime = time.Unix(-int64(rng.Intn(1<<31)), int64(rng.Intn(1000000000)))
	case 1, 2:
		n.mtime = time.Unix(int64(rng.Intn(1<<31)), int64(rng.Intn(1000000000)))
	case 3:
		n.mtime = time.Unix(1<<33+int64(rng.Intn(1<<33)), int64(500000000*rng.Intn(2)))
	default:
		n.mtime = time.Unix(int64(1000000000+rng.Intn(900000000)), 0)
	}
	if rng.Intn(5) == 0 {
		n.xattrs = map[string]string{}
		for i := 0; i < 1+rng.Intn(2); i++ {
			n.xattrs[[]string{"user.a", "user.b", "security.capability"}[rng.Intn(3)]] = string(randBytes(rng, rng.Intn(6))) // (an empty value: dropped by archive/tar's reader)
		}
	}
	return n
}

func tarfsWriteCases(cfg Config, rep *Report, m *Model, rng *rand.Rand) {
	if m.cmd == nil {
		return
	}
	// a recorded finding is reported once per run (the report keeps 50 disagreements; it must not fill up with these)
	reported := map[string]bool{}
	finding := func(d Disagreement) {
		rep.Histogram["tarfs.write:finding:"+d.Sig]++
		if !reported[d.Sig] {
			reported[d.Sig] = true
			rep.Disagree(d)
		}
	}
	for it := 0; it < cfg.N(1500, 60000); it++ {
		n := tarfsGenNode(rng)
		line := n.caseLine()
		ans := m.Ask(line)
		_, f := parseCase("x " + ans)
		h, ok := parseTarHdr(f["hdr"])
		if !ok {
			rep.Disagree(Disagreement{Kind: "correspondence", Case: line, Model: ans, What: "the model gave no header for this node"})
			continue
		}
		libB, libErr := libWrite(h, n.kind, n.data)
		lib := tarResult(libB, libErr)
		// (1) the real TarWriter's bytes are what archive/tar makes of the model's header
		line2 := line + " hdr=" + f["hdr"] + " lib=" + lib
		rep.Compare(m, line2, implTarfsWrite, nil)
		implB, implErr := tarWriterRun(n)
		rep.Count(line, true, "tarfs.write", "tarfs.write:"+n.kind, "tarfs.write:"+tarErrKind(implErr))
		// (2) archive/tar's contract as the model states it: which headers are refused (both directions, for names without
		// NUL bytes, which the library refuses as well and node names never contain), and which header comes back
		_, hdrErr := libWrite(h, "hdr-only", nil)
		refusedByLib := hdrErr != nil && strings.Contains(hdrErr.Error(), "cannot encode header")
		// the domain of the contract: names as the archive decoder builds them (clean, no NUL; the library refuses a trailing
		// slash on anything but a directory), link targets without NUL, numbers below 2^56 (beyond, not even base-256 fits)
		inDomain := path.Clean(n.name) == n.name && !strings.HasPrefix(n.name, "/") && !strings.ContainsRune(n.name, 0) && !strings.ContainsRune(n.target, 0) && n.major < 1<<56 && n.minor < 1<<56
		if inDomain && (f["refuse"] == "1") != refusedByLib {
			rep.Disagree(Disagreement{Kind: "correspondence", Case: line, Model: ans, Impl: fmt.Sprint(hdrErr),
				What: "archive/tar contract: the model's wireRefuses and the library's WriteHeader disagree on whether this header is refused"})
		}
		if libErr == nil {
			tr := gnutar.NewReader(bytes.NewReader(libB))
			if back, err := tr.Next(); err == nil {
				rep.Histogram["tarfs.write:as-read-"+tarFmtStr(back.Format)]++
				if got := fmt.Sprintf("%d,%d", back.ModTime.Unix(), back.ModTime.Nanosecond()); got != f["wmt"] {
					rep.Disagree(Disagreement{Kind: "correspondence", Case: line, Model: ans, Impl: got,
						What: "archive/tar contract: the modification time that survives WriteHeader and Reader.Next is not the one the model states"})
				}
				back.Format = gnutar.FormatUnknown
				if got := tarHdrStr(back); inDomain && got != f["back"] {
					rep.Disagree(Disagreement{Kind: "correspondence", Case: line, Model: f["back"], Impl: got,
						What: "archive/tar contract: the header Reader.Next returns for the model's header is not the one the model's `wire` states"})
				}
			}
		}
		// (3) the property on the implementation: what TarWriter wrote, read by TarReader
		wellFormedNode := path.Clean(n.name) == n.name && !strings.HasPrefix(n.name, "/") && uint32(n.mode)&0x7fe00 == 0 && !strings.ContainsRune(n.name, 0)
		if implErr != nil {
			msg := implErr.Error()
			switch {
			case !strings.Contains(msg, "cannot encode header"):
				// content longer or shorter than the size announced: the generator's doing
			case len(n.xattrs) > 0 && strings.Contains(msg, "cannot encode Mode="):
				// a consequence of the recorded finding: os.FileMode bits in the mode field need a GNU header, xattrs a PAX header
				finding(Disagreement{Kind: "monitor", Case: line2, Impl: msg, Sig: "gnutar.header-mode.filemode-bits",
					What: "untar to a GNU tar stream fails on a " + n.kind + " with extended attributes whose header mode field holds os.FileMode bits: " + msg})
			case wellFormedNode && n.major < 1<<21 && n.minor < 1<<21 && n.uid >= 0 && n.gid >= 0:
				rep.Disagree(Disagreement{Kind: "monitor", Case: line2, Impl: msg,
					What: "untar to a GNU tar stream fails on a " + n.kind + " node archive/tar could hold: " + msg})
			}
			continue
		}
		if !wellFormedNode {
			continue
		}
		r := desync.NewTarReader(bytes.NewReader(implB), desync.TarReaderOptions{})
		back, err := r.Next()
		if err != nil {
			rep.Disagree(Disagreement{Kind: "monitor", Case: line2, What: "TarReader cannot read what TarWriter wrote: " + err.Error()})
			continue
		}
		var content []byte
		if n.kind == "file" {
			content, _ = io.ReadAll(io.LimitReader(back.Data, 1<<20))
		}
		wantStat := desync.FilemodeToStatMode(n.mode)
		gotStat := desync.FilemodeToStatMode(back.Mode)
		var bad []string
		chk := func(what string, ok bool) {
			if !ok {
				bad = append(bad, what)
			}
		}
		chk("path", back.Path == n.name)
		chk("type", gotStat&0xf000 == wantStat&0xf000)
		chk("permission bits", gotStat&0777 == wantStat&0777)
		chk("owner", back.Uid == n.uid && back.Gid == n.gid)
		chk("the second of the modification time", back.ModTime.Unix()-n.mtime.Unix() <= 1 && back.ModTime.Unix() >= n.mtime.Unix())
		if n.mtime.Nanosecond() == 0 || (len(n.xattrs) > 0 && n.kind != "device") { // a PAX header keeps the nanoseconds
			chk("modification time", back.ModTime.Equal(n.mtime))
		}
		switch n.kind {
		case "file":
			chk("size and content", back.Size == n.size && bytes.Equal(content, n.data))
		case "symlink":
			chk("link target", back.LinkTarget == n.target)
		case "device":
			chk("device numbers", back.DevMajor == n.major && back.DevMinor == n.minor)
		}
		chk("extended attributes", xattrStr(desync.Xattrs(back.Xattrs)) == xattrStr(nonEmptyXattrs(n.xattrs)))
		if len(bad) > 0 {
			rep.Disagree(Disagreement{Kind: "monitor", Case: line2, Impl: tfileStr(back),
				What: "GNU-tar output read back through the tar-stream input does not reproduce: " + strings.Join(bad, ", ")})
		}
		if gotStat&07000 != wantStat&07000 {
			finding(Disagreement{Kind: "monitor", Case: line2, Impl: tfileStr(back), Sig: "gnutar.header-mode.filemode-bits",
				What: fmt.Sprintf("gnu-tar output header mode does not carry the node's set-id/sticky bits (%o read back as %o)", wantStat, gotStat)})
		}
	}
	// distribution of the kinds of refusal, sorted into the notes for the evidence
	var ks []string
	for k, v := range rep.Histogram {
		if strings.HasPrefix(k, "tarfs.write:") && !strings.HasPrefix(k, "tarfs.write:as-read") {
			ks = append(ks, fmt.Sprintf("%s=%d", strings.TrimPrefix(k, "tarfs.write:"), v))
		}
	}
	sort.Strings(ks)
	rep.Notes = append(rep.Notes, "tarfs.write outcomes: "+strings.Join(ks, " "))
}

// tarfsFindings: the property on the implementation for fixed inputs — the two defects of the tar-stream legs that were
// repaired in c6df8d2 and 8595654 (each was a recorded finding before), asserted now:
//   - a tree with extended attributes on a directory, a file and a symbolic link, unpacked to a GNU tar stream: the file's
//     attributes must be in the stream; for the directory and the link the recorded finding gnutar.header-mode.filemode-bits
//     still makes archive/tar refuse the header (os.FileMode bits in the mode field), which is reported under that signature
//   - a tar stream of a tree in which one file has two names (tar(1) writes the second as a hard link entry): Tar must fail
//   - a tar stream that starts with a PAX global header (every `git archive` output): the same catar as without it; also
//     with two such headers in a row, one in the middle and one at the very end
func tarfsFindings(rep *Report) {
	mt := time.Unix(1500000000, 0)
	stream := func(hs []*gnutar.Header, data map[string]string) []byte {
		var b bytes.Buffer
		tw := gnutar.NewWriter(&b)
		for _, h := range hs {
			h2 := *h
			if d, ok := data[h.Name]; ok {
				h2.Size = int64(len(d))
			}
			tw.WriteHeader(&h2)
			if d, ok := data[h.Name]; ok {
				tw.Write([]byte(d))
			}
		}
		tw.Close()
		return b.Bytes()
	}
	catarOf := func(b []byte) ([]byte, error) {
		var c bytes.Buffer
		err := desync.Tar(context.Background(), &c, desync.NewTarReader(bytes.NewReader(b), desync.TarReaderOptions{}))
		return c.Bytes(), err
	}
	violation := func(caseLine, what, impl string) {
		rep.Disagree(Disagreement{Kind: "monitor", Case: clip(caseLine, 100000), Impl: clip(impl, 1500), What: what})
	}
	// (1) extended attributes through the GNU-tar writer
	xa := map[string]string{"user.k": "v", "user.l": "w"}
	for _, c := range []struct {
		name string
		recs []fileRec
		must bool // must succeed on the code as it stands
	}{
		{"file", []fileRec{{name: ".", path: ".", kind: "dir", perm: 0755},
			{name: "f", path: "f", kind: "reg", perm: 0644, data: []byte("x"), xattrs: xa, mtime: 1500000000123456789}}, true},
		{"sticky-file", []fileRec{{name: ".", path: ".", kind: "dir", perm: 0755},
			{name: "f", path: "f", kind: "reg", perm: 0644 | uint32(os.ModeSticky), data: []byte("x"), xattrs: xa}}, true},
		{"directory", []fileRec{{name: ".", path: ".", kind: "dir", perm: 0755}, {name: "d", path: "d", kind: "dir", perm: 0755, xattrs: xa}}, false},
		{"symlink", []fileRec{{name: ".", path: ".", kind: "dir", perm: 0755}, {name: "l", path: "l", kind: "symlink", perm: 0777, target: "t", xattrs: xa}}, false},
		{"setuid-file", []fileRec{{name: ".", path: ".", kind: "dir", perm: 0755},
			{name: "f", path: "f", kind: "reg", perm: 0755 | uint32(os.ModeSetuid), data: []byte("x"), xattrs: xa}}, false},
	} {
		enc := tarRecs(c.recs)
		caseLine := "gnutar.xattrs." + c.name + " " + recsCase(c.recs)
		rep.Count(caseLine, true, "tarfs.findings")
		if enc == "err" || enc == "panic" {
			violation(caseLine, "Tar failed", enc)
			continue
		}
		var gt bytes.Buffer
		tw := desync.NewTarWriter(&gt)
		if err := desync.UnTar(context.Background(), bytes.NewReader(unhx(enc)), tw); err != nil {
			if !c.must && strings.Contains(err.Error(), "cannot encode Mode=") {
				rep.Histogram["tarfs.findings:gnutar-xattrs-"+c.name+":refused-for-filemode-bits"]++
				rep.Disagree(Disagreement{Kind: "monitor", Case: caseLine, Impl: err.Error(), Sig: "gnutar.header-mode.filemode-bits",
					What: "untar to a GNU tar stream fails on a " + c.name + " with extended attributes: the os.FileMode bits in the header's mode field need a GNU header, the attributes a PAX header: " + err.Error()})
			} else {
				violation(caseLine, "untar to a GNU tar stream fails on a "+c.name+" with extended attributes: "+err.Error(), err.Error())
			}
			continue
		}
		tw.Close()
		rep.Histogram["tarfs.findings:gnutar-xattrs-"+c.name+":written"]++
		want := c.recs[1]
		found := false
		tr := gnutar.NewReader(&gt)
		for {
			h, err := tr.Next()
			if err != nil {
				break
			}
			if path.Clean(h.Name) == want.path {
				found = true
				if xattrStr(desync.Xattrs(h.Xattrs)) != xattrStr(desync.Xattrs(want.xattrs)) {
					violation(caseLine, "gnu-tar output does not carry the extended attributes of the "+c.name, xattrStr(desync.Xattrs(h.Xattrs)))
				}
				if want.mtime != 0 && h.ModTime.UnixNano() != want.mtime {
					violation(caseLine, "gnu-tar output (PAX header) does not carry the modification time of the "+c.name+" to the nanosecond", fmt.Sprint(h.ModTime.UnixNano()))
				}
			}
		}
		if !found {
			violation(caseLine, "gnu-tar output has no entry for the "+c.name, "")
		}
	}
	// (2) a hard link entry: Tar must fail, not write an empty file
	{
		b := stream([]*gnutar.Header{
			{Typeflag: gnutar.TypeDir, Name: "./", Mode: 0755, ModTime: mt},
			{Typeflag: gnutar.TypeReg, Name: "./a", Mode: 0644, ModTime: mt},
			{Typeflag: gnutar.TypeLink, Name: "./b", Linkname: "./a", Mode: 0644, ModTime: mt}},
			map[string]string{"./a": "content"})
		caseLine := "tarinput.hardlink bytes=" + hx(b)
		rep.Count(caseLine, true, "tarfs.findings")
		ar, err := catarOf(b)
		switch {
		case err == nil:
			_, nodes := untarNodes(ar)
			violation(caseLine, "tar-stream input with a hard link entry: Tar succeeded (the content under the second name cannot be in the archive)", strings.Join(nodes, ";"))
		case !strings.Contains(err.Error(), "hard links are not supported"):
			violation(caseLine, "tar-stream input with a hard link entry: Tar failed, but not for the hard link: "+err.Error(), "")
		}
	}
	// (3) PAX global headers: the catar is the one of the stream without them
	{
		g := func(c string) *gnutar.Header {
			return &gnutar.Header{Typeflag: gnutar.TypeXGlobalHeader, Name: "pax_global_header", PAXRecords: map[string]string{"comment": c}, Format: gnutar.FormatPAX}
		}
		d := &gnutar.Header{Typeflag: gnutar.TypeDir, Name: "./", Mode: 0755, ModTime: mt}
		a := &gnutar.Header{Typeflag: gnutar.TypeReg, Name: "./a", Mode: 0644, ModTime: mt}
		sub := &gnutar.Header{Typeflag: gnutar.TypeDir, Name: "./s/", Mode: 0700, ModTime: mt}
		c := &gnutar.Header{Typeflag: gnutar.TypeSymlink, Name: "./s/c", Linkname: "../a", Mode: 0777, ModTime: mt}
		data := map[string]string{"./a": "content"}
		plain, err := catarOf(stream([]*gnutar.Header{d, a, sub, c}, data))
		if err != nil {
			violation("tarinput.pax-global-header plain", "Tar from a tar stream failed: "+err.Error(), "")
		}
		for name, hs := range map[string][]*gnutar.Header{
			"leading":      {g("0123456789abcdef"), d, a, sub, c},
			"two-in-a-row": {g("1"), g("2"), d, a, sub, c},
			"in-the-middle": {d, a, g("1"), sub, g("2"), g("3"), c},
			"at-the-end":   {g("0"), d, a, sub, c, g("1")},
		} {
			b := stream(hs, data)
			caseLine := "tarinput.pax-global-header." + name + " bytes=" + hx(b)
			rep.Count(caseLine, true, "tarfs.findings")
			ar, err := catarOf(b)
			if err != nil {
				violation(caseLine, "tar-stream input with PAX global headers ("+name+"): Tar failed: "+err.Error(), "")
			} else if !bytes.Equal(ar, plain) {
				_, nodes := untarNodes(ar)
				violation(caseLine, "tar-stream input with PAX global headers ("+name+"): the archive differs from the one made from the stream without them", strings.Join(nodes, ";"))
			}
		}
	}
}

// runTarfs is called from runC05
func runTarfs(cfg Config, rep *Report, m *Model, rng *rand.Rand) {
	tarfsFindings(rep)
	tarfsModeCases(cfg, rep, m, rng)
	tarfsReadCases(cfg, rep, m, rng)
	tarfsWriteCases(cfg, rep, m, rng)
}
