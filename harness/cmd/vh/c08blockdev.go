package main

import (
	"bytes"
	"context"
	"fmt"
	"math/rand"
	"net"
	"net/http"
	"os"
	"os/exec"
	"path/filepath"
	"strconv"
	"syscall"
	"time"

	"github.com/folbricht/desync"
	"golang.org/x/sys/unix"
)

// ---------------------------------------------------------------------------------------
// in-place extract onto a BLOCK DEVICE under SIGKILL (the documented use of --in-place:
// `desync extract -k -s store image.caibx /dev/sdX`). The scenario is the one of c08Extract
// (the real `desync extract --in-place`, an HTTP store that holds back the k-th request, SIGKILL,
// re-run against the counting store); the target is a loop device on a scratch file, and the very
// same scenario is run on a regular file holding the same prior content as the baseline.
//
// Needs root, /dev/loop-control and the LOOP_CTL_GET_FREE / LOOP_SET_FD ioctls; where the sandbox
// does not give them the runs are counted as skipped (histogram "extract:blockdev=skipped") and
// nothing is reported. The loop device is detached and the backing file removed on every path:
// the backing file is unlinked right after the attach and the device carries LO_FLAGS_AUTOCLEAR,
// so even a harness that is itself killed leaves nothing attached once its descriptors are closed.

type loopDev struct {
	path     string
	dev      *os.File
	madeNode bool
}

// attachLoop binds a free loop device to the backing file; why != "" when the sandbox does not permit it
func attachLoop(backing *os.File) (l *loopDev, why string) {
	if os.Geteuid() != 0 {
		return nil, "not root"
	}
	ctl, err := os.OpenFile("/dev/loop-control", os.O_RDWR, 0)
	if err != nil {
		return nil, "no /dev/loop-control: " + err.Error()
	}
	defer ctl.Close()
	last := ""
	for try := 0; try < 16; try++ {
		n, err := unix.IoctlRetInt(int(ctl.Fd()), unix.LOOP_CTL_GET_FREE)
		if err != nil {
			return nil, "LOOP_CTL_GET_FREE: " + err.Error()
		}
		path := "/dev/loop" + strconv.Itoa(n)
		made := false
		if _, err := os.Stat(path); os.IsNotExist(err) {
			if err := unix.Mknod(path, unix.S_IFBLK|0600, int(unix.Mkdev(7, uint32(n)))); err != nil {
				return nil, "mknod " + path + ": " + err.Error()
			}
			made = true
		}
		dev, err := os.OpenFile(path, os.O_RDWR, 0)
		if err != nil {
			if made {
				os.Remove(path)
			}
			return nil, "open " + path + ": " + err.Error()
		}
		if err := unix.IoctlSetInt(int(dev.Fd()), unix.LOOP_SET_FD, int(backing.Fd())); err != nil {
			dev.Close()
			if made {
				os.Remove(path)
			}
			last = "LOOP_SET_FD " + path + ": " + err.Error()
			if err == unix.EBUSY { // somebody else took it between GET_FREE and SET_FD
				time.Sleep(time.Duration(5*(try+1)) * time.Millisecond)
				continue
			}
			return nil, last
		}
		// detach by itself when the last descriptor is closed (we keep one open until detach)
		unix.IoctlLoopSetStatus64(int(dev.Fd()), &unix.LoopInfo64{Flags: unix.LO_FLAGS_AUTOCLEAR})
		return &loopDev{path: path, dev: dev, madeNode: made}, ""
	}
	return nil, last
}

func (l *loopDev) detach() {
	l.dev.Sync()
	unix.IoctlSetInt(int(l.dev.Fd()), unix.LOOP_CLR_FD, 0)
	l.dev.Close()
	if l.madeNode {
		os.Remove(l.path)
	}
}

func c08BlockDev(cfg Config, rep *Report, rng *rand.Rand, bin string, monitor func(string, string)) {
	const skipTag = "extract:blockdev=skipped"
	blob := randBytes(rng, 20000+rng.Intn(30000))
	min, avg, max := uint64(256), uint64(1024), uint64(4096)
	parts := chunkWith(blob, min, avg, max)
	table := tableOf("sha512", parts)
	idx := desync.Index{Index: desync.FormatIndex{FeatureFlags: desync.CaFormatExcludeNoDump | desync.CaFormatSHA512256, ChunkSizeMin: min, ChunkSizeAvg: avg, ChunkSizeMax: max}, Chunks: table}
	total := len(parts)
	// the device is longer than the index (whole sectors, and some more): only its first len(blob) bytes are the image
	devSize := (len(blob)+4095)/4096*4096 + rng.Intn(4)*4096
	ks := []int{1, total / 2, total - 1}
	if cfg.Tier == "thorough" {
		ks = nil
		for k := 1; k < total; k++ {
			ks = append(ks, k)
		}
	}
	type kn struct{ k, n int }
	var cases []kn
	for _, k := range ks {
		cases = append(cases, kn{k, 1})
	}
	cases = append(cases, kn{total / 2, 4}, kn{total - 1, 2})
	skip := func(why string) {
		rep.Notes = append(rep.Notes, "in-place extract onto a loop block device skipped: "+why)
		for range cases {
			rep.Count("crash.extract target=blockdev skipped", false, skipTag)
		}
	}

	work, err := os.MkdirTemp(cfg.Work, "blockdev")
	if err != nil {
		skip(err.Error())
		return
	}
	defer os.RemoveAll(work)
	backingPath := filepath.Join(work, "backing.img")
	backing, err := os.OpenFile(backingPath, os.O_RDWR|os.O_CREATE|os.O_EXCL, 0600)
	if err != nil {
		skip(err.Error())
		return
	}
	defer backing.Close()
	defer os.Remove(backingPath)
	if err := backing.Truncate(int64(devSize)); err != nil {
		skip(err.Error())
		return
	}
	loop, why := attachLoop(backing)
	if loop == nil {
		skip(why)
		return
	}
	defer loop.detach()
	os.Remove(backingPath) // the kernel keeps the file for as long as the device is attached

	idxPath := filepath.Join(work, "blob.caibx")
	f, _ := os.Create(idxPath)
	idx.WriteTo(f)
	f.Close()
	srv := &holdServer{chunks: map[string][]byte{}, arrived: make(chan struct{}, 1), hold: -1}
	for i, p := range parts {
		st, _ := desync.Compress(p)
		id := table[i].ID.String()
		srv.chunks["/"+id[:4]+"/"+id+".cacnk"] = st
	}
	ln, err := net.Listen("tcp", "127.0.0.1:0")
	if err != nil {
		skip("cannot listen on localhost: " + err.Error())
		return
	}
	hs := &http.Server{Handler: srv}
	go hs.Serve(ln)
	defer hs.Close()
	url := "http://" + ln.Addr().String() + "/"

	type target struct {
		kind  string
		path  string
		reset func(before []byte) error
		read  func() ([]byte, error) // the first len(blob) bytes
	}
	filePath := filepath.Join(work, "regular.img")
	targets := []target{
		{kind: "regular", path: filePath,
			reset: func(before []byte) error { return os.WriteFile(filePath, before[:len(blob)], 0644) },
			read:  func() ([]byte, error) { return os.ReadFile(filePath) }},
		{kind: "blockdev", path: loop.path,
			reset: func(before []byte) error {
				if _, err := loop.dev.WriteAt(before, 0); err != nil {
					return err
				}
				return loop.dev.Sync()
			},
			read: func() ([]byte, error) {
				d, err := os.Open(loop.path)
				if err != nil {
					return nil, err
				}
				defer d.Close()
				b := make([]byte, len(blob))
				_, err = d.ReadAt(b, 0)
				return b, err
			}},
	}

	// one run of the scenario: killed at the k-th request, re-run to completion
	type outcome struct {
		ok            bool // the scenario ran (the harness could set it up and the first run was killed)
		firstServed   int
		rerunErr      string
		content       []byte
		again, rerun  int
		setupProblems string
	}
	scenario := func(t target, k, n int, before []byte) (o outcome) {
		if err := t.reset(before); err != nil {
			o.setupProblems = "cannot write the prior content: " + err.Error()
			return
		}
		srv.mu.Lock()
		srv.hold, srv.requests, srv.served = k, 0, nil
		srv.mu.Unlock()
		select { // a stale token of an earlier run
		case <-srv.arrived:
		default:
		}
		args := []string{"extract", "-n", strconv.Itoa(n), "-s", url, "--error-retry", "0", "--in-place", idxPath, t.path}
		cmd := exec.Command(bin, args...)
		cmd.Env = append(os.Environ(), "HOME="+work)
		if err := cmd.Start(); err != nil {
			o.setupProblems = "cannot start desync: " + err.Error()
			return
		}
		arrived := false
		select {
		case <-srv.arrived:
			arrived = true
		case <-time.After(20 * time.Second):
		}
		cmd.Process.Signal(syscall.SIGKILL)
		cmd.Wait()
		srv.mu.Lock()
		served := append([]string{}, srv.served...)
		srv.hold, srv.requests, srv.served = -1, 0, nil
		srv.mu.Unlock()
		if !arrived {
			o.setupProblems = "the first run never asked for its request number " + strconv.Itoa(k)
			return
		}
		o.ok = true
		o.firstServed = len(served)
		ctx, cancel := context.WithTimeout(context.Background(), 60*time.Second)
		defer cancel()
		rc := exec.CommandContext(ctx, bin, "extract", "-n", strconv.Itoa(n), "-s", url, "--error-retry", "0", "--in-place", idxPath, t.path)
		rc.Env = cmd.Env
		out, err := rc.CombinedOutput()
		if err != nil {
			o.rerunErr = err.Error() + ": " + clip(string(out), 300)
			return
		}
		o.content, err = t.read()
		if err != nil {
			o.rerunErr = "cannot read the target back: " + err.Error()
			return
		}
		seen := map[string]bool{}
		for _, p := range served {
			seen[p] = true
		}
		srv.mu.Lock()
		for _, p := range srv.served {
			if seen[p] {
				o.again++
			}
		}
		o.rerun = len(srv.served)
		srv.mu.Unlock()
		return
	}

	for _, c := range cases {
		before := randBytes(rng, devSize)
		res := map[string]outcome{}
		for _, t := range targets {
			line := fmt.Sprintf("crash.extract inplace=true target=%s n=%d kill-at-request=%d prior=other chunks=%d device-bytes=%d blob-bytes=%d blob-seed=%d",
				t.kind, c.n, c.k, total, devSize, len(blob), cfg.Seed)
			o := scenario(t, c.k, c.n, before)
			res[t.kind] = o
			if !o.ok {
				// the harness could not set the scenario up: not a finding about the code
				rep.Notes = append(rep.Notes, "blockdev scenario not run ("+t.kind+"): "+o.setupProblems)
				rep.Count(line, false, skipTag)
				continue
			}
			rep.Count(line, true, "extract:target="+t.kind, fmt.Sprintf("n=%d", c.n))
			if o.rerunErr != "" {
				monitor(fmt.Sprintf("the re-run of an in-place extract onto a %s target that had been killed failed: %s", t.kind, o.rerunErr), line)
				continue
			}
			if !bytes.Equal(o.content, blob) {
				monitor(fmt.Sprintf("the re-run of a killed in-place extract onto a %s target reported success but the first %d bytes of the target differ from the blob", t.kind, len(blob)), line)
			}
			if o.again > c.n-1 {
				monitor(fmt.Sprintf("the re-run onto a %s target fetched %d chunks again that the killed run had already been served (%d served, at most %d of them can have been unwritten; the re-run made %d fetches for %d chunks)",
					t.kind, o.again, o.firstServed, c.n-1, o.rerun, total), line)
			}
		}
		// the same scenario on the two kinds of target: what is in place on a device is recognised like in a file
		fo, bo := res["regular"], res["blockdev"]
		if fo.ok && bo.ok && fo.rerunErr == "" && bo.rerunErr == "" && bo.again <= c.n-1 && bo.rerun > fo.rerun+c.n-1 {
			line := fmt.Sprintf("crash.extract inplace=true target=blockdev-vs-regular n=%d kill-at-request=%d prior=other chunks=%d device-bytes=%d blob-bytes=%d blob-seed=%d",
				c.n, c.k, total, devSize, len(blob), cfg.Seed)
			monitor(fmt.Sprintf("the re-run of a killed in-place extract made %d store fetches on a block device and %d in the same scenario (same prior content, same kill point) on a regular file; up to %d more could be explained by chunks in flight",
				bo.rerun, fo.rerun, c.n-1), line)
		}
	}
}
