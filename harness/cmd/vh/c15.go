package main

import (
	"bytes"
	"errors"
	"fmt"
	"io"
	"math/rand"
	"net/http"
	"net/http/httptest"
	"net/url"
	"os"
	"path/filepath"
	"strings"

	"github.com/folbricht/desync"
)

// recording stores ------------------------------------------------------------------------

type recStore struct {
	calls   []string
	get     string // ok | missing | err
	has     string // 1 | 0 | err
	storeOK bool
	data    []byte // chunk served on get=ok (plain)
}

func (s *recStore) GetChunk(id desync.ChunkID) (*desync.Chunk, error) {
	s.calls = append(s.calls, "G:"+hx(id[:]))
	switch s.get {
	case "ok":
		return desync.NewChunkWithID(id, s.data, true)
	case "missing":
		return nil, desync.ChunkMissing{ID: id}
	}
	return nil, errors.New("scripted failure")
}
func (s *recStore) HasChunk(id desync.ChunkID) (bool, error) {
	s.calls = append(s.calls, "H:"+hx(id[:]))
	switch s.has {
	case "1":
		return true, nil
	case "0":
		return false, nil
	}
	return false, errors.New("scripted failure")
}
func (s *recStore) Close() error   { return nil }
func (s *recStore) String() string { return "rec" }

type recWriteStore struct{ *recStore }

func (s recWriteStore) StoreChunk(c *desync.Chunk) error {
	id := c.ID()
	s.recStore.calls = append(s.recStore.calls, "S:"+hx(id[:]))
	if s.storeOK {
		return nil
	}
	return errors.New("scripted failure")
}

type recIndexStore struct {
	calls   []string
	iget    string // 1 | 0 | err
	storeOK bool
}

func (s *recIndexStore) GetIndexReader(name string) (io.ReadCloser, error) {
	s.calls = append(s.calls, "GR:"+hx([]byte(name)))
	switch s.iget {
	case "1":
		return io.NopCloser(bytes.NewReader(nil)), nil
	case "0":
		return nil, os.ErrNotExist
	}
	return nil, errors.New("scripted failure")
}
func (s *recIndexStore) GetIndex(name string) (desync.Index, error) {
	s.calls = append(s.calls, "GI:"+hx([]byte(name)))
	switch s.iget {
	case "1":
		return desync.Index{Index: desync.FormatIndex{FeatureFlags: desync.CaFormatSHA512256}}, nil
	case "0":
		return desync.Index{}, os.ErrNotExist
	}
	return desync.Index{}, errors.New("scripted failure")
}
func (s *recIndexStore) Close() error   { return nil }
func (s *recIndexStore) String() string { return "recidx" }

type recIndexWriteStore struct{ *recIndexStore }

func (s recIndexWriteStore) StoreIndex(name string, idx desync.Index) error {
	s.recIndexStore.calls = append(s.recIndexStore.calls, "SI:"+hx([]byte(name)))
	if s.storeOK {
		return nil
	}
	return errors.New("scripted failure")
}

func implHTTP(line string) string {
	cmd, a := parseCase(line)
	setDigest(a["alg"])
	defer setDigest("sha512")
	auth := string(unhx(a["auth"]))
	hdr := string(unhx(a["hdr"]))
	p := string(unhx(a["path"]))
	body := unhx(a["body"])
	return guard(func() string {
		req := &http.Request{Method: a["method"], URL: &url.URL{Path: p, RawPath: string(unhx(a["rawpath"]))}, Header: http.Header{}, Body: io.NopCloser(bytes.NewReader(body))}
		if a["hashdr"] == "1" {
			req.Header.Set("Authorization", hdr)
		}
		w := httptest.NewRecorder()
		var calls []string
		if cmd == "http.index" {
			rs := &recIndexStore{iget: a["iget"], storeOK: a["storeok"] == "1"}
			var st desync.IndexStore = rs
			if a["storewr"] == "1" {
				st = recIndexWriteStore{rs}
			}
			h := desync.NewHTTPIndexHandler(st, a["writable"] == "1", auth)
			h.ServeHTTP(w, req)
			calls = rs.calls
		} else {
			rs := &recStore{get: a["get"], has: a["has"], storeOK: a["storeok"] == "1", data: []byte("x")}
			var st desync.Store = rs
			if a["storewr"] == "1" {
				st = recWriteStore{rs}
			}
			var conv desync.Converters
			if a["comp"] == "1" {
				conv = desync.Converters{desync.Compressor{}}
			}
			h := desync.NewHTTPHandler(st, a["writable"] == "1", a["skipverify"] == "1", conv, auth)
			h.ServeHTTP(w, req)
			calls = rs.calls
		}
		return fmt.Sprintf("%d %s", w.Code, strings.Join(calls, ","))
	})
}

func runC15(cfg Config) {
	rep := NewReport("C15", cfg.Tier, cfg.Seed,
		"requests: methods GET/HEAD/PUT/DELETE/POST x paths (well-formed, wrong prefix, wrong/missing/extra suffix, '..' and '.' elements, "+
			"doubled slashes, upper-case hex, over-long, empty, '/') x Authorization {absent, wrong, right, right with other case, prefixed/"+
			"suffixed} x {chunk, index} handler x {writable, read-only} x {verify-write on/off} x {compressed, uncompressed} x upstream store "+
			"outcomes, in-process against ServeHTTP with recording stores, vs the model (status and list of store calls); and against real "+
			"local stores with sentinel files outside. non-trivial = distinct request that passed authorization")
	m, err := StartModel(cfg.Driver)
	if err != nil {
		fatal(err)
	}
	defer m.Close()
	rng := rand.New(rand.NewSource(cfg.Seed))
	monitor := func(what, caseLine, impl string) {
		rep.Disagree(Disagreement{Kind: "monitor", Case: clip(caseLine, 100000), Impl: clip(impl, 400), What: what})
	}
	methods := []string{"GET", "HEAD", "PUT", "DELETE", "POST", "get"}
	n := cfg.N(6000, 150000)
	for it := 0; it < n; it++ {
		alg := "sha512"
		data := randBytes(rng, 1+rng.Intn(40))
		id := desync.Digest.Sum(data)
		sid := hx(id[:])
		comp := rng.Intn(2) == 1
		ext := ""
		if comp {
			ext = ".cacnk"
		}
		good := "/" + sid[:4] + "/" + sid + ext
		var p string
		switch rng.Intn(22) {
		case 0, 1, 2, 3, 4, 5:
			p = good
		case 6:
			p = "/" + sid[4:8] + "/" + sid + ext
		case 7:
			p = "/" + sid[:4] + "/" + sid + []string{".cacnk", "", ".zst", ".cacnk.cacnk", "x"}[rng.Intn(5)]
		case 8:
			p = "/../" + sid[:4] + "/" + sid + ext
		case 9:
			p = "/" + sid[:4] + "/../" + sid[:4] + "/" + sid + ext
		case 10:
			p = "//" + sid[:4] + "//" + sid + ext
		case 11:
			p = "/" + sid[:4] + "/./" + sid + ext
		case 12:
			p = "/" + strings.ToUpper(sid[:4]) + "/" + strings.ToUpper(sid) + ext
		case 13:
			p = good + "/"
		case 14:
			p = sid[:4] + "/" + sid + ext
		case 15:
			p = []string{"", "/", ".", "..", "/..", "/../..", "/./", "/....", "/abcd/abcd"}[rng.Intn(9)]
		case 16:
			p = "/prefix" + good
		case 17:
			p = "/" + sid[:4] + "/" + sid[:60] + ext
		case 18:
			p = "/" + sid[:4] + "/" + sid + sid + ext
		case 19:
			p = "/../../etc/passwd"
		case 20:
			p = "/" + sid[:4] + "/" + sid[:62] + "zz" + ext
		default:
			p = "/" + string(randBytes(rng, rng.Intn(20)))
		}
		auth := ""
		if rng.Intn(3) > 0 {
			auth = "Bearer s3cr3t"
		}
		hashdr, hdr := "1", auth
		switch rng.Intn(7) {
		case 0:
			hashdr, hdr = "0", ""
		case 1:
			hdr = "Bearer wrong"
		case 2:
			hdr = strings.ToUpper(auth)
		case 3:
			hdr = auth + "x"
		case 4:
			hdr = "x" + auth
		}
		method := methods[rng.Intn(len(methods))]
		body := data
		bodyKind := "good"
		if comp {
			body, _ = desync.Compress(data)
		}
		switch rng.Intn(4) {
		case 0:
			body = append([]byte{}, body...)
			body[rng.Intn(len(body))] ^= 0x40
			bodyKind = "corrupt"
		case 1:
			body = []byte{}
			bodyKind = "empty"
		}
		dec := "err"
		if d, err := desync.Decompress(nil, body); err == nil {
			dec = "ok:" + hx(d)
		}
		if !comp {
			dec = "ok:" + hx(body)
		}
		index := rng.Intn(3) == 0
		cmd := "http.chunk"
		if index {
			cmd = "http.index"
			switch rng.Intn(6) {
			case 0:
				p = "/idx.caibx"
			case 1:
				p = "/sub/dir/idx.caibx"
			case 2:
				p = "/.."
			case 3:
				p = "/../../x.caibx"
			}
			// index PUT bodies: a valid index or garbage
			if rng.Intn(2) == 0 {
				var b bytes.Buffer
				(&desync.Index{Index: desync.FormatIndex{FeatureFlags: desync.CaFormatSHA512256, ChunkSizeMax: 10}}).WriteTo(&b)
				body = b.Bytes()
				bodyKind = "index"
			}
		}
		_, ierr := desync.IndexFromReader(bytes.NewReader(body))
		line := fmt.Sprintf("%s alg=%s auth=%s hashdr=%s hdr=%s method=%s path=%s writable=%d skipverify=%d comp=%d storewr=%d get=%s has=%s storeok=%d iget=%s ivalid=%d body=%s dec=%s",
			cmd, alg, hx([]byte(auth)), hashdr, hx([]byte(hdr)), method, hx([]byte(p)), rng.Intn(2), rng.Intn(2), b2i(comp), rng.Intn(2),
			[]string{"ok", "missing", "err"}[rng.Intn(3)], []string{"1", "0", "err"}[rng.Intn(3)], rng.Intn(2), []string{"1", "0", "err"}[rng.Intn(3)], b2i(ierr == nil), hx(body), dec)
		// the request as it arrives from the network may spell the same path differently: an
		// encoded form (RawPath) with %2F for "/" and %2e for "."; the handlers must go by the decoded path
		if rng.Intn(3) == 0 && p != "" {
			raw := ""
			for i := 0; i < len(p); i++ {
				switch {
				case p[i] == '/' && i > 0 && rng.Intn(2) == 0:
					raw += "%2F"
				case p[i] == '.' && rng.Intn(3) == 0:
					raw += "%2e"
				case p[i] == '%' || p[i] == ' ' || p[i] == '?' || p[i] == '#' || p[i] < 0x21 || p[i] > 0x7e:
					raw += fmt.Sprintf("%%%02X", p[i])
				default:
					raw += string(p[i])
				}
			}
			if un, err := url.PathUnescape(raw); err == nil && un == p && raw != p {
				line += " rawpath=" + hx([]byte(raw))
			}
		}
		got := implHTTP(line)
		rep.Compare(m, line, implHTTP, nil)
		_, a := parseCase(line)
		authorized := auth == "" || (hashdr == "1" && hdr == auth)
		rep.Count(line, authorized, cmd, "method:"+method, "status:"+strings.SplitN(got, " ", 2)[0], "body:"+bodyKind)
		f := strings.SplitN(got, " ", 2)
		calls := ""
		if len(f) > 1 {
			calls = f[1]
		}
		// monitors (independent of the model)
		if !authorized && calls != "" {
			monitor("a request without the configured authorization value reached the store: "+calls, line, got)
		}
		if !authorized && f[0] != "401" {
			monitor("a request without the configured authorization value was not answered 401", line, got)
		}
		if a["writable"] == "0" && (strings.Contains(calls, "S:") || strings.Contains(calls, "SI:")) {
			monitor("a server not started writable modified its store", line, got)
		}
		if strings.Contains(calls, "S:") && a["skipverify"] == "0" && bodyKind != "good" && !index {
			monitor("an uploaded chunk whose content does not match the ID was stored", line, got)
		}
		for _, c := range strings.Split(calls, ",") {
			if strings.HasPrefix(c, "G:") || strings.HasPrefix(c, "H:") || strings.HasPrefix(c, "S:") {
				cid := c[2:]
				if !strings.Contains(strings.ToLower(p), cid) {
					monitor("the store was accessed under a chunk ID that the request path does not name", line, got)
				}
			}
			if strings.HasPrefix(c, "GI:") || strings.HasPrefix(c, "GR:") || strings.HasPrefix(c, "SI:") {
				name := string(unhx(c[3:]))
				if name == "." || name == ".." || name == "/" || strings.Contains(name, "/") || name == "" {
					monitor("the index store was accessed under a name that is not a single path component: "+name, line, got)
				}
			}
		}
	}

	// real stores with sentinels outside (confinement on disk)
	base := filepath.Join(cfg.Work, "srv")
	os.RemoveAll(base)
	os.MkdirAll(filepath.Join(base, "store"), 0755)
	os.MkdirAll(filepath.Join(base, "indexes"), 0755)
	os.WriteFile(filepath.Join(base, "sentinel"), []byte("keep"), 0644)
	ls, _ := desync.NewLocalStore(filepath.Join(base, "store"), desync.StoreOptions{})
	is, _ := desync.NewLocalIndexStore(filepath.Join(base, "indexes"))
	ch := desync.NewHTTPHandler(ls, true, false, desync.Converters{desync.Compressor{}}, "")
	ih := desync.NewHTTPIndexHandler(is, true, "")
	var idxBody bytes.Buffer
	(&desync.Index{Index: desync.FormatIndex{FeatureFlags: desync.CaFormatSHA512256, ChunkSizeMax: 10}}).WriteTo(&idxBody)
	hostile := []string{"/../sentinel", "/..", "/../../sentinel", "/indexes/../../sentinel", "/./../sentinel", "/sentinel/..", "//../sentinel", "/%2e%2e/sentinel", "/..%2fsentinel"}
	// the same as request URIs parsed the way net/http does (Path decoded, RawPath kept)
	rawHostile := []string{"/..%2Fsentinel", "/..%2fsentinel", "/%2e%2e%2Fsentinel", "/indexes%2F..%2F..%2Fsentinel", "/x/..%2F..%2Fsentinel", "/..%2F..%2Fsentinel", "/%2E%2E/sentinel"}
	type hreq struct{ path, raw string }
	var hreqs []hreq
	for _, p := range hostile {
		hreqs = append(hreqs, hreq{p, ""})
	}
	for _, r := range rawHostile {
		if u, err := url.ParseRequestURI(r); err == nil {
			hreqs = append(hreqs, hreq{u.Path, u.RawPath})
		}
	}
	for _, hr := range hreqs {
		p := hr.path
		if hr.raw != "" {
			p = hr.raw
		}
		for _, method := range []string{"GET", "PUT", "HEAD"} {
			for _, h := range []http.Handler{ch, ih} {
				req := &http.Request{Method: method, URL: &url.URL{Path: hr.path, RawPath: hr.raw}, Header: http.Header{}, Body: io.NopCloser(bytes.NewReader(idxBody.Bytes()))}
				w := httptest.NewRecorder()
				guard(func() string { h.ServeHTTP(w, req); return "" })
				rep.Count("disk "+method+" "+p, true, "disk-confinement")
				if b, err := os.ReadFile(filepath.Join(base, "sentinel")); err != nil || string(b) != "keep" {
					monitor("a request changed a file outside the served store: "+method+" "+p, "disk "+method+" "+p, "")
				}
				if bytes.Contains(w.Body.Bytes(), []byte("keep")) {
					monitor("a request read a file outside the served store: "+method+" "+p, "disk "+method+" "+p, "")
				}
			}
		}
	}
	// uploads into real local stores with write verification on: whatever the store holds afterwards under a
	// chunk name must decode and hash to that name (also for the all-zero ID, which `Chunk.ID()` yields for
	// undecodable data)
	for _, comp := range []bool{true, false} {
		sdir := filepath.Join(base, "store", fmt.Sprintf("up-%v", comp))
		os.MkdirAll(sdir, 0755)
		st, _ := desync.NewLocalStore(sdir, desync.StoreOptions{Uncompressed: !comp})
		var conv desync.Converters
		ext := ""
		if comp {
			conv = desync.Converters{desync.Compressor{}}
			ext = ".cacnk"
		}
		h := desync.NewHTTPHandler(st, true, false, conv, "")
		for it := 0; it < cfg.N(120, 3000); it++ {
			data := randBytes(rng, 1+rng.Intn(60))
			id := desync.Digest.Sum(data)
			body := data
			if comp {
				body, _ = desync.Compress(data)
			}
			kind := "good"
			switch rng.Intn(6) {
			case 0:
				body = append([]byte{}, body...)
				body[rng.Intn(len(body))] ^= 0x20
				kind = "corrupt"
			case 1:
				id = desync.ChunkID{}
				body = randBytes(rng, 1+rng.Intn(40))
				kind = "zero-id-garbage"
			case 2:
				id = desync.ChunkID{}
				kind = "zero-id-valid-body"
			case 3:
				body = body[:len(body)/2]
				kind = "truncated"
			}
			sid := hx(id[:])
			p := "/" + sid[:4] + "/" + sid + ext
			req := httptest.NewRequest("PUT", p, bytes.NewReader(body))
			w := httptest.NewRecorder()
			guard(func() string { h.ServeHTTP(w, req); return "" })
			line := fmt.Sprintf("disk-put comp=%v kind=%s id=%s body=%s -> %d", comp, kind, sid, hx(body), w.Code)
			rep.Count(line, true, "disk-put:"+kind, fmt.Sprintf("disk-put-status:%d", w.Code))
			filepath.Walk(sdir, func(fp string, info os.FileInfo, err error) error {
				if err != nil || info.IsDir() {
					return nil
				}
				name := strings.TrimSuffix(filepath.Base(fp), ext)
				raw, _ := os.ReadFile(fp)
				plain := raw
				if comp {
					d, derr := desync.Decompress(nil, raw)
					if derr != nil {
						monitor("write verification is on, yet the store holds a chunk file that does not decode: "+filepath.Base(fp), line, "")
						os.Remove(fp)
						return nil
					}
					plain = d
				}
				if sum := desync.Digest.Sum(plain); hx(sum[:]) != name {
					monitor("write verification is on, yet the store holds a chunk file whose content does not hash to its name: "+filepath.Base(fp), line, "")
					os.Remove(fp)
				}
				return nil
			})
			if kind == "good" && w.Code/100 != 2 {
				monitor(fmt.Sprintf("a correct upload was refused with status %d", w.Code), line, "")
			}
		}
		os.RemoveAll(sdir)
	}
	ents, _ := os.ReadDir(base)
	if len(ents) != 3 {
		monitor(fmt.Sprintf("unexpected entries next to the served stores: %d", len(ents)), "disk", "")
	}
	c15CLI(cfg, rep, rng)
	storeOptsServers(cfg, rep, m, rng)
	storeOptsIndexLocations(cfg, rep, m, rng) // which place a server's --store names (storeopts_more.go)
	rep.Write(cfg.Out)
}

// c15CLI: the real `desync chunk-server` / `desync index-server`, configured with an authorization value through the
// flag or through the environment, writable or not: requests without exactly that value get no data and change
// nothing; a server not started writable changes nothing at all
func c15CLI(cfg Config, rep *Report, rng *rand.Rand) {
	bin := desyncBin()
	if bin == "" {
		rep.Notes = append(rep.Notes, "desync binary not built: command-line server runs skipped")
		return
	}
	dir := filepath.Join(cfg.Work, "cli15")
	defer os.RemoveAll(dir)
	secret := "Bearer s3cr3t-Value"
	snapshot := func(root string) string {
		var out []string
		filepath.Walk(root, func(p string, info os.FileInfo, err error) error {
			if err == nil && !info.IsDir() {
				b, _ := os.ReadFile(p)
				rel, _ := filepath.Rel(root, p)
				out = append(out, rel+":"+hx(b))
			}
			return nil
		})
		return strings.Join(out, ",")
	}
	for it := 0; it < cfg.N(8, 32); it++ {
		index := it%2 == 1
		viaEnv := it%4 < 2
		writable := it%8 < 4
		os.RemoveAll(dir)
		storeDir := filepath.Join(dir, "store")
		os.MkdirAll(storeDir, 0755)
		os.WriteFile(filepath.Join(dir, "outside.caibx"), []byte("outside"), 0644)
		data := randBytes(rng, 200+rng.Intn(2000))
		chunk := desync.NewChunk(data)
		id := chunk.ID()
		other := desync.NewChunk(randBytes(rng, 300))
		var getPath, putPath string
		var putBody []byte
		if index {
			idx := desync.Index{Index: desync.FormatIndex{FeatureFlags: desync.CaFormatSHA512256, ChunkSizeMin: 16, ChunkSizeAvg: 64, ChunkSizeMax: 4096},
				Chunks: []desync.IndexChunk{{ID: id, Start: 0, Size: uint64(len(data))}}}
			var ib bytes.Buffer
			idx.WriteTo(&ib)
			os.WriteFile(filepath.Join(storeDir, "present.caibx"), ib.Bytes(), 0644)
			getPath, putPath, putBody = "/present.caibx", "/new.caibx", ib.Bytes()
		} else {
			ls, _ := desync.NewLocalStore(storeDir, desync.StoreOptions{})
			ls.StoreChunk(chunk)
			getPath = "/" + id.String()[:4] + "/" + id.String() + ".cacnk"
			oid := other.ID()
			putPath = "/" + oid.String()[:4] + "/" + oid.String() + ".cacnk"
			os.MkdirAll(filepath.Join(dir, "tmpstore"), 0755)
			tmp, _ := desync.NewLocalStore(filepath.Join(dir, "tmpstore"), desync.StoreOptions{})
			tmp.StoreChunk(other)
			putBody, _ = os.ReadFile(filepath.Join(dir, "tmpstore", oid.String()[:4], oid.String()+".cacnk"))
		}
		port := freePort()
		addr := fmt.Sprintf("127.0.0.1:%d", port)
		cmdName := map[bool]string{false: "chunk-server", true: "index-server"}[index]
		args := []string{cmdName, "-s", storeDir, "-l", addr}
		if writable {
			args = append(args, "-w")
		}
		var env []string
		if viaEnv {
			env = []string{"DESYNC_HTTP_AUTH=" + secret}
		} else {
			args = append(args, "--authorization", secret)
		}
		stop, err := startServer(bin, env, addr, args...)
		caseBase := fmt.Sprintf("cli.server kind=%s auth-via=%s writable=%v", cmdName, map[bool]string{true: "env", false: "flag"}[viaEnv], writable)
		if err != nil {
			rep.Notes = append(rep.Notes, "could not start "+cmdName+": "+err.Error())
			continue
		}
		before := snapshot(dir)
		type hv struct{ name, val string }
		hdrs := []hv{{"none", ""}, {"wrong", "Bearer other"}, {"case", strings.ToUpper(secret)}, {"suffix", secret + "x"}, {"prefix", "x" + secret}, {"right", secret}}
		for _, h := range hdrs {
			hm := map[string]string{}
			if h.name != "none" {
				hm["Authorization"] = h.val
			}
			for _, meth := range []string{"GET", "HEAD", "PUT"} {
				p, body := getPath, []byte(nil)
				if meth == "PUT" {
					p, body = putPath, putBody
				}
				code, rb := httpDo(meth, "http://"+addr+p, hm, body)
				caseLine := fmt.Sprintf("%s header=%s method=%s", caseBase, h.name, meth)
				rep.Count(caseLine, true, "cli.server:"+cmdName, fmt.Sprintf("cli-status:%d", code))
				if h.name != "right" {
					if code != 401 {
						rep.Disagree(Disagreement{Kind: "monitor", Case: caseLine, What: fmt.Sprintf("a request without the configured authorization value was answered with status %d, not 401", code)})
					}
					if meth == "GET" && len(rb) > 0 && (bytes.Contains(rb, data[:16]) || code == 200) {
						rep.Disagree(Disagreement{Kind: "monitor", Case: caseLine, What: "a request without the configured authorization value was given the object"})
					}
					if after := snapshot(dir); after != before {
						rep.Disagree(Disagreement{Kind: "monitor", Case: caseLine, What: "a request without the configured authorization value changed the served directory"})
						before = after
					}
				} else {
					if (meth == "GET" || meth == "HEAD") && code != 200 {
						rep.Disagree(Disagreement{Kind: "monitor", Case: caseLine, What: fmt.Sprintf("an authorized %s of a present object was answered with status %d", meth, code)})
					}
					if meth == "PUT" {
						after := snapshot(dir)
						if !writable && after != before {
							rep.Disagree(Disagreement{Kind: "monitor", Case: caseLine, What: "a server that was not started writable changed its store"})
						}
						before = after
					}
				}
			}
		}
		stop()
	}
}
