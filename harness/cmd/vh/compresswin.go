package main

import (
	"bytes"
	"fmt"
	"math/rand"

	"github.com/folbricht/desync"
)

// c20WindowFrames: standard zstd frames whose header declares a large window (8 MiB .. 128 MiB, every Window_Descriptor
// exponent 13..17 and, below 128 MiB, every mantissa) around SMALL content must be accepted by Decompress: libzstd's
// streaming encoder declares the window of its compression level whatever the size of the data (casync's chunk files),
// and libzstd's own decoder accepts windows up to 2^27 by default.  A decoder configured with a memory or window limit
// (zstd.WithDecoderMaxMemory, zstd.WithDecoderMaxWindow) refuses these frames although they decode to a few bytes; verify
// --repair would then delete valid chunks.  Independent of the Lean driver: the frames are built by hand (rfc8878Frame).
func c20WindowFrames(cfg Config, rep *Report, rng *rand.Rand, monitor func(what, caseLine, impl string)) {
	for windowLog := 23; windowLog <= 27; windowLog++ {
		mantissas := []int{0}
		if windowLog < 27 {
			mantissas = []int{0, 1, 2, 3, 4, 5, 6, 7}
		}
		for _, mant := range mantissas {
			for kind := 0; kind < 4; kind++ {
				var data []byte
				switch kind {
				case 0:
					data = randBytes(rng, 1)
				case 1:
					data = randBytes(rng, 1+rng.Intn(300))
				case 2:
					data = make([]byte, 1+rng.Intn(100000)) // RLE blocks
				default:
					data = randBytes(rng, 131073+rng.Intn(200000)) // more than one block
				}
				frame := rfc8878Frame(data, windowLog, rng)
				frame[5] |= byte(mant) // Window_Descriptor = exponent<<3 | mantissa: window = 2^windowLog * (1 + mantissa/8)
				caseLine := fmt.Sprintf("zstd-window-frame window-log=%d mantissa=%d len=%d frame-head=%s", windowLog, mant, len(data), hx(frame[:min(len(frame), 12)]))
				rep.Count(caseLine, len(data) > 1, "zstd-window-frame", fmt.Sprintf("zstd-window-frame:log%d", windowLog))
				out, err := desync.Decompress(nil, frame)
				if err != nil {
					monitor(fmt.Sprintf("Decompress refuses a standard zstd frame that declares a window of 2^%d*(1+%d/8) bytes (libzstd accepts up to 2^27) around %d bytes of content: %v", windowLog, mant, len(data), err), caseLine, "")
					continue
				}
				if !bytes.Equal(out, data) {
					monitor("Decompress of a large-window frame returned other bytes than the content", caseLine, hx(out[:min(len(out), 32)]))
				}
			}
		}
	}
}
