package main

import (
	"bytes"
	"context"
	"fmt"
	"math/rand"
	"os"
	"path/filepath"

	"github.com/folbricht/desync"
)

// c20WindowFrames: standard zstd frames whose header declares a large window (8 MiB .. 128 MiB, every Window_Descriptor
// exponent 13..17 and, below 128 MiB, every mantissa) around SMALL content must be accepted by Decompress: libzstd's
// streaming encoder declares the window of its compression level whatever the size of the data (casync's chunk files),
// and libzstd's own decoder accepts windows up to 2^27 by default.  A decoder configured with a memory or window limit
// (zstd.WithDecoderMaxMemory, zstd.WithDecoderMaxWindow) refuses these frames although they decode to a few bytes; verify
// --repair would then delete valid chunks.  Independent of the Lean driver: the frames are built by hand (rfc8878Frame).
func c20WindowFrames(cfg Config, rep *Report, rng *rand.Rand, monitor func(what, caseLine, impl string)) {
	for windowLog := 23; windowLog <= 27; windowLog++ {
		mantissas := []int{0}
		if windowLog < 27 {
			mantissas = []int{0, 1, 2, 3, 4, 5, 6, 7}
		}
		for _, mant := range mantissas {
			for kind := 0; kind < 4; kind++ {
				var data []byte
				switch kind {
				case 0:
					data = randBytes(rng, 1)
				case 1:
					data = randBytes(rng, 1+rng.Intn(300))
				case 2:
					data = make([]byte, 1+rng.Intn(100000)) // RLE blocks
				default:
					data = randBytes(rng, 131073+rng.Intn(200000)) // more than one block
				}
				frame := rfc8878Frame(data, windowLog, rng)
				frame[5] |= byte(mant) // Window_Descriptor = exponent<<3 | mantissa: window = 2^windowLog * (1 + mantissa/8)
				caseLine := fmt.Sprintf("zstd-window-frame window-log=%d mantissa=%d len=%d frame-head=%s", windowLog, mant, len(data), hx(frame[:min(len(frame), 12)]))
				rep.Count(caseLine, len(data) > 1, "zstd-window-frame", fmt.Sprintf("zstd-window-frame:log%d", windowLog))
				out, err := desync.Decompress(nil, frame)
				if err != nil {
					monitor(fmt.Sprintf("Decompress refuses a standard zstd frame that declares a window of 2^%d*(1+%d/8) bytes (libzstd accepts up to 2^27) around %d bytes of content: %v", windowLog, mant, len(data), err), caseLine, "")
					continue
				}
				if !bytes.Equal(out, data) {
					monitor("Decompress of a large-window frame returned other bytes than the content", caseLine, hx(out[:min(len(out), 32)]))
				}
			}
		}
	}
}

// c16WindowChunks: verify --repair on a compressed store whose chunk files are standard frames declaring windows of
// 8..128 MiB around small content (what libzstd's streaming API writes at high levels or with long-distance matching):
// nothing is reported and nothing is removed.  A decoder with a memory or window limit makes verify delete them all.
func c16WindowChunks(cfg Config, rep *Report, rng *rand.Rand) {
	dir := filepath.Join(cfg.Work, "window16")
	os.RemoveAll(dir)
	os.MkdirAll(dir, 0755)
	defer os.RemoveAll(dir)
	st, err := desync.NewLocalStore(dir, desync.StoreOptions{})
	if err != nil {
		return
	}
	var ids []desync.ChunkID
	var logs []int
	for windowLog := 23; windowLog <= 27; windowLog++ {
		for k := 0; k < 2; k++ {
			data := randBytes(rng, 1+rng.Intn(3000))
			if k == 1 {
				data = make([]byte, 1+rng.Intn(200000))
			}
			id := desync.ChunkID(desync.Digest.Sum(data))
			sid := id.String()
			os.MkdirAll(filepath.Join(dir, sid[:4]), 0755)
			os.WriteFile(filepath.Join(dir, sid[:4], sid+".cacnk"), rfc8878Frame(data, windowLog, rng), 0644)
			ids = append(ids, id)
			logs = append(logs, windowLog)
			rep.Count(fmt.Sprintf("verify.window window-log=%d len=%d id=%s", windowLog, len(data), sid), true, "verify-window-frame")
		}
	}
	var out bytes.Buffer
	verr := st.Verify(context.Background(), 2, true, &out)
	if verr != nil || out.Len() > 0 {
		rep.Disagree(Disagreement{Kind: "monitor", Case: "verify.window verify", Impl: fmt.Sprint(verr),
			What: "verify (with repair) objects to valid chunk files whose frames declare a large window: " + clip(out.String(), 300)})
	}
	for i, id := range ids {
		if ok, _ := st.HasChunk(id); !ok {
			rep.Disagree(Disagreement{Kind: "monitor", Case: fmt.Sprintf("verify.window window-log=%d id=%s", logs[i], id),
				What: fmt.Sprintf("verify --repair removed a valid chunk file whose frame declares a window of 2^%d bytes", logs[i])})
			break
		}
	}
}
