package main

// Trace validation of the parallel file chunker (C02): IndexFromFile runs under a cooperative
// scheduler installed through the verifPar hooks of make.go (build tag verif) — exactly one
// goroutine runs between two hook calls — and the recorded events are replayed through the Lean
// step machine (driver command par.accept).  The schedule is chosen by the harness (random
// priorities with change points, or forced from a replay), so every run is reproducible.

import (
	"context"
	"fmt"
	"math/rand"
	"os"
	"path/filepath"
	"strings"
	"sync"
	"sync/atomic"
	"time"

	"github.com/folbricht/desync"
)

type parArrival struct {
	actor  int // worker index, -1 = main routine
	ev     string
	target int
	a, b   uint64
	null   bool
}

func (r parArrival) String() string {
	ac := "m"
	if r.actor >= 0 {
		ac = fmt.Sprint(r.actor)
	}
	n := 0
	if r.null {
		n = 1
	}
	return fmt.Sprintf("%s:%s:%d:%d:%d:%d", ac, r.ev, r.target, r.a, r.b, n)
}

type parSched struct {
	mu      sync.Mutex
	gids    map[int]int
	offsets map[uint64]int
	arrive  chan parArrival
	resume  map[int]chan struct{}
	free    atomic.Bool
}

func (s *parSched) hook(offset uint64, ev string, a, b uint64, null bool) {
	if s.free.Load() {
		return
	}
	g := goid()
	s.mu.Lock()
	target, ok := s.offsets[offset]
	if !ok {
		target = -2
	}
	if ev == "start" {
		s.gids[g] = target
	}
	actor, known := s.gids[g]
	ch := s.resume[actor]
	s.mu.Unlock()
	if !known || ch == nil {
		return // a goroutine the scheduler does not know (cannot happen with the pinned code)
	}
	s.arrive <- parArrival{actor, ev, target, a, b, null}
	if ev == "closed" {
		return // the goroutine ends here
	}
	<-ch
}

type parRun struct {
	trace    []parArrival
	order    []int // the actor resumed at each step
	index    desync.Index
	err      error
	problem  string // "" | "hang" | "deadlock" | "diverged@k"
	nworkers int
}

// parWorkers mirrors IndexFromFile's choice of the worker count and offsets
func parWorkers(size, max uint64, n int) []uint64 {
	nn := size/max + 1
	if nn < uint64(n) {
		n = int(nn)
	}
	span := size / uint64(n)
	var offs []uint64
	for i := 0; i < n; i++ {
		offs = append(offs, span*uint64(i))
	}
	return offs
}

// runParScheduled runs IndexFromFile on file f under a schedule: forced (a list of actors, -1 =
// main) if not nil, else drawn from rng with the given policy
func runParScheduled(f string, size uint64, n int, p chunkParams, rng *rand.Rand, policy int, forced []int) parRun {
	offs := parWorkers(size, p.max, n)
	nw := len(offs)
	s := &parSched{gids: map[int]int{}, offsets: map[uint64]int{}, arrive: make(chan parArrival, 4*(nw+2)), resume: map[int]chan struct{}{}}
	for i, o := range offs {
		if _, dup := s.offsets[o]; !dup {
			s.offsets[o] = i
		}
		s.resume[i] = make(chan struct{}, 1)
	}
	s.resume[-1] = make(chan struct{}, 1)
	desync.VerifPar = s.hook
	res := parRun{nworkers: nw}
	finished := make(chan struct{})
	go func() {
		s.mu.Lock()
		s.gids[goid()] = -1
		s.mu.Unlock()
		res.index, _, res.err = desync.IndexFromFile(context.Background(), f, n, p.min, p.avg, p.max, desync.NewProgressBar(""))
		ok := uint64(0)
		if res.err == nil {
			ok = 1
		}
		if !s.free.Load() {
			s.arrive <- parArrival{-1, "finished", 0, ok, 0, false}
		}
		close(finished)
	}()
	release := func() {
		s.free.Store(true)
		for _, ch := range s.resume {
			select {
			case ch <- struct{}{}:
			default:
			}
		}
		// let the abandoned goroutines drain; IndexFromFile cancels its context on return
		select {
		case <-finished:
		case <-time.After(10 * time.Second):
		}
		time.Sleep(time.Millisecond)
		desync.VerifPar = nil
	}
	timeout := time.After(30 * time.Second)
	wait := func() (parArrival, bool) {
		select {
		case a := <-s.arrive:
			return a, true
		case <-timeout:
			return parArrival{}, false
		}
	}
	parked := map[int]bool{} // actors waiting in a hook
	gone := map[int]bool{}   // workers whose goroutine has ended
	count := make([]int, nw) // simulated bucket sizes
	closed := make([]bool, nw)
	mainAt := 0
	note := func(a parArrival) {
		res.trace = append(res.trace, a)
		t := a.target
		switch a.ev {
		case "pushed", "nullPushed":
			if t >= 0 && t < nw {
				count[t]++
			}
		case "popped", "scanned", "mainPopped":
			if t >= 0 && t < nw {
				count[t]--
			}
		case "closed":
			if a.actor >= 0 && a.actor < nw {
				closed[a.actor] = true
				gone[a.actor] = true
			}
		case "mainAt":
			mainAt = t
		}
		if a.ev != "closed" && a.ev != "finished" {
			parked[a.actor] = true
		}
	}
	// start-up: every worker parks in "start", the main routine in "mainAt"
	for len(parked) < nw+1 {
		a, ok := wait()
		if !ok {
			res.problem = "hang"
			release()
			return res
		}
		note(a)
	}
	// priorities for the PCT-style policy
	prio := rng.Perm(nw + 1) // index nw = main
	change := map[int]bool{}
	for k := 0; k < 3; k++ {
		change[rng.Intn(400)] = true
	}
	pr := func(actor int) int {
		if actor < 0 {
			return prio[nw]
		}
		return prio[actor]
	}
	low := -1
	for step := 0; ; step++ {
		var en []int
		for a := range parked {
			if a == -1 {
				if mainAt >= 0 && mainAt < nw && (count[mainAt] > 0 || closed[mainAt]) {
					en = append(en, a)
				}
			} else if !gone[a] {
				en = append(en, a)
			}
		}
		if len(en) == 0 {
			res.problem = "deadlock"
			release()
			return res
		}
		sortInts(en)
		pick := en[0]
		if forced != nil {
			if step >= len(forced) {
				res.problem = fmt.Sprintf("diverged@%d (schedule exhausted)", step)
				release()
				return res
			}
			pick = forced[step]
			found := false
			for _, a := range en {
				if a == pick {
					found = true
				}
			}
			if !found {
				res.problem = fmt.Sprintf("diverged@%d (actor %d not enabled)", step, pick)
				release()
				return res
			}
		} else {
			switch policy {
			case 0: // uniform
				pick = en[rng.Intn(len(en))]
			case 1: // priorities with change points
				for _, a := range en {
					if pr(a) > pr(pick) {
						pick = a
					}
				}
				if change[step] {
					low--
					if pick < 0 {
						prio[nw] = low
					} else {
						prio[pick] = low
					}
				}
			case 2: // later workers first, main last: predecessors find full buckets
				pick = en[len(en)-1]
				if rng.Intn(8) == 0 {
					pick = en[rng.Intn(len(en))]
				}
			default: // earlier workers first, bursts
				if rng.Intn(4) != 0 {
					pick = en[0]
					if pick == -1 && len(en) > 1 && rng.Intn(2) == 0 {
						pick = en[1]
					}
				} else {
					pick = en[rng.Intn(len(en))]
				}
			}
		}
		res.order = append(res.order, pick)
		delete(parked, pick)
		s.resume[pick] <- struct{}{}
		a, ok := wait()
		if !ok {
			res.problem = "hang"
			release()
			return res
		}
		if a.actor != pick {
			res.problem = fmt.Sprintf("scheduler: resumed %d, but %d arrived", pick, a.actor)
			release()
			return res
		}
		note(a)
		if a.ev == "finished" {
			release()
			return res
		}
	}
}

func sortInts(a []int) {
	for i := 1; i < len(a); i++ {
		for j := i; j > 0 && a[j] < a[j-1]; j-- {
			a[j], a[j-1] = a[j-1], a[j]
		}
	}
}

func parCaseLine(n int, p chunkParams, data []byte, tr []parArrival) string {
	recs := make([]string, len(tr))
	for i, r := range tr {
		recs[i] = r.String()
	}
	return fmt.Sprintf("par.accept min=%d max=%d avg=%d d=%d n=%d data=%s trace=%s", p.min, p.max, p.avg,
		desync.VerifDiscriminatorFromAvg(p.avg), n, hx(data), strings.Join(recs, ","))
}

func indexPairs(idx desync.Index) string {
	var starts, sizes []uint64
	for _, c := range idx.Chunks {
		starts = append(starts, c.Start)
		sizes = append(sizes, c.Size)
	}
	return pairsStr(starts, sizes)
}

// parAnswer is the implementation's side of par.accept: what the run produced
func parAnswer(r parRun, seq string) string {
	if r.problem != "" {
		return "impl-" + r.problem
	}
	ok := 0
	if r.err == nil {
		ok = 1
	}
	got := indexPairs(r.index)
	s := "same"
	if got != seq {
		s = seq
	}
	return fmt.Sprintf("accept workers=%d finished:%d index=%s seq=%s", r.nworkers, ok, got, s)
}

var parWorkDir string

// implParAccept re-runs the schedule of a recorded trace on the real code (replay)
func implParAccept(line string) string {
	_, a := parseCase(line)
	var p chunkParams
	var n int
	fmt.Sscan(a["min"], &p.min)
	fmt.Sscan(a["avg"], &p.avg)
	fmt.Sscan(a["max"], &p.max)
	fmt.Sscan(a["n"], &n)
	data := unhx(a["data"])
	dir := parWorkDir
	if dir == "" {
		d, err := os.MkdirTemp("", "verif-par-")
		if err != nil {
			return "err tmp"
		}
		defer os.RemoveAll(d)
		dir = d
	}
	f := filepath.Join(dir, "parblob")
	if err := os.WriteFile(f, data, 0644); err != nil {
		return "err tmp"
	}
	var forced []int
	for _, rec := range strings.Split(a["trace"], ",") {
		parts := strings.Split(rec, ":")
		if len(parts) != 6 || parts[1] == "start" {
			continue
		}
		if parts[0] == "m" {
			if parts[1] == "mainAt" && parts[2] == "0" {
				continue // the start-up record of the main routine
			}
			forced = append(forced, -1)
		} else {
			var w int
			fmt.Sscan(parts[0], &w)
			forced = append(forced, w)
		}
	}
	seq := chunkSeq(strings.NewReader(string(data)), p.min, p.avg, p.max)
	r := runParScheduled(f, uint64(len(data)), n, p, rand.New(rand.NewSource(1)), 0, forced)
	return parAnswer(r, seq)
}

// runC02Par: scheduled runs of IndexFromFile, validated against the Lean machine
func runC02Par(cfg Config, rep *Report, m *Model, rng *rand.Rand) {
	parWorkDir = cfg.Work
	runs := cfg.N(350, 12000)
	for it := 0; it < runs; it++ {
		p := genParams(rng)
		if it%4 != 0 { // small chunks: more chunks, more synchronisation per byte
			p = []chunkParams{{48, 64, 128}, {48, 56, 96}, {64, 96, 128}, {48, 48, 64}, {50, 70, 200}}[rng.Intn(5)]
		}
		var data []byte
		kind := ""
		n := 2 + rng.Intn(7)
		switch it % 5 {
		case 0:
			data, kind = genData(rng, p, 6000)
		case 1: // zero file with a phase shift between workers
			size := n*(2*rng.Intn(3)+1)*int(p.max)/2 + 1 + rng.Intn(3)*rng.Intn(2)
			data = make([]byte, size)
			kind = "zero-phase"
			if rng.Intn(3) == 0 {
				rng.Read(data[:rng.Intn(int(p.max))])
				kind = "zero-phase-head"
			}
		case 2: // zero runs inside random data, lengths around multiples of max
			data = randBytes(rng, int(p.max)*(2+rng.Intn(20)))
			for k := 0; k < 1+rng.Intn(3); k++ {
				s := rng.Intn(len(data))
				l := int(p.max)*rng.Intn(7) + rng.Intn(int(p.max))
				for i := s; i < s+l && i < len(data); i++ {
					data[i] = 0
				}
			}
			kind = "zeroruns"
		case 3: // constant non-zero: only forced cuts, workers out of phase for ever
			data = make([]byte, int(p.max)*rng.Intn(12)+rng.Intn(int(p.max)))
			c := byte(1 + rng.Intn(255))
			for i := range data {
				data[i] = c
			}
			kind = "const"
		default: // short zero files
			data = make([]byte, int(p.max)*rng.Intn(8)+rng.Intn(int(p.max)))
			kind = "zero"
		}
		f := filepath.Join(cfg.Work, "parblob")
		if err := os.WriteFile(f, data, 0644); err != nil {
			fatal(err)
		}
		seq := chunkSeq(strings.NewReader(string(data)), p.min, p.avg, p.max)
		policy := rng.Intn(4)
		markCase(fmt.Sprintf("par.sched n=%d min=%d avg=%d max=%d policy=%d data=%s", n, p.min, p.avg, p.max, policy, hx(data)))
		r := runParScheduled(f, uint64(len(data)), n, p, rng, policy, nil)
		line := parCaseLine(n, p, data, r.trace)
		got := parAnswer(r, seq)
		rep.Count(line, len(r.trace) > 2*r.nworkers+4, "par:"+kind, fmt.Sprintf("par-workers:%d", r.nworkers), fmt.Sprintf("par-policy:%d", policy),
			"par-trace-len:"+bucket(len(r.trace)))
		for _, a := range r.trace {
			switch a.ev {
			case "skipped", "nullPushed", "scanned", "popClosed", "scanClosed":
				rep.Histogram["par-ev:"+a.ev]++
			}
		}
		// property monitor, independent of the model
		if r.problem != "" {
			rep.Disagree(Disagreement{Kind: "monitor", Case: clip(line, 200000), Impl: got,
				What: "IndexFromFile under a cooperative schedule: " + r.problem})
			continue
		}
		if r.err != nil {
			rep.Disagree(Disagreement{Kind: "monitor", Case: clip(line, 200000), Impl: got, What: "IndexFromFile failed under a schedule: " + r.err.Error()})
			continue
		}
		if indexPairs(r.index) != seq {
			rep.Disagree(Disagreement{Kind: "monitor", Case: clip(line, 200000), Impl: got,
				What: "parallel index differs from the sequential chunk sequence under a recorded schedule"})
			continue
		}
		for _, c := range r.index.Chunks {
			if int(c.Start+c.Size) > len(data) || desync.Digest.Sum(data[c.Start:c.Start+c.Size]) != c.ID {
				rep.Disagree(Disagreement{Kind: "monitor", Case: clip(line, 200000), Impl: got, What: "parallel index records a wrong chunk ID under a recorded schedule"})
				break
			}
		}
		// trace validation
		if m.cmd == nil {
			continue
		}
		want := m.Ask(line)
		if want == got {
			rep.Traces++
			continue
		}
		rep.Disagree(Disagreement{Kind: "correspondence", Case: clip(line, 400000), Model: clip(want, 2000), Impl: clip(got, 2000),
			What: "the event trace of IndexFromFile is not a behaviour of the parallel-chunker machine (or results differ)"})
	}
}
