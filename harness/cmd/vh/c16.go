package main

import (
	"bytes"
	"context"
	"encoding/binary"
	"encoding/hex"
	"fmt"
	"github.com/klauspost/compress/zstd"
	"io"
	"math/rand"
	"net/url"
	"os"
	"os/exec"
	"path/filepath"
	"sort"
	"strconv"
	"strings"
	"sync"
	"time"

	"github.com/folbricht/desync"
)

var c16dir string

// listStore returns "dirhex/namehex" for every regular file below root, in filepath.Walk order
func listStore(root string) []string {
	var out []string
	filepath.Walk(root, func(p string, info os.FileInfo, err error) error {
		if err != nil || info.IsDir() {
			return nil
		}
		rel, _ := filepath.Rel(root, p)
		d, n := filepath.Split(rel)
		out = append(out, hx([]byte(strings.TrimSuffix(d, "/")))+"/"+hx([]byte(n)))
		return nil
	})
	return out
}

func implPruneRun(line string) string {
	_, a := parseCase(line)
	if c16dir == "" {
		c16dir, _ = os.MkdirTemp("", "verif-c16-")
	}
	root := filepath.Join(c16dir, "prune-store")
	os.RemoveAll(root)
	os.RemoveAll(root + "-real")
	if a["link"] == "1" { // the store path is a symbolic link to the directory (a store on another volume, say)
		os.MkdirAll(root+"-real", 0755)
		os.Symlink(root+"-real", root)
	} else {
		os.MkdirAll(root, 0755)
	}
	if a["files"] != "" {
		for _, f := range strings.Split(a["files"], ";") {
			p := strings.Split(f, "/")
			d, n := string(unhx(p[0])), string(unhx(p[1]))
			os.MkdirAll(filepath.Join(root, d), 0755)
			os.WriteFile(filepath.Join(root, d, n), []byte("x"), 0644)
		}
	}
	keep := map[desync.ChunkID]struct{}{}
	if a["keep"] != "" {
		for _, k := range strings.Split(a["keep"], ",") {
			var id desync.ChunkID
			copy(id[:], unhx(k))
			keep[id] = struct{}{}
		}
	}
	var st desync.PruneStore
	var err error
	if a["backend"] == "s3" {
		// the same files as objects of a bucket in the in-process S3 service, below an optional prefix
		f := newFakeS3()
		defer f.Close()
		prefix := string(unhx(a["prefix"]))
		if a["files"] != "" {
			for _, fl := range strings.Split(a["files"], ";") {
				p := strings.Split(fl, "/")
				d, n := string(unhx(p[0])), string(unhx(p[1]))
				key := prefix + n
				if d != "" {
					key = prefix + d + "/" + n
				}
				f.put("bkt", key, []byte("x"))
			}
		}
		f.put("bkt", "unrelated-"+prefix+"object", []byte("y")) // outside the prefix (or, without prefix, just another key)
		ss, serr := f.chunkStore("bkt", prefix, desync.StoreOptions{Uncompressed: a["unc"] == "1"})
		if serr != nil {
			return "harness-error " + serr.Error()
		}
		return guard(func() string {
			err := ss.Prune(context.Background(), keep)
			var rem []string
			other := false
			for _, k := range f.keys("bkt", "") {
				if strings.HasPrefix(k, "unrelated-") {
					other = true
					continue
				}
				k = strings.TrimPrefix(k, prefix)
				d, n := "", k
				if i := strings.LastIndex(k, "/"); i >= 0 {
					d, n = k[:i], k[i+1:]
				}
				rem = append(rem, hx([]byte(d))+"/"+hx([]byte(n)))
			}
			sort.Strings(rem)
			if !other {
				return "removed-an-object-outside-the-prefix " + strings.Join(rem, ";")
			}
			if err != nil {
				return "failed " + strings.Join(rem, ";")
			}
			return "ok " + strings.Join(rem, ";")
		})
	}
	if a["backend"] == "sftp" {
		// the same directory served over SFTP by the helper child (pkg/sftp's server on stdin/stdout)
		w, werr := sftpWrapper(c16dir)
		if werr != nil {
			return "harness-error"
		}
		os.Setenv("CASYNC_SSH_PATH", w)
		u, _ := url.Parse("sftp://localhost" + root)
		nconn, _ := strconv.Atoi(a["n"])
		if nconn < 1 {
			nconn = 1
		}
		ss, serr := desync.NewSFTPStore(u, desync.StoreOptions{N: nconn, Uncompressed: a["unc"] == "1"})
		if serr != nil {
			return "harness-error " + serr.Error()
		}
		defer ss.Close()
		st = ss
	} else {
		st, err = desync.NewLocalStore(root, desync.StoreOptions{Uncompressed: a["unc"] == "1"})
		if err != nil {
			return "harness-error"
		}
	}
	return guard(func() string {
		err := st.Prune(context.Background(), keep)
		lroot := root
		if a["link"] == "1" {
			lroot = root + "-real"
		}
		rem := listStore(lroot)
		sort.Strings(rem)
		if err != nil {
			return "failed " + strings.Join(rem, ";")
		}
		return "ok " + strings.Join(rem, ";")
	})
}

// sftpTempName: 64 hex digits, the store's extension, one or more decimal digits
func sftpTempName(name, ext string) bool {
	if len(name) <= 64+len(ext) || name[64:64+len(ext)] != ext {
		return false
	}
	for _, c := range name[64+len(ext):] {
		if c < '0' || c > '9' {
			return false
		}
	}
	_, err := hex.DecodeString(name[:64])
	return err == nil
}

func ownExtOf(unc bool) string {
	if unc {
		return ""
	}
	return ".cacnk"
}

func implStoreName(line string) string {
	_, a := parseCase(line)
	if c16dir == "" {
		c16dir, _ = os.MkdirTemp("", "verif-c16-")
	}
	root := filepath.Join(c16dir, "name-store")
	os.RemoveAll(root)
	os.MkdirAll(root, 0755)
	unc := a["unc"] == "1"
	st, _ := desync.NewLocalStore(root, desync.StoreOptions{Uncompressed: unc, SkipVerify: true})
	var id desync.ChunkID
	copy(id[:], unhx(a["id"]))
	// store a chunk under this ID (verification of the ID is skipped: only the naming is of interest)
	c, _ := desync.NewChunkWithID(id, []byte("payload"), true)
	if err := st.StoreChunk(c); err != nil {
		return "err"
	}
	l := listStore(root)
	if len(l) != 1 {
		return fmt.Sprintf("files:%d", len(l))
	}
	return l[0]
}

func runC16(cfg Config) {
	rep := NewReport("C16", cfg.Tier, cfg.Seed,
		"generated local store directories: referenced / unreferenced chunks of both formats, temp files, junk files, chunk-like names in "+
			"wrong directories, upper-case hex names, too short/long names x keep-sets (empty, all, subsets, IDs absent from the store) x "+
			"{compressed, uncompressed} mode: Prune result (ok/failed) and remaining files vs the model; Verify with repair on stores with "+
			"corrupted chunks of both formats; monitors: referenced chunks, other-format files and non-chunk files survive, on success no "+
			"unreferenced own-format chunk and no temp file is left. non-trivial = distinct store with >= 3 files")
	m, err := StartModel(cfg.Driver)
	if err != nil {
		fatal(err)
	}
	defer m.Close()
	c16dir = cfg.Work
	rng := rand.New(rand.NewSource(cfg.Seed))
	monitor := func(what, caseLine, impl string) {
		rep.Disagree(Disagreement{Kind: "monitor", Case: clip(caseLine, 100000), Impl: clip(impl, 1000), What: what})
	}
	n := cfg.N(600, 15000)
	for it := 0; it < n; it++ {
		unc := rng.Intn(2) == 1
		type ent struct {
			dir, name string
			kind      string // own other tmp junk misplaced upper
			id        desync.ChunkID
			keep      bool
		}
		var ents []ent
		nf := rng.Intn(10)
		for i := 0; i < nf; i++ {
			var id desync.ChunkID
			rng.Read(id[:])
			sid := hx(id[:])
			ownExt, otherExt := ".cacnk", ""
			if unc {
				ownExt, otherExt = "", ".cacnk"
			}
			e := ent{id: id, keep: rng.Intn(2) == 0}
			switch rng.Intn(9) {
			case 0, 1, 2:
				e.dir, e.name, e.kind = sid[:4], sid+ownExt, "own"
			case 3:
				e.dir, e.name, e.kind = sid[:4], sid+otherExt, "other"
			case 4:
				if rng.Intn(2) == 0 {
					e.dir, e.name, e.kind = sid[:4], ".tmp-cacnk"+fmt.Sprint(rng.Intn(100000)), "tmp"
				} else { // what an interrupted SFTP upload leaves: the chunk file name followed by a number
					e.dir, e.name, e.kind = sid[:4], sid+[]string{ownExt, otherExt}[rng.Intn(2)]+fmt.Sprint(1+rng.Intn(1<<30)), "stmp"
				}
			case 5:
				e.dir, e.name, e.kind = []string{sid[:4], "junk", "."}[rng.Intn(3)], []string{"README", "x.cacnk", sid[:60] + ownExt, sid + "00" + ownExt, "lost+found.txt"}[rng.Intn(5)], "junk"
			case 6:
				e.dir, e.name, e.kind = "zzzz", sid+ownExt, "misplaced"
			case 7:
				e.dir, e.name, e.kind = strings.ToUpper(sid[:4]), strings.ToUpper(sid)+ownExt, "upper"
			default:
				e.dir, e.name, e.kind = sid[:4], sid+ownExt, "own"
				e.keep = true
			}
			if e.dir == "." {
				e.dir = ""
			}
			ents = append(ents, e)
		}
		// materialise to learn the walk order
		root := filepath.Join(cfg.Work, "gen-store")
		os.RemoveAll(root)
		os.MkdirAll(root, 0755)
		for _, e := range ents {
			os.MkdirAll(filepath.Join(root, e.dir), 0755)
			os.WriteFile(filepath.Join(root, e.dir, e.name), []byte("x"), 0644)
		}
		files := listStore(root)
		var keep []string
		for _, e := range ents {
			if e.keep {
				keep = append(keep, hx(e.id[:]))
			}
		}
		for k := 0; k < rng.Intn(3); k++ { // IDs absent from the store
			keep = append(keep, hx(randBytes(rng, 32)))
		}
		line := fmt.Sprintf("prune.run unc=%d keep=%s files=%s", b2i(unc), strings.Join(keep, ","), strings.Join(files, ";"))
		backend := "local"
		if it%3 == 0 { // the same directory pruned through the SFTP store (1 or 2 pooled connections)
			backend = "sftp"
			line += fmt.Sprintf(" backend=sftp n=%d", 1+rng.Intn(2))
		}
		if it%3 == 2 && it%2 == 0 { // the local store reached through a symbolic link
			line += " link=1"
		}
		if it%3 == 1 { // the same files as objects of an S3 bucket
			backend = "s3"
			line += " backend=s3 prefix=" + hx([]byte([]string{"", "pfx/", "a/b/"}[rng.Intn(3)]))
		}
		got := timed(implPruneRun, line)
		if backend == "local" || backend == "s3" {
			rep.Compare(m, line, implPruneRun, nil)
		} else if m.cmd != nil {
			// the SFTP walk visits a directory in the server's (unsorted) order: when a removal fails, what
			// was already removed depends on that order, so only the verdict is compared then
			want := m.Ask(line)
			if want != got && !(strings.HasPrefix(want, "failed") && strings.HasPrefix(got, "failed")) {
				rep.Disagree(Disagreement{Kind: "correspondence", Case: clip(line, 100000), Model: clip(want, 1000), Impl: clip(got, 1000),
					What: "model and implementation differ (SFTP prune)"})
			}
		}
		rep.Count(line, len(files) >= 3, "prune:"+backend, "result:"+strings.SplitN(got, " ", 2)[0])
		if strings.HasPrefix(got, "hang") {
			monitor("Prune did not return ("+backend+")", line, got)
			continue
		}
		// monitors
		remaining := map[string]bool{}
		f := strings.SplitN(got, " ", 2)
		if len(f) > 1 && f[1] != "" {
			for _, r := range strings.Split(f[1], ";") {
				remaining[r] = true
			}
		}
		for _, e := range ents {
			key := hx([]byte(e.dir)) + "/" + hx([]byte(e.name))
			if backend == "sftp" && e.kind != "own" && e.kind != "other" {
				// by name alone: the temporary file of an interrupted upload to this store (the chunk file name
				// followed by a number), or something that is none of this store's business
				if sftpTempName(e.name, ownExtOf(unc)) {
					if remaining[key] && f[0] == "ok" {
						monitor("SFTP prune reported success but left the temporary file of an interrupted upload", line, got)
					}
				} else if !remaining[key] {
					monitor("SFTP prune deleted a file that is neither a chunk nor a temporary file of this store ("+e.kind+")", line, got)
				}
				continue
			}
			switch e.kind {
			case "own":
				if e.keep && !remaining[key] {
					monitor("prune deleted a referenced chunk", line, got)
				}
				if !e.keep && remaining[key] && f[0] == "ok" {
					monitor("prune reported success but left an unreferenced chunk of its own format", line, got)
				}
			case "other":
				if !remaining[key] {
					monitor("prune deleted a chunk of the other compression format", line, got)
				}
			case "junk", "misplaced", "upper":
				if !remaining[key] {
					monitor("prune deleted a file that is not a chunk of this store ("+e.kind+")", line, got)
				}
			case "tmp":
				if backend == "s3" {
					if !remaining[key] {
						monitor("S3 prune deleted an object that is not a chunk of this store (tmp)", line, got)
					}
					break
				}
				if backend == "local" && remaining[key] && f[0] == "ok" {
					monitor("prune reported success but left a temporary chunk file", line, got)
				}
				if backend == "sftp" && !remaining[key] {
					monitor("SFTP prune deleted a file that is not a chunk or temporary file of an SFTP store", line, got)
				}
			case "stmp":
				own := strings.HasPrefix(e.name, hx(e.id[:])+ownExtOf(unc)) && (ownExtOf(unc) != "" || !strings.Contains(e.name, "."))
				if backend == "sftp" && own && remaining[key] && f[0] == "ok" {
					monitor("SFTP prune reported success but left the temporary file of an interrupted upload", line, got)
				}
				if (backend == "local" || !own) && !remaining[key] {
					monitor("prune deleted a file that is not a chunk or temporary file of this store", line, got)
				}
			}
		}
	}

	// naming
	for it := 0; it < cfg.N(200, 5000); it++ {
		id := randBytes(rng, 32)
		line := fmt.Sprintf("store.name unc=%d id=%s", rng.Intn(2), hx(id))
		rep.Compare(m, line, implStoreName, nil)
		rep.Count(line, true, "name")
	}

	// Verify / repair
	for it := 0; it < cfg.N(60, 1500); it++ {
		unc := rng.Intn(2) == 1
		root := filepath.Join(cfg.Work, "verify-store")
		os.RemoveAll(root)
		os.MkdirAll(root, 0755)
		st, _ := desync.NewLocalStore(root, desync.StoreOptions{Uncompressed: unc})
		other, _ := desync.NewLocalStore(root, desync.StoreOptions{Uncompressed: !unc})
		type ch struct {
			id        desync.ChunkID
			bad, mine bool
		}
		var chunks []ch
		for i := 0; i < 1+rng.Intn(8); i++ {
			data := randBytes(rng, 1+rng.Intn(200))
			c := desync.NewChunk(data)
			mine := rng.Intn(3) > 0
			target := st
			if !mine {
				target = other
			}
			target.StoreChunk(c)
			bad := rng.Intn(3) == 0
			if bad {
				sid := hx(func() []byte { id := c.ID(); return id[:] }())
				ext := ".cacnk"
				if (mine && unc) || (!mine && !unc) {
					ext = ""
				}
				p := filepath.Join(root, sid[:4], sid+ext)
				os.WriteFile(p, []byte("corrupted"), 0644)
			}
			chunks = append(chunks, ch{c.ID(), bad, mine})
		}
		os.WriteFile(filepath.Join(root, "junk.txt"), []byte("junk"), 0644)
		var out lockedBuffer
		err := st.Verify(context.Background(), 1+rng.Intn(4), true, &out)
		caseLine := fmt.Sprintf("verify.repair unc=%d chunks=%d", b2i(unc), len(chunks))
		rep.Count(caseLine+fmt.Sprint(it), len(chunks) >= 2, "verify")
		if err != nil {
			monitor("Verify failed: "+err.Error(), caseLine, "")
			continue
		}
		for _, c := range chunks {
			hasMine, _ := st.HasChunk(c.id)
			hasOther, _ := other.HasChunk(c.id)
			reported := strings.Contains(out.String(), hx(c.id[:]))
			switch {
			case c.mine && c.bad:
				if hasMine {
					monitor("verify --repair left an invalid chunk in place", caseLine, out.String())
				}
				if !reported {
					monitor("verify did not report an invalid chunk", caseLine, out.String())
				}
			case c.mine && !c.bad:
				if !hasMine || reported {
					monitor("verify reported or removed a valid chunk", caseLine, out.String())
				}
			default: // other format: must be left alone, valid or not
				if !hasOther || reported {
					monitor("verify touched a chunk of the other format", caseLine, out.String())
				}
			}
		}
		if _, err := os.Stat(filepath.Join(root, "junk.txt")); err != nil {
			monitor("verify removed a non-chunk file", caseLine, "")
		}
	}
	// the prune command with one or more index files: what is kept is the union of what they reference
	if self, err := os.Executable(); err == nil {
		bin := filepath.Join(filepath.Dir(self), "desync")
		if _, err := os.Stat(bin); err != nil {
			rep.Notes = append(rep.Notes, "desync binary not built: `desync prune` runs skipped")
		} else {
			for it := 0; it < cfg.N(6, 60); it++ {
				dir := filepath.Join(cfg.Work, "clistore")
				os.RemoveAll(dir)
				os.MkdirAll(dir, 0755)
				ls, _ := desync.NewLocalStore(dir, desync.StoreOptions{})
				var all []desync.IndexChunk
				for k := 0; k < 6+rng.Intn(10); k++ {
					d := randBytes(rng, 20+rng.Intn(200))
					c := desync.NewChunk(d)
					ls.StoreChunk(c)
					all = append(all, desync.IndexChunk{ID: c.ID(), Size: uint64(len(d))})
				}
				nidx := 1 + rng.Intn(3)
				keep := map[desync.ChunkID]bool{}
				var args []string
				args = append(args, "prune", "-s", dir, "--yes")
				for q := 0; q < nidx; q++ {
					var cs []desync.IndexChunk
					var start uint64
					for _, c := range all {
						if rng.Intn(3) == 0 {
							c.Start = start
							start += c.Size
							cs = append(cs, c)
							keep[c.ID] = true
						}
					}
					ip := filepath.Join(cfg.Work, fmt.Sprintf("prune%d.caibx", q))
					f, _ := os.Create(ip)
					(&desync.Index{Index: desync.FormatIndex{FeatureFlags: desync.CaFormatExcludeNoDump | desync.CaFormatSHA512256, ChunkSizeMin: 16, ChunkSizeAvg: 64, ChunkSizeMax: 256}, Chunks: cs}).WriteTo(f)
					f.Close()
					args = append(args, ip)
				}
				cmd := exec.Command(bin, args...)
				cmd.Env = append(os.Environ(), "HOME="+cfg.Work)
				out, err := cmd.CombinedOutput()
				caseLine := fmt.Sprintf("cli.prune indexes=%d chunks=%d referenced=%d it=%d seed=%d", nidx, len(all), len(keep), it, cfg.Seed)
				rep.Count(caseLine, nidx > 1, "cli-prune", fmt.Sprintf("indexes:%d", nidx))
				if err != nil {
					monitor("desync prune failed: "+clip(string(out), 300), caseLine, "")
					continue
				}
				for _, c := range all {
					has, _ := ls.HasChunk(c.ID)
					if keep[c.ID] && !has {
						monitor("desync prune deleted a chunk that one of the given indexes references", caseLine, "")
						break
					}
					if !keep[c.ID] && has {
						monitor("desync prune reported success but left an unreferenced chunk", caseLine, "")
						break
					}
				}
			}
		}
	}
	// Verify against the model (Model/LocalVerify.lean): stores with real chunk files — valid, damaged (a flipped byte, cut,
	// emptied, another chunk's content), of both formats, misplaced copies, upper-case names, junk — verified with and
	// without repair by 1..8 workers: the report lines and the files left afterwards must be the model's
	for it := 0; it < cfg.N(120, 3000); it++ {
		unc := rng.Intn(2) == 1
		repair := rng.Intn(3) != 0
		root := filepath.Join(cfg.Work, "verify-store")
		os.RemoveAll(root)
		os.MkdirAll(root, 0755)
		own, _ := desync.NewLocalStore(root, desync.StoreOptions{Uncompressed: unc})
		other, _ := desync.NewLocalStore(root, desync.StoreOptions{Uncompressed: !unc})
		ownExt, otherExt := ".cacnk", ""
		if unc {
			ownExt, otherExt = "", ".cacnk"
		}
		valid := map[string]bool{} // relative path -> the content is what GetChunk accepts for the ID the name spells
		nf := rng.Intn(9)
		for k := 0; k < nf; k++ {
			data := randBytes(rng, 20+rng.Intn(300))
			c := desync.NewChunk(data)
			id := c.ID()
			sid := id.String()
			canon := filepath.Join(sid[:4], sid+ownExt)
			damage := func(rel string) {
				p := filepath.Join(root, rel)
				b, _ := os.ReadFile(p)
				switch rng.Intn(4) {
				case 0:
					b[rng.Intn(len(b))] ^= 1 << uint(rng.Intn(8))
				case 1:
					b = b[:rng.Intn(len(b))]
				case 2:
					b = nil
				default:
					o := desync.NewChunk(randBytes(rng, 50))
					tmp := filepath.Join(cfg.Work, "verify-tmp")
					os.RemoveAll(tmp)
					os.MkdirAll(tmp, 0755)
					ts, _ := desync.NewLocalStore(tmp, desync.StoreOptions{Uncompressed: unc})
					ts.StoreChunk(o)
					oid := o.ID()
					b, _ = os.ReadFile(filepath.Join(tmp, oid.String()[:4], oid.String()+ownExt))
				}
				os.WriteFile(p, b, 0644)
				// not every change of a stored object is damage: a flipped bit in a zstd frame header (window descriptor,
				// unused bits) leaves the decoded bytes as they were.  Whether the object is still valid is decided by what
				// it decodes to (zstd is a parameter of the model: dec = Decompress(raw)), not by the fact that it was touched.
				d := b
				if !unc {
					var derr error
					if d, derr = desync.Decompress(nil, b); derr != nil {
						d = nil
					}
				}
				valid[rel] = len(d) > 0 && desync.Digest.Sum(d) == id
			}
			switch rng.Intn(8) {
			case 0, 1, 2:
				own.StoreChunk(c)
				valid[canon] = true
			case 3, 4:
				own.StoreChunk(c)
				damage(canon)
			case 5: // the other format, valid or damaged: none of this store's business
				other.StoreChunk(c)
				if rng.Intn(2) == 0 {
					p := filepath.Join(root, sid[:4], sid+otherExt)
					os.WriteFile(p, []byte("damaged"), 0644)
				}
			case 6: // a copy of a chunk file in a wrong directory, with or without the canonical one
				own.StoreChunk(c)
				b, _ := os.ReadFile(filepath.Join(root, canon))
				os.MkdirAll(filepath.Join(root, "zzzz"), 0755)
				os.WriteFile(filepath.Join(root, "zzzz", sid+ownExt), b, 0644)
				valid[canon] = true
				switch rng.Intn(3) {
				case 0:
					os.Remove(filepath.Join(root, canon))
					delete(valid, canon)
				case 1:
					damage(canon)
				}
			default:
				os.MkdirAll(filepath.Join(root, sid[:4]), 0755)
				os.WriteFile(filepath.Join(root, sid[:4], []string{"README", ".tmp-cacnk123", sid[:60] + ownExt, strings.ToUpper(sid) + ownExt}[rng.Intn(4)]), []byte("junk"), 0644)
			}
		}
		var files []string
		for _, f := range listStore(root) {
			pp := strings.Split(f, "/")
			rel := filepath.Join(string(unhx(pp[0])), string(unhx(pp[1])))
			v := "0"
			if valid[rel] {
				v = "1"
			}
			files = append(files, f+"/"+v)
		}
		line := fmt.Sprintf("verify.run unc=%d repair=%d files=%s", b2i(unc), b2i(repair), strings.Join(files, ";"))
		workers := 1 + rng.Intn(8)
		var vout bytes.Buffer
		var lw lockedWriter
		lw.w = &vout
		done := make(chan error, 1)
		go func() { done <- own.Verify(context.Background(), workers, repair, &lw) }()
		var verr error
		select {
		case verr = <-done:
		case <-time.After(30 * time.Second):
			monitor("Verify did not return", line, "")
			continue
		}
		var ls []string
		for _, l := range strings.Split(strings.TrimSpace(vout.String()), "\n") {
			switch {
			case l == "":
			case strings.Contains(l, "does not match its hash"):
				f := strings.Fields(l)
				r := ""
				if strings.HasSuffix(l, ": removed") {
					r = ":removed"
				}
				ls = append(ls, "i:"+f[2]+r)
			default:
				// "chunk <id> missing from store" and the like
				id := ""
				for _, w := range strings.Fields(l) {
					if len(w) == 64 {
						id = w
					}
				}
				ls = append(ls, "e:"+id)
			}
		}
		sort.Strings(ls)
		left := listStore(root)
		sort.Strings(left)
		got := "files=" + strings.Join(left, ";") + " lines=" + strings.Join(ls, ",")
		if verr != nil {
			got = "error " + verr.Error()
		}
		rep.Count(line, len(files) >= 3, "verify.run", fmt.Sprintf("verify-repair:%v", repair), fmt.Sprintf("verify-lines:%s", bucket(len(ls))))
		if m.cmd != nil {
			// an ID that is met twice (its canonical file and a copy in a wrong directory) is looked at twice; once one
			// look has removed the damaged canonical file, what the other look reports depends on which worker came
			// first ("missing", or "invalid" with a failed removal): those second lines are not compared
			canon := func(res string) string {
				parts := strings.SplitN(res, " lines=", 2)
				if len(parts) != 2 || parts[1] == "" {
					return res
				}
				removed := map[string]bool{}
				for _, l := range strings.Split(parts[1], ",") {
					if f := strings.Split(l, ":"); len(f) == 3 && f[2] == "removed" {
						removed[f[1]] = true
					}
				}
				var keep []string
				for _, l := range strings.Split(parts[1], ",") {
					f := strings.Split(l, ":")
					if len(f) >= 2 && removed[f[1]] && !(len(f) == 3 && f[2] == "removed") {
						continue
					}
					keep = append(keep, l)
				}
				return parts[0] + " lines=" + strings.Join(keep, ",")
			}
			if want := m.Ask(line); canon(want) != canon(got) {
				rep.Disagree(Disagreement{Kind: "correspondence", Case: clip(line, 100000), Model: clip(want, 1500), Impl: clip(got, 1500),
					What: "model and implementation differ (verify: report lines or files left)"})
			}
		}
	}
	c16LargeChunks(cfg, rep, rng)
	c16WindowChunks(cfg, rep, rng)
	runGCSPrune(cfg, rep, m, rng)
	storeOptsStores(cfg, rep, m, rng) // which configuration entry (format) a store is opened with, symlinked locations included
	c16VerifyCLI(cfg, rep, rng) // the `desync verify` command on badly damaged stores (c16verifycli.go)
	rep.Write(cfg.Out)
}

// c16LargeChunks: chunk sizes have no upper limit (`make -m 16384:32768:65536` gives chunks of tens of MiB): verify
// must not report, and with repair not remove, a valid chunk because it is large; a small damaged chunk next to it is
// still found.  Both storage formats.
func c16LargeChunks(cfg Config, rep *Report, rng *rand.Rand) {
	setDigest("sha512")
	sizes := []int{17 << 20, 70 << 20}
	if cfg.Tier == "thorough" {
		sizes = append(sizes, 9<<20, 33<<20, 300<<20)
	}
	for i, size := range sizes {
		unc := i%2 == 1
		dir := filepath.Join(cfg.Work, fmt.Sprintf("big16-%d", i))
		os.RemoveAll(dir)
		os.MkdirAll(dir, 0755)
		st, err := desync.NewLocalStore(dir, desync.StoreOptions{Uncompressed: unc})
		if err != nil {
			continue
		}
		// half pattern, half random: compresses, but not to nothing
		data := make([]byte, size)
		rng.Read(data[:size/4])
		for k := size / 4; k < size; k++ {
			data[k] = byte(k % 251)
		}
		big := desync.NewChunk(data)
		small := desync.NewChunk(randBytes(rng, 500))
		caseLine := fmt.Sprintf("verify.large size=%d uncompressed=%v", size, unc)
		rep.Count(caseLine, true, "verify-large")
		if err := st.StoreChunk(big); err != nil {
			rep.Disagree(Disagreement{Kind: "monitor", Case: caseLine, What: "a large chunk cannot be stored: " + err.Error()})
			continue
		}
		st.StoreChunk(small)
		// damage the small one
		smallID, bigID := small.ID(), big.ID()
		sid := smallID.String()
		ext := ".cacnk"
		if unc {
			ext = ""
		}
		os.WriteFile(filepath.Join(dir, sid[:4], sid+ext), []byte("garbage, not a chunk"), 0644)
		var out bytes.Buffer
		verr := st.Verify(context.Background(), 2, true, &out)
		if verr != nil {
			rep.Disagree(Disagreement{Kind: "monitor", Case: caseLine, What: "verify failed on a store with a large chunk: " + verr.Error()})
		}
		if strings.Contains(out.String(), bigID.String()) {
			rep.Disagree(Disagreement{Kind: "monitor", Case: caseLine, What: "verify reports a valid chunk as invalid because it is large: " + clip(out.String(), 200)})
		}
		if ok, _ := st.HasChunk(big.ID()); !ok {
			rep.Disagree(Disagreement{Kind: "monitor", Case: caseLine, What: "verify with repair removed a valid large chunk"})
		} else if c, err := st.GetChunk(big.ID()); err != nil {
			rep.Disagree(Disagreement{Kind: "monitor", Case: caseLine, What: "a valid large chunk cannot be read back from the store it was written to: " + err.Error()})
		} else if b, _ := c.Data(); !bytes.Equal(b, data) {
			rep.Disagree(Disagreement{Kind: "monitor", Case: caseLine, What: "a large chunk read back differs from what was stored"})
		}
		if !strings.Contains(out.String(), sid) {
			rep.Disagree(Disagreement{Kind: "monitor", Case: caseLine, What: "verify did not report the damaged chunk next to a large one"})
		}
		if ok, _ := st.HasChunk(small.ID()); ok {
			rep.Disagree(Disagreement{Kind: "monitor", Case: caseLine, What: "verify with repair left the damaged chunk in place"})
		}
		os.RemoveAll(dir)
	}
}

// ---------------------------------------------------------------------------------------
// C20: layout and coexistence; zstd interop

func runC20(cfg Config) {
	rep := NewReport("C20", cfg.Tier, cfg.Seed,
		"chunk contents (incompressible, all-zero, 1 byte, up to 64 KiB) stored into compressed and uncompressed local stores sharing one "+
			"directory: on-disk name vs the model (store.name), file content = exactly one standard zstd frame decoding to the chunk / the raw "+
			"bytes; each store sees only its own format (Get/Has/Verify/Prune with files of both formats present); classification of names vs "+
			"the model (prune.classify); frames decoded by an independent zstd frame walker. libzstd interop: only in the thorough tier "+
			"(cgo build against the system libzstd), labelled support. non-trivial = distinct chunk of >= 2 bytes")
	m, err := StartModel(cfg.Driver)
	if err != nil {
		fatal(err)
	}
	defer m.Close()
	c16dir = cfg.Work
	rng := rand.New(rand.NewSource(cfg.Seed))
	monitor := func(what, caseLine, impl string) {
		rep.Disagree(Disagreement{Kind: "monitor", Case: clip(caseLine, 100000), Impl: clip(impl, 1000), What: what})
	}
	root := filepath.Join(cfg.Work, "shared-store")
	os.RemoveAll(root)
	os.MkdirAll(root, 0755)
	cs, _ := desync.NewLocalStore(root, desync.StoreOptions{})
	us, _ := desync.NewLocalStore(root, desync.StoreOptions{Uncompressed: true})
	storedC, storedU := map[desync.ChunkID]bool{}, map[desync.ChunkID]bool{}
	for it := 0; it < cfg.N(300, 8000); it++ {
		var data []byte
		switch rng.Intn(5) {
		case 0:
			data = make([]byte, 1+rng.Intn(70000))
		case 1:
			data = randBytes(rng, 1)
		case 2:
			data = randBytes(rng, 1+rng.Intn(70000))
		case 3:
			data = bytes.Repeat([]byte("desync"), 1+rng.Intn(5000))
		default:
			data = randBytes(rng, 1+rng.Intn(300))
		}
		c := desync.NewChunk(data)
		id := c.ID()
		sid := hx(id[:])
		inC, inU := rng.Intn(3) > 0, rng.Intn(3) > 0
		inC, inU = inC || storedC[id], inU || storedU[id] // small chunks repeat across iterations
		storedC[id], storedU[id] = inC, inU
		if inC {
			if err := cs.StoreChunk(c); err != nil {
				monitor("StoreChunk failed: "+err.Error(), "store "+sid, "")
			}
		}
		if inU {
			us.StoreChunk(desync.NewChunk(data))
		}
		caseLine := fmt.Sprintf("coexist id=%s len=%d c=%v u=%v", sid, len(data), inC, inU)
		rep.Count(caseLine, len(data) >= 2, "coexist")
		// layout
		pc := filepath.Join(root, sid[:4], sid+".cacnk")
		pu := filepath.Join(root, sid[:4], sid)
		bc, errc := os.ReadFile(pc)
		bu, erru := os.ReadFile(pu)
		if inC != (errc == nil) || inU != (erru == nil) {
			monitor("chunk file not at casync's path <4 hex>/<64 hex>[.cacnk]", caseLine, "")
			continue
		}
		if inU && !bytes.Equal(bu, data) {
			monitor("uncompressed chunk file does not contain the raw bytes", caseLine, "")
		}
		if inC {
			if dec, frames, err := walkZstdFrames(bc); err != nil || frames != 1 {
				monitor(fmt.Sprintf("compressed chunk file is not exactly one standard zstd frame (frames=%d err=%v)", frames, err), caseLine, "")
			} else if d, err := desync.Decompress(nil, bc); err != nil || !bytes.Equal(d, data) || (dec >= 0 && dec != len(data)) {
				monitor("compressed chunk file does not decode to the chunk", caseLine, "")
			}
		}
		// each store sees only its own format
		hc, _ := cs.HasChunk(id)
		hu, _ := us.HasChunk(id)
		if hc != inC || hu != inU {
			monitor("a store configured for one format sees the other format's file", caseLine, fmt.Sprintf("hasC=%v hasU=%v", hc, hu))
		}
		if _, err := cs.GetChunk(id); (err == nil) != inC {
			monitor("compressed store GetChunk disagrees with its own files", caseLine, "")
		}
		if _, err := us.GetChunk(id); (err == nil) != inU {
			monitor("uncompressed store GetChunk disagrees with its own files", caseLine, "")
		}
		// names vs the model
		for _, unc := range []int{0, 1} {
			line := fmt.Sprintf("store.name unc=%d id=%s", unc, sid)
			rep.Compare(m, line, implStoreName, nil)
			for _, nm := range []string{sid, sid + ".cacnk", ".tmp-cacnk123", strings.ToUpper(sid) + ".cacnk", sid[:62], sid + ".zst"} {
				cl := fmt.Sprintf("prune.classify unc=%d name=%s", unc, hx([]byte(nm)))
				rep.Compare(m, cl, implPruneClassify, nil)
				rep.Count(cl, true, "classify")
			}
		}
	}
	// one chunk object travelling through stores of both formats, in both orders (what `cache`, `chop` and a
	// chunk server with a cache do with the chunk they hold)
	for it := 0; it < cfg.N(150, 3000); it++ {
		data := randBytes(rng, 1+rng.Intn(3000))
		if rng.Intn(3) == 0 {
			data = bytes.Repeat([]byte{byte(rng.Intn(256))}, 1+rng.Intn(20000)) // compresses well: the two forms differ a lot
		}
		d2 := filepath.Join(cfg.Work, "both-formats")
		os.RemoveAll(d2)
		os.MkdirAll(d2, 0755)
		c2, _ := desync.NewLocalStore(d2, desync.StoreOptions{})
		u2, _ := desync.NewLocalStore(d2, desync.StoreOptions{Uncompressed: true})
		var ch *desync.Chunk
		origin := rng.Intn(3)
		switch origin {
		case 0:
			ch = desync.NewChunk(data)
		case 1:
			ch, _ = desync.NewChunkWithID(desync.Digest.Sum(data), data, false)
		default: // read back from a store of one format
			src := []desync.LocalStore{c2, u2}[rng.Intn(2)]
			src.StoreChunk(desync.NewChunk(data))
			ch, _ = src.GetChunk(desync.Digest.Sum(data))
		}
		if ch == nil {
			continue
		}
		order := []desync.LocalStore{c2, u2}
		uncFirst := rng.Intn(2) == 0
		if uncFirst {
			order = []desync.LocalStore{u2, c2}
		}
		times := 1 + rng.Intn(2)
		for t := 0; t < times; t++ {
			for _, st := range order {
				if err := st.StoreChunk(ch); err != nil {
					monitor("StoreChunk failed for a chunk travelling between formats: "+err.Error(), "travel", "")
				}
			}
		}
		id := ch.ID()
		sid := hx(id[:])
		caseLine := fmt.Sprintf("travel origin=%d firstUncompressed=%v len=%d data=%s", origin, uncFirst, len(data), hx(data))
		rep.Count(caseLine, len(data) >= 2, "travel")
		bu, _ := os.ReadFile(filepath.Join(d2, sid[:4], sid))
		bc, _ := os.ReadFile(filepath.Join(d2, sid[:4], sid+".cacnk"))
		if !bytes.Equal(bu, data) {
			monitor(fmt.Sprintf("after one chunk object was stored into both formats, the uncompressed file holds %d bytes that are not the chunk's plain data (%d bytes)", len(bu), len(data)), caseLine, "")
		}
		if dd, err := desync.Decompress(nil, bc); err != nil || !bytes.Equal(dd, data) {
			monitor("after one chunk object was stored into both formats, the .cacnk file does not decode to the chunk", caseLine, "")
		}
		for _, st := range []desync.LocalStore{c2, u2} {
			g, err := st.GetChunk(id)
			if err != nil {
				monitor("a store cannot read back its own format after a chunk object travelled through both formats: "+err.Error(), caseLine, "")
			} else if gd, err := g.Data(); err != nil || !bytes.Equal(gd, data) {
				monitor("a store delivers different data after a chunk object travelled through both formats", caseLine, "")
			}
		}
	}
	// concurrent writers of the same IDs in both formats into one directory
	for it := 0; it < cfg.N(40, 600); it++ {
		d3 := filepath.Join(cfg.Work, "mixed-writers")
		os.RemoveAll(d3)
		os.MkdirAll(d3, 0755)
		c3, _ := desync.NewLocalStore(d3, desync.StoreOptions{})
		u3, _ := desync.NewLocalStore(d3, desync.StoreOptions{Uncompressed: true})
		var datas [][]byte
		for k := 0; k < 3; k++ {
			datas = append(datas, bytes.Repeat([]byte{byte(k + 1)}, 20000+rng.Intn(40000)))
		}
		var wg sync.WaitGroup
		var failed sync.Map
		for w := 0; w < 8; w++ {
			wg.Add(1)
			st := []desync.LocalStore{c3, u3}[w%2]
			go func() {
				defer wg.Done()
				for r := 0; r < 6; r++ {
					for _, d := range datas {
						if err := st.StoreChunk(desync.NewChunk(d)); err != nil {
							failed.Store(err.Error(), true)
						}
					}
				}
			}()
		}
		wg.Wait()
		caseLine := fmt.Sprintf("mixed-writers it=%d", it)
		rep.Count(caseLine, true, "mixed-writers")
		failed.Range(func(k, v interface{}) bool {
			monitor("StoreChunk failed while writers of both formats stored the same chunk: "+k.(string), caseLine, "")
			return true
		})
		for _, d := range datas {
			id := desync.Digest.Sum(d)
			sid := hx(id[:])
			bu, _ := os.ReadFile(filepath.Join(d3, sid[:4], sid))
			bc, _ := os.ReadFile(filepath.Join(d3, sid[:4], sid+".cacnk"))
			if !bytes.Equal(bu, d) {
				monitor("concurrent writers of both formats: the uncompressed file does not hold the raw bytes", caseLine, "")
			}
			if dd, err := desync.Decompress(nil, bc); err != nil || !bytes.Equal(dd, d) {
				monitor("concurrent writers of both formats: the .cacnk file does not decode to the chunk", caseLine, "")
			}
		}
		if hangs > 0 || rep.Histogram["DISAGREE:monitor"] > 5 {
			break
		}
	}
	// prune one format with nothing referenced: the other format must survive completely
	before := listStore(root)
	if err := cs.Prune(context.Background(), map[desync.ChunkID]struct{}{}); err != nil {
		monitor("Prune of the compressed store failed: "+err.Error(), "prune shared", "")
	}
	after := listStore(root)
	for _, f := range before {
		name := string(unhx(strings.Split(f, "/")[1]))
		gone := true
		for _, g := range after {
			if g == f {
				gone = false
			}
		}
		if strings.HasSuffix(name, ".cacnk") != gone {
			monitor("pruning the compressed store with an empty keep-set: "+name+" gone="+fmt.Sprint(gone), "prune shared", "")
		}
	}
	// chunks that travel from a store of one format to a store of the other (cache, chop into another
	// store, copy): what the target keeps must be in the target's own format whatever the chunk
	// object carried (plain data, storage bytes of the other format, verified or not)
	for it := 0; it < cfg.N(120, 3000); it++ {
		data := randBytes(rng, 1+rng.Intn(400))
		if rng.Intn(3) == 0 {
			data = bytes.Repeat([]byte{byte(rng.Intn(256))}, 17+rng.Intn(20000))
		}
		srcUnc, dstUnc, skip := rng.Intn(2) == 0, rng.Intn(2) == 0, rng.Intn(2) == 0
		sdir, ddir := filepath.Join(cfg.Work, "xsrc"), filepath.Join(cfg.Work, "xdst")
		os.RemoveAll(sdir)
		os.RemoveAll(ddir)
		os.MkdirAll(sdir, 0755)
		os.MkdirAll(ddir, 0755)
		src, _ := desync.NewLocalStore(sdir, desync.StoreOptions{Uncompressed: srcUnc, SkipVerify: skip})
		dst, _ := desync.NewLocalStore(ddir, desync.StoreOptions{Uncompressed: dstUnc})
		orig := desync.NewChunk(data)
		id := orig.ID()
		src.StoreChunk(orig)
		// every fourth source object is damaged before it is read (cut short, a flipped bit, other bytes, emptied).  A source
		// that verifies must refuse it (C03).  A source that does not verify hands out a chunk object carrying those bytes;
		// whatever the target then does with it, what it leaves under the chunk's name must be in its own format: one
		// complete zstd frame in a compressed store (the decoder of either library must accept the file), or nothing
		if it%4 == 3 {
			sidS := hx(id[:])
			extS := ".cacnk"
			if srcUnc {
				extS = ""
			}
			sp := filepath.Join(sdir, sidS[:4], sidS+extS)
			sb, _ := os.ReadFile(sp)
			kind := rng.Intn(4)
			switch kind {
			case 0:
				sb = sb[:rng.Intn(len(sb))]
			case 1:
				sb[rng.Intn(len(sb))] ^= 1 << uint(rng.Intn(8))
			case 2:
				sb = randBytes(rng, 1+rng.Intn(60))
			default:
				sb = nil
			}
			os.WriteFile(sp, sb, 0644)
			caseLine := fmt.Sprintf("cross-format-damaged src-uncompressed=%v dst-uncompressed=%v src-skipverify=%v damage=%d data=%s stored=%s", srcUnc, dstUnc, skip, kind, clip(hx(data), 200), clip(hx(sb), 400))
			rep.Count(caseLine, true, "cross-format-damaged", fmt.Sprintf("damaged/src-unc:%v/dst-unc:%v/skip:%v", srcUnc, dstUnc, skip))
			c, err := src.GetChunk(id)
			if err != nil {
				continue
			}
			serr := dst.StoreChunk(c)
			sidD := hx(id[:])
			extD := ".cacnk"
			if dstUnc {
				extD = ""
			}
			raw, rerr := os.ReadFile(filepath.Join(ddir, sidD[:4], sidD+extD))
			if serr != nil {
				if rerr == nil {
					monitor("StoreChunk failed ("+serr.Error()+") but left a file under the chunk's name", caseLine, "")
				}
				continue
			}
			if rerr != nil {
				monitor("StoreChunk reported success but the file its format prescribes is not there: "+rerr.Error(), caseLine, "")
				continue
			}
			if !dstUnc {
				if _, derr := desync.Decompress(nil, raw); derr != nil {
					monitor(fmt.Sprintf("StoreChunk reported success but the %d bytes it left in a compressed store are not a complete zstd frame: %v", len(raw), derr), caseLine, "")
				} else if _, _, werr := walkZstdFrames(raw); werr != nil {
					monitor(fmt.Sprintf("StoreChunk reported success but the %d bytes it left in a compressed store are not one standard zstd frame: %v", len(raw), werr), caseLine, "")
				}
			}
			continue
		}
		c, err := src.GetChunk(id)
		caseLine := fmt.Sprintf("cross-format src-uncompressed=%v dst-uncompressed=%v src-skipverify=%v data=%s", srcUnc, dstUnc, skip, clip(hx(data), 200))
		rep.Count(caseLine, srcUnc != dstUnc, "cross-format", fmt.Sprintf("src-unc:%v/dst-unc:%v/skip:%v", srcUnc, dstUnc, skip))
		if err != nil {
			monitor("reading back a chunk just stored failed: "+err.Error(), caseLine, "")
			continue
		}
		if err := dst.StoreChunk(c); err != nil {
			monitor("storing a chunk fetched from another local store failed: "+err.Error(), caseLine, "")
			continue
		}
		sid := hx(id[:])
		ext := ".cacnk"
		if dstUnc {
			ext = ""
		}
		raw, err := os.ReadFile(filepath.Join(ddir, sid[:4], sid+ext))
		if err != nil {
			monitor("the target store did not create the file its own format prescribes: "+err.Error(), caseLine, "")
			continue
		}
		if dstUnc {
			if !bytes.Equal(raw, data) {
				monitor(fmt.Sprintf("an uncompressed store holds %d bytes that are not the chunk's plain data (%d bytes)", len(raw), len(data)), caseLine, "")
			}
		} else {
			out, err := desync.Decompress(nil, raw)
			if err != nil || !bytes.Equal(out, data) {
				monitor(fmt.Sprintf("a compressed store holds %d bytes that do not decompress to the chunk: %v", len(raw), err), caseLine, "")
			}
		}
		if back, err := dst.GetChunk(id); err != nil {
			monitor("the chunk does not read back from the target store: "+err.Error(), caseLine, "")
		} else if b, _ := back.Data(); !bytes.Equal(b, data) {
			monitor("the chunk reads back changed from the target store", caseLine, "")
		}
	}
	// stores written by casync: libzstd's streaming API writes frames with a Window_Descriptor (2 MiB at casync's
	// level 3) and without a content size, in one or several blocks.  Such files are built here by hand from RFC 8878
	// (raw and RLE blocks, any window size a conforming encoder may declare) and by the streaming encoder of the Go
	// zstd package: a compressed store must read them, and verify must find nothing wrong with them
	{
		cdir := filepath.Join(cfg.Work, "casync-store")
		os.RemoveAll(cdir)
		os.MkdirAll(cdir, 0755)
		cst, _ := desync.NewLocalStore(cdir, desync.StoreOptions{})
		var ids []desync.ChunkID
		for it := 0; it < cfg.N(60, 1500); it++ {
			var data []byte
			switch it % 4 {
			case 0:
				data = randBytes(rng, 1+rng.Intn(300))
			case 1:
				data = randBytes(rng, 1+rng.Intn(300000))
			case 2:
				data = make([]byte, 1+rng.Intn(262144))
			default:
				data = bytes.Repeat([]byte("casync "), 1+rng.Intn(20000))
			}
			id := desync.ChunkID(desync.Digest.Sum(data))
			windowLog := []int{10, 17, 20, 21, 21, 21, 22, 23, 27}[rng.Intn(9)] // 21 = 2 MiB, what casync's files declare
			var frame []byte
			how := "rfc8878-raw-blocks"
			if it%3 == 2 {
				how = "streaming-encoder"
				var fb bytes.Buffer
				w, err := zstd.NewWriter(&fb, zstd.WithWindowSize(1<<uint(windowLog)), zstd.WithEncoderLevel(zstd.SpeedDefault))
				if err != nil {
					continue
				}
				for pos := 0; pos < len(data); { // several writes: no content size known up front
					n := 1 + rng.Intn(70000)
					if pos+n > len(data) {
						n = len(data) - pos
					}
					w.Write(data[pos : pos+n])
					pos += n
				}
				w.Close()
				frame = fb.Bytes()
			} else {
				frame = rfc8878Frame(data, windowLog, rng)
			}
			sid := id.String()
			os.MkdirAll(filepath.Join(cdir, sid[:4]), 0755)
			os.WriteFile(filepath.Join(cdir, sid[:4], sid+".cacnk"), frame, 0644)
			ids = append(ids, id)
			caseLine := fmt.Sprintf("casync-frame how=%s window-log=%d len=%d frame-head=%s", how, windowLog, len(data), hx(frame[:min(len(frame), 12)]))
			rep.Count(caseLine, len(data) > 1, "casync-frame:"+how)
			if ok, err := cst.HasChunk(id); err != nil || !ok {
				monitor("HasChunk does not see a casync-written chunk file", caseLine, fmt.Sprint(err))
			}
			c, err := cst.GetChunk(id)
			if err != nil {
				monitor("a compressed store cannot read a standard zstd frame as libzstd's streaming API writes it: "+err.Error(), caseLine, "")
				continue
			}
			if b, err := c.Data(); err != nil || !bytes.Equal(b, data) {
				monitor("a casync-written chunk reads back changed", caseLine, fmt.Sprint(err))
			}
		}
		var vout bytes.Buffer
		if err := cst.Verify(context.Background(), 2, true, &vout); err != nil || vout.Len() > 0 {
			monitor("verify (with repair) objects to casync-written chunk files: "+clip(vout.String(), 300), "casync-frame verify", fmt.Sprint(err))
		}
		for _, id := range ids {
			if ok, _ := cst.HasChunk(id); !ok {
				monitor("verify --repair removed a valid casync-written chunk file", "casync-frame verify id="+id.String(), "")
				break
			}
		}
	}
	c20WindowFrames(cfg, rep, rng, monitor)
	storeOptsStores(cfg, rep, m, rng)
	rep.Write(cfg.Out)
}

// lockedBuffer: Verify's workers write their messages concurrently
type lockedBuffer struct {
	mu sync.Mutex
	b  bytes.Buffer
}

func (l *lockedBuffer) Write(p []byte) (int, error) {
	l.mu.Lock()
	defer l.mu.Unlock()
	return l.b.Write(p)
}
func (l *lockedBuffer) String() string {
	l.mu.Lock()
	defer l.mu.Unlock()
	return l.b.String()
}

// implPruneClassify derives the classification from LocalStore.Prune's behaviour on a one-file store
func implPruneClassify(line string) string {
	_, a := parseCase(line)
	name := string(unhx(a["name"]))
	if c16dir == "" {
		c16dir, _ = os.MkdirTemp("", "verif-c16-")
	}
	root := filepath.Join(c16dir, "classify-store")
	os.RemoveAll(root)
	os.MkdirAll(filepath.Join(root, "d"), 0755)
	os.WriteFile(filepath.Join(root, "d", name), []byte("x"), 0644)
	st, _ := desync.NewLocalStore(root, desync.StoreOptions{Uncompressed: a["unc"] == "1"})
	err := st.Prune(context.Background(), map[desync.ChunkID]struct{}{})
	_, serr := os.Stat(filepath.Join(root, "d", name))
	switch {
	case serr != nil:
		return "tmp"
	case err != nil:
		if cm, ok := err.(desync.ChunkMissing); ok {
			return "id:" + hx(cm.ID[:])
		}
		return "error"
	default:
		return "skip"
	}
}

// walkZstdFrames walks zstd frames (RFC 8878) without decompressing: returns the declared content
// size of the first frame (-1 if absent) and the number of frames
func walkZstdFrames(b []byte) (int, int, error) {
	frames := 0
	first := -1
	for len(b) > 0 {
		if len(b) < 4 {
			return first, frames, io.ErrUnexpectedEOF
		}
		magic := binary.LittleEndian.Uint32(b)
		if magic&0xFFFFFFF0 == 0x184D2A50 { // skippable frame
			if len(b) < 8 {
				return first, frames, io.ErrUnexpectedEOF
			}
			sz := int(binary.LittleEndian.Uint32(b[4:]))
			if len(b) < 8+sz {
				return first, frames, io.ErrUnexpectedEOF
			}
			b = b[8+sz:]
			frames++
			continue
		}
		if magic != 0xFD2FB528 {
			return first, frames, fmt.Errorf("bad magic %x", magic)
		}
		b = b[4:]
		if len(b) < 1 {
			return first, frames, io.ErrUnexpectedEOF
		}
		fhd := b[0]
		b = b[1:]
		single := fhd&0x20 != 0
		hasChecksum := fhd&0x04 != 0
		didSize := []int{0, 1, 2, 4}[fhd&3]
		fcsSize := []int{0, 2, 4, 8}[fhd>>6]
		if single && fcsSize == 0 {
			fcsSize = 1
		}
		if !single {
			if len(b) < 1 {
				return first, frames, io.ErrUnexpectedEOF
			}
			b = b[1:]
		}
		if len(b) < didSize+fcsSize {
			return first, frames, io.ErrUnexpectedEOF
		}
		b = b[didSize:]
		size := -1
		switch fcsSize {
		case 1:
			size = int(b[0])
		case 2:
			size = int(binary.LittleEndian.Uint16(b)) + 256
		case 4:
			size = int(binary.LittleEndian.Uint32(b))
		case 8:
			size = int(binary.LittleEndian.Uint64(b))
		}
		b = b[fcsSize:]
		if frames == 0 {
			first = size
		}
		for {
			if len(b) < 3 {
				return first, frames, io.ErrUnexpectedEOF
			}
			bh := uint32(b[0]) | uint32(b[1])<<8 | uint32(b[2])<<16
			b = b[3:]
			last := bh&1 != 0
			typ := (bh >> 1) & 3
			bs := int(bh >> 3)
			if typ == 1 {
				bs = 1
			}
			if typ == 3 || len(b) < bs {
				return first, frames, fmt.Errorf("bad block")
			}
			b = b[bs:]
			if last {
				break
			}
		}
		if hasChecksum {
			if len(b) < 4 {
				return first, frames, io.ErrUnexpectedEOF
			}
			b = b[4:]
		}
		frames++
	}
	return first, frames, nil
}

// rfc8878Frame builds one zstd frame by hand: magic, a frame header with a Window_Descriptor and no content size (what
// a streaming encoder writes), then raw blocks (and RLE blocks for runs of one byte), the last one flagged
func rfc8878Frame(data []byte, windowLog int, rng *rand.Rand) []byte {
	out := []byte{0x28, 0xb5, 0x2f, 0xfd, 0x00, byte((windowLog - 10) << 3)}
	maxBlock := 128 << 10
	if w := 1 << uint(windowLog); w < maxBlock {
		maxBlock = w
	}
	blockHdr := func(last bool, typ, size int) []byte {
		v := uint32(size)<<3 | uint32(typ)<<1
		if last {
			v |= 1
		}
		return []byte{byte(v), byte(v >> 8), byte(v >> 16)}
	}
	pos := 0
	for {
		n := 1 + rng.Intn(maxBlock)
		if pos+n > len(data) {
			n = len(data) - pos
		}
		last := pos+n == len(data)
		blk := data[pos : pos+n]
		rle := n > 1
		for _, b := range blk {
			if b != blk[0] {
				rle = false
				break
			}
		}
		if rle {
			out = append(out, blockHdr(last, 1, n)...)
			out = append(out, blk[0])
		} else {
			out = append(out, blockHdr(last, 0, n)...)
			out = append(out, blk...)
		}
		pos += n
		if last {
			return out
		}
	}
}

// lockedWriter serialises the report lines of Verify's workers
type lockedWriter struct {
	mu sync.Mutex
	w  io.Writer
}

func (l *lockedWriter) Write(p []byte) (int, error) {
	l.mu.Lock()
	defer l.mu.Unlock()
	return l.w.Write(p)
}
