package main

import (
	"bytes"
	"errors"
	"fmt"
	"io"
	"math/rand"
	"strconv"
	"strings"
	"sync"
	"time"

	"github.com/folbricht/desync"
)

// scriptedStore serves chunk data from a map and fails the k-th GetChunk call for k in fail
type scriptedStore struct {
	mu    sync.Mutex
	data  map[desync.ChunkID][]byte
	fail  map[int]bool
	calls int
	down  bool // every fetch fails while set
}

func (s *scriptedStore) ncalls() int {
	s.mu.Lock()
	defer s.mu.Unlock()
	return s.calls
}

// storeFailure: the errors a failing store returns.  Real stores fail with all of these: the casync-protocol
// store returns a bare io.EOF when the peer hangs up between two messages, io.ErrUnexpectedEOF inside one.
// None of them may look like the end of the blob to a reader.
func storeFailure(k int) error {
	switch k % 4 {
	case 0:
		return io.EOF
	case 1:
		return io.ErrUnexpectedEOF
	case 2:
		return fmt.Errorf("scripted store failure: %w", io.EOF)
	}
	return errors.New("scripted store failure")
}

func (s *scriptedStore) GetChunk(id desync.ChunkID) (*desync.Chunk, error) {
	s.mu.Lock()
	defer s.mu.Unlock()
	k := s.calls
	s.calls++
	if s.fail[k] || s.down {
		return nil, storeFailure(k)
	}
	b, ok := s.data[id]
	if !ok {
		return nil, desync.ChunkMissing{ID: id}
	}
	return desync.NewChunkWithID(id, b, false)
}
func (s *scriptedStore) HasChunk(id desync.ChunkID) (bool, error) {
	_, ok := s.data[id]
	return ok, nil
}
func (s *scriptedStore) Close() error   { return nil }
func (s *scriptedStore) String() string { return "scripted" }

type ipCase struct {
	idx   desync.Index
	blob  []byte
	ids   map[desync.ChunkID]int
	store map[desync.ChunkID][]byte
}

func (c ipCase) line(ops []string, fail []int) string {
	var cs, bl []string
	seen := map[int]bool{}
	for _, ch := range c.idx.Chunks {
		cs = append(cs, fmt.Sprintf("%d:%d:%d", c.ids[ch.ID], ch.Start, ch.Size))
		if !seen[c.ids[ch.ID]] {
			seen[c.ids[ch.ID]] = true
			bl = append(bl, fmt.Sprintf("%d=%s", c.ids[ch.ID], hx(c.store[ch.ID])))
		}
	}
	nullID := desync.NewNullChunk(c.idx.Index.ChunkSizeMax).ID
	nid := 999999
	if v, ok := c.ids[nullID]; ok {
		nid = v
	}
	var fs []string
	for _, f := range fail {
		fs = append(fs, strconv.Itoa(f))
	}
	return fmt.Sprintf("ip.ops chunks=%s len=%d nullid=%d nulllen=%d blobs=%s fail=%s ops=%s", strings.Join(cs, ","), len(c.blob), nid,
		c.idx.Index.ChunkSizeMax, strings.Join(bl, ";"), strings.Join(fs, ","), strings.Join(ops, ","))
}

var ipCases = map[string]ipCase{}

func implIpOps(line string) string {
	_, a := parseCase(line)
	// rebuild the index and store from the case line (IDs are small integers there; the real
	// chunk IDs are the digests of the blobs)
	blobs := map[int][]byte{}
	if a["blobs"] != "" {
		for _, p := range strings.Split(a["blobs"], ";") {
			f := strings.SplitN(p, "=", 2)
			k, _ := strconv.Atoi(f[0])
			blobs[k] = unhx(f[1])
		}
	}
	var nulllen uint64
	fmt.Sscan(a["nulllen"], &nulllen)
	idx := desync.Index{Index: desync.FormatIndex{ChunkSizeMax: nulllen}}
	store := &scriptedStore{data: map[desync.ChunkID][]byte{}, fail: map[int]bool{}}
	if a["chunks"] != "" {
		for _, p := range strings.Split(a["chunks"], ",") {
			f := strings.Split(p, ":")
			k, _ := strconv.Atoi(f[0])
			var st, sz uint64
			fmt.Sscan(f[1], &st)
			fmt.Sscan(f[2], &sz)
			id := desync.Digest.Sum(blobs[k])
			idx.Chunks = append(idx.Chunks, desync.IndexChunk{ID: id, Start: st, Size: sz})
			store.data[id] = blobs[k]
		}
	}
	if a["fail"] != "" {
		for _, f := range strings.Split(a["fail"], ",") {
			k, _ := strconv.Atoi(f)
			store.fail[k] = true
		}
	}
	// the null chunk is served from memory by the reader: a scripted failure must not count it
	return guard(func() string {
		ip := desync.NewIndexReadSeeker(idx, store)
		fh := desync.VerifNewIndexFileHandle(idx, store)
		_ = fh
		var out []string
		var fuse *desync.VerifIndexMountHandle
		for _, op := range strings.Split(a["ops"], ",") {
			if op == "" {
				continue
			}
			switch op[0] {
			case 'S':
				f := strings.Split(op[1:], ":")
				w, _ := strconv.Atoi(f[0])
				off, _ := strconv.ParseInt(f[1], 10, 64)
				pos, err := ip.Seek(off, w)
				if err != nil {
					out = append(out, fmt.Sprintf("s:err:%d", pos))
				} else {
					out = append(out, fmt.Sprintf("s:%d", pos))
				}
			case 'R':
				n, _ := strconv.Atoi(op[1:])
				buf := make([]byte, n)
				k, err := ip.Read(buf)
				switch {
				case err == nil:
					out = append(out, "r:"+hx(buf[:k]))
				case err == io.EOF:
					out = append(out, "e:"+hx(buf[:k]))
				default:
					out = append(out, "x:"+hx(buf[:k]))
				}
			case 'F':
				// FUSE reads go through the same IndexPos in the model; use one handle sharing the store
				// the handle comes from the file node's Open, the request goes through the node's Read
				if fuse == nil {
					h, ok := desync.VerifNewIndexMountFile(idx, store).Open()
					if !ok {
						out = append(out, "f:open-error")
						continue
					}
					fuse = h
				}
				f := strings.Split(op[1:], ":")
				off, _ := strconv.ParseInt(f[0], 10, 64)
				n, _ := strconv.Atoi(f[1])
				b, ok := fuse.Read(make([]byte, n), off)
				if !ok {
					out = append(out, "f:EIO")
				} else {
					out = append(out, "f:"+hx(b))
				}
			}
		}
		return strings.Join(out, ",")
	})
}

func runC09(cfg Config) {
	rep := NewReport("C09", cfg.Tier, cfg.Seed,
		"blobs (empty, single chunk, many chunks, runs of null chunks, repeated chunks, zero-size chunks in the table) x sequences of "+
			"Seek(any whence, offsets incl. negative and beyond the end) and Read(0..3*max bytes) on IndexPos, or FUSE-style (offset,size) "+
			"reads in any order on the mount file handle, x scripted store failures at arbitrary call numbers; results vs the model; "+
			"monitor: every byte returned equals the blob at that position, EOF exactly at the end, errors only when a failure was scripted. "+
			"non-trivial = distinct case with >= 2 chunks and >= 2 ops")
	m, err := StartModel(cfg.Driver)
	if err != nil {
		fatal(err)
	}
	defer m.Close()
	rng := rand.New(rand.NewSource(cfg.Seed))
	monitor := func(what, caseLine, impl string) {
		rep.Disagree(Disagreement{Kind: "monitor", Case: clip(caseLine, 100000), Impl: clip(impl, 1000), What: what})
	}
	n := cfg.N(20000, 400000)
	for it := 0; it < n; it++ {
		max := uint64(8 + rng.Intn(40))
		// build a blob as a sequence of chunks
		nch := rng.Intn(8)
		switch rng.Intn(6) {
		case 0:
			nch = 0
		case 1:
			nch = 1
		case 2:
			nch = 8 + rng.Intn(30)
		}
		c := ipCase{ids: map[desync.ChunkID]int{}, store: map[desync.ChunkID][]byte{}}
		c.idx.Index.ChunkSizeMax = max
		var pool [][]byte
		for i := 0; i < nch; i++ {
			var b []byte
			switch rng.Intn(6) {
			case 0:
				b = make([]byte, max) // null chunk
			case 1:
				if len(pool) > 0 {
					b = pool[rng.Intn(len(pool))] // repeated chunk
				} else {
					b = randBytes(rng, 1+rng.Intn(int(max)))
				}
			case 2:
				if i > 0 && i < nch-1 && rng.Intn(5) == 0 {
					b = []byte{} // zero-size chunk in the middle of the table (never the last: no store can deliver an empty chunk)
				} else {
					b = randBytes(rng, 1)
				}
			default:
				b = randBytes(rng, 1+rng.Intn(int(max)))
			}
			if len(b) == 0 && i == nch-1 {
				b = randBytes(rng, 1) // no store can deliver an empty chunk: never the last one
			}
			pool = append(pool, b)
			id := desync.Digest.Sum(b)
			if _, ok := c.ids[id]; !ok {
				c.ids[id] = len(c.ids) + 1
			}
			c.store[id] = b
			c.idx.Chunks = append(c.idx.Chunks, desync.IndexChunk{ID: id, Start: uint64(len(c.blob)), Size: uint64(len(b))})
			c.blob = append(c.blob, b...)
		}
		L := len(c.blob)
		var ops []string
		nops := 1 + rng.Intn(10)
		fuseMode := rng.Intn(4) == 0
		for k := 0; k < nops; k++ {
			if fuseMode {
				ops = append(ops, fmt.Sprintf("F%d:%d", rng.Intn(L+5), rng.Intn(int(max)*3+1)))
				continue
			}
			if rng.Intn(2) == 0 {
				w := rng.Intn(3)
				var off int
				switch rng.Intn(5) {
				case 0:
					off = rng.Intn(L+10) - 5
				case 1:
					off = -rng.Intn(L + 3)
				case 2:
					off = 0
				default:
					off = rng.Intn(L + 1)
					if w == 2 {
						off = -off
					}
				}
				if w == 3 {
					w = 2
				}
				ops = append(ops, fmt.Sprintf("S%d:%d", w, off))
			} else {
				ops = append(ops, fmt.Sprintf("R%d", rng.Intn(int(max)*3+1)))
			}
		}
		var fail []int
		if rng.Intn(3) == 0 {
			for k := 0; k < 1+rng.Intn(3); k++ {
				fail = append(fail, rng.Intn(8))
			}
		}
		line := c.line(ops, fail)
		got := timed(implIpOps, line)
		rep.Compare(m, line, implIpOps, nil)
		kind := "ip"
		if fuseMode {
			kind = "fuse"
		}
		rep.Count(line, nch >= 2 && nops >= 2, kind, "chunks:"+bucket(nch), fmt.Sprintf("fail:%v", len(fail) > 0))
		if strings.Contains(got, "panic") {
			monitor("reader panicked", line, got)
			continue
		}
		if strings.HasPrefix(got, "hang") {
			monitor("reader did not return", line, got)
			continue
		}
		// monitor: replay the ops against the blob
		pos := 0
		for k, res := range strings.Split(got, ",") {
			op := ops[k]
			switch op[0] {
			case 'S':
				f := strings.Split(res, ":")
				p, _ := strconv.Atoi(f[len(f)-1])
				if f[1] != "err" {
					pos = p
				} else if p != pos {
					monitor("a failed seek moved the position", line, got)
				}
			case 'R':
				data := unhx(res[2:])
				want, _ := strconv.Atoi(op[1:])
				if pos+len(data) > L || string(c.blob[pos:pos+len(data)]) != string(data) {
					monitor(fmt.Sprintf("read %d returned bytes that are not the blob's at position %d", k, pos), line, got)
				}
				switch res[0] {
				case 'r':
					exp := want
					if pos+exp > L {
						exp = L - pos
					}
					if len(data) != exp && len(fail) == 0 {
						monitor(fmt.Sprintf("read %d returned %d bytes, expected %d", k, len(data), exp), line, got)
					}
				case 'e':
					if pos != L {
						monitor(fmt.Sprintf("EOF reported at position %d of %d", pos, L), line, got)
					}
				case 'x':
					if len(fail) == 0 {
						monitor("a read failed although the store never failed", line, got)
					}
				}
				pos += len(data)
			case 'F':
				f := strings.Split(op[1:], ":")
				off, _ := strconv.Atoi(f[0])
				sz, _ := strconv.Atoi(f[1])
				if res == "f:EIO" {
					if len(fail) == 0 && off <= L {
						monitor("FUSE read failed although the store never failed", line, got)
					}
					continue
				}
				data := unhx(res[2:])
				exp := sz
				if off+exp > L {
					exp = L - off
				}
				if exp < 0 {
					exp = 0
				}
				if len(data) != exp || (exp > 0 && string(c.blob[off:off+exp]) != string(data)) {
					monitor(fmt.Sprintf("FUSE read (%d,%d) returned wrong bytes", off, sz), line, got)
				}
			}
		}
	}
	// several handles opened on one mounted file, used at the same time: each request returns its own range of the blob
	// whatever the others are doing — also when the store holds one handle's chunk back while another handle reads on
	for it := 0; it < cfg.N(20, 300); it++ {
		nch := 6 + rng.Intn(10)
		var blob []byte
		var idx desync.Index
		gs := &gatedReadStore{data: map[desync.ChunkID][]byte{}, gate: make(chan struct{}), entered: make(chan struct{}, 4)}
		for k := 0; k < nch; k++ {
			b := randBytes(rng, 40+rng.Intn(100))
			id := desync.Digest.Sum(b)
			idx.Chunks = append(idx.Chunks, desync.IndexChunk{ID: id, Start: uint64(len(blob)), Size: uint64(len(b))})
			gs.data[id] = b
			blob = append(blob, b...)
		}
		idx.Index.ChunkSizeMax = 256
		node := desync.VerifNewIndexMountFile(idx, gs)
		hA, okA := node.Open()
		hB, okB := node.Open()
		if !okA || !okB {
			continue
		}
		slow := rng.Intn(nch)
		gs.slow = idx.Chunks[slow].ID
		offA := int64(idx.Chunks[slow].Start) + int64(rng.Intn(int(idx.Chunks[slow].Size)))
		lenA := 1 + rng.Intn(60)
		resA := make(chan []byte, 1)
		go func() {
			b, ok := hA.Read(make([]byte, lenA), offA)
			if !ok {
				b = nil
			}
			resA <- b
		}()
		select {
		case <-gs.entered:
		case <-time.After(5 * time.Second):
		}
		caseLine := fmt.Sprintf("mount.two-handles it=%d chunks=%d slow-chunk=%d", it, nch, slow)
		rep.Count(caseLine, true, "mount-two-handles")
		// the other handle reads elsewhere meanwhile
		for k := 0; k < 4; k++ {
			other := rng.Intn(nch)
			if other == slow {
				continue
			}
			off := int64(idx.Chunks[other].Start)
			n := int(idx.Chunks[other].Size)
			b, ok := hB.Read(make([]byte, n), off)
			if !ok || !bytes.Equal(b, blob[off:off+int64(n)]) {
				monitor("a read on a second handle of the mounted file returned wrong data or failed while another handle was waiting for the store", caseLine, "")
			}
		}
		close(gs.gate)
		select {
		case b := <-resA:
			end := offA + int64(lenA)
			if end > int64(len(blob)) {
				end = int64(len(blob))
			}
			if b == nil || !bytes.Equal(b, blob[offA:end]) {
				monitor(fmt.Sprintf("a read on one handle of the mounted file (offset %d, %d bytes) returned data that is not the blob's while another handle was in use", offA, lenA), caseLine, "")
			}
		case <-time.After(10 * time.Second):
			monitor("a read on the mounted file did not return", caseLine, "")
		}
	}
	c09SameHandle(cfg, rep, rng, monitor)
	runC09Handle(cfg, rep, m, rng, monitor)
	c09CLI(cfg, rep, rng)
	runMountFS09(cfg, rep, m, rng)
	rep.Write(cfg.Out)
}

// c09SameHandle: several read requests in flight on ONE open handle of the mounted file (what kernel read-ahead or a
// threaded program using pread on one descriptor produces; go-fuse serves each request in its own goroutine), over a store
// that takes some time per chunk: every read returns exactly the blob's bytes at its own offset
func c09SameHandle(cfg Config, rep *Report, rng *rand.Rand, monitor func(what, caseLine, impl string)) {
	for it := 0; it < cfg.N(4, 40); it++ {
		nch := 8 + rng.Intn(12)
		var blob []byte
		var idx desync.Index
		st := &slowMapStore{data: map[desync.ChunkID][]byte{}, delay: time.Duration(100+rng.Intn(300)) * time.Microsecond}
		for k := 0; k < nch; k++ {
			b := randBytes(rng, 300+rng.Intn(700))
			id := desync.Digest.Sum(b)
			idx.Chunks = append(idx.Chunks, desync.IndexChunk{ID: id, Start: uint64(len(blob)), Size: uint64(len(b))})
			st.data[id] = b
			blob = append(blob, b...)
		}
		idx.Index.ChunkSizeMax = 1024
		node := desync.VerifNewIndexMountFile(idx, st)
		h, ok := node.Open()
		if !ok {
			continue
		}
		workers, reads := 6, 40
		caseLine := fmt.Sprintf("mount.same-handle it=%d chunks=%d goroutines=%d reads-each=%d store-delay=%v", it, nch, workers, reads, st.delay)
		rep.Count(caseLine, true, "mount-same-handle")
		type rd struct {
			off int64
			n   int
		}
		var wg sync.WaitGroup
		bad := make(chan string, workers)
		for w := 0; w < workers; w++ {
			plan := make([]rd, reads)
			for i := range plan {
				plan[i] = rd{int64(rng.Intn(len(blob))), 1 + rng.Intn(900)}
			}
			wg.Add(1)
			go func(plan []rd) {
				defer wg.Done()
				for _, r := range plan {
					b, ok := h.Read(make([]byte, r.n), r.off)
					end := r.off + int64(r.n)
					if end > int64(len(blob)) {
						end = int64(len(blob))
					}
					if !ok || !bytes.Equal(b, blob[r.off:end]) {
						select {
						case bad <- fmt.Sprintf("offset %d, %d bytes, ok=%v", r.off, r.n, ok):
						default:
						}
						return
					}
				}
			}(plan)
		}
		done := make(chan struct{})
		go func() { wg.Wait(); close(done) }()
		select {
		case <-done:
		case <-time.After(60 * time.Second):
			monitor("concurrent reads on one handle of the mounted file did not return", caseLine, "")
		}
		rep.Histogram["mount-same-handle:read-requests"] += workers * reads // requests issued on the shared handle
		select {
		case what := <-bad:
			monitor("with several reads in flight on one handle of the mounted file, a read returned bytes that are not the blob's at its offset (or failed): "+what, caseLine, "")
		default:
		}
	}
}

// slowMapStore serves chunks from a map after a short delay
type slowMapStore struct {
	data  map[desync.ChunkID][]byte
	delay time.Duration
}

func (s *slowMapStore) GetChunk(id desync.ChunkID) (*desync.Chunk, error) {
	time.Sleep(s.delay)
	b, ok := s.data[id]
	if !ok {
		return nil, desync.ChunkMissing{ID: id}
	}
	return desync.NewChunkWithID(id, b, false)
}
func (s *slowMapStore) HasChunk(id desync.ChunkID) (bool, error) { _, ok := s.data[id]; return ok, nil }
func (s *slowMapStore) Close() error                             { return nil }
func (s *slowMapStore) String() string                           { return "slow-map" }

// gatedReadStore holds GetChunk of one chunk ID until the gate opens
type gatedReadStore struct {
	data    map[desync.ChunkID][]byte
	slow    desync.ChunkID
	gate    chan struct{}
	entered chan struct{}
}

func (s *gatedReadStore) GetChunk(id desync.ChunkID) (*desync.Chunk, error) {
	if id == s.slow {
		select {
		case s.entered <- struct{}{}:
		default:
		}
		<-s.gate
	}
	b, ok := s.data[id]
	if !ok {
		return nil, desync.ChunkMissing{ID: id}
	}
	return desync.NewChunkWithID(id, b, false)
}
func (s *gatedReadStore) HasChunk(id desync.ChunkID) (bool, error) {
	_, ok := s.data[id]
	return ok, nil
}
func (s *gatedReadStore) Close() error   { return nil }
func (s *gatedReadStore) String() string { return "gated-read" }
