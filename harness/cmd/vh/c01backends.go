package main

// C01 over the real chunk-store backends (added in session 7 after seeded change C01-l: the SFTP store kept one read buffer
// per pooled connection; in uncompressed mode a chunk object's Data() aliased it, a second worker's fetch on the same
// connection overwrote the bytes the first worker was about to write, and AssembleFile reported success with wrong output.
// C03's check saw that — a chunk object that no longer holds its chunk — but C01's own check assembled from scripted stores
// only).  The blob is assembled through a local, an HTTP, an S3 and an SFTP store (one and two pooled connections), in both
// storage formats, with one and with several workers; nil must mean the exact blob.

import (
	"context"
	"fmt"
	"math/rand"
	"net/http/httptest"
	"net/url"
	"os"
	"path/filepath"
	"time"

	"github.com/folbricht/desync"
)

func c01RealBackends(cfg Config, rep *Report, rng *rand.Rand) {
	setDigest("sha512")
	sshWrap, sshErr := sftpWrapper(cfg.Work)
	s3f := newFakeS3()
	defer s3f.Close()
	for it := 0; it < cfg.N(4, 40); it++ {
		comp := it%2 == 1 // uncompressed first: Data() is the storage slice itself there
		opt := desync.StoreOptions{Uncompressed: !comp}
		dir := filepath.Join(cfg.Work, fmt.Sprintf("c01be-%d", it))
		os.RemoveAll(dir)
		os.MkdirAll(dir, 0755)
		ls, err := desync.NewLocalStore(dir, opt)
		if err != nil {
			fatal(err)
		}
		k := 30 + rng.Intn(50)
		var idx desync.Index
		var blob []byte
		for j := 0; j < k; j++ {
			// equal lengths: a re-used buffer then holds a complete other chunk and the length check cannot notice
			d := randBytes(rng, 300)
			if it%4 >= 2 {
				d = randBytes(rng, 100+rng.Intn(900))
			}
			c := desync.NewChunk(d)
			if err := ls.StoreChunk(c); err != nil {
				fatal(err)
			}
			idx.Chunks = append(idx.Chunks, desync.IndexChunk{ID: c.ID(), Start: uint64(len(blob)), Size: uint64(len(d))})
			blob = append(blob, d...)
		}
		idx.Index.ChunkSizeMin, idx.Index.ChunkSizeAvg, idx.Index.ChunkSizeMax = 64, 256, 1<<20
		backends := map[string]desync.Store{"local": ls}
		var closers []func()
		objs := map[string][]byte{}
		s3objs := map[string][]byte{}
		filepath.Walk(dir, func(p string, info os.FileInfo, err error) error {
			if err == nil && info.Mode().IsRegular() {
				b, _ := os.ReadFile(p)
				rel, _ := filepath.Rel(dir, p)
				objs["/"+rel] = b
				s3objs["bkt/c01/"+rel] = b
			}
			return nil
		})
		ts := httptest.NewServer(&rawHTTP{objs: objs})
		closers = append(closers, ts.Close)
		u, _ := url.Parse(ts.URL)
		if hs, err := desync.NewRemoteHTTPStore(u, opt); err == nil {
			backends["http"] = hs
		}
		s3f.mu.Lock()
		s3f.objects = s3objs
		s3f.mu.Unlock()
		if s3s, err := s3f.chunkStore("bkt", "c01/", opt); err == nil {
			backends["s3"] = s3s
		}
		if sshErr == nil {
			os.Setenv("CASYNC_SSH_PATH", sshWrap)
			su, _ := url.Parse("sftp://localhost" + dir)
			for _, n := range []int{1, 2} {
				o := opt
				o.N = n
				if ss, err := desync.NewSFTPStore(su, o); err == nil {
					backends[fmt.Sprintf("sftp-n%d", n)] = ss
					closers = append(closers, func() { ss.Close() })
				}
			}
		}
		for bname, st := range backends {
			for _, n := range []int{1, 4, 8} {
				caseLine := fmt.Sprintf("asm.backend backend=%s comp=%v chunks=%d n=%d it=%d", bname, comp, k, n, it)
				target := filepath.Join(cfg.Work, fmt.Sprintf("c01be-out-%d", it))
				os.Remove(target)
				type res struct{ err error }
				done := make(chan res, 1)
				go func() {
					defer func() {
						if r := recover(); r != nil {
							done <- res{fmt.Errorf("panic: %v", r)}
						}
					}()
					// with several workers the store is wrapped in a layer that hands a chunk on a little later (a cache, a
					// de-duplication queue or a slow consumer does the same): the chunk object must still hold its chunk
					// when the worker writes it, whatever the other workers fetched on the same connection meanwhile
					var use desync.Store = st
					if n > 1 {
						use = lagStore{st, time.Duration(1+it%3) * time.Millisecond}
					}
					_, err := desync.AssembleFile(context.Background(), target, idx, use, nil, desync.AssembleOptions{N: n})
					done <- res{err}
				}()
				var r res
				select {
				case r = <-done:
				case <-time.After(30 * time.Second):
					rep.Disagree(Disagreement{Kind: "monitor", Case: caseLine, What: "AssembleFile through the " + bname + " store did not return within 30 s"})
					rep.Count(caseLine, false, "backend:"+bname, "backend:hang")
					continue
				}
				rep.Count(caseLine, r.err == nil, "backend:"+bname, fmt.Sprintf("backend-n:%d", n))
				if r.err != nil {
					rep.Disagree(Disagreement{Kind: "monitor", Case: caseLine,
						What: fmt.Sprintf("AssembleFile through a complete, intact %s store failed: %v", bname, r.err)})
					continue
				}
				got, _ := os.ReadFile(target)
				if string(got) != string(blob) {
					diff := 0
					for diff < len(got) && diff < len(blob) && got[diff] == blob[diff] {
						diff++
					}
					rep.Disagree(Disagreement{Kind: "monitor", Case: caseLine,
						What: fmt.Sprintf("AssembleFile through the %s store (%d workers, compressed=%v) reported success but the output differs from the blob (length %d, want %d, first difference at byte %d)",
							bname, n, comp, len(got), len(blob), diff)})
				}
			}
		}
		for _, c := range closers {
			c()
		}
	}
}

// lagStore passes requests through and returns a fetched chunk after a short pause
type lagStore struct {
	desync.Store
	d time.Duration
}

func (l lagStore) GetChunk(id desync.ChunkID) (*desync.Chunk, error) {
	c, err := l.Store.GetChunk(id)
	time.Sleep(l.d)
	return c, err
}
