package main

// C14: an upload replaces what the store holds (added in session 7 after seeded change C14-m: a fast path of the chunk
// server's PUT handler answered 200 without storing when the upstream store said HasChunk — a damaged object under that name
// was never healed by uploading the chunk again, and a body that does not match the ID was answered 200).  Over a real
// local store of either format behind the real handler and the real HTTP client: PUT of the good chunk over an object of
// the same name that is damaged, truncated, empty, or another chunk's bytes — a nil result must be followed by a GET that
// returns exactly the chunk; an upload whose body does not hash to the ID in the path must be refused when write
// verification is on, whatever the store already holds.

import (
	"bytes"
	"fmt"
	"math/rand"
	"net/http"
	"net/http/httptest"
	"net/url"
	"os"
	"path/filepath"

	"github.com/folbricht/desync"
)

func c14PutHeals(cfg Config, rep *Report, rng *rand.Rand) {
	setDigest("sha512")
	for it := 0; it < cfg.N(24, 400); it++ {
		unc := it%2 == 1
		var conv desync.Converters
		ext := ""
		if !unc {
			conv = desync.Converters{desync.Compressor{}}
			ext = ".cacnk"
		}
		dir := filepath.Join(cfg.Work, fmt.Sprintf("c14heal-%d", it))
		os.RemoveAll(dir)
		os.MkdirAll(dir, 0755)
		ls, err := desync.NewLocalStore(dir, desync.StoreOptions{Uncompressed: unc})
		if err != nil {
			fatal(err)
		}
		data := randBytes(rng, 100+rng.Intn(2000))
		c := desync.NewChunk(data)
		id := c.ID()
		sid := id.String()
		// the object already there
		prior := []string{"absent", "intact", "damaged", "cut", "empty", "other"}[it%6]
		if prior != "absent" {
			if err := ls.StoreChunk(c); err != nil {
				fatal(err)
			}
			p := filepath.Join(dir, sid[:4], sid+ext)
			b, _ := os.ReadFile(p)
			switch prior {
			case "damaged":
				b[rng.Intn(len(b))] ^= byte(1 + rng.Intn(255))
			case "cut":
				b = b[:len(b)/2]
			case "empty":
				b = nil
			case "other":
				o := randBytes(rng, len(data))
				b = o
				if !unc {
					b, _ = desync.Compress(o)
				}
			}
			if prior != "intact" {
				os.WriteFile(p, b, 0644)
			}
		}
		verifyWrite := it%3 != 2
		ts := httptest.NewServer(desync.NewHTTPHandler(ls, true, !verifyWrite, conv, ""))
		u, _ := url.Parse(ts.URL)
		hs, err := desync.NewRemoteHTTPStore(u, desync.StoreOptions{Uncompressed: unc, ErrorRetry: 0})
		if err != nil {
			ts.Close()
			continue
		}
		caseLine := fmt.Sprintf("http.heal prior=%s uncompressed=%v verifywrite=%v len=%d it=%d", prior, unc, verifyWrite, len(data), it)
		rep.Count(caseLine, prior != "absent", "heal:"+prior)
		say := func(what string) { rep.Disagree(Disagreement{Kind: "monitor", Case: caseLine, What: what}) }
		// a body that is not the chunk named by the path
		if verifyWrite {
			wrong := randBytes(rng, len(data))
			body := wrong
			if !unc {
				body, _ = desync.Compress(wrong)
			}
			req, _ := http.NewRequest("PUT", ts.URL+"/"+sid[:4]+"/"+sid+ext, bytes.NewReader(body))
			if resp, err := http.DefaultClient.Do(req); err == nil {
				resp.Body.Close()
				if resp.StatusCode < 400 {
					say(fmt.Sprintf("an upload whose content does not hash to the ID in its path was answered %d by a server that verifies uploads (the store held: %s)", resp.StatusCode, prior))
				}
			}
		}
		if err := hs.StoreChunk(c); err != nil {
			say(fmt.Sprintf("uploading a chunk over an object that is %s failed: %v", prior, err))
		} else {
			got, err := hs.GetChunk(id)
			if err != nil {
				say(fmt.Sprintf("after a successful upload over an object that was %s the chunk cannot be fetched: %v", prior, err))
			} else if b, err := got.Data(); err != nil || string(b) != string(data) {
				say(fmt.Sprintf("after a successful upload over an object that was %s the server delivers other data", prior))
			}
		}
		ts.Close()
		os.RemoveAll(dir)
	}
}
