package main

import (
	"bytes"
	"context"
	"fmt"
	"io"
	"math/bits"
	"math/rand"
	"os"
	"path/filepath"
	"regexp"
	"strconv"
	"strings"

	"github.com/folbricht/desync"
)

// fragReader returns at most frags[i] bytes on the i-th Read call (0 = an empty read);
// once the script is exhausted it fills the caller's buffer.
type fragReader struct {
	data  []byte
	frags []int
	// eofWithData: the read that delivers the last bytes returns them together with io.EOF, which the io.Reader
	// contract allows (HTTP bodies, decompressors and iotest.DataErrReader do it)
	eofWithData bool
}

func (r *fragReader) Read(p []byte) (int, error) {
	if len(r.data) == 0 {
		return 0, io.EOF
	}
	n := len(p)
	if len(r.frags) > 0 {
		if r.frags[0] < n {
			n = r.frags[0]
		}
		r.frags = r.frags[1:]
	}
	if n > len(r.data) {
		n = len(r.data)
	}
	copy(p, r.data[:n])
	r.data = r.data[n:]
	if r.eofWithData && len(r.data) == 0 {
		return n, io.EOF
	}
	return n, nil
}

func pairsStr(starts, sizes []uint64) string {
	var sb strings.Builder
	for i := range starts {
		if i > 0 {
			sb.WriteByte(',')
		}
		fmt.Fprintf(&sb, "%d:%d", starts[i], sizes[i])
	}
	return sb.String()
}

func chunkSeq(r io.Reader, min, avg, max uint64) string {
	return guard(func() string {
		c, err := desync.NewChunker(r, min, avg, max)
		if err != nil {
			return "err params"
		}
		var starts, sizes []uint64
		for {
			s, b, err := c.Next()
			if err != nil {
				return "err other"
			}
			if len(b) == 0 {
				break
			}
			starts = append(starts, s)
			sizes = append(sizes, uint64(len(b)))
		}
		return pairsStr(starts, sizes)
	})
}

func implChunkAll(line string) string {
	_, a := parseCase(line)
	var min, avg, max uint64
	fmt.Sscan(a["min"], &min)
	fmt.Sscan(a["avg"], &avg)
	fmt.Sscan(a["max"], &max)
	return chunkSeq(bytes.NewReader(unhx(a["data"])), min, avg, max)
}

func implChunkBuffered(line string) string {
	_, a := parseCase(line)
	var min, avg, max uint64
	fmt.Sscan(a["min"], &min)
	fmt.Sscan(a["avg"], &avg)
	fmt.Sscan(a["max"], &max)
	var frags []int
	if a["frags"] != "" {
		for _, f := range strings.Split(a["frags"], ",") {
			var v int
			fmt.Sscan(f, &v)
			frags = append(frags, v)
		}
	}
	return chunkSeq(&fragReader{data: unhx(a["data"]), frags: frags, eofWithData: a["rd"] == "eof"}, min, avg, max)
}

// implChunkOps: a sequence of Next (N) and Advance (A<n>) calls on a chunker over a seekable reader
func implChunkOps(line string) string {
	_, a := parseCase(line)
	var min, avg, max uint64
	fmt.Sscan(a["min"], &min)
	fmt.Sscan(a["avg"], &avg)
	fmt.Sscan(a["max"], &max)
	return guard(func() string {
		c, err := desync.NewChunker(bytes.NewReader(unhx(a["data"])), min, avg, max)
		if err != nil {
			return "err params"
		}
		var out []string
		for _, op := range strings.Split(a["ops"], ",") {
			if op == "" {
				continue
			}
			if op == "N" {
				s, b, err := c.Next()
				if err != nil {
					return "err other"
				}
				out = append(out, fmt.Sprintf("%d:%d", s, len(b)))
				continue
			}
			var n int
			fmt.Sscan(op[1:], &n)
			if err := c.Advance(n); err != nil {
				return "err advance"
			}
		}
		return strings.Join(out, ",")
	})
}

func implChunkDisc(line string) string {
	_, a := parseCase(line)
	var avg uint64
	fmt.Sscan(a["avg"], &avg)
	return fmt.Sprint(desync.VerifDiscriminatorFromAvg(avg))
}

// ---------------------------------------------------------------------------------------
// generators

type chunkParams struct{ min, avg, max uint64 }

func genParams(rng *rand.Rand) chunkParams {
	switch rng.Intn(10) {
	case 0:
		return chunkParams{48, 64, 128}
	case 1:
		return chunkParams{64, 96, 128}
	case 2:
		m := uint64(48 + rng.Intn(100))
		return chunkParams{m, m, m} // min = avg = max
	case 3:
		m := uint64(48 + rng.Intn(100))
		return chunkParams{m, m, m + 1 + uint64(rng.Intn(3))}
	case 4:
		return chunkParams{256, 1024, 4096}
	default:
		min := uint64(48 + rng.Intn(200))
		avg := min + uint64(rng.Intn(400))
		max := avg + uint64(rng.Intn(1200))
		return chunkParams{min, avg, max}
	}
}

// genData produces the input classes named by the property: random, all-zero, zero runs at
// any alignment, low-entropy, repetitive, constant non-zero, sizes around multiples of
// min/max and of size/n.
func genData(rng *rand.Rand, p chunkParams, maxLen int) ([]byte, string) {
	size := rng.Intn(maxLen)
	switch rng.Intn(8) {
	case 0:
		size = int(p.max)*rng.Intn(6) + rng.Intn(5) - 2
	case 1:
		size = int(p.min)*rng.Intn(8) + rng.Intn(5) - 2
	case 2:
		size = rng.Intn(int(p.min) + 3)
	}
	if size < 0 {
		size = 0
	}
	if size > maxLen {
		size = maxLen
	}
	b := make([]byte, size)
	kind := ""
	switch rng.Intn(8) {
	case 0:
		kind = "zero"
	case 1:
		kind = "const"
		c := byte(1 + rng.Intn(255))
		for i := range b {
			b[i] = c
		}
	case 2:
		kind = "lowentropy"
		for i := range b {
			b[i] = byte(rng.Intn(2))
		}
	case 3:
		kind = "repetitive"
		period := 1 + rng.Intn(300)
		pat := randBytes(rng, period)
		for i := range b {
			b[i] = pat[i%period]
		}
	case 4, 5:
		kind = "zeroruns"
		rng.Read(b)
		for k := 0; k < 1+rng.Intn(4) && size > 0; k++ {
			s := rng.Intn(size)
			l := rng.Intn(int(p.max)*4 + 1)
			if rng.Intn(3) == 0 { // zero tail
				l = size
			}
			for i := s; i < s+l && i < size; i++ {
				b[i] = 0
			}
		}
	default:
		kind = "random"
		rng.Read(b)
	}
	return b, kind
}

func runC02(cfg Config) {
	rep := NewReport("C02", cfg.Tier, cfg.Seed,
		"(a) discriminator for avg values; (b) Chunker.Next sequences on generated inputs (random, zero, zero runs, constant, "+
			"low-entropy, repetitive; sizes around k*min, k*max) x params incl. min=avg=max, vs model chunkAll; (c) same through a "+
			"fragmenting reader (1-byte, empty, random reads) vs model Buffered.all; (d) IndexFromFile n=1..16 and ChunkStream vs "+
			"the sequential result (full index equality: count, start, size, ID=H(slice), params, flags); (e) testdata/chunker.input "+
			"vs casync-made chunker.index; (f) IndexFromFile under a cooperative scheduler (verifPar hooks; random priorities with change points, "+
			"bursts, later-workers-first) on zero/phase-shifted/zero-run/constant files: the recorded event trace must be a behaviour of the "+
			"Lean machine Par.step (par.accept) and the index must equal the sequential sequence. non-trivial = distinct case with at least 2 chunks")
	m, err := StartModel(cfg.Driver)
	if err != nil {
		fatal(err)
	}
	defer m.Close()
	rng := rand.New(rand.NewSource(cfg.Seed))
	monitor := func(what, caseLine, impl, sig string) {
		rep.Disagree(Disagreement{Kind: "monitor", Case: clip(caseLine, 200000), Impl: clip(impl, 2000), What: what, Sig: sig})
	}

	// (a) discriminator
	avgs := []uint64{48, 49, 63, 64, 65, 100, 1000, 4096, 16384, 65536, 262144, 1 << 20, 4 << 20, 9_300_000}
	for i := 0; i < cfg.N(300, 5000); i++ {
		avgs = append(avgs, uint64(48+rng.Int63n(9_000_000)))
	}
	for _, avg := range avgs {
		line := fmt.Sprintf("chunk.disc avg=%d", avg)
		rep.Compare(m, line, implChunkDisc, nil)
		rep.Count(line, true, "disc")
	}

	mkCase := func(cmd string, p chunkParams, data []byte, frags string) string {
		d := desync.VerifDiscriminatorFromAvg(p.avg)
		s := fmt.Sprintf("%s min=%d avg=%d max=%d d=%d", cmd, p.min, p.avg, p.max, d)
		if frags != "" || cmd == "chunk.buffered" {
			s += " frags=" + frags
		}
		return s + " data=" + hx(data)
	}
	shrinkData := func(line string) []string {
		cmd, a := parseCase(line)
		b := unhx(a["data"])
		var out []string
		for _, nb := range [][]byte{b[:len(b)/2], b[len(b)/2:], b[:len(b)*3/4], b[len(b)/4:]} {
			if len(nb) < len(b) {
				na := kv{}
				for k, v := range a {
					na[k] = v
				}
				na["data"] = hx(nb)
				out = append(out, buildCase(cmd, na, "min", "avg", "max", "d", "frags", "data"))
			}
		}
		if len(b) > 0 {
			na := kv{}
			for k, v := range a {
				na[k] = v
			}
			na["data"] = hx(b[:len(b)-1])
			out = append(out, buildCase(cmd, na, "min", "avg", "max", "d", "frags", "data"))
		}
		return out
	}

	// property monitor on a chunk sequence (independent of the model)
	checkSeq := func(line, res string, p chunkParams, size int) {
		if strings.HasPrefix(res, "err") || res == "panic" {
			monitor("chunker failed on valid parameters", line, res, "")
			return
		}
		var pos uint64
		reported := false
		monitor := func(what, caseLine, impl, sig string) {
			if !reported {
				reported = true
				monitor(what, caseLine, impl, sig)
			}
		}
		parts := []string{}
		if res != "" {
			parts = strings.Split(res, ",")
		}
		for i, pr := range parts {
			var s, z uint64
			fmt.Sscanf(pr, "%d:%d", &s, &z)
			if s != pos {
				monitor(fmt.Sprintf("chunk %d starts at %d, previous ended at %d (gap/overlap)", i, s, pos), line, res, "")
			}
			if z > p.max {
				monitor(fmt.Sprintf("chunk %d has %d bytes > max %d", i, z, p.max), line, res, "chunker.min-eq-max.oversize")
			}
			if z == 0 {
				monitor(fmt.Sprintf("chunk %d is empty", i), line, res, "")
			}
			if i < len(parts)-1 && z < p.min {
				monitor(fmt.Sprintf("chunk %d (not last) has %d bytes < min %d", i, z, p.min), line, res, "")
			}
			pos = s + z
		}
		if pos != uint64(size) {
			monitor(fmt.Sprintf("chunks cover %d bytes of %d", pos, size), line, res, "")
		}
	}

	// (b) + (c)
	maxLen := 6000
	nb := cfg.N(2500, 60000)
	for it := 0; it < nb; it++ {
		p := genParams(rng)
		ml := maxLen
		if it%50 == 0 {
			ml = 40000
		}
		data, kind := genData(rng, p, ml)
		line := mkCase("chunk.all", p, data, "")
		res := implChunkAll(line)
		rep.Compare(m, line, implChunkAll, shrinkData)
		rep.Count(line, strings.Count(res, ",") >= 1, "all:"+kind, "all-chunks:"+bucket(strings.Count(res, ",")+1))
		checkSeq(line, res, p, len(data))

		if it%3 == 0 {
			// fragmenting reader
			var fr []string
			nf := rng.Intn(60)
			mode := rng.Intn(4)
			for i := 0; i < nf; i++ {
				switch mode {
				case 0:
					fr = append(fr, "1")
				case 1:
					fr = append(fr, fmt.Sprint(rng.Intn(3)))
				case 2:
					fr = append(fr, fmt.Sprint(rng.Intn(int(p.max)*2+1)))
				default:
					fr = append(fr, fmt.Sprint(rng.Intn(2)*rng.Intn(5000)))
				}
			}
			bl := mkCase("chunk.buffered", p, data, strings.Join(fr, ","))
			if rng.Intn(2) == 0 {
				bl += " rd=eof" // last bytes and io.EOF in one Read
			}
			bres := implChunkBuffered(bl)
			rep.Compare(m, bl, implChunkBuffered, shrinkData)
			rep.Count(bl, strings.Count(bres, ",") >= 1, "buffered:"+kind)
			if bres != res {
				monitor("chunk sequence depends on read fragmentation", bl, bres+" vs "+res, "")
			}
		}
	}

	// (b-zero) parameter sets for which the hash of an all-zero window meets the discriminator: a run of zeros is then
	// cut every min+1 bytes, not at max — the "zero areas produce no boundaries" intuition is false for them.  The
	// averages are found by search (the window hash of 48 zero bytes against discriminatorFromAvg(avg) for every avg
	// up to 2^21), so this follows the table and the formula of the tree under check.
	{
		h0 := uint32(0)
		if t0, ok := hashTableEntry0(cfg.Repo); ok {
			for i := 0; i < 48; i++ {
				h0 ^= bits.RotateLeft32(t0, i)
			}
			var zeroAvgs []uint64
			for avg := uint64(48); avg < 1<<21 && len(zeroAvgs) < 8; avg++ {
				if d := desync.VerifDiscriminatorFromAvg(avg); d > 1 && h0%d == d-1 {
					zeroAvgs = append(zeroAvgs, avg)
				}
			}
			rep.Histogram[fmt.Sprintf("zero-window-boundary-avgs:%d", len(zeroAvgs))]++
			for _, avg := range zeroAvgs {
				for it := 0; it < cfg.N(6, 60); it++ {
					p := chunkParams{min: 48 + uint64(rng.Intn(int(avg)-47)), avg: avg, max: avg + uint64(rng.Intn(int(avg)*3+1))}
					if avg > 100000 {
						p.min = avg / 4
						p.max = avg * 2
					}
					var data []byte
					data = append(data, randBytes(rng, rng.Intn(3000))...)
					data = append(data, make([]byte, int(p.max)*(1+rng.Intn(3))+rng.Intn(500))...)
					data = append(data, randBytes(rng, rng.Intn(3000))...)
					if len(data) > 3_000_000 {
						continue
					}
					line := mkCase("chunk.all", p, data, "")
					res := implChunkAll(line)
					rep.Compare(m, line, implChunkAll, shrinkData)
					rep.Count(line, strings.Count(res, ",") >= 1, "all:zero-window-boundary")
					checkSeq(line, res, p, len(data))
				}
			}
		}
	}

	// (b') Next/Advance sequences (the parallel chunker's fast-forward uses Advance) vs model Buffered.next/advance
	for it := 0; it < cfg.N(400, 8000); it++ {
		p := genParams(rng)
		data, kind := genData(rng, p, 8000)
		var ops []string
		for k := 0; k < 2+rng.Intn(14); k++ {
			if rng.Intn(3) == 0 {
				n := 0
				switch rng.Intn(5) {
				case 0:
					n = int(p.max) * rng.Intn(4)
				case 1:
					n = rng.Intn(int(p.max)*11 + 1) // across the 10*max buffer
				case 2:
					n = rng.Intn(50)
				case 3:
					n = len(data) + rng.Intn(10) // to or beyond the end
				default:
					n = rng.Intn(len(data) + 1)
				}
				ops = append(ops, fmt.Sprintf("A%d", n))
			} else {
				ops = append(ops, "N")
			}
		}
		d := desync.VerifDiscriminatorFromAvg(p.avg)
		line := fmt.Sprintf("chunk.ops min=%d avg=%d max=%d d=%d frags= ops=%s data=%s", p.min, p.avg, p.max, d, strings.Join(ops, ","), hx(data))
		rep.Compare(m, line, implChunkOps, nil)
		rep.Count(line, len(ops) > 3, "ops:"+kind)
	}

	// (d) parallel file chunking and ChunkStream = sequential, full index equality
	np := cfg.N(250, 6000)
	for it := 0; it < np; it++ {
		p := genParams(rng)
		data, kind := genData(rng, p, 30000)
		if it%3 == 0 { // the class that exposes a drained, skipped worker at EOF: short zero files
			data = make([]byte, int(p.max)*rng.Intn(8)+rng.Intn(int(p.max)))
			kind = "zero"
		}
		n := 1 + rng.Intn(16)
		reps := 3
		if it%3 == 1 {
			// zero file (or zero tail) whose length is n*(k+1/2)*max + a small delta: workers start half a
			// chunk out of phase, the last worker produces a tiny final chunk and reaches EOF early
			// while its predecessors are still reading ahead over null chunks
			n = 2 + rng.Intn(8)
			size := n*(2*rng.Intn(3)+1)*int(p.max)/2 + 1 + rng.Intn(3)*rng.Intn(2)
			data = make([]byte, size)
			kind = "zero-phase"
			if rng.Intn(4) == 0 {
				rng.Read(data[:rng.Intn(int(p.max))])
				kind = "zero-phase-tail"
			}
			reps = 25
		}
		f := filepath.Join(cfg.Work, "blob")
		if err := os.WriteFile(f, data, 0644); err != nil {
			fatal(err)
		}
		seqLine := mkCase("chunk.all", p, data, "")
		seq := implChunkAll(seqLine)
		for rep2 := 0; rep2 < reps; rep2++ {
			idx, _, err := desync.IndexFromFile(context.Background(), f, n, p.min, p.avg, p.max, desync.NewProgressBar(""))
			caseLine := fmt.Sprintf("make.file n=%d min=%d avg=%d max=%d data=%s", n, p.min, p.avg, p.max, hx(data))
			rep.Count(caseLine+fmt.Sprint(rep2), strings.Count(seq, ",") >= 1, "make:"+kind, fmt.Sprintf("make-n:%d", n))
			if err != nil {
				monitor("IndexFromFile failed: "+err.Error(), caseLine, "", "")
				continue
			}
			var starts, sizes []uint64
			for _, c := range idx.Chunks {
				starts = append(starts, c.Start)
				sizes = append(sizes, c.Size)
			}
			got := pairsStr(starts, sizes)
			if got != seq {
				monitor("parallel index differs from the sequential chunk sequence", caseLine, got+" vs "+seq, "")
				break
			}
			for _, c := range idx.Chunks {
				if int(c.Start+c.Size) > len(data) || desync.Digest.Sum(data[c.Start:c.Start+c.Size]) != c.ID {
					monitor("parallel index records a wrong chunk ID", caseLine, got, "")
					break
				}
			}
			if idx.Index.ChunkSizeMin != p.min || idx.Index.ChunkSizeAvg != p.avg || idx.Index.ChunkSizeMax != p.max ||
				idx.Index.FeatureFlags != desync.CaFormatExcludeNoDump|desync.CaFormatSHA512256 {
				monitor("parallel index records wrong parameters/flags", caseLine, indexStr(idx), "")
			}
		}
		// ChunkStream with a null store
		c, _ := desync.NewChunker(bytes.NewReader(data), p.min, p.avg, p.max)
		idx, err := desync.ChunkStream(context.Background(), c, nullWriteStore{}, 1+rng.Intn(8))
		caseLine := fmt.Sprintf("make.stream min=%d avg=%d max=%d data=%s", p.min, p.avg, p.max, hx(data))
		rep.Count(caseLine, strings.Count(seq, ",") >= 1, "stream:"+kind)
		if err != nil {
			monitor("ChunkStream failed: "+err.Error(), caseLine, "", "")
		} else {
			var starts, sizes []uint64
			for _, c := range idx.Chunks {
				starts = append(starts, c.Start)
				sizes = append(sizes, c.Size)
				if int(c.Start+c.Size) > len(data) || desync.Digest.Sum(data[c.Start:c.Start+c.Size]) != c.ID {
					monitor("ChunkStream records a wrong chunk ID", caseLine, "", "")
					break
				}
			}
			if got := pairsStr(starts, sizes); got != seq {
				monitor("ChunkStream index differs from the sequential chunk sequence", caseLine, got+" vs "+seq, "")
			}
		}
	}

	// (f) IndexFromFile under recorded cooperative schedules, traces validated against the Lean machine
	runC02Par(cfg, rep, m, rng)
	// (g) the digest changes within the process: IDs must follow it, null chunks included (c02digest.go)
	c02DigestSwitch(cfg, rep, rng)

	// (e) casync-pinned reference
	if in, err := os.ReadFile(filepath.Join(cfg.Repo, "testdata", "chunker.input")); err == nil {
		if ib, err := os.ReadFile(filepath.Join(cfg.Repo, "testdata", "chunker.index")); err == nil {
			ref, err := desync.IndexFromReader(bytes.NewReader(ib))
			if err == nil {
				p := chunkParams{ref.Index.ChunkSizeMin, ref.Index.ChunkSizeAvg, ref.Index.ChunkSizeMax}
				var starts, sizes []uint64
				for _, c := range ref.Chunks {
					starts = append(starts, c.Start)
					sizes = append(sizes, c.Size)
				}
				want := pairsStr(starts, sizes)
				line := mkCase("chunk.all", p, in, "")
				got := implChunkAll(line)
				if got != want {
					monitor("implementation disagrees with the casync-produced reference index", "chunk.all testdata/chunker.input", got, "")
				}
				if mres := m.Ask(line); mres != want && mres != "no-model" {
					rep.Disagree(Disagreement{Kind: "correspondence", Case: "chunk.all testdata/chunker.input", Model: clip(mres, 500), Impl: clip(want, 500),
						What: "model disagrees with the casync-produced reference index"})
				}
				rep.Count("chunk.all testdata/chunker.input", true, "reference")
			}
		}
	}
	rep.Write(cfg.Out)
}

// nullWriteStore accepts everything and holds nothing
type nullWriteStore struct{}

func (nullWriteStore) GetChunk(id desync.ChunkID) (*desync.Chunk, error) {
	return nil, desync.ChunkMissing{ID: id}
}
func (nullWriteStore) HasChunk(id desync.ChunkID) (bool, error) { return false, nil }
func (nullWriteStore) StoreChunk(c *desync.Chunk) error         { return nil }
func (nullWriteStore) Close() error                             { return nil }
func (nullWriteStore) String() string                           { return "null" }

// hashTableEntry0 reads the first entry of the buzhash table from the tree under check
func hashTableEntry0(repo string) (uint32, bool) {
	b, err := os.ReadFile(filepath.Join(repo, "chunker.go"))
	if err != nil {
		return 0, false
	}
	i := strings.Index(string(b), "var hashTable")
	if i < 0 {
		return 0, false
	}
	m := regexp.MustCompile(`0x[0-9a-fA-F]{1,8}`).FindString(string(b[i:]))
	if m == "" {
		return 0, false
	}
	v, err := strconv.ParseUint(m[2:], 16, 32)
	return uint32(v), err == nil
}
