package main

import (
	"bytes"
	"errors"
	"fmt"
	"math/rand"
	"runtime"
	"sort"
	"strconv"
	"strings"
	"sync"
	"time"

	"github.com/folbricht/desync"
)

func goid() int {
	var buf [64]byte
	n := runtime.Stack(buf[:], false)
	f := bytes.Fields(buf[:n])
	id, _ := strconv.Atoi(string(f[1]))
	return id
}

// cooperative scheduler for DedupQueue.GetChunk: exactly one caller runs between two yields
type dedupSched struct {
	mu      sync.Mutex
	gids    map[int]int // goroutine id -> caller
	arrive  chan arrival
	resume  []chan int // per caller: value to return from an upstream call (or 0)
	state   []string   // "yield:<site>" | "waiting" | "running" | "finished"
	results []int
	events  []string
	kinds   []byte
}

type arrival struct {
	t    int
	site string
}

func (s *dedupSched) caller() int {
	s.mu.Lock()
	defer s.mu.Unlock()
	t, ok := s.gids[goid()]
	if !ok {
		return -1
	}
	return t
}

func (s *dedupSched) yield(site string) int {
	t := s.caller()
	if t < 0 {
		return 0
	}
	s.arrive <- arrival{t, site}
	return <-s.resume[t]
}

// the upstream store: every call is a scheduling point, its result is chosen by the scheduler
type schedStore struct {
	s    *dedupSched
	data map[desync.ChunkID][]byte
}

func (u schedStore) GetChunk(id desync.ChunkID) (*desync.Chunk, error) {
	switch v := u.s.yield("up.call"); v {
	case 1:
		return desync.NewChunkWithID(id, u.data[id], true)
	case 2:
		return nil, desync.ChunkMissing{ID: id}
	default:
		return nil, errors.New("scripted upstream failure")
	}
}
func (u schedStore) HasChunk(id desync.ChunkID) (bool, error) { return false, nil }
func (u schedStore) Close() error                             { return nil }
func (u schedStore) String() string                           { return "sched" }

func resultCode(c *desync.Chunk, err error) int {
	if err == nil && c != nil {
		return 1
	}
	if _, ok := err.(desync.ChunkMissing); ok {
		return 2
	}
	return 3
}

// runDedupSchedule runs k callers over the given ids under a random schedule drawn from rng and
// returns the event trace, the per-caller results and the observed kinds; deadlock=true if the
// schedule got stuck
func runDedupSchedule(rng *rand.Rand, ids []int) (events []string, results []int, kinds string, deadlock bool, overlap bool) {
	k := len(ids)
	s := &dedupSched{gids: map[int]int{}, arrive: make(chan arrival, 64), resume: make([]chan int, k), state: make([]string, k), results: make([]int, k)}
	idOf := func(i int) desync.ChunkID { var id desync.ChunkID; id[0] = byte(i); return id }
	data := map[desync.ChunkID][]byte{}
	for _, i := range ids {
		data[idOf(i)] = []byte{byte(i), 1, 2, 3}
	}
	q := desync.NewDedupQueue(schedStore{s, data})
	desync.VerifYieldID = func(site string, id desync.ChunkID) { s.yield(site) }
	defer func() { desync.VerifYieldID = nil }()
	finished := make(chan int, k)
	for t := 0; t < k; t++ {
		s.resume[t] = make(chan int)
		s.state[t] = "yield:start"
		t := t
		go func() {
			s.mu.Lock()
			s.gids[goid()] = t
			s.mu.Unlock()
			<-s.resume[t] // start
			c, err := q.GetChunk(idOf(ids[t]))
			s.results[t] = resultCode(c, err)
			finished <- t
		}()
	}
	// wait until every goroutine registered
	for {
		s.mu.Lock()
		n := len(s.gids)
		s.mu.Unlock()
		if n == k {
			break
		}
		time.Sleep(50 * time.Microsecond)
	}
	inflight := map[int]int{} // id -> number of upstream calls in flight
	leaderOf := map[int]int{} // id -> caller currently registered as leader
	joined := map[int]int{}   // follower -> the leader whose request it joined
	marked := map[int]bool{}  // leader -> markDone has run
	// run lets the callers in ts run to their next yield (or to the end) and records their
	// arrivals. Only a leader's markDone step lets more than one caller run (the leader and
	// the followers it wakes); their arrivals are ordered marked-before-woke, which is the
	// order the close of the channel imposes. false on timeout.
	runN := func(t, v, expect int) bool {
		s.state[t] = "running"
		s.resume[t] <- v
		var arrs []arrival
		for n := 0; n < expect; n++ {
			select {
			case a := <-s.arrive:
				arrs = append(arrs, a)
			case t := <-finished:
				arrs = append(arrs, arrival{t, "finished"})
			case <-time.After(5 * time.Second):
				return false
			}
		}
		sort.SliceStable(arrs, func(i, j int) bool { // the woken followers by number, so that a seed gives one record
			mi, mj := arrs[i].site == "dedup.get.marked", arrs[j].site == "dedup.get.marked"
			if mi != mj {
				return mi
			}
			return arrs[i].t < arrs[j].t
		})
		for _, a := range arrs {
			if a.site == "finished" {
				s.state[a.t] = "finished"
				continue
			}
			s.state[a.t] = "yield:" + a.site
			switch a.site {
			case "dedup.get.lead":
				s.events = append(s.events, fmt.Sprintf("c:%d", a.t))
				s.kinds = append(s.kinds, 'L')
				leaderOf[ids[a.t]] = a.t
			case "dedup.get.join":
				s.events = append(s.events, fmt.Sprintf("c:%d", a.t))
				s.kinds = append(s.kinds, 'F')
				if l, ok := leaderOf[ids[a.t]]; ok {
					joined[a.t] = l
				} else {
					joined[a.t] = -1 // joined a request nobody leads: will be reported by the model
				}
			case "up.call":
				inflight[ids[a.t]]++
				if inflight[ids[a.t]] > 1 {
					overlap = true
				}
			case "dedup.get.marked":
				s.events = append(s.events, fmt.Sprintf("m:%d", a.t))
			case "dedup.get.deleted":
				s.events = append(s.events, fmt.Sprintf("d:%d", a.t))
				if leaderOf[ids[a.t]] == a.t {
					delete(leaderOf, ids[a.t])
				}
			case "dedup.get.woke":
				s.events = append(s.events, fmt.Sprintf("w:%d", a.t))
			}
		}
		return true
	}
	run := func(ts []int, vals []int) bool { return runN(ts[0], vals[0], 1) }
	for {
		var ready []int
		for t := 0; t < k; t++ {
			if strings.HasPrefix(s.state[t], "yield:") {
				ready = append(ready, t)
			}
		}
		if len(ready) == 0 {
			for t := 0; t < k; t++ {
				if s.state[t] != "finished" {
					deadlock = true
				}
			}
			break
		}
		t := ready[rng.Intn(len(ready))]
		site := strings.TrimPrefix(s.state[t], "yield:")
		ok := true
		switch site {
		case "up.call":
			v := 1 + rng.Intn(3)
			inflight[ids[t]]--
			ok = run([]int{t}, []int{v})
			if s.state[t] == "yield:dedup.get.upret" {
				s.events = append(s.events, fmt.Sprintf("u:%d:%d", t, v))
			}
		case "dedup.get.join":
			if l, has := joined[t]; has && l >= 0 && !marked[l] {
				// blocks in wait() until its leader's markDone; it runs again in that step
				s.state[t] = "waiting"
				s.resume[t] <- 0
			} else {
				ok = run([]int{t}, []int{0})
			}
		case "dedup.get.upret":
			// this step runs markDone: the leader and every follower waiting on it run
			// (the followers hold their token already: they are inside wait())
			marked[t] = true
			n := 1
			for f := 0; f < k; f++ {
				if s.state[f] == "waiting" && joined[f] == t {
					s.state[f] = "running"
					n++
				}
			}
			ok = runN(t, 0, n)
		default:
			ok = run([]int{t}, []int{0})
		}
		if !ok {
			deadlock = true
			break
		}
	}
	return s.events, s.results, string(s.kinds), deadlock, overlap
}

func runC12(cfg Config) {
	rep := NewReport("C12", cfg.Tier, cfg.Seed,
		"k = 1..6 concurrent GetChunk callers over 1..3 chunk IDs on a real DedupQueue, driven by a cooperative scheduler through the "+
			"verif yield sites (exactly one caller runs between two yields; upstream calls complete in scheduler-chosen order with data / "+
			"missing / error): the totally ordered event trace must be accepted by the Lean machine (trace validation), each caller's "+
			"result must equal the machine's, calls must resolve to leader/follower as in the machine; monitors: no deadlock, at most one "+
			"upstream call per ID in flight; writers / readers / HasChunk callers on ONE real WriteDedupQueue (and HasChunk callers on a DedupQueue) over a "+
			"scripted upstream store under the same kind of scheduler (uniform, priorities with change points, later callers first, bursts): the "+
			"trace must be a run of WdqSys.step (wdq.accept: WDedup.step + Dedup.step per kind) resp. Dedup.step, results equal; monitors: a read "+
			"that found a write in flight returns that write's chunk and error, a writer the error of its request's upstream call; plus free-running stress of DedupQueue (Get/Has) and WriteDedupQueue (Store/Get overlap) with a "+
			"gated store; the real HTTP chunk handler over a WriteDedupQueue over a held store (both formats): chunk objects and slow GET responses that readers "+
			"overlapping an upload were handed are re-checked after later uploads of other chunks. non-trivial = distinct trace with at least one follower")
	m, err := StartModel(cfg.Driver)
	if err != nil {
		fatal(err)
	}
	defer m.Close()
	rng := rand.New(rand.NewSource(cfg.Seed))
	monitor := func(what, caseLine string) {
		rep.Disagree(Disagreement{Kind: "monitor", Case: caseLine, What: what})
	}
	n := cfg.N(400, 8000)
	for it := 0; it < n; it++ {
		k := 1 + rng.Intn(6)
		nid := 1 + rng.Intn(3)
		ids := make([]int, k)
		for i := range ids {
			ids[i] = 1 + rng.Intn(nid)
		}
		events, results, kinds, deadlock, overlap := runDedupSchedule(rng, ids)
		var sids []string
		for _, i := range ids {
			sids = append(sids, strconv.Itoa(i))
		}
		line := fmt.Sprintf("dedup.accept ids=%s events=%s", strings.Join(sids, ","), strings.Join(events, ","))
		rep.Count(line, strings.Contains(kinds, "F"), "trace", fmt.Sprintf("callers:%d", k), fmt.Sprintf("followers:%d", strings.Count(kinds, "F")))
		rep.Traces++
		if deadlock {
			monitor("deadlock / lost wake-up: some caller never returned under this schedule", line)
			continue
		}
		if overlap {
			monitor("two upstream calls for the same chunk ID were in flight at the same time", line)
		}
		if m.cmd == nil {
			continue
		}
		var fin []string
		for _, r := range results {
			fin = append(fin, fmt.Sprintf("ret:%d", r))
		}
		want := "accept kinds=" + kinds + " final=" + strings.Join(fin, ",")
		got := m.Ask(line)
		if got != want {
			rep.Disagree(Disagreement{Kind: "correspondence", Case: line, Model: got, Impl: want,
				What: "the implementation's event trace is not a behaviour of the model (or results differ)"})
		}
	}

	// trace validation of WriteDedupQueue (writers, readers, HasChunk callers on one queue) and DedupQueue.HasChunk
	runC12Wdq(cfg, rep, m, rng)

	// the server composition: real HTTP handler over a WriteDedupQueue; what overlapping readers are handed stays valid
	c12HandlerHeld(cfg, rep, rng)

	// free-running stress: WriteDedupQueue (reads overlapping a write) and HasChunk
	for it := 0; it < cfg.N(150, 3000); it++ {
		gate := make(chan struct{})
		st := &gatedWriteStore{gate: gate, chunks: map[desync.ChunkID][]byte{}}
		q := desync.NewWriteDedupQueue(st)
		data := randBytes(rng, 20)
		chunk := desync.NewChunk(data)
		id := chunk.ID()
		var wg sync.WaitGroup
		errs := make(chan string, 16)
		writers := 1 + rng.Intn(3)
		readers := 1 + rng.Intn(3)
		for w := 0; w < writers; w++ {
			wg.Add(1)
			go func() {
				defer wg.Done()
				if err := q.StoreChunk(desync.NewChunk(data)); err != nil {
					errs <- "store failed: " + err.Error()
				}
			}()
		}
		time.Sleep(time.Duration(rng.Intn(200)) * time.Microsecond)
		for r := 0; r < readers; r++ {
			wg.Add(1)
			go func() {
				defer wg.Done()
				c, err := q.GetChunk(id)
				if err != nil {
					if _, ok := err.(desync.ChunkMissing); !ok {
						errs <- "read failed: " + err.Error()
					}
					return // a read that did not overlap the write may miss
				}
				if c == nil {
					errs <- "a read overlapping the write returned neither a chunk nor an error"
					return
				}
				b, _ := c.Data()
				if !bytes.Equal(b, data) {
					errs <- "a read overlapping the write returned other bytes"
				}
			}()
		}
		time.Sleep(time.Duration(rng.Intn(200)) * time.Microsecond)
		close(gate)
		done := make(chan struct{})
		go func() { wg.Wait(); close(done) }()
		caseLine := fmt.Sprintf("writededup it=%d writers=%d readers=%d", it, writers, readers)
		rep.Count(caseLine, true, "writededup")
		select {
		case <-done:
		case <-time.After(5 * time.Second):
			monitor("WriteDedupQueue: callers did not return (deadlock / lost wake-up)", caseLine)
		}
		close(errs)
		for e := range errs {
			monitor("WriteDedupQueue: "+e, caseLine)
		}
		if st.maxConcurrent > 1 {
			monitor("WriteDedupQueue: more than one upstream StoreChunk for one ID in flight", caseLine)
		}
	}
	// directed: a read that arrives while a write of the same chunk is in flight, with an earlier, slow read of
	// that chunk (started before the chunk existed, it will answer "missing") still upstream: the late read
	// overlaps the write and must see the chunk
	for it := 0; it < cfg.N(40, 600); it++ {
		st := &twoGateStore{getGate: make(chan struct{}), storeGate: make(chan struct{}), entered: make(chan string, 8), chunks: map[desync.ChunkID][]byte{}}
		q := desync.NewWriteDedupQueue(st)
		data := randBytes(rng, 24)
		chunk := desync.NewChunk(data)
		id := chunk.ID()
		earlyReader := it%3 != 2
		r1 := make(chan string, 1)
		if earlyReader {
			go func() {
				_, err := q.GetChunk(id)
				r1 <- fmt.Sprint(err)
			}()
			select {
			case <-st.entered:
			case <-time.After(5 * time.Second):
			}
		}
		wres := make(chan error, 1)
		go func() { wres <- q.StoreChunk(chunk) }()
		select {
		case <-st.entered:
		case <-time.After(5 * time.Second):
		}
		r2 := make(chan string, 1)
		// whether the late reader found the write in flight is read off the yield sites of WriteDedupQueue.GetChunk
		// ("wdq.get.join": it waits for the write; "wdq.get.pass": there was none, it goes on to the read queue) —
		// not guessed with a sleep: under load the reader may reach the queue only after the write has completed, and
		// such a read may legitimately join the early read and answer "missing" (false alarm of this monitor in the
		// thorough tier on a busy machine, session 7)
		lateSite := make(chan string, 4)
		desync.VerifYieldID = func(site string, yid desync.ChunkID) {
			if yid == id && (site == "wdq.get.join" || site == "wdq.get.pass") {
				select {
				case lateSite <- site:
				default:
				}
			}
		}
		go func() {
			c, err := q.GetChunk(id)
			if err != nil {
				r2 <- "error: " + err.Error()
				return
			}
			if c == nil {
				r2 <- "neither a chunk nor an error"
				return
			}
			b, _ := c.Data()
			if !bytes.Equal(b, data) {
				r2 <- "other bytes"
				return
			}
			r2 <- "chunk"
		}()
		foundWrite := false
		select {
		case site := <-lateSite:
			foundWrite = site == "wdq.get.join"
		case <-time.After(5 * time.Second):
		}
		desync.VerifYieldID = nil
		close(st.storeGate)
		caseLine := fmt.Sprintf("writededup-directed it=%d early-reader=%v", it, earlyReader)
		rep.Count(caseLine, foundWrite, "writededup-directed", fmt.Sprintf("writededup-directed:found-write=%v", foundWrite))
		var late string
		select {
		case late = <-r2:
		case <-time.After(3 * time.Second):
			// the late reader may (legitimately) have joined the early read: release it
			late = "blocked"
		}
		close(st.getGate)
		if late == "blocked" {
			select {
			case late = <-r2:
				late = "after the early read: " + late
			case <-time.After(5 * time.Second):
				late = "never returned"
			}
		}
		<-wres
		if foundWrite && late != "chunk" {
			monitor("WriteDedupQueue: a read that arrived while a write of the same chunk was in flight did not see that chunk: "+late, caseLine)
		}
	}
	// directed: requests of different kinds for one chunk ID overlap — a HasChunk while a GetChunk is upstream (which
	// then ends in "missing" or in an error) and the other way round.  Each caller must return the result of an
	// upstream request of its own kind: the queues of the two kinds do not feed one another
	for it := 0; it < cfg.N(40, 600); it++ {
		for _, wq := range []bool{false, true} {
			hasAnswer := it%2 == 0
			getOutcome := []string{"missing", "error", "data"}[it%3]
			data := randBytes(rng, 24)
			id := desync.Digest.Sum(data)
			st := &kindStore{gate: make(chan struct{}), entered: make(chan string, 8), hasAnswer: hasAnswer, getOutcome: getOutcome, data: data}
			var q desync.Store = desync.NewDedupQueue(st)
			if wq {
				q = desync.NewWriteDedupQueue(st)
			}
			first := []string{"get", "has"}[(it/3)%2] // which kind is in flight when the other arrives
			st.gated = first
			res := make(chan string, 2)
			call := func(kind string) {
				defer func() { // a request handed the result of the other kind (a *Chunk where a bool is expected) panics
					if r := recover(); r != nil {
						res <- kind + ":panic"
					}
				}()
				if kind == "get" {
					c, err := q.GetChunk(id)
					res <- "get:" + getStr(c, err, data)
				} else {
					ok, err := q.HasChunk(id)
					res <- fmt.Sprintf("has:%v:%v", ok, err != nil)
				}
			}
			go call(first)
			select {
			case <-st.entered:
			case <-time.After(5 * time.Second):
			}
			second := map[string]string{"get": "has", "has": "get"}[first]
			go call(second)
			var got []string
			select { // the second request does not depend on the first: it returns while the first is still held
			case r := <-res:
				got = append(got, r)
			case <-time.After(2 * time.Second):
				got = append(got, second+":blocked-behind-the-other-kind")
			}
			close(st.gate)
			select {
			case r := <-res:
				got = append(got, r)
			case <-time.After(5 * time.Second):
				got = append(got, "never-returned")
			}
			caseLine := fmt.Sprintf("dedup-kinds it=%d queue=%s in-flight=%s has-answer=%v get-outcome=%s", it, map[bool]string{false: "DedupQueue", true: "WriteDedupQueue"}[wq], first, hasAnswer, getOutcome)
			rep.Count(caseLine, true, "dedup-kinds")
			wantGet := "get:" + getOutcome
			wantHas := fmt.Sprintf("has:%v:false", hasAnswer)
			for _, g := range got {
				if strings.HasPrefix(g, "get:") && g != wantGet {
					monitor("a GetChunk overlapping a HasChunk of the same chunk returned "+g+", the upstream GetChunk answered "+getOutcome, caseLine)
				}
				if strings.HasPrefix(g, "has:") && g != wantHas {
					monitor(fmt.Sprintf("a HasChunk overlapping a GetChunk of the same chunk returned %s, the upstream HasChunk answers %v (upstream HasChunk calls: %d)", g, hasAnswer, st.hasCalls), caseLine)
				}
			}
			if st.hasCalls != 1 || st.getCalls != 1 {
				monitor(fmt.Sprintf("one GetChunk and one HasChunk were issued; upstream saw %d GetChunk and %d HasChunk requests", st.getCalls, st.hasCalls), caseLine)
			}
		}
	}
	// directed: several writers of one chunk while the upstream store fails that write: every writer, and every
	// reader overlapping the write, is told about the failure
	for it := 0; it < cfg.N(30, 400); it++ {
		st := &failingWriteStore{gate: make(chan struct{}), entered: make(chan struct{}, 16)}
		q := desync.NewWriteDedupQueue(st)
		data := randBytes(rng, 24)
		nw := 2 + rng.Intn(4)
		res := make(chan string, 16)
		for w := 0; w < nw; w++ {
			go func() {
				if err := q.StoreChunk(desync.NewChunk(data)); err != nil {
					res <- "w:error"
				} else {
					res <- "w:nil"
				}
			}()
			if w == 0 {
				select {
				case <-st.entered:
				case <-time.After(5 * time.Second):
				}
			}
		}
		nr := rng.Intn(3)
		for r := 0; r < nr; r++ {
			go func() {
				if _, err := q.GetChunk(desync.Digest.Sum(data)); err != nil {
					res <- "r:error"
				} else {
					res <- "r:nil"
				}
			}()
		}
		time.Sleep(time.Duration(300+rng.Intn(1500)) * time.Microsecond)
		close(st.gate)
		caseLine := fmt.Sprintf("writededup-failing it=%d writers=%d readers=%d", it, nw, nr)
		rep.Count(caseLine, true, "writededup-failing")
		for k := 0; k < nw+nr; k++ {
			select {
			case r := <-res:
				if r == "w:nil" {
					monitor(fmt.Sprintf("StoreChunk reported success although every upstream StoreChunk request failed (%d upstream requests)", st.calls), caseLine)
				}
				if r == "r:nil" {
					monitor("a GetChunk reported success for a chunk whose only write failed and which the store does not hold", caseLine)
				}
			case <-time.After(5 * time.Second):
				monitor("a caller of the write queue never returned", caseLine)
			}
		}
	}
	c12SharedChunk(cfg, rep, rng)
	rep.Write(cfg.Out)
}

func getStr(c *desync.Chunk, err error, data []byte) string {
	switch {
	case err != nil:
		if _, ok := err.(desync.ChunkMissing); ok {
			return "missing"
		}
		return "error"
	case c == nil:
		return "nil-chunk"
	}
	b, _ := c.Data()
	if !bytes.Equal(b, data) {
		return "other-bytes"
	}
	return "data"
}

// kindStore: requests of kind `gated` block at entry until the gate opens; answers are fixed
type kindStore struct {
	mu         sync.Mutex
	gate       chan struct{}
	entered    chan string
	gated      string
	hasAnswer  bool
	getOutcome string
	data       []byte
	getCalls   int
	hasCalls   int
}

func (s *kindStore) GetChunk(id desync.ChunkID) (*desync.Chunk, error) {
	s.mu.Lock()
	s.getCalls++
	s.mu.Unlock()
	if s.gated == "get" {
		s.entered <- "get"
		<-s.gate
	}
	switch s.getOutcome {
	case "missing":
		return nil, desync.ChunkMissing{ID: id}
	case "error":
		return nil, errors.New("upstream failure")
	}
	return desync.NewChunkWithID(id, s.data, false)
}
func (s *kindStore) HasChunk(id desync.ChunkID) (bool, error) {
	s.mu.Lock()
	s.hasCalls++
	s.mu.Unlock()
	if s.gated == "has" {
		s.entered <- "has"
		<-s.gate
	}
	return s.hasAnswer, nil
}
func (s *kindStore) StoreChunk(c *desync.Chunk) error { return nil }
func (s *kindStore) Close() error                     { return nil }
func (s *kindStore) String() string                   { return "kinds" }

// failingWriteStore: StoreChunk blocks until the gate opens, then fails; the store holds nothing
type failingWriteStore struct {
	mu      sync.Mutex
	gate    chan struct{}
	entered chan struct{}
	calls   int
}

func (s *failingWriteStore) GetChunk(id desync.ChunkID) (*desync.Chunk, error) {
	return nil, desync.ChunkMissing{ID: id}
}
func (s *failingWriteStore) HasChunk(id desync.ChunkID) (bool, error) { return false, nil }
func (s *failingWriteStore) StoreChunk(c *desync.Chunk) error {
	s.mu.Lock()
	s.calls++
	s.mu.Unlock()
	select {
	case s.entered <- struct{}{}:
	default:
	}
	<-s.gate
	return errors.New("upstream store failure")
}
func (s *failingWriteStore) Close() error   { return nil }
func (s *failingWriteStore) String() string { return "failing-write" }

// twoGateStore: GetChunk decides at entry (the chunk is not there yet), then blocks; StoreChunk blocks before storing
type twoGateStore struct {
	mu        sync.Mutex
	getGate   chan struct{}
	storeGate chan struct{}
	entered   chan string
	chunks    map[desync.ChunkID][]byte
}

func (s *twoGateStore) GetChunk(id desync.ChunkID) (*desync.Chunk, error) {
	s.mu.Lock()
	b, ok := s.chunks[id]
	s.mu.Unlock()
	s.entered <- "get"
	<-s.getGate
	if !ok {
		return nil, desync.ChunkMissing{ID: id}
	}
	return desync.NewChunkWithID(id, b, false)
}
func (s *twoGateStore) HasChunk(id desync.ChunkID) (bool, error) { return false, nil }
func (s *twoGateStore) StoreChunk(c *desync.Chunk) error {
	s.entered <- "store"
	<-s.storeGate
	b, _ := c.Data()
	s.mu.Lock()
	s.chunks[c.ID()] = b
	s.mu.Unlock()
	return nil
}
func (s *twoGateStore) Close() error   { return nil }
func (s *twoGateStore) String() string { return "two-gate" }

type gatedWriteStore struct {
	mu            sync.Mutex
	gate          chan struct{}
	chunks        map[desync.ChunkID][]byte
	inflight      int
	maxConcurrent int
}

func (s *gatedWriteStore) GetChunk(id desync.ChunkID) (*desync.Chunk, error) {
	s.mu.Lock()
	b, ok := s.chunks[id]
	s.mu.Unlock()
	if !ok {
		return nil, desync.ChunkMissing{ID: id}
	}
	return desync.NewChunkWithID(id, b, false)
}
func (s *gatedWriteStore) HasChunk(id desync.ChunkID) (bool, error) {
	s.mu.Lock()
	defer s.mu.Unlock()
	_, ok := s.chunks[id]
	return ok, nil
}
func (s *gatedWriteStore) StoreChunk(c *desync.Chunk) error {
	s.mu.Lock()
	s.inflight++
	if s.inflight > s.maxConcurrent {
		s.maxConcurrent = s.inflight
	}
	s.mu.Unlock()
	<-s.gate
	b, _ := c.Data()
	s.mu.Lock()
	s.chunks[c.ID()] = b
	s.inflight--
	s.mu.Unlock()
	return nil
}
func (s *gatedWriteStore) Close() error   { return nil }
func (s *gatedWriteStore) String() string { return "gated" }
