package main

// Trace validation of concurrent read requests on ONE handle of an index mount (C09): several
// indexFileHandle.read requests run on one handle under a cooperative scheduler installed through the
// verifMountHandle hooks of mount-index.go (build tag verif) — exactly one goroutine runs between two hook
// calls — and the record of who took the mutex, called Seek, called Read and released the mutex in which
// order is replayed through the Lean step machine MountHandle.step with the locked shape (driver command
// mh.accept), over a scripted store whose k-th call fails: the machine must accept the record and must
// return, request by request, what the implementation returned.
//
// Blocking is derived from the trace, never from time-outs: a request announces that it is about to take
// the mutex (hook "want") and is only resumed when, according to the records so far, nobody holds it.
// Time-outs only detect a goroutine that never comes back.

import (
	"bytes"
	"fmt"
	"math/rand"
	"strconv"
	"strings"
	"time"

	"github.com/folbricht/desync"
)

type mhArrival struct {
	r  int
	ev string // "" = the request has returned
}

// mhRun runs the requests on one handle; pick chooses the request to resume among the runnable ones (-1: give up)
func mhRun(idx desync.Index, store *scriptedStore, reqs [][2]int, pick func(runnable []int, step int) int) (events, results []string, problem string) {
	h, ok := desync.VerifNewIndexMountFile(idx, store).Open()
	if !ok {
		return nil, nil, "open-error"
	}
	k := len(reqs)
	arrive := make(chan mhArrival, 16*k+16)
	resume := make([]chan struct{}, k)
	key := map[[2]int]int{}
	for i, q := range reqs {
		key[q] = i
		resume[i] = make(chan struct{})
	}
	desync.VerifMountHandle = func(ev string, off int64, n int) {
		r, ok := key[[2]int{int(off), n}]
		if !ok {
			return
		}
		arrive <- mhArrival{r, ev}
		<-resume[r]
	}
	defer func() {
		for i := range resume {
			close(resume[i]) // whoever is still parked (after a problem) runs to its end
		}
		desync.VerifMountHandle = nil
	}()
	results = make([]string, k)
	for i, q := range reqs {
		go func(i int, q [2]int) {
			defer func() {
				if p := recover(); p != nil {
					results[i] = "panic"
				}
				arrive <- mhArrival{i, ""}
			}()
			b, ok := h.Read(make([]byte, q[1]), int64(q[0]))
			if !ok {
				results[i] = "EIO"
			} else {
				results[i] = "d" + hx(b)
			}
		}(i, q)
	}
	parked := make([]string, k)
	finished := make([]bool, k)
	wait := func() bool {
		select {
		case a := <-arrive:
			if a.ev == "" {
				finished[a.r] = true
			} else {
				parked[a.r] = a.ev
			}
			return true
		case <-time.After(10 * time.Second):
			return false
		}
	}
	for i := 0; i < k; i++ {
		if !wait() {
			return events, results, "a-request-did-not-reach-its-first-hook"
		}
	}
	holder := -1
	for step := 0; ; step++ {
		var runnable []int
		all := true
		for i := 0; i < k; i++ {
			if !finished[i] {
				all = false
			}
			if parked[i] != "" && (parked[i] != "want" || holder == -1) {
				runnable = append(runnable, i)
			}
		}
		if all {
			return events, results, ""
		}
		if len(runnable) == 0 {
			return events, results, "no-request-can-move"
		}
		r := pick(runnable, step)
		if r < 0 {
			return events, results, "schedule-not-reproducible"
		}
		switch parked[r] {
		case "want":
			events = append(events, "l:"+strconv.Itoa(r))
			holder = r
		case "seek":
			events = append(events, "s:"+strconv.Itoa(r))
		case "read":
			events = append(events, "r:"+strconv.Itoa(r))
		case "unlock":
			events = append(events, "u:"+strconv.Itoa(r))
			if holder == r {
				holder = -1
			}
		}
		parked[r] = ""
		resume[r] <- struct{}{}
		if !wait() {
			return events, results, "a-request-did-not-come-back"
		}
	}
}

func mhAnswer(results []string, problem string, calls int) string {
	if problem != "" {
		return "impl-" + problem
	}
	return "ok " + strings.Join(results, ",") + " calls=" + strconv.Itoa(calls)
}

// mhScenario rebuilds index, store and requests from a case line
func mhScenario(a map[string]string) (desync.Index, *scriptedStore, [][2]int) {
	blobs := map[int][]byte{}
	if a["blobs"] != "" {
		for _, p := range strings.Split(a["blobs"], ";") {
			f := strings.SplitN(p, "=", 2)
			k, _ := strconv.Atoi(f[0])
			blobs[k] = unhx(f[1])
		}
	}
	var nulllen uint64
	fmt.Sscan(a["nulllen"], &nulllen)
	idx := desync.Index{Index: desync.FormatIndex{ChunkSizeMax: nulllen}}
	store := &scriptedStore{data: map[desync.ChunkID][]byte{}, fail: map[int]bool{}}
	if a["chunks"] != "" {
		for _, p := range strings.Split(a["chunks"], ",") {
			f := strings.Split(p, ":")
			k, _ := strconv.Atoi(f[0])
			var st, sz uint64
			fmt.Sscan(f[1], &st)
			fmt.Sscan(f[2], &sz)
			id := desync.Digest.Sum(blobs[k])
			idx.Chunks = append(idx.Chunks, desync.IndexChunk{ID: id, Start: st, Size: sz})
			store.data[id] = blobs[k]
		}
	}
	if a["fail"] != "" {
		for _, f := range strings.Split(a["fail"], ",") {
			k, _ := strconv.Atoi(f)
			store.fail[k] = true
		}
	}
	var reqs [][2]int
	if a["reqs"] != "" {
		for _, p := range strings.Split(a["reqs"], ",") {
			f := strings.Split(p, ":")
			o, _ := strconv.Atoi(f[0])
			n, _ := strconv.Atoi(f[1])
			reqs = append(reqs, [2]int{o, n})
		}
	}
	return idx, store, reqs
}

// implMhAccept re-runs the schedule of a recorded trace on the real code (replay)
func implMhAccept(line string) string {
	_, a := parseCase(line)
	idx, store, reqs := mhScenario(a)
	var order []int
	if a["events"] != "" {
		for _, e := range strings.Split(a["events"], ",") {
			f := strings.Split(e, ":")
			r, _ := strconv.Atoi(f[len(f)-1])
			order = append(order, r)
		}
	}
	_, results, problem := mhRun(idx, store, reqs, func(runnable []int, step int) int {
		if step < len(order) {
			for _, r := range runnable {
				if r == order[step] {
					return r
				}
			}
			return -1
		}
		return runnable[0]
	})
	return mhAnswer(results, problem, store.ncalls())
}

// runC09Handle: scheduled runs of concurrent requests on one handle, validated against the Lean machine
func runC09Handle(cfg Config, rep *Report, m *Model, rng *rand.Rand, monitor func(what, caseLine, impl string)) {
	runs := cfg.N(1500, 30000)
	t0 := time.Now()
	for it := 0; it < runs; it++ {
		max := uint64(4 + rng.Intn(12))
		nch := 1 + rng.Intn(6)
		if rng.Intn(12) == 0 {
			nch = 0
		}
		c := ipCase{ids: map[desync.ChunkID]int{}, store: map[desync.ChunkID][]byte{}}
		c.idx.Index.ChunkSizeMax = max
		var pool [][]byte
		for i := 0; i < nch; i++ {
			var b []byte
			switch rng.Intn(5) {
			case 0:
				b = make([]byte, max) // null chunk
			case 1:
				if len(pool) > 0 {
					b = pool[rng.Intn(len(pool))] // repeated chunk
				} else {
					b = randBytes(rng, 1+rng.Intn(int(max)))
				}
			default:
				b = randBytes(rng, 1+rng.Intn(int(max)))
			}
			pool = append(pool, b)
			id := desync.Digest.Sum(b)
			if _, ok := c.ids[id]; !ok {
				c.ids[id] = len(c.ids) + 1
			}
			c.store[id] = b
			c.idx.Chunks = append(c.idx.Chunks, desync.IndexChunk{ID: id, Start: uint64(len(c.blob)), Size: uint64(len(b))})
			c.blob = append(c.blob, b...)
		}
		L := len(c.blob)
		k := 2 + rng.Intn(3)
		var reqs [][2]int
		seen := map[[2]int]bool{}
		for len(reqs) < k {
			q := [2]int{rng.Intn(L + 3), rng.Intn(int(max)*2 + 1)}
			if !seen[q] { // the hooks tell the requests apart by (offset, length)
				seen[q] = true
				reqs = append(reqs, q)
			}
		}
		var fail []int
		if rng.Intn(2) == 0 {
			for j := 0; j < 1+rng.Intn(3); j++ {
				fail = append(fail, rng.Intn(8))
			}
		}
		store := &scriptedStore{data: c.store, fail: map[int]bool{}}
		for _, f := range fail {
			store.fail[f] = true
		}
		events, results, problem := mhRun(c.idx, store, reqs, func(runnable []int, step int) int { return runnable[rng.Intn(len(runnable))] })
		var rs []string
		for _, q := range reqs {
			rs = append(rs, fmt.Sprintf("%d:%d", q[0], q[1]))
		}
		line := strings.TrimSuffix(strings.Replace(c.line(nil, fail), "ip.ops ", "mh.accept ", 1), " ops=") +
			" reqs=" + strings.Join(rs, ",") + " events=" + strings.Join(events, ",")
		answer := mhAnswer(results, problem, store.ncalls())
		// the order in which the requests got the mutex is the scheduler's choice: how often it is not the order of issue
		reordered, last := false, -1
		for _, e := range events {
			if e[0] == 'l' {
				r, _ := strconv.Atoi(e[2:])
				if r < last {
					reordered = true
				}
				last = r
			}
		}
		tag := "mount-handle-trace"
		if reordered {
			tag = "mount-handle-trace:lock-order-not-issue-order"
		}
		rep.Count(line, nch >= 2, tag)
		rep.Histogram["mount-handle-trace:records"] += len(events)
		rep.Compare(m, line, func(string) string { return answer }, nil)
		for i, q := range reqs {
			if i < len(results) && strings.HasPrefix(results[i], "d") {
				want := []byte{}
				if q[0] < L {
					want = c.blob[q[0]:min(L, q[0]+q[1])]
				}
				if !bytes.Equal(unhx(results[i][1:]), want) {
					monitor(fmt.Sprintf("under a scheduled interleaving of requests on one handle, request %d (offset %d, %d bytes) returned bytes that are not the blob's at its offset", i, q[0], q[1]), line, answer)
				}
			}
		}
	}
	rep.Notes = append(rep.Notes, fmt.Sprintf("mh.accept: %d scheduled runs of 2..4 requests on one handle in %.1f s", runs, time.Since(t0).Seconds()))
}
