package main

// C16, the `desync verify` command itself (cmd/desync/verify.go is an anchor of the property): what the user gets is the
// process's report on stderr, its exit status and the files left in the store, with the command's own default plumbing
// (writer handed to the workers, -n, -r, store options from the configuration file) in between.
//
// The stores here are badly damaged ones: hundreds to a few thousand small chunk files, most of them invalid, next to
// valid ones, files of the other format and files that are no chunks, so that many workers have something to report at
// the same moment.  For every run: the process ends by itself with status 0, the report names exactly the invalid
// chunks of the store's own format, each of them in exactly one line, all lines of one form (nothing cut, merged or
// interleaved), and with -r exactly those files are gone afterwards (without -r nothing is).

import (
	"fmt"
	"math/rand"
	"os"
	"path/filepath"
	"regexp"
	"sort"
	"strings"
	"time"

	"github.com/folbricht/desync"
)

var c16HexRun = regexp.MustCompile(`[0-9a-fA-F]{64,}`)

// c16ReportProblem checks a report of verify against the IDs that have to be in it.  It returns "" or a sentence.
func c16ReportProblem(report string, bad map[string]bool, known map[string]string) string {
	if report != "" && !strings.HasSuffix(report, "\n") {
		return "the report of desync verify ends in the middle of a line"
	}
	named := map[string]int{}
	forms := map[string]int{}
	var firstForm string
	for _, l := range strings.Split(strings.TrimSuffix(report, "\n"), "\n") {
		if l == "" && report == "" {
			break
		}
		runs := c16HexRun.FindAllString(l, -1)
		if len(runs) == 0 {
			return fmt.Sprintf("the report of desync verify has a line that names no chunk: %q", clip(l, 200))
		}
		for _, r := range runs {
			if len(r) != 64 {
				return fmt.Sprintf("the report of desync verify has a mangled line (a run of %d hex digits): %q", len(r), clip(l, 300))
			}
		}
		id := runs[0]
		if !bad[id] {
			what := known[id]
			if what == "" {
				what = "an ID that is not in the store"
			}
			return fmt.Sprintf("desync verify reports %s: %q", what, clip(l, 300))
		}
		// a second invalid chunk named in the same line: two messages merged (the hash that a line gives after the ID
		// may well be the ID of a valid chunk: its content under a wrong name)
		for _, r := range runs[1:] {
			if bad[r] {
				return fmt.Sprintf("the report of desync verify has a line naming two chunks of the store: %q", clip(l, 300))
			}
		}
		named[id]++
		form := c16HexRun.ReplaceAllString(l, "#")
		if forms[form] == 0 && firstForm == "" {
			firstForm = form
		}
		forms[form]++
	}
	for id, k := range named {
		if k > 1 {
			return fmt.Sprintf("desync verify reports the invalid chunk %s %d times", id, k)
		}
	}
	if len(named) != len(bad) {
		var missing []string
		for id := range bad {
			if named[id] == 0 {
				missing = append(missing, id)
			}
		}
		sort.Strings(missing)
		return fmt.Sprintf("desync verify does not report %d of the %d invalid chunks of the store (first: %s)", len(missing), len(bad), missing[0])
	}
	if len(forms) > 1 {
		var other string
		for f := range forms {
			if f != firstForm && (other == "" || f < other) {
				other = f
			}
		}
		return fmt.Sprintf("the lines of the report of desync verify are not all of one form (cut or merged lines): %q and %q", clip(firstForm, 150), clip(other, 150))
	}
	return ""
}

func c16VerifyCLI(cfg Config, rep *Report, rng *rand.Rand) {
	bin := desyncBin()
	if bin == "" {
		rep.Notes = append(rep.Notes, "desync binary not built: `desync verify` runs skipped")
		return
	}
	setDigest("sha512")
	dir := filepath.Join(cfg.Work, "cli16verify")
	defer os.RemoveAll(dir)
	t0 := time.Now()
	defer func() {
		rep.Notes = append(rep.Notes, fmt.Sprintf("`desync verify` on badly damaged stores (c16verifycli.go): %.1fs", time.Since(t0).Seconds()))
	}()
	for it := 0; it < cfg.N(6, 30); it++ {
		os.RemoveAll(dir)
		root := filepath.Join(dir, "store")
		os.MkdirAll(root, 0755)
		unc := it%2 == 1
		if rng.Intn(4) == 0 {
			unc = !unc
		}
		ownExt, otherExt := ".cacnk", ""
		if unc {
			ownExt, otherExt = "", ".cacnk"
		}
		own, err1 := desync.NewLocalStore(root, desync.StoreOptions{Uncompressed: unc})
		other, err2 := desync.NewLocalStore(root, desync.StoreOptions{Uncompressed: !unc})
		if err1 != nil || err2 != nil {
			continue
		}
		// the configuration file gives the format of the store; a compressed store is also run without one
		conf := filepath.Join(dir, "config.json")
		os.WriteFile(conf, []byte(fmt.Sprintf(`{"store-options": {%q: {"uncompressed": %v}}}`, root, unc)), 0644)
		useConf := unc || rng.Intn(2) == 0

		known := map[string]string{} // ID -> what it is, for the ones verify must not mention
		bad := map[string]bool{}     // IDs of the invalid chunks of the store's own format
		keepFiles := map[string]bool{}
		rel := func(sid, ext string) string { return filepath.Join(sid[:4], sid+ext) }
		made := map[string]bool{}
		put := func(r string, b []byte) {
			if d := filepath.Dir(r); !made[d] {
				os.MkdirAll(filepath.Join(root, d), 0755)
				made[d] = true
			}
			os.WriteFile(filepath.Join(root, r), b, 0644)
		}
		// the invalid chunks share a limited number of the store's xxxx/ directories (a store grown large looks like
		// that, and it keeps building and walking the store cheap)
		prefixes := make([]string, []int{8, 32, 128}[rng.Intn(3)])
		for k := range prefixes {
			prefixes[k] = hx(randBytes(rng, 2))
		}
		// valid chunks
		nValid := 5 + rng.Intn(60)
		var someStored [][]byte // stored form of valid chunks: decodable content for a file under another ID
		for k := 0; k < nValid; k++ {
			c := desync.NewChunk(randBytes(rng, 16+rng.Intn(200)))
			if own.StoreChunk(c) != nil {
				continue
			}
			id := c.ID()
			known[id.String()] = "a valid chunk as invalid"
			keepFiles[rel(id.String(), ownExt)] = true
			if len(someStored) < 8 {
				b, _ := os.ReadFile(filepath.Join(root, rel(id.String(), ownExt)))
				someStored = append(someStored, b)
			}
		}
		// many invalid ones: garbage, an empty file, the (decodable) content of another chunk
		nBad := []int{150, 400, 900, 1600, 2500}[rng.Intn(5)] + rng.Intn(100)
		if it == 0 {
			nBad = 2000 + rng.Intn(1000)
		}
		for k := 0; k < nBad; k++ {
			sid := prefixes[rng.Intn(len(prefixes))] + hx(randBytes(rng, 30))
			var b []byte
			switch rng.Intn(8) {
			case 0:
			case 1, 2:
				if len(someStored) > 0 {
					b = someStored[rng.Intn(len(someStored))]
				}
			default:
				b = randBytes(rng, 1+rng.Intn(40))
			}
			put(rel(sid, ownExt), b)
			bad[sid] = true
		}
		// the other format, valid and damaged: none of this store's business
		for k := 0; k < 3+rng.Intn(20); k++ {
			c := desync.NewChunk(randBytes(rng, 16+rng.Intn(200)))
			id := c.ID()
			sid := id.String()
			if other.StoreChunk(c) != nil {
				continue
			}
			if rng.Intn(2) == 0 {
				put(rel(sid, otherExt), []byte("damaged"))
			}
			known[sid] = "a chunk file of the other format"
			keepFiles[rel(sid, otherExt)] = true
		}
		// files that are no chunks
		for k := 0; k < 2+rng.Intn(6); k++ {
			sid := hx(randBytes(rng, 32))
			r := filepath.Join(sid[:4], []string{"README", ".tmp-cacnk123", sid[:60] + ownExt, sid + ".txt"}[rng.Intn(4)])
			put(r, []byte("junk"))
			keepFiles[r] = true
		}
		badFiles := map[string]bool{}
		for sid := range bad {
			badFiles[rel(sid, ownExt)] = true
		}
		filesNow := func() map[string]bool {
			out := map[string]bool{}
			filepath.Walk(root, func(p string, info os.FileInfo, err error) error {
				if err == nil && !info.IsDir() {
					r, _ := filepath.Rel(root, p)
					out[r] = true
				}
				return nil
			})
			return out
		}

		// without -r with several worker counts (the store is the same afterwards), then with -r, then once more
		type run struct {
			n      int // 0: the command's default
			repair bool
			after  bool // the store has been repaired: nothing is left to report
		}
		var runs []run
		for k := 0; k < 5; k++ {
			runs = append(runs, run{n: []int{0, 1, 2, 3, 4, 6, 8, 12, 16}[rng.Intn(9)]})
		}
		runs = append(runs, run{n: []int{0, 2, 4, 8, 16}[rng.Intn(5)], repair: true})
		runs = append(runs, run{n: 1 + rng.Intn(16), after: true})
		for _, r := range runs {
			var args []string
			if useConf {
				args = append(args, "--config", conf)
			}
			args = append(args, "verify", "-s", root)
			if r.n > 0 {
				args = append(args, "-n", fmt.Sprint(r.n))
			}
			if r.repair {
				args = append(args, "-r")
			}
			caseLine := fmt.Sprintf("cli.verify it=%d seed=%d uncompressed=%v config=%v invalid=%d valid=%d other-files=%d n=%d repair=%v after-repair=%v: desync %s",
				it, cfg.Seed, unc, useConf, len(bad), nValid, len(keepFiles)-nValid, r.n, r.repair, r.after, strings.Join(args, " "))
			rep.Count(caseLine, true, "cli-verify", fmt.Sprintf("cli-verify-n:%s", bucket(r.n)), fmt.Sprintf("cli-verify-repair:%v", r.repair),
				fmt.Sprintf("cli-verify-invalid:%d00+", len(bad)/100))
			monitor := func(what, impl string) {
				rep.Disagree(Disagreement{Kind: "monitor", Case: caseLine, Impl: clip(impl, 1500), What: what})
			}
			res := runCLI(bin, nil, nil, 60*time.Second, args...)
			expectBad := bad
			if r.after {
				expectBad = map[string]bool{}
			}
			failed := false
			switch {
			case res.exit == -1:
				monitor("desync verify did not end by itself on a store with many invalid chunks", res.stderr)
				failed = true
			case res.exit != 0:
				what := fmt.Sprintf("desync verify ended with status %d on a store it can read (invalid chunks are reported, they are not a failure of the command)", res.exit)
				if strings.Contains(res.stderr, "panic:") || strings.Contains(res.stderr, "goroutine ") {
					what = fmt.Sprintf("desync verify crashed (status %d) on a store with many invalid chunks", res.exit)
				}
				tail := res.stderr
				if i := strings.Index(tail, "panic:"); i >= 0 {
					tail = tail[i:]
				}
				monitor(what, tail)
				failed = true
			default:
				if p := c16ReportProblem(res.stderr, expectBad, known); p != "" {
					monitor(p, res.stderr)
					failed = true
				}
			}
			// the files: with -r exactly the invalid chunk files are gone, without nothing is
			now := filesNow()
			gone, left, lost := 0, 0, ""
			for f := range badFiles {
				if now[f] {
					left++
				} else {
					gone++
				}
			}
			for f := range keepFiles {
				if !now[f] && (lost == "" || f < lost) {
					lost = f
				}
			}
			switch {
			case lost != "":
				monitor("desync verify removed a file that is not an invalid chunk of the store: "+lost, "")
				failed = true
			case !r.repair && !r.after && gone > 0:
				monitor(fmt.Sprintf("desync verify without -r removed %d chunk files", gone), "")
				failed = true
			case (r.repair || r.after) && left > 0:
				monitor(fmt.Sprintf("desync verify -r left %d of the %d invalid chunks in the store", left, len(badFiles)), clip(res.stderr, 300))
				failed = true
			}
			if failed {
				break // what follows on this store would only repeat it
			}
		}
	}
}
