package main

// Trace validation of the "feeder + N workers + errgroup" functions (C06/C07/C17): VerifyIndex,
// ChopFile and Copy run under a cooperative scheduler installed through the verifPool hooks of
// verifyindex.go / chop.go / copy.go (build tag verif).  Exactly one goroutine runs between two
// hook calls, with two exceptions that are in the nature of the code: the rendezvous on the
// unbuffered job channel (the feeder and the receiving worker continue together) and close(in)
// (the feeder and every worker blocked in its receive continue together).  Channel operations block
// inside the runtime where there is no hook, so every blocking operation is announced before it
// is made (the feeder's "select", a worker's "start"/"ok" before it receives, the feeder's "wait")
// and the scheduler derives from the recorded trace who can proceed: a send needs a worker that is
// inside its receive, the Done arm needs a cancelled context, `range in` ends only after the close,
// g.Wait returns only after every worker has left.  No time-out decides anything; the 8 s
// watchdog only turns a goroutine that never reaches its next hook into a reported problem.
//
// The recorded events (parent cancellation, rendezvous with worker w, break, end of the loop,
// job ok / failed, worker exit, Wait) are replayed by the driver (pool.accept) through Pool.step
// with the function's regenerated PoolShape; the machine's result and its list of completed jobs
// must be what the function returned and what the workers really completed.

import (
	"bytes"
	"context"
	"errors"
	"fmt"
	"math/rand"
	"os"
	"path/filepath"
	"runtime"
	"strconv"
	"strings"
	"sync"
	"sync/atomic"
	"time"

	"github.com/folbricht/desync"
)

type poolArr struct {
	actor int // worker index, -1 = feeder / the calling goroutine
	ev    string
	job   int
	err   error // with ev "finished"
}

type poolSched struct {
	fn      string
	mu      sync.Mutex
	gids    map[int]int
	arrive  chan poolArr
	resume  map[int]chan struct{}
	free    atomic.Bool
	derived context.Context
}

func (s *poolSched) park(a poolArr) {
	s.mu.Lock()
	ch := s.resume[a.actor]
	s.mu.Unlock()
	if ch == nil {
		return // an actor the scheduler does not know (a worker index beyond n)
	}
	s.arrive <- a
	<-ch
}

func (s *poolSched) hook(fn, ev string, w, job int) {
	if s.free.Load() || fn != s.fn {
		return
	}
	if ev == "start" {
		s.mu.Lock()
		s.gids[goid()] = w
		s.mu.Unlock()
	}
	s.park(poolArr{actor: w, ev: ev, job: job})
}

// storeCall is a scheduling point before every call of a scripted store made by a worker
func (s *poolSched) storeCall(op string) {
	if s == nil || s.free.Load() {
		return
	}
	s.mu.Lock()
	w, ok := s.gids[goid()]
	s.mu.Unlock()
	if !ok {
		return
	}
	s.park(poolArr{actor: w, ev: "call:" + op, job: -1})
}

// poolStore: an in-memory store; the k-th call over all stores sharing `calls` fails (if its kind
// is failOp or failOp is empty); every call is a scheduling point
type poolCalls struct {
	n      int
	failAt int
	failOp string
	failed int // scripted failures handed out
}

type poolStore struct {
	mu     sync.Mutex
	chunks map[desync.ChunkID][]byte
	calls  *poolCalls
	sched  *poolSched
	stores int              // successful StoreChunk calls
	stored []desync.ChunkID // IDs for which StoreChunk returned nil
	had    []desync.ChunkID // IDs for which HasChunk returned true
}

func (s *poolStore) tick(op string) bool {
	s.sched.storeCall(op)
	s.mu.Lock()
	defer s.mu.Unlock()
	k := s.calls.n
	s.calls.n++
	if k == s.calls.failAt && (s.calls.failOp == "" || s.calls.failOp == op) {
		s.calls.failed++
		return true
	}
	return false
}

func (s *poolStore) GetChunk(id desync.ChunkID) (*desync.Chunk, error) {
	if s.tick("get") {
		return nil, errors.New("scripted get failure")
	}
	s.mu.Lock()
	b, ok := s.chunks[id]
	s.mu.Unlock()
	if !ok {
		return nil, desync.ChunkMissing{ID: id}
	}
	return desync.NewChunkWithID(id, b, false)
}

func (s *poolStore) HasChunk(id desync.ChunkID) (bool, error) {
	if s.tick("has") {
		return false, errors.New("scripted has failure")
	}
	s.mu.Lock()
	_, ok := s.chunks[id]
	if ok {
		s.had = append(s.had, id)
	}
	s.mu.Unlock()
	return ok, nil
}

func (s *poolStore) StoreChunk(c *desync.Chunk) error {
	b, err := c.Data()
	if err != nil {
		return err
	}
	if s.tick("store") {
		return errors.New("scripted store failure")
	}
	s.mu.Lock()
	s.chunks[c.ID()] = append([]byte{}, b...)
	s.stored = append(s.stored, c.ID())
	s.stores++
	s.mu.Unlock()
	return nil
}
func (s *poolStore) Close() error   { return nil }
func (s *poolStore) String() string { return "pool-mem" }

// poolBar counts what the function reports to the caller's progress bar
type poolBar struct {
	mu   sync.Mutex
	incs int
	adds int
}

func (b *poolBar) SetTotal(int) {}
func (b *poolBar) Start()       {}
func (b *poolBar) Finish()      {}
func (b *poolBar) Increment() int {
	b.mu.Lock()
	defer b.mu.Unlock()
	b.incs++
	return b.incs
}
func (b *poolBar) Add(n int) int {
	b.mu.Lock()
	defer b.mu.Unlock()
	b.adds += n
	return b.adds
}
func (b *poolBar) Set(int)                     {}
func (b *poolBar) Write(p []byte) (int, error) { return len(p), nil }

// poolCase is everything that determines a run except Go's own choices (which arm a select with
// two ready arms takes, which of several receiving workers gets the job)
type poolCase struct {
	fn      string // VerifyIndex | ChopFile | Copy | ChunkStream | PlanValidate
	n       int
	nch     int
	dup     bool
	bad     int    // VerifyIndex: index of the chunk with a flipped byte; -1 none; -2 one byte appended; -3 last byte dropped
	failAt  int    // ChopFile / Copy: the k-th store call fails; -1 none
	failOp  string // "", "has", "get", "store"
	pre     bool   // some chunks are in the target already
	dseed   int64  // the data
	cancel  int    // the parent context is cancelled at this step of the schedule; -1 never
	policy  int
	forced  []int // replay: the actor of every step (-2 = the cancellation)
	forcing bool
}

type poolRun struct {
	events      []string
	enabled     []string // before every event and at the end: what the code can do next, as the scheduler knows it
	raw         []string
	order       []int
	jobs        int
	good        []bool // VerifyIndex: which batches validate
	err         error
	pre         bool // the function returned before its pool was started
	problem     string
	done        []bool
	tags        []string
	stored      map[desync.ChunkID][]byte
	ids         []desync.ChunkID
	data        map[desync.ChunkID][]byte
	uniq        bool
	preIDs      map[desync.ChunkID]bool
	failed      int
	barIncs     int
	barAdds     int
	recvs       int
	sizes       []int // chunks per job
	matches     bool  // VerifyIndex: the file is what the index describes
	canceled    bool
	csEvents    []string // ChopFile / ChunkStream: the events of the machine with ChunkStorage jobs (Model/PoolCS.lean)
	csOK        bool     // they are complete (no job failed outside StoreChunk)
	storedL     []desync.ChunkID
	hadL        []desync.ChunkID
	seedInvalid bool         // PlanValidate: the seed was marked invalid
	index       desync.Index // ChunkStream: the index it returned
	want        desync.Index // the index of the input
}

// the batches VerifyIndex hands out: the harness' own arithmetic, used when no driver answers (poolBatches in
// vibatches.go asks the model for its regenerated ones; the driver checks every batch that travels against them)
func poolBatchesOwn(c, n int) [][2]int {
	var out [][2]int
	batch := c / (n * 10)
	for i := 0; i < c; i = i + batch + 1 {
		last := i + batch
		if last >= c {
			last = c - 1
		}
		out = append(out, [2]int{i, last + 1})
	}
	return out
}

var poolWorkDir string

// poolHangs counts runs in which a resumed goroutine never reached its next hook; after three of them
// the remaining scheduled runs are skipped (every one costs the watchdog's time)
var poolHangs int

func runPoolCase(pc poolCase, rng *rand.Rand) poolRun {
	res := poolRun{}
	dir := poolWorkDir
	if dir == "" {
		d, err := os.MkdirTemp("", "verif-pool-")
		if err != nil {
			res.problem = "tmp"
			return res
		}
		defer os.RemoveAll(d)
		dir = d
	}
	drng := rand.New(rand.NewSource(pc.dseed))
	var blob []byte
	var idx desync.Index
	var data map[desync.ChunkID][]byte
	if pc.fn == "ChunkStream" {
		// a stream of roughly nch chunks; with dup, runs of zeros (equal chunks: ChunkStorage marks them once)
		blob = randBytes(drng, pc.nch*70)
		if pc.dup && len(blob) > 0 {
			for k := 0; k < 1+drng.Intn(2); k++ {
				at, l := drng.Intn(len(blob)), 128*(1+drng.Intn(4))
				for i := at; i < at+l && i < len(blob); i++ {
					blob[i] = 0
				}
			}
		}
		data = map[desync.ChunkID][]byte{}
		ck, err := desync.NewChunker(bytes.NewReader(blob), 48, 64, 128)
		if err != nil {
			res.problem = "chunker"
			return res
		}
		for {
			start, b, err := ck.Next()
			if err != nil {
				res.problem = "chunker"
				return res
			}
			if len(b) == 0 {
				break
			}
			id := desync.Digest.Sum(b)
			data[id] = append([]byte{}, b...)
			idx.Chunks = append(idx.Chunks, desync.IndexChunk{ID: id, Start: start, Size: uint64(len(b))})
		}
	} else {
		blob, idx, data = makeBlob(drng, pc.nch, pc.dup)
	}
	res.data = data
	res.uniq = len(data) == len(idx.Chunks)
	for _, c := range idx.Chunks {
		res.ids = append(res.ids, c.ID)
	}
	s := &poolSched{fn: pc.fn, gids: map[int]int{}, arrive: make(chan poolArr, 4*(pc.n+2)), resume: map[int]chan struct{}{}}
	for w := -1; w < pc.n; w++ {
		s.resume[w] = make(chan struct{}, 1)
	}
	calls := &poolCalls{failAt: pc.failAt, failOp: pc.failOp}
	target := &poolStore{chunks: map[desync.ChunkID][]byte{}, calls: calls, sched: s}
	source := &poolStore{chunks: map[desync.ChunkID][]byte{}, calls: calls, sched: s}
	for id, b := range data {
		source.chunks[id] = b
	}
	res.preIDs = map[desync.ChunkID]bool{}
	if pc.pre {
		for _, c := range idx.Chunks {
			if drng.Intn(3) == 0 {
				target.chunks[c.ID] = data[c.ID]
				res.preIDs[c.ID] = true
			}
		}
	}
	bar := &poolBar{}
	file := filepath.Join(dir, "poolblob")
	content := blob
	res.matches = true
	var planRuns [][2]int
	var plan desync.Plan
	var planSeed *desync.FileSeed
	switch pc.fn {
	case "VerifyIndex":
		bs := poolBatches(len(idx.Chunks), pc.n)
		res.jobs = len(bs)
		for _, b := range bs {
			res.good = append(res.good, !(pc.bad >= b[0] && pc.bad < b[1]))
			res.sizes = append(res.sizes, b[1]-b[0])
		}
		content = append([]byte{}, blob...)
		switch {
		case pc.bad >= 0 && pc.bad < len(idx.Chunks):
			c := idx.Chunks[pc.bad]
			content[int(c.Start)+drng.Intn(int(c.Size))] ^= byte(1 + drng.Intn(255))
			res.matches = false
		case pc.bad == -2:
			content = append(content, 7)
			res.matches = false
		case pc.bad == -3 && len(content) > 0:
			content = content[:len(content)-1]
			res.matches = false
		}
	case "PlanValidate":
		// a seed file: the blob with some chunks replaced by foreign ones; the plan's file-seed segments are
		// the maximal runs of chunks that were kept, each of them one job
		var seedBlob []byte
		var seedIdx desync.Index
		lo := -1
		for i, c := range idx.Chunks {
			b := data[c.ID]
			kept := drng.Intn(3) != 0
			if !kept {
				b = randBytes(drng, 50+drng.Intn(150))
			}
			if kept && lo < 0 {
				lo = i
			}
			if !kept && lo >= 0 {
				planRuns = append(planRuns, [2]int{lo, i})
				lo = -1
			}
			seedIdx.Chunks = append(seedIdx.Chunks, desync.IndexChunk{ID: desync.Digest.Sum(b), Start: uint64(len(seedBlob)), Size: uint64(len(b))})
			seedBlob = append(seedBlob, b...)
		}
		if lo >= 0 {
			planRuns = append(planRuns, [2]int{lo, len(idx.Chunks)})
		}
		res.jobs = len(planRuns)
		for _, r := range planRuns {
			good := !(pc.bad >= r[0] && pc.bad < r[1])
			res.good = append(res.good, good)
			res.sizes = append(res.sizes, r[1]-r[0])
			if !good { // damage the seed file (not its index) inside the chunk
				c := seedIdx.Chunks[pc.bad]
				seedBlob[int(c.Start)+drng.Intn(int(c.Size))] ^= byte(1 + drng.Intn(255))
				res.matches = false
			}
		}
		content = seedBlob
		fseed, err := desync.NewIndexSeed(filepath.Join(dir, "pooldst"), file, seedIdx)
		if err != nil {
			res.problem = "seed"
			return res
		}
		planSeed = fseed
		plan = desync.NewSeedSequencer(idx, fseed).Plan()
	default:
		res.jobs = len(idx.Chunks)
	}
	if err := os.WriteFile(file, content, 0644); err != nil {
		res.problem = "tmp"
		return res
	}
	res.done = make([]bool, res.jobs)

	ctx, cancel := context.WithCancel(context.Background())
	defer cancel()
	desync.VerifPoolCtx = func(fn string, c context.Context) {
		if fn == pc.fn {
			s.mu.Lock()
			s.derived = c
			s.mu.Unlock()
		}
	}
	desync.VerifPool = s.hook
	step := 0
	parentCancelled := false
	// worker states: "new" (not yet at its first hook), "idle" (parked before a receive), "inrecv"
	// (released into the receive: blocked in the runtime until a send or the close), "busy" (parked
	// inside a job), "fail" / "exit" (parked before returning), "gone"
	ws := make([]string, pc.n)
	holds := make([]int, pc.n)
	for w := range ws {
		ws[w] = "new"
		holds[w] = -1
	}
	fs := "new" // the feeder: "select" | "sent" | "break" | "close" | "wait" (parked there) | "gone"
	sends := 0
	ctxDone := false
	chanClosed := false
	broke := false
	selPayload := -1
	allGone := func() bool {
		for _, st := range ws {
			if st != "gone" {
				return false
			}
		}
		return true
	}
	// the next events the code can produce from here (after steps that are not events), derived
	// from where every goroutine is parked and from the structure of the code: the driver compares
	// this set with what the machine enables in the corresponding state
	enabledNow := func() string {
		var out []string
		if fs != "gone" {
			out = append(out, "pc")
		}
		inLoop := fs == "new" || fs == "select" || fs == "sent"
		closed := chanClosed || broke // closed, or going to be before anything else happens
		if inLoop && sends < res.jobs && ctxDone {
			out = append(out, "fb")
		}
		if inLoop && sends >= res.jobs || fs == "close" && !broke {
			out = append(out, "fe")
		}
		for w, st := range ws {
			receiving := st == "new" || st == "idle" || st == "inrecv"
			if inLoop && sends < res.jobs && receiving {
				out = append(out, fmt.Sprintf("fs:%d", w))
			}
			if st == "busy" || st == "fail" {
				out = append(out, fmt.Sprintf("fin:%d", w))
			}
			if (receiving || st == "exit") && closed {
				out = append(out, fmt.Sprintf("exit:%d", w))
			}
		}
		if allGone() && (fs == "wait" || fs == "break" || fs == "close" && broke) {
			out = append(out, "wait")
		}
		if len(out) == 0 {
			return "-"
		}
		return strings.Join(out, "+")
	}
	cs := pc.fn == "ChopFile" || pc.fn == "ChunkStream"
	res.csOK = cs
	unmarked := map[desync.ChunkID]bool{}
	lastCall := make([]string, pc.n) // the store call a worker's job has reached: "" | "has" | "store"
	csEmit := func(ev string) {
		if cs {
			res.csEvents = append(res.csEvents, ev)
		}
	}
	emit := func(ev string) {
		res.enabled = append(res.enabled, enabledNow())
		res.events = append(res.events, ev)
		// the same moments in the machine with ChunkStorage jobs, which sees a job's end as mark / has / store events
		if !strings.HasPrefix(ev, "ok:") && !strings.HasPrefix(ev, "fail:") {
			if i := strings.Index(ev, ":"); i >= 0 && strings.HasPrefix(ev, "fs:") {
				csEmit(strings.Join(strings.Split(ev, ":")[:2], ":"))
			} else {
				csEmit(ev)
			}
		}
	}
	if pc.cancel == 0 || (pc.forcing && len(pc.forced) > 0 && pc.forced[0] == -2) {
		emit("pc")
		cancel()
		parentCancelled, ctxDone = true, true
		res.order = append(res.order, -2)
		res.tags = append(res.tags, "pool-cancel:before-the-call")
		step++
	}
	finished := make(chan struct{})
	var finalErr error
	var streamIndex desync.Index
	go func() {
		var err error
		switch pc.fn {
		case "VerifyIndex":
			err = desync.VerifyIndex(ctx, file, idx, pc.n, bar)
		case "ChopFile":
			err = desync.ChopFile(ctx, file, idx.Chunks, target, pc.n, bar)
		case "PlanValidate":
			err = plan.Validate(ctx, pc.n, bar)
		case "ChunkStream":
			var ck desync.Chunker
			if ck, err = desync.NewChunker(bytes.NewReader(blob), 48, 64, 128); err == nil {
				streamIndex, err = desync.ChunkStream(ctx, ck, target, pc.n)
			}
		default:
			err = desync.Copy(ctx, res.ids, source, target, pc.n, bar)
		}
		finalErr = err
		if !s.free.Load() {
			s.arrive <- poolArr{actor: -1, ev: "finished", err: err}
		}
		close(finished)
	}()
	watchdog := time.After(8 * time.Second)
	wait := func() (poolArr, bool) {
		select {
		case a := <-s.arrive:
			w := "f"
			if a.actor >= 0 {
				w = strconv.Itoa(a.actor)
			}
			res.raw = append(res.raw, w+"."+a.ev)
			return a, true
		case <-watchdog:
			return poolArr{}, false
		}
	}
	release := func() {
		s.free.Store(true)
		cancel()
		for _, ch := range s.resume {
			select {
			case ch <- struct{}{}:
			default:
			}
		}
		select {
		case <-finished:
		case <-time.After(5 * time.Second):
		}
		desync.VerifPool = nil
		desync.VerifPoolCtx = nil
	}
	finish := func() poolRun {
		release()
		select {
		case <-finished:
			res.err = finalErr
			res.index = streamIndex
		default:
		}
		res.want = idx
		if planSeed != nil {
			res.seedInvalid = planSeed.IsInvalid()
		}
		res.canceled = parentCancelled
		target.mu.Lock()
		res.stored = map[desync.ChunkID][]byte{}
		for id, b := range target.chunks {
			res.stored[id] = b
		}
		target.mu.Unlock()
		res.failed = calls.failed
		target.mu.Lock()
		res.storedL = append([]desync.ChunkID{}, target.stored...)
		res.hadL = append([]desync.ChunkID{}, target.had...)
		target.mu.Unlock()
		res.barIncs, res.barAdds = bar.incs, bar.adds
		return res
	}
	fail := func(format string, a ...interface{}) poolRun {
		res.problem = fmt.Sprintf(format, a...)
		if strings.HasPrefix(res.problem, "hang") {
			poolHangs++
		}
		return finish()
	}

	// start-up: every worker parks in "start", the feeder in its first hook (or the function returns)
	for parked := 0; parked < pc.n+1; {
		a, ok := wait()
		if !ok {
			return fail("hang (start-up)")
		}
		switch {
		case a.ev == "finished":
			if parked > 0 {
				return fail("the function returned while its workers were starting")
			}
			res.pre = true
			res.err = a.err
			return finish()
		case a.actor >= 0 && a.actor < pc.n && a.ev == "start" && ws[a.actor] == "new":
			ws[a.actor] = "idle"
			parked++
		case a.actor == -1 && fs == "new" && (a.ev == "select" || a.ev == "close"):
			fs = a.ev
			selPayload = a.job
			parked++
		default:
			return fail("protocol: unexpected %d.%s during start-up", a.actor, a.ev)
		}
	}
	inRecv := func() int {
		k := 0
		for _, st := range ws {
			if st == "inrecv" {
				k++
			}
		}
		return k
	}
	busyOthers := func(w int) int {
		k := 0
		for i, st := range ws {
			if i != w && (st == "busy" || st == "fail") {
				k++
			}
		}
		return k
	}
	// priorities (index n = the feeder)
	prio := rng.Perm(pc.n + 1)
	change := map[int]bool{}
	for k := 0; k < 3; k++ {
		change[rng.Intn(60)] = true
	}
	low := -1
	last := -3
	pr := func(a int) int {
		if a < 0 {
			return prio[pc.n]
		}
		return prio[a]
	}
	cancelWhere := ""
	for ; ; step++ {
		if step > 100000 {
			return fail("the schedule does not end")
		}
		var en []int
		switch fs {
		case "select":
			if inRecv() > 0 || ctxDone {
				en = append(en, -1)
			}
		case "sent", "break", "close":
			en = append(en, -1)
		case "wait":
			if allGone() {
				en = append(en, -1)
			}
		}
		for w, st := range ws {
			switch st {
			case "idle", "busy", "fail", "exit":
				en = append(en, w)
			}
		}
		pick := 0
		if pc.forcing {
			if step >= len(pc.forced) {
				return fail("diverged@%d (schedule exhausted)", step)
			}
			pick = pc.forced[step]
			found := pick == -2 && !parentCancelled
			for _, a := range en {
				if a == pick {
					found = true
				}
			}
			if !found {
				return fail("diverged@%d (actor %d not enabled)", step, pick)
			}
		} else if step == pc.cancel && !parentCancelled {
			pick = -2
		} else {
			if len(en) == 0 {
				return fail("deadlock: feeder at %q, workers %v, context done=%v", fs, ws, ctxDone)
			}
			switch pc.policy {
			case 0: // uniform
				pick = en[rng.Intn(len(en))]
			case 1: // priorities with change points
				pick = en[0]
				for _, a := range en {
					if pr(a) > pr(pick) {
						pick = a
					}
				}
				if change[step] {
					low--
					if pick < 0 {
						prio[pc.n] = low
					} else {
						prio[pick] = low
					}
				}
			case 2: // the feeder whenever it can
				pick = en[0]
				if rng.Intn(6) == 0 {
					pick = en[rng.Intn(len(en))]
				}
			case 3: // the feeder last, later workers first
				pick = en[len(en)-1]
				if rng.Intn(6) == 0 {
					pick = en[rng.Intn(len(en))]
				}
			default: // bursts: stay with the actor that ran last
				pick = en[rng.Intn(len(en))]
				for _, a := range en {
					if a == last && rng.Intn(5) != 0 {
						pick = a
					}
				}
			}
		}
		last = pick
		res.order = append(res.order, pick)
		if pick == -2 {
			emit("pc")
			cancel()
			parentCancelled, ctxDone = true, true
			switch {
			case sends == 0:
				cancelWhere = "before-the-first-job"
			case fs == "wait" || fs == "close" && !broke:
				cancelWhere = "after-the-loop"
			case sends >= res.jobs:
				cancelWhere = "after-the-last-job-was-sent"
			default:
				cancelWhere = "between-jobs"
			}
			res.tags = append(res.tags, "pool-cancel:"+cancelWhere)
			continue
		}
		if pick == -1 {
			s.resume[-1] <- struct{}{}
			switch fs {
			case "select":
				receivers := inRecv()
				a, ok := wait()
				if !ok {
					return fail("hang (feeder in its select; receivers=%d done=%v)", receivers, ctxDone)
				}
				if a.actor == -1 && a.ev == "break" {
					if !ctxDone {
						return fail("the feeder took the Done arm although nobody cancelled the context")
					}
					if receivers > 0 {
						res.tags = append(res.tags, "pool-select:done-arm-with-a-receiver-ready")
					}
					if busyOthers(-1) > 0 {
						res.tags = append(res.tags, "pool-shape:break-with-jobs-in-flight")
					}
					emit("fb")
					broke = true
					fs = "break"
					break
				}
				if receivers == 0 {
					return fail("protocol: %d.%s from a select with no receiver (the job channel is not unbuffered?)", a.actor, a.ev)
				}
				b, ok := wait()
				if !ok {
					return fail("hang (rendezvous: only %d.%s arrived)", a.actor, a.ev)
				}
				if a.actor != -1 {
					a, b = b, a
				}
				if !(a.actor == -1 && a.ev == "sent" && b.actor >= 0 && b.actor < pc.n && b.ev == "recv" && ws[b.actor] == "inrecv") {
					return fail("protocol: rendezvous gave %d.%s and %d.%s", a.actor, a.ev, b.actor, b.ev)
				}
				if ctxDone {
					res.tags = append(res.tags, "pool-select:send-although-done")
				}
				if pc.fn == "PlanValidate" && !(sends < len(planRuns) && planRuns[sends][0] == selPayload && planRuns[sends][1]-planRuns[sends][0] == b.job) {
					return fail("protocol: job %d is the segment of %d chunks from chunk %d; the kept runs of the seed are %v", sends, b.job, selPayload, planRuns)
				}
				ev := fmt.Sprintf("fs:%d", b.actor)
				if pc.fn == "VerifyIndex" {
					ev = fmt.Sprintf("fs:%d:%d:%d", b.actor, selPayload, b.job)
				}
				emit(ev)
				ws[b.actor] = "busy"
				holds[b.actor] = sends
				sends++
				res.recvs++
				fs = "sent"
			case "sent", "break":
				a, ok := wait()
				if !ok {
					return fail("hang (feeder after %s)", fs)
				}
				if a.actor != -1 || !(a.ev == "select" && fs == "sent" || a.ev == "close") {
					return fail("protocol: feeder went from %s to %d.%s", fs, a.actor, a.ev)
				}
				fs = a.ev
				selPayload = a.job
			case "close":
				waiting := inRecv()
				if !broke {
					emit("fe")
				}
				chanClosed = true
				for k := 0; k < waiting+1; k++ {
					a, ok := wait()
					if !ok {
						return fail("hang (close: %d of %d arrivals)", k, waiting+1)
					}
					switch {
					case a.actor == -1 && a.ev == "wait" && fs == "close":
						fs = "wait"
					case a.actor >= 0 && a.actor < pc.n && a.ev == "exit" && ws[a.actor] == "inrecv":
						ws[a.actor] = "exit"
					default:
						return fail("protocol: %d.%s after the close", a.actor, a.ev)
					}
				}
			case "wait":
				a, ok := wait()
				if !ok {
					return fail("hang (g.Wait does not return although every worker has left)")
				}
				if a.ev != "finished" {
					return fail("protocol: %d.%s instead of the function's return", a.actor, a.ev)
				}
				emit("wait")
				res.err = a.err
				fs = "gone"
				res.enabled = append(res.enabled, enabledNow())
				return finish()
			}
			continue
		}
		w := pick
		switch ws[w] {
		case "idle":
			s.resume[w] <- struct{}{}
			if chanClosed {
				a, ok := wait()
				if !ok {
					return fail("hang (worker %d receiving from the closed channel)", w)
				}
				if a.actor != w || a.ev != "exit" {
					return fail("protocol: worker %d receiving from the closed channel did %d.%s", w, a.actor, a.ev)
				}
				ws[w] = "exit"
			} else {
				ws[w] = "inrecv"
				for k := 0; k < 8; k++ { // let it reach the receive (no decision depends on it)
					runtime.Gosched()
				}
			}
		case "busy":
			s.resume[w] <- struct{}{}
			a, ok := wait()
			if !ok {
				return fail("hang (worker %d inside job %d)", w, holds[w])
			}
			if a.actor != w {
				return fail("scheduler: resumed worker %d, but %d.%s arrived", w, a.actor, a.ev)
			}
			switch {
			case a.ev == "call:has":
				if lastCall[w] != "" {
					res.csOK = false
				}
				csEmit(fmt.Sprintf("mark:%d", w)) // markProcessed said: first
				lastCall[w] = "has"
				if cs && holds[w] >= 0 && holds[w] < len(res.ids) && unmarked[res.ids[holds[w]]] {
					res.tags = append(res.tags, "poolcs-shape:chunk-marked-again-after-a-failed-store")
				}
			case a.ev == "call:store":
				if lastCall[w] != "has" {
					res.csOK = false
				}
				csEmit(fmt.Sprintf("hasF:%d", w))
				lastCall[w] = "store"
			case strings.HasPrefix(a.ev, "call:"):
			case a.ev == "ok":
				csEmit(fmt.Sprintf("%s:%d", map[string]string{"": "mark", "has": "hasT", "store": "stO"}[lastCall[w]], w))
				if cs && lastCall[w] == "" {
					res.tags = append(res.tags, "poolcs-shape:job-ended-at-a-chunk-already-marked")
				}
				lastCall[w] = ""
				emit(fmt.Sprintf("ok:%d", w))
				if holds[w] >= 0 && holds[w] < len(res.done) {
					res.done[holds[w]] = true
				}
				holds[w] = -1
				ws[w] = "idle"
			case a.ev == "fail":
				ws[w] = "fail"
				switch lastCall[w] {
				case "store": // the deferred un-mark has run already: other workers see the ID unmarked from here on
					csEmit(fmt.Sprintf("stE:%d", w))
					if cs && holds[w] >= 0 && holds[w] < len(res.ids) {
						unmarked[res.ids[holds[w]]] = true
					}
				case "":
					res.csOK = false // the job failed outside ChunkStorage.StoreChunk
				}
			default:
				return fail("protocol: worker %d inside a job did %s", w, a.ev)
			}
		case "fail":
			if busyOthers(w) > 0 {
				res.tags = append(res.tags, "pool-shape:worker-failure-with-jobs-in-flight")
			}
			if fs == "wait" || fs == "close" {
				res.tags = append(res.tags, "pool-shape:worker-failure-after-the-loop")
			}
			emit(fmt.Sprintf("fail:%d", w))
			if lastCall[w] == "has" {
				csEmit(fmt.Sprintf("hasE:%d", w))
			}
			s.resume[w] <- struct{}{}
			ws[w] = "gone"
			// the worker returns its error and errgroup cancels the derived context: wait for that
			s.mu.Lock()
			d := s.derived
			s.mu.Unlock()
			if d == nil {
				return fail("protocol: the function did not announce its derived context")
			}
			select {
			case <-d.Done():
			case <-watchdog:
				return fail("hang (a worker returned an error but the group's context is not cancelled)")
			}
			ctxDone = true
		case "exit":
			emit(fmt.Sprintf("exit:%d", w))
			s.resume[w] <- struct{}{}
			ws[w] = "gone"
		}
	}
}

func poolResultStr(err error) string {
	switch {
	case err == nil:
		return "ok"
	case isInterrupted(err):
		return "interrupted"
	default:
		return "err"
	}
}

func poolDoneStr(done []bool) string {
	parts := make([]string, len(done))
	for i, d := range done {
		parts[i] = "0"
		if d {
			parts[i] = "1"
		}
	}
	return strings.Join(parts, ",")
}

func intsStr(a []int) string {
	parts := make([]string, len(a))
	for i, x := range a {
		parts[i] = strconv.Itoa(x)
	}
	return strings.Join(parts, ".")
}

// poolCaseLine: what the driver needs (fn, n, jobs / chunks, good, events) followed by what the
// replay needs to run the same case again (the driver ignores those keys)
func poolCaseLine(pc poolCase, r poolRun) string {
	var sb strings.Builder
	fmt.Fprintf(&sb, "pool.accept fn=%s n=%d", pc.fn, pc.n)
	if r.pre {
		sb.WriteString(" pre=err")
	}
	switch pc.fn {
	case "VerifyIndex":
		fmt.Fprintf(&sb, " chunks=%d good=%s", pc.nch, poolDoneStr(r.good))
	case "PlanValidate":
		fmt.Fprintf(&sb, " jobs=%d good=%s", r.jobs, poolDoneStr(r.good))
	default:
		fmt.Fprintf(&sb, " jobs=%d", r.jobs)
	}
	fmt.Fprintf(&sb, " events=%s", strings.Join(r.events, ","))
	if !r.pre && len(r.enabled) == len(r.events)+1 {
		fmt.Fprintf(&sb, " en=%s", strings.Join(r.enabled, "/"))
	}
	fmt.Fprintf(&sb, " nch=%d dup=%v bad=%d failat=%d failop=%s prefill=%v dseed=%d sched=%s", pc.nch, pc.dup, pc.bad, pc.failAt, pc.failOp, pc.pre, pc.dseed, intsStr(r.order))
	return sb.String()
}

func poolAnswer(r poolRun) string {
	if r.problem != "" {
		return "impl-" + r.problem
	}
	if r.pre {
		return "accept result=" + poolResultStr(r.err) + " done="
	}
	return "accept result=" + poolResultStr(r.err) + " done=" + poolDoneStr(r.done)
}

// poolCSLine / poolCSAnswer: the same run seen by the machine with ChunkStorage jobs (ChopFile, ChunkStream)
func poolCSNumbers(r poolRun) map[desync.ChunkID]int {
	num := map[desync.ChunkID]int{}
	for _, id := range r.ids {
		if _, ok := num[id]; !ok {
			num[id] = len(num)
		}
	}
	return num
}

func poolCSLine(pc poolCase, r poolRun) string {
	num := poolCSNumbers(r)
	ids := make([]string, len(r.ids))
	for j, id := range r.ids {
		ids[j] = strconv.Itoa(num[id])
	}
	return fmt.Sprintf("poolcs.accept fn=%s ids=%s n=%d events=%s", pc.fn, strings.Join(ids, ","), pc.n, strings.Join(r.csEvents, ","))
}

func poolCSAnswer(r poolRun) string {
	num := poolCSNumbers(r)
	set := func(l []desync.ChunkID) string {
		seen := map[int]bool{}
		var xs []int
		for _, id := range l {
			if k, ok := num[id]; ok && !seen[k] {
				seen[k] = true
				xs = append(xs, k)
			}
		}
		sortInts(xs)
		return intsStr(xs)
	}
	return fmt.Sprintf("accept result=%s done=%s stored=%s had=%s", poolResultStr(r.err), poolDoneStr(r.done), set(r.storedL), set(r.hadL))
}

// implPoolAccept re-runs the recorded schedule on the real code (replay).  Go's own choices (the arm
// of a select with two ready arms, the worker that receives) are not the scheduler's: the run is
// repeated until it reproduces the recorded events
func implPoolAccept(line string) string {
	_, a := parseCase(line)
	pc := poolCase{fn: a["fn"], failOp: a["failop"], dup: a["dup"] == "true", pre: a["prefill"] == "true", forcing: true, cancel: -1}
	pc.n, _ = strconv.Atoi(a["n"])
	pc.nch, _ = strconv.Atoi(a["nch"])
	pc.bad, _ = strconv.Atoi(a["bad"])
	pc.failAt, _ = strconv.Atoi(a["failat"])
	pc.dseed, _ = strconv.ParseInt(a["dseed"], 10, 64)
	if a["sched"] != "" {
		for _, x := range strings.Split(a["sched"], ".") {
			v, _ := strconv.Atoi(x)
			pc.forced = append(pc.forced, v)
		}
	}
	if pc.n < 1 || pc.fn == "" {
		return "err bad replay line"
	}
	lastAnswer := ""
	for try := 0; try < 200; try++ {
		r := runPoolCase(pc, rand.New(rand.NewSource(1)))
		if strings.Join(r.events, ",") == a["events"] {
			return poolAnswer(r)
		}
		lastAnswer = poolAnswer(r) + " events=" + strings.Join(r.events, ",")
	}
	return "impl-could-not-reproduce-the-recorded-trace; last run: " + lastAnswer
}

// poolMonitors: the properties on the implementation, independent of the model
func poolMonitors(pc poolCase, r poolRun) []string {
	var out []string
	if r.problem != "" {
		return []string{pc.fn + " under a cooperative schedule: " + r.problem}
	}
	allDone := true
	for _, d := range r.done {
		allDone = allDone && d
	}
	if r.pre {
		if r.err == nil {
			out = append(out, pc.fn+" returned success without starting its workers")
		}
		if pc.fn != "VerifyIndex" || pc.bad > -2 {
			out = append(out, pc.fn+" returned before starting its workers although nothing was wrong with its arguments: "+fmt.Sprint(r.err))
		}
		return out
	}
	if r.err == nil && !allDone {
		out = append(out, fmt.Sprintf("%s reported success although not every job was completed (done=%s, cancelled=%v)", pc.fn, poolDoneStr(r.done), r.canceled))
	}
	switch pc.fn {
	case "PlanValidate":
		if r.err == nil && !r.matches {
			out = append(out, "Plan.Validate accepted a seed file that does not match its index")
		}
		if !r.canceled && r.err != nil && r.matches {
			out = append(out, "Plan.Validate rejected a matching seed without any cancellation: "+r.err.Error())
		}
		failedJob := false
		for _, e := range r.events {
			failedJob = failedJob || strings.HasPrefix(e, "fail:")
		}
		if failedJob != r.seedInvalid {
			out = append(out, fmt.Sprintf("Plan.Validate: a job failed = %v, but the seed is marked invalid = %v", failedJob, r.seedInvalid))
		}
		want := 0
		for j, d := range r.done {
			if d {
				want += r.sizes[j]
			}
		}
		if r.barAdds != want {
			out = append(out, fmt.Sprintf("Plan.Validate reported %d validated chunks to the progress bar, the completed segments hold %d", r.barAdds, want))
		}
	case "VerifyIndex":
		if r.err == nil && !r.matches {
			out = append(out, "VerifyIndex accepted a file that does not match the index")
		}
		if !r.canceled && r.err != nil && r.matches {
			out = append(out, "VerifyIndex rejected a matching file without any cancellation: "+r.err.Error())
		}
		want := 0
		for j, d := range r.done {
			if d {
				want += r.sizes[j]
			}
		}
		if r.barAdds != want {
			out = append(out, fmt.Sprintf("VerifyIndex reported %d validated chunks to the progress bar, the completed batches hold %d", r.barAdds, want))
		}
	default:
		if r.err == nil {
			for _, id := range r.ids {
				b, ok := r.stored[id]
				if !ok || desync.Digest.Sum(b) != id {
					out = append(out, pc.fn+" reported success but a referenced chunk is missing from (or invalid in) the target store")
					break
				}
			}
		}
		if pc.fn == "ChunkStream" && r.err == nil {
			same := len(r.index.Chunks) == len(r.want.Chunks)
			for i := 0; same && i < len(r.want.Chunks); i++ {
				same = r.index.Chunks[i] == r.want.Chunks[i]
			}
			if !same {
				out = append(out, "ChunkStream reported success but its index does not describe the input")
			}
		}
		if r.failed > 0 && r.err == nil {
			out = append(out, pc.fn+" reported success although a store call failed")
		}
		if pc.fn != "ChunkStream" && r.barIncs != r.recvs {
			out = append(out, fmt.Sprintf("%s reported %d jobs to the progress bar, the workers received %d", pc.fn, r.barIncs, r.recvs))
		}
		// with distinct chunks a job is complete exactly when its chunk is in the target
		if r.uniq {
			for j, id := range r.ids {
				_, in := r.stored[id]
				if r.done[j] && !in {
					out = append(out, fmt.Sprintf("%s: job %d completed without an error but its chunk is not in the target store", pc.fn, j))
					break
				}
				if in && !r.done[j] && !r.preIDs[id] {
					out = append(out, fmt.Sprintf("%s: the chunk of job %d is in the target store but the job did not complete", pc.fn, j))
					break
				}
			}
		}
	}
	return out
}

// runPoolTraces: scheduled runs of the given functions, validated against the Lean machine
func runPoolTraces(cfg Config, rep *Report, fns []string, runs int, salt int64) {
	m, err := StartModel(cfg.Driver)
	if err != nil {
		fatal(err)
	}
	defer m.Close()
	batchModel = m
	poolWorkDir = cfg.Work
	rng := rand.New(rand.NewSource(cfg.Seed*1000003 + salt))
	for it := 0; it < runs; it++ {
		if poolHangs >= 3 {
			rep.Notes = append(rep.Notes, fmt.Sprintf("pool traces: three runs hung; %d of %d scheduled runs not made", runs-it, runs))
			break
		}
		pc := poolCase{fn: fns[it%len(fns)], n: 1 + rng.Intn(5), bad: -1, failAt: -1, cancel: -1, dseed: rng.Int63(), policy: rng.Intn(5)}
		pc.nch = 1 + rng.Intn(14)
		if rng.Intn(12) == 0 {
			pc.nch = 0
		}
		kind := "plain"
		switch pc.fn {
		case "PlanValidate":
			pc.nch = rng.Intn(40)
			if rng.Intn(2) == 0 && pc.nch > 0 {
				pc.bad = rng.Intn(pc.nch)
				kind = "damaged-seed"
			}
		case "VerifyIndex":
			if rng.Intn(2) == 0 {
				pc.nch = 10 + rng.Intn(70) // batches of several chunks
			}
			pc.dup = rng.Intn(3) == 0
			switch v := rng.Intn(10); {
			case v < 5 && pc.nch > 0:
				pc.bad = rng.Intn(pc.nch)
				if rng.Intn(3) == 0 {
					pc.bad = pc.nch - 1
				}
				kind = "mismatch"
			case v == 5:
				pc.bad = -2
				kind = "longer"
			case v == 6 && pc.nch > 0:
				pc.bad = -3
				kind = "shorter"
			}
		default:
			pc.dup = rng.Intn(3) == 0
			pc.pre = rng.Intn(4) == 0
			if rng.Intn(2) == 0 {
				pc.failAt = rng.Intn(3*pc.nch + 1)
				pc.failOp = []string{"", "", "has", "store", "get"}[rng.Intn(5)]
				if pc.fn != "Copy" && pc.failOp == "get" {
					pc.failOp = "store"
				}
				if pc.fn != "Copy" && pc.dup && rng.Intn(2) == 0 { // an early failed store of a chunk that occurs again later
					pc.failOp, pc.failAt = "store", rng.Intn(6)
				}
				kind = "store-fault"
			}
		}
		// roughly six scheduler steps per job
		if rng.Intn(5) < 3 {
			jobs := pc.nch
			if pc.fn == "VerifyIndex" {
				jobs = len(poolBatches(pc.nch, pc.n))
			}
			if pc.fn == "PlanValidate" {
				jobs = pc.nch / 4
			}
			pc.cancel = rng.Intn(6*jobs + 8)
		}
		markCase(fmt.Sprintf("pool.sched fn=%s n=%d nch=%d bad=%d failat=%d cancel=%d policy=%d dseed=%d", pc.fn, pc.n, pc.nch, pc.bad, pc.failAt, pc.cancel, pc.policy, pc.dseed))
		r := runPoolCase(pc, rng)
		line := poolCaseLine(pc, r)
		got := poolAnswer(r)
		tags := append([]string{"pool-fn:" + pc.fn, "pool-input:" + pc.fn + "/" + kind, fmt.Sprintf("pool-workers:%d", pc.n), fmt.Sprintf("pool-policy:%d", pc.policy),
			"pool-trace-len:" + bucket(len(r.events)), "pool-result:" + pc.fn + "/" + poolResultStr(r.err)}, r.tags...)
		if !r.canceled {
			tags = append(tags, "pool-cancel:none")
		}
		if r.pre {
			tags = append(tags, "pool-shape:returned-before-the-pool")
		}
		rep.Count(line, len(r.events) > 3, tags...)
		for _, what := range poolMonitors(pc, r) {
			rep.Histogram["pool-DISAGREE:monitor"]++
			rep.Disagree(Disagreement{Kind: "monitor", Case: clip(line, 100000), Impl: got + " raw=" + clip(strings.Join(r.raw, ","), 4000), What: what})
		}
		if m.cmd == nil || r.problem != "" {
			continue
		}
		want := m.Ask(line)
		if f := os.Getenv("VERIF_POOL_DUMP"); f != "" { // debugging aid: every case line with both answers
			if fh, err := os.OpenFile(f, os.O_APPEND|os.O_CREATE|os.O_WRONLY, 0644); err == nil {
				fmt.Fprintf(fh, "%s\n  impl:  %s\n  model: %s\n", line, got, want)
				fh.Close()
			}
		}
		if want == got {
			rep.Traces++
			// the same run against the machine whose jobs are ChunkStorage.StoreChunk calls
			if r.csOK && !r.pre {
				csLine, csGot := poolCSLine(pc, r), poolCSAnswer(r)
				csWant := m.Ask(csLine)
				rep.Count(csLine, len(r.csEvents) > 3, "poolcs-fn:"+pc.fn)
				if csWant == csGot {
					rep.Traces++
				} else {
					rep.Histogram["pool-DISAGREE:correspondence"]++
					rep.Disagree(Disagreement{Kind: "correspondence", Case: clip(csLine, 100000), Model: clip(csWant, 2000), Impl: clip(csGot, 2000),
						What: "the event trace of " + pc.fn + " is not a run of the pool machine with ChunkStorage jobs, or result / completed jobs / stored chunks differ (schedule: " + clip(line, 3000) + ")"})
				}
			}
			continue
		}
		rep.Histogram["pool-DISAGREE:correspondence"]++
		rep.Disagree(Disagreement{Kind: "correspondence", Case: clip(line, 100000), Model: clip(want, 2000), Impl: clip(got, 2000),
			What: "the event trace of " + pc.fn + " is not a run of the pool machine, or the machine's result / completed jobs differ from the function's"})
	}
}
