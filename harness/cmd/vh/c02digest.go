package main

// C02 under a digest that changes within one process (added in session 7 after seeded change C02-l: NewNullChunk kept the
// last null chunk it had built per size — with its ID — and the parallel chunker took the ID of an all-zero chunk of
// maximum size from there: after a switch of desync.Digest, which a long-lived library user and the test suite both do,
// every null chunk carried the other algorithm's hash).  "Records the correct IDs" is checked under SHA512-256, then
// SHA256, then SHA512-256 again on files with runs of zero bytes of at least the maximum chunk size.

import (
	"bytes"
	"context"
	"fmt"
	"math/rand"
	"os"
	"path/filepath"

	"github.com/folbricht/desync"
)

func c02DigestSwitch(cfg Config, rep *Report, rng *rand.Rand) {
	defer setDigest("sha512")
	for it := 0; it < cfg.N(6, 60); it++ {
		min, avg, max := uint64(64), uint64(256), uint64(1024)
		if it%2 == 1 {
			min, avg, max = 256, 1024, 4096
		}
		var data []byte
		data = append(data, randBytes(rng, rng.Intn(3*int(max)))...)
		data = append(data, make([]byte, int(max)*(2+rng.Intn(4))+rng.Intn(int(max)))...)
		data = append(data, randBytes(rng, rng.Intn(2*int(max)))...)
		data = append(data, make([]byte, int(max)*(1+rng.Intn(3)))...)
		f := filepath.Join(cfg.Work, "blob-digest")
		if err := os.WriteFile(f, data, 0644); err != nil {
			fatal(err)
		}
		for step, alg := range []string{"sha512", "sha256", "sha512", "sha256"} {
			setDigest(alg)
			var wantFlag uint64 = desync.CaFormatExcludeNoDump
			if alg == "sha512" {
				wantFlag |= desync.CaFormatSHA512256
			}
			n := 1 + rng.Intn(5)
			caseLine := fmt.Sprintf("make.digest alg=%s step=%d n=%d min=%d avg=%d max=%d len=%d it=%d", alg, step, n, min, avg, max, len(data), it)
			nulls := 0
			check := func(what string, idx desync.Index) {
				for _, c := range idx.Chunks {
					if int(c.Start+c.Size) > len(data) {
						rep.Disagree(Disagreement{Kind: "monitor", Case: caseLine, What: what + " records a chunk beyond the end of the input"})
						return
					}
					if desync.Digest.Sum(data[c.Start:c.Start+c.Size]) != c.ID {
						rep.Disagree(Disagreement{Kind: "monitor", Case: caseLine,
							What: fmt.Sprintf("%s records a wrong chunk ID under %s after the digest was switched within the process (chunk at %d, %d bytes, all zero: %v)",
								what, alg, c.Start, c.Size, len(bytes.Trim(data[c.Start:c.Start+c.Size], "\x00")) == 0)})
						return
					}
					if c.Size == max && len(bytes.Trim(data[c.Start:c.Start+c.Size], "\x00")) == 0 {
						nulls++
					}
				}
				if idx.Index.FeatureFlags != wantFlag {
					rep.Disagree(Disagreement{Kind: "monitor", Case: caseLine, What: fmt.Sprintf("%s records feature flags %#x under %s, want %#x", what, idx.Index.FeatureFlags, alg, wantFlag)})
				}
			}
			idx, _, err := desync.IndexFromFile(context.Background(), f, n, min, avg, max, desync.NewProgressBar(""))
			if err != nil {
				rep.Disagree(Disagreement{Kind: "monitor", Case: caseLine, What: "IndexFromFile failed: " + err.Error()})
			} else {
				check("the parallel index", idx)
			}
			c, _ := desync.NewChunker(bytes.NewReader(data), min, avg, max)
			idx2, err := desync.ChunkStream(context.Background(), c, nullWriteStore{}, n)
			if err != nil {
				rep.Disagree(Disagreement{Kind: "monitor", Case: caseLine, What: "ChunkStream failed: " + err.Error()})
			} else {
				check("ChunkStream", idx2)
			}
			rep.Count(caseLine, nulls > 0, "digest-switch:"+alg)
		}
	}
}
