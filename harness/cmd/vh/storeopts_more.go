package main

// Option and location plumbing of cmd/desync, more of the implementation side (see storeopts.go):
//
//	so.index     URL locations of every remote index backend (http, https, s3+http(s), sftp, gs) that end in "/" — what
//	             index-server makes of --store — or in an index name with or without a trailing "/": the store and the
//	             index name indexStoreFromLocation really returns against the model (C15: which place a server serves)
//	so.srv       up=http: the real `desync index-server` in front of a remote (HTTP) index store; every request it sends
//	             upstream must be below the configured store
//	so.locmatch  local locations and patterns that are, or pass through, symbolic links: the model matches the texts
//	so.store     (after filepath.Abs), nothing is resolved (C16 / C03 / C20: which entry's format a store is opened with)

import (
	"fmt"
	"io"
	"math/rand"
	"net/http"
	"net/http/httptest"
	"os"
	"path"
	"path/filepath"
	"strings"
	"sync"
)

// ---------------------------------------------------------------------------------------------------------------
// remote index stores constructed without a network

// soRemoteEnv: the environment of the verif child that lets the remote index stores be constructed: the GCS client
// takes STORAGE_EMULATOR_HOST (no credentials, nothing is contacted before the first request), the SFTP store starts
// CASYNC_SSH_PATH (this binary as the SFTP server of the local file system, sftpserver.go)
func soRemoteEnv(dir string) []string {
	env := []string{"STORAGE_EMULATOR_HOST=127.0.0.1:1"}
	if w, err := sftpWrapper(dir); err == nil {
		env = append(env, "CASYNC_SSH_PATH="+w)
	}
	return env
}

// soPrepareRemoteIndex: an SFTP index store stats its directory when it is constructed; the directory named by the whole
// URL path is made (so that every split of the path names an existing directory) and removed again
func soPrepareRemoteIndex(a kv) func() {
	if string(unhx(a["sname"])) != "sftp" {
		return func() {}
	}
	up := string(unhx(a["upath"]))
	if !strings.HasPrefix(up, os.TempDir()+"/") {
		return func() {}
	}
	top := ""
	for d := filepath.Clean(up); d != "/" && d != "."; d = filepath.Dir(d) {
		if _, err := os.Lstat(d); err == nil {
			break
		}
		top = d
	}
	if top == "" {
		return func() {}
	}
	os.MkdirAll(up, 0755)
	return func() { os.RemoveAll(top) }
}

// storeOptsIndexLocations (C15): the index-location split on URL locations of all remote backends
func storeOptsIndexLocations(cfg Config, rep *Report, m *Model, rng *rand.Rand) {
	defer soCloseChild()
	if _, err := soGetChild(); err != nil {
		rep.Disagree(Disagreement{Kind: "monitor", Case: "so.index", What: "the verif-tagged desync binary could not be built or started: " + err.Error()})
		return
	}
	work, err := os.MkdirTemp("", "verif-soindex-")
	if err != nil {
		return
	}
	defer os.RemoveAll(work)
	work, _ = filepath.EvalSymlinks(work)
	n := cfg.N(360, 6000)
	for it := 0; it < n; it++ {
		sch := soPick(rng, "http://", "https://", "s3+http://", "s3+https://", "sftp://", "gs://")
		host := soPick(rng, "host", "h:8080", "u@host", "127.0.0.1:9000")
		if sch == "gs://" {
			host = soPick(rng, "bucket", "b-2")
		}
		// the directory part: one to three elements (an S3 location needs its bucket there)
		var dir string
		for k := 1 + rng.Intn(3); k > 0; k-- {
			dir += "/" + soPick(rng, "indexes", "bucket", "p", "q", "a b", "v1.0", "x.caibx")
		}
		if sch == "sftp://" {
			dir = work + dir
		}
		// the last element: none (a store location with "/" appended, as index-server does), or an index name, with or
		// without a trailing slash
		name := soPick(rng, "", "", "a.caibx", "i.caidx", "x")
		loc := sch + host + dir + soPick(rng, "/", "/", "/", "//") + name
		if name != "" {
			loc += soPick(rng, "", "", "/")
		}
		if strings.HasPrefix(sch, "s3") && rng.Intn(3) == 0 {
			loc += soPick(rng, "?lookup=dns", "?lookup=path", "?lookup=auto")
		}
		scheme, sname, upath, _ := soParams(loc)
		line := buildCase("so.index", kv{"loc": hx([]byte(loc)), "scheme": scheme, "sname": sname, "upath": upath}, "loc", "scheme", "sname", "upath")
		res := implSoIndex(line)
		shape := "name"
		if name == "" {
			shape = "store/"
		} else if strings.HasSuffix(strings.SplitN(loc, "?", 2)[0], "/") {
			shape = "name/"
		}
		rep.Count(line, strings.HasPrefix(res, "key="), "so.index:"+strings.TrimSuffix(sch, "://")+":"+shape)
		rep.Compare(m, line, implSoIndex, nil)
	}
}

// ---------------------------------------------------------------------------------------------------------------
// so.srv up=http: an HTTP index store as the upstream of index-server

// soUpstream serves the files below root (GET, HEAD, PUT) and keeps the path of every request
type soUpstream struct {
	srv    *httptest.Server
	prefix string // the configured store: every request must be below it
	mu     sync.Mutex
	reqs   []string
}

func (u *soUpstream) Close() {
	if u != nil {
		u.srv.Close()
	}
}

// Stray: the first request that was not below the configured store
func (u *soUpstream) Stray() string {
	if u == nil {
		return ""
	}
	u.mu.Lock()
	defer u.mu.Unlock()
	for _, r := range u.reqs {
		f := strings.SplitN(r, " ", 2)
		if !strings.HasPrefix(path.Clean(f[1]), u.prefix+"/") {
			return fmt.Sprintf("upstream-request-outside-the-store(%s,store=%s)", strings.ReplaceAll(r, " ", ":"), u.prefix)
		}
	}
	return ""
}

func newSoUpstream(root, prefix string) *soUpstream {
	u := &soUpstream{prefix: prefix}
	u.srv = httptest.NewServer(http.HandlerFunc(func(w http.ResponseWriter, r *http.Request) {
		u.mu.Lock()
		u.reqs = append(u.reqs, r.Method+" "+r.URL.Path)
		u.mu.Unlock()
		fp := filepath.Join(root, path.Clean("/"+r.URL.Path))
		switch r.Method {
		case "GET", "HEAD":
			b, err := os.ReadFile(fp)
			if err != nil {
				http.Error(w, "not found", 404)
				return
			}
			w.Write(b)
		case "PUT":
			b, _ := io.ReadAll(r.Body)
			os.MkdirAll(filepath.Dir(fp), 0755)
			if err := os.WriteFile(fp, b, 0644); err != nil {
				http.Error(w, err.Error(), 500)
			}
		default:
			http.Error(w, "method", 405)
		}
	}))
	return u
}

// soServedStore: what the server of an so.srv case is given as --store: the directory, or (up=http, index-server) the
// URL of an HTTP index store that serves the parent directory, so that the store is <url>/store[/]
func soServedStore(a kv, dir, storeDir string) (string, *soUpstream) {
	if a["kind"] != "index" || a["up"] != "http" {
		return storeDir, nil
	}
	u := newSoUpstream(dir, "/"+filepath.Base(storeDir))
	arg := u.srv.URL + "/" + filepath.Base(storeDir)
	if a["uts"] == "1" {
		arg += "/"
	}
	return arg, u
}

// ---------------------------------------------------------------------------------------------------------------
// symbolic links in local store locations and in the patterns of the configuration

// storeOptsSymlinks: so.locmatch and so.store on locations that are, or pass through, symbolic links, with entries
// written for the location as it is addressed, for the place it resolves to, and globs over both.  The model:
// locationMatch compares the two texts after filepath.Abs, the file system is not consulted.
func storeOptsSymlinks(cfg Config, rep *Report, m *Model, rng *rand.Rand, work string) {
	ch, err := soGetChild()
	if err != nil {
		return
	}
	_, _, _, cwd := soParams("x")
	cwdDir := ch.dir
	root := filepath.Join(work, "sym")
	os.MkdirAll(filepath.Join(root, "real", "sub"), 0755)
	os.MkdirAll(filepath.Join(root, "deep"), 0755)
	os.Symlink(filepath.Join(root, "real"), filepath.Join(root, "lnk")) // absolute target
	os.Symlink("real", filepath.Join(root, "rel"))                       // relative target
	os.Symlink("../real/sub", filepath.Join(root, "deep", "l2"))        // a link to a directory further down
	os.Symlink("lnk", filepath.Join(root, "chain"))                      // a link to a link
	os.Symlink(filepath.Join(root, "real"), filepath.Join(cwdDir, "lnkc")) // reached by a relative location
	defer os.Remove(filepath.Join(cwdDir, "lnkc"))
	locs := []string{
		filepath.Join(root, "lnk"), filepath.Join(root, "lnk", "sub"), filepath.Join(root, "rel"), filepath.Join(root, "rel", "sub"),
		filepath.Join(root, "deep", "l2"), filepath.Join(root, "chain"), filepath.Join(root, "chain", "sub"),
		filepath.Join(root, "real"), filepath.Join(root, "real", "sub"), "lnkc", "./lnkc/sub", "./lnkc",
	}
	// patterns for a location: as addressed, resolved, absolute, and globs over either spelling
	patternFor := func(loc string) string {
		trimmed := strings.TrimSuffix(loc, "/")
		abs := trimmed
		if !filepath.IsAbs(abs) {
			abs = filepath.Join(cwdDir, abs)
		}
		resolved, err := filepath.EvalSymlinks(abs)
		if err != nil {
			resolved = abs
		}
		var p string
		switch rng.Intn(8) {
		case 0, 1:
			p = trimmed
		case 2:
			p = resolved
		case 3:
			p = abs
		case 4:
			p = filepath.Dir(abs) + "/*"
		case 5:
			p = filepath.Dir(resolved) + "/*"
		case 6:
			p = abs[:len(abs)-1] + "?"
		default:
			p = resolved[:len(resolved)-1] + "?"
		}
		return p + soPick(rng, "", "", "/")
	}
	n := cfg.N(300, 6000)
	for it := 0; it < n; it++ {
		loc := soPick(rng, locs...) + soPick(rng, "", "", "/")
		pat := patternFor(loc)
		scheme, _, _, _ := soParams(loc)
		line := buildCase("so.locmatch", kv{"scheme": scheme, "cwd": cwd, "pat": hx([]byte(pat)), "loc": hx([]byte(loc))}, "scheme", "cwd", "pat", "loc")
		res := implSoLocMatch(line)
		rep.Count(line, res == "1", "so.locmatch:symlink="+res)
		rep.Compare(m, line, implSoLocMatch, nil)
	}
	n = cfg.N(240, 4000)
	for it := 0; it < n; it++ {
		loc := soPick(rng, locs...) + soPick(rng, "", "", "/")
		var es []string
		seen := map[string]bool{}
		for k := 1 + rng.Intn(2); k > 0; k-- {
			p := patternFor(loc)
			if seen[p] {
				continue
			}
			seen[p] = true
			es = append(es, fmt.Sprintf("%s:%s:%s:%s", hx([]byte(p)), b01(rng.Intn(2) == 1), b01(rng.Intn(2) == 1), soPick(rng, "-", "-", "0", "7")))
		}
		scheme, sname, _, _ := soParams(loc)
		line := buildCase("so.store", kv{"scheme": scheme, "sname": sname, "cwd": cwd, "loc": hx([]byte(loc)), "ents": strings.Join(es, ";"),
			"skip": b01(rng.Intn(4) == 0), "retry": soPick(rng, "-", "-", "0", "5"), "n": fmt.Sprint(1 + rng.Intn(20)), "ti": b01(rng.Intn(4) == 0)},
			"scheme", "sname", "cwd", "loc", "ents", "skip", "retry", "n", "ti")
		res := implSoStore(line)
		tag := strings.Fields(res + " ?")[0]
		if strings.HasPrefix(res, "ok") {
			f := strings.Fields(res)
			tag = "ok:" + f[3]
		}
		rep.Count(line, strings.HasPrefix(res, "ok"), "so.store:symlink:"+tag)
		rep.Compare(m, line, implSoStore, nil)
	}
}
