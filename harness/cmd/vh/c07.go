package main

import (
	"bytes"
	"context"
	"errors"
	"fmt"
	"io"
	"math/rand"
	"net"
	"net/http"
	"os"
	"path/filepath"
	"strings"
	"sync"
	"sync/atomic"
	"syscall"
	"time"

	"github.com/folbricht/desync"
)

// memStore is an in-memory WriteStore with scripted failures: the k-th call (counted over all
// operations, from 0) fails if fail[k]; failOp restricts the failure to one kind of call.
type memStore struct {
	mu     sync.Mutex
	chunks map[desync.ChunkID][]byte
	calls  int
	fail   map[int]bool
	failOp string // "" = any, "has", "store", "get"
	log    []string
	onCall func(k int) // called at every store call with its index (used to cancel a context at an exact point)
	delay  time.Duration
}

func newMemStore() *memStore {
	return &memStore{chunks: map[desync.ChunkID][]byte{}, fail: map[int]bool{}}
}

// cancelBar is a ProgressBar that cancels a context when progress has been reported k times (Increment / Add calls):
// a cancellation that arrives from inside a worker, between two of its jobs
type cancelBar struct {
	mu     sync.Mutex
	calls  int
	k      int
	cancel context.CancelFunc
}

func (b *cancelBar) tick() int {
	b.mu.Lock()
	defer b.mu.Unlock()
	if b.calls == b.k && b.cancel != nil {
		b.cancel()
	}
	b.calls++
	return b.calls
}
func (b *cancelBar) SetTotal(int)                {}
func (b *cancelBar) Start()                      {}
func (b *cancelBar) Finish()                     {}
func (b *cancelBar) Increment() int              { return b.tick() }
func (b *cancelBar) Add(int) int                 { return b.tick() }
func (b *cancelBar) Set(int)                     {}
func (b *cancelBar) Write(p []byte) (int, error) { return len(p), nil }

// memStoreHook, when set, is called at every call of every memStore (C07: cancellation from inside a store call)
var memStoreHook func()

func (s *memStore) tick(op string) bool {
	k := s.calls
	s.calls++
	if h := memStoreHook; h != nil {
		h()
	}
	if s.onCall != nil {
		s.onCall(k)
	}
	if s.delay > 0 {
		s.mu.Unlock()
		time.Sleep(s.delay)
		s.mu.Lock()
	}
	return s.fail[k] && (s.failOp == "" || s.failOp == op)
}

func (s *memStore) GetChunk(id desync.ChunkID) (*desync.Chunk, error) {
	s.mu.Lock()
	defer s.mu.Unlock()
	if s.tick("get") {
		return nil, errors.New("scripted get failure")
	}
	b, ok := s.chunks[id]
	if !ok {
		return nil, desync.ChunkMissing{ID: id}
	}
	return desync.NewChunkWithID(id, b, false)
}
func (s *memStore) HasChunk(id desync.ChunkID) (bool, error) {
	s.mu.Lock()
	defer s.mu.Unlock()
	if s.tick("has") {
		return false, errors.New("scripted has failure")
	}
	_, ok := s.chunks[id]
	return ok, nil
}
func (s *memStore) StoreChunk(c *desync.Chunk) error {
	id := c.ID()
	b, err := c.Data()
	if err != nil {
		return err
	}
	s.mu.Lock()
	defer s.mu.Unlock()
	if s.tick("store") {
		return errors.New("scripted store failure")
	}
	s.chunks[id] = append([]byte{}, b...)
	return nil
}
func (s *memStore) Close() error   { return nil }
func (s *memStore) String() string { return "mem" }

// cancelAt installs a yield hook that cancels ctx at the k-th hit of site; returns a restore func
// and a counter of hits
func cancelAt(site string, k int, cancel context.CancelFunc) (func(), *int64) {
	var hits int64
	desync.VerifYield = func(s string) {
		if s != site {
			return
		}
		if int(atomic.AddInt64(&hits, 1))-1 == k {
			cancel()
		}
	}
	return func() { desync.VerifYield = nil }, &hits
}

// makeBlob builds a blob of nch chunks (sizes 50..200) and its index; with dup, chunks repeat
func makeBlob(rng *rand.Rand, nch int, dup bool) ([]byte, desync.Index, map[desync.ChunkID][]byte) {
	var blob []byte
	idx := desync.Index{Index: desync.FormatIndex{FeatureFlags: desync.CaFormatSHA512256, ChunkSizeMin: 16, ChunkSizeAvg: 64, ChunkSizeMax: 256}}
	data := map[desync.ChunkID][]byte{}
	var pool [][]byte
	for i := 0; i < nch; i++ {
		var b []byte
		if dup && len(pool) > 0 && rng.Intn(3) > 0 {
			b = pool[rng.Intn(len(pool))]
		} else {
			b = randBytes(rng, 50+rng.Intn(150))
			pool = append(pool, b)
		}
		id := desync.Digest.Sum(b)
		data[id] = b
		idx.Chunks = append(idx.Chunks, desync.IndexChunk{ID: id, Start: uint64(len(blob)), Size: uint64(len(b))})
		blob = append(blob, b...)
	}
	return blob, idx, data
}

func isInterrupted(err error) bool {
	_, ok := err.(desync.Interrupted)
	return ok
}

func runC07(cfg Config) {
	rep := NewReport("C07", cfg.Tier, cfg.Seed,
		"for each long-running library entry point (AssembleFile incl. seed validation, VerifyIndex, ChopFile, Copy, ChunkStream, UnTarIndex, "+
			"IndexFromFile, Tar, UnTar) x worker counts x every cancellation point k (the context is cancelled at the k-th hit of the "+
			"instrumented feeder-loop site, k = 0 .. #jobs, and before the call): a nil result must come with complete work (all chunks "+
			"stored / output equals blob / index covers input / tree complete); a mismatching file must never verify. Plus the extract "+
			"temp-file protocol: destination untouched unless success. non-trivial = distinct (function, n, k) with k below the job count. "+
			"Trace validation: VerifyIndex, ChopFile, Copy, ChunkStream, Plan.Validate under a cooperative scheduler (n = 1..5, parent cancellation at a random "+
			"step, store faults / mismatching files); the recorded events must be a run of the pool machine (pool.accept, poolcs.accept), the machine must "+
			"enable exactly what the code can do next, result and completed jobs must agree")
	rng := rand.New(rand.NewSource(cfg.Seed))
	monitor := func(what, caseLine string) {
		rep.Disagree(Disagreement{Kind: "monitor", Case: caseLine, What: what})
	}
	type result struct {
		err      error
		complete bool
		detail   string
	}
	nch := 12
	if cfg.Tier == "thorough" {
		nch = 40
	}
	blob, idx, data := makeBlob(rng, nch, true)
	blobFile := filepath.Join(cfg.Work, "blob")
	os.WriteFile(blobFile, blob, 0644)
	badBlob := append([]byte{}, blob...)
	badBlob[len(badBlob)-1] ^= 1
	badFile := filepath.Join(cfg.Work, "blob.bad")
	os.WriteFile(badFile, badBlob, 0644)
	full := newMemStore()
	for id, b := range data {
		full.chunks[id] = b
	}
	ids := make([]desync.ChunkID, 0, len(idx.Chunks))
	for _, c := range idx.Chunks {
		ids = append(ids, c.ID)
	}
	// a small archive for UnTarIndex
	recs := genRecords(rng, 6, 14)
	catar := unhx(tarRecs(recs))
	tch, _ := desync.NewChunker(bytes.NewReader(catar), 48, 64, 96)
	tarStore := newMemStore()
	tarIdx, _ := desync.ChunkStream(context.Background(), tch, tarStore, 2)
	wantNodes := len(expectedNodes(recs))

	type fn struct {
		name, site string
		jobs       int
		run        func(ctx context.Context, n int) result
	}
	fns := []fn{
		{"ChopFile", "ChopFile.feed", len(idx.Chunks), func(ctx context.Context, n int) result {
			ws := newMemStore()
			err := desync.ChopFile(ctx, blobFile, idx.Chunks, ws, n, desync.NewProgressBar(""))
			return result{err, len(ws.chunks) == len(data), fmt.Sprintf("stored %d of %d", len(ws.chunks), len(data))}
		}},
		{"Copy", "Copy.feed", len(ids), func(ctx context.Context, n int) result {
			ws := newMemStore()
			err := desync.Copy(ctx, ids, full, ws, n, desync.NewProgressBar(""))
			return result{err, len(ws.chunks) == len(data), fmt.Sprintf("copied %d of %d", len(ws.chunks), len(data))}
		}},
		{"VerifyIndex(mismatch in last chunk)", "VerifyIndex.feed", len(idx.Chunks), func(ctx context.Context, n int) result {
			err := desync.VerifyIndex(ctx, badFile, idx, n, desync.NewProgressBar(""))
			return result{err, false, "the file differs from the index in its last byte"}
		}},
		{"ChunkStream", "ChunkStream.feed", 0, func(ctx context.Context, n int) result {
			c, _ := desync.NewChunker(bytes.NewReader(blob), 48, 64, 128)
			ws := newMemStore()
			ix, err := desync.ChunkStream(ctx, c, ws, n)
			ok := ix.Length() == int64(len(blob))
			for _, ch := range ix.Chunks {
				if _, has := ws.chunks[ch.ID]; !has {
					ok = false
				}
			}
			return result{err, ok, fmt.Sprintf("index covers %d of %d bytes", ix.Length(), len(blob))}
		}},
		{"AssembleFile", "AssembleFile.feed", len(idx.Chunks), func(ctx context.Context, n int) result {
			out := filepath.Join(cfg.Work, "out")
			os.Remove(out)
			_, err := desync.AssembleFile(ctx, out, idx, full, nil, desync.AssembleOptions{N: n})
			b, _ := os.ReadFile(out)
			return result{err, bytes.Equal(b, blob), fmt.Sprintf("output has %d bytes, equal=%v", len(b), bytes.Equal(b, blob))}
		}},
		{"AssembleFile+seed(validate)", "PlanValidate.feed", 3, func(ctx context.Context, n int) result {
			out := filepath.Join(cfg.Work, "out")
			os.Remove(out)
			seed, _ := desync.NewIndexSeed(out, blobFile, idx)
			_, err := desync.AssembleFile(ctx, out, idx, full, []desync.Seed{seed}, desync.AssembleOptions{N: n, InvalidSeedAction: desync.InvalidSeedActionSkip})
			b, _ := os.ReadFile(out)
			return result{err, bytes.Equal(b, blob), fmt.Sprintf("output has %d bytes, equal=%v", len(b), bytes.Equal(b, blob))}
		}},
		{"AssembleFile+seed(many segments,skip)", "PlanValidate.feed", 3, func(ctx context.Context, n int) result {
			e, ok, d := assembleWithSegmentedSeed(ctx, cfg, n, idx, blob, full, desync.InvalidSeedActionSkip)
			return result{e, ok, d}
		}},
		{"AssembleFile+seed(many segments,regenerate)", "PlanValidate.feed", 3, func(ctx context.Context, n int) result {
			e, ok, d := assembleWithSegmentedSeed(ctx, cfg, n, idx, blob, full, desync.InvalidSeedActionRegenerate)
			return result{e, ok, d}
		}},
		{"UnTarIndex", "UnTarIndex.feed", len(tarIdx.Chunks), func(ctx context.Context, n int) result {
			fs := &recFS{}
			err := desync.UnTarIndex(ctx, fs, tarIdx, tarStore, n, desync.NewProgressBar(""))
			return result{err, len(fs.nodes) == wantNodes, fmt.Sprintf("%d of %d nodes", len(fs.nodes), wantNodes)}
		}},
	}
	ns := []int{1, 2, 4}
	if cfg.Tier == "thorough" {
		ns = []int{1, 2, 3, 4, 8, 16}
	}
	for _, f := range fns {
		for _, n := range ns {
			// uncancelled run: learn the number of hits and check the baseline
			restore, hits := cancelAt(f.site, -1, func() {})
			r0 := f.run(context.Background(), n)
			restore()
			total := int(*hits)
			base := fmt.Sprintf("cancel fn=%s n=%d k=none", f.name, n)
			rep.Count(base, true, "fn:"+f.name)
			if !strings.HasPrefix(f.name, "VerifyIndex") && (r0.err != nil || !r0.complete) {
				monitor(fmt.Sprintf("uncancelled run did not complete: err=%v %s", r0.err, r0.detail), base)
			}
			hung := 0
			for k := -1; k <= total && hung < 2; k++ { // (two runs that do not return are enough evidence; their goroutines keep spinning)
				ctx, cancel := context.WithCancel(context.Background())
				if k == -1 {
					cancel() // cancelled before the call
				}
				restore, _ := cancelAt(f.site, k, cancel)
				done := make(chan result, 1)
				go func() { done <- f.run(ctx, n) }()
				var r result
				select {
				case r = <-done:
				case <-time.After(20 * time.Second):
					r = result{errors.New("hang"), false, "no return within 20 s"}
					monitor("operation hangs after cancellation", fmt.Sprintf("cancel fn=%s n=%d k=%d", f.name, n, k))
					hung++
				}
				restore()
				cancel()
				caseLine := fmt.Sprintf("cancel fn=%s n=%d k=%d of %d", f.name, n, k, total)
				rep.Count(caseLine, k < total, "fn:"+f.name, fmt.Sprintf("outcome:%s", map[bool]string{true: "nil", false: "error"}[r.err == nil]))
				if r.err == nil && !r.complete {
					monitor(fmt.Sprintf("%s reported success although its work is incomplete (%s)", f.name, r.detail), caseLine)
				}
				if r.err != nil && !isInterrupted(r.err) && k < total && !strings.HasPrefix(f.name, "VerifyIndex") && r.err.Error() != "hang" {
					// any error is acceptable for the property; note unusual ones
					rep.Histogram["other-error:"+f.name]++
				}
			}
		}
	}

	// cancellation from inside the k-th store call (HasChunk / GetChunk / StoreChunk of whichever store the
	// operation talks to), for every k incl. the calls of the very last jobs: the feeder has nothing left to
	// flag then, the workers themselves must not drop their job quietly
	for _, f := range fns {
		if strings.HasPrefix(f.name, "VerifyIndex") || strings.HasPrefix(f.name, "AssembleFile+seed(validate)") {
			continue // no store involved
		}
		for _, n := range ns {
			var total int64
			memStoreHook = func() { atomic.AddInt64(&total, 1) }
			f.run(context.Background(), n)
			memStoreHook = nil
			T := int(total)
			for k := 0; k < T; k++ {
				if T > 70 && k%((T+59)/60) != 0 && k < T-8 {
					continue
				}
				ctx, cancel := context.WithCancel(context.Background())
				var hits int64
				memStoreHook = func() {
					if int(atomic.AddInt64(&hits, 1))-1 == k {
						cancel()
					}
				}
				done := make(chan result, 1)
				go func() { done <- f.run(ctx, n) }()
				var r result
				select {
				case r = <-done:
				case <-time.After(20 * time.Second):
					r = result{errors.New("hang"), false, "no return within 20 s"}
					monitor("operation hangs after cancellation", fmt.Sprintf("cancel fn=%s n=%d at-store-call=%d", f.name, n, k))
				}
				memStoreHook = nil
				cancel()
				caseLine := fmt.Sprintf("cancel fn=%s n=%d at-store-call=%d of %d", f.name, n, k, T)
				rep.Count(caseLine, true, "fn:"+f.name+"/store-call", fmt.Sprintf("outcome:%s", map[bool]string{true: "nil", false: "error"}[r.err == nil]))
				if r.err == nil && !r.complete {
					monitor(fmt.Sprintf("%s reported success although its work is incomplete (%s)", f.name, r.detail), caseLine)
					break
				}
			}
		}
	}

	// cancellation from inside a worker, at the k-th progress report (the progress bar is the caller's): the
	// feeder may have handed out everything by then; what the workers still hold must not be dropped quietly
	{
		type pfn struct {
			name string
			run  func(ctx context.Context, n int, pb desync.ProgressBar) result
		}
		pfns := []pfn{
			{"VerifyIndex(mismatch in last chunk)", func(ctx context.Context, n int, pb desync.ProgressBar) result {
				err := desync.VerifyIndex(ctx, badFile, idx, n, pb)
				return result{err, false, "the file differs from the index in its last byte"}
			}},
			{"ChopFile", func(ctx context.Context, n int, pb desync.ProgressBar) result {
				ws := newMemStore()
				err := desync.ChopFile(ctx, blobFile, idx.Chunks, ws, n, pb)
				return result{err, len(ws.chunks) == len(data), fmt.Sprintf("stored %d of %d", len(ws.chunks), len(data))}
			}},
			{"Copy", func(ctx context.Context, n int, pb desync.ProgressBar) result {
				ws := newMemStore()
				err := desync.Copy(ctx, ids, full, ws, n, pb)
				return result{err, len(ws.chunks) == len(data), fmt.Sprintf("copied %d of %d", len(ws.chunks), len(data))}
			}},
			{"UnTarIndex", func(ctx context.Context, n int, pb desync.ProgressBar) result {
				fs := &recFS{}
				err := desync.UnTarIndex(ctx, fs, tarIdx, tarStore, n, pb)
				return result{err, len(fs.nodes) == wantNodes, fmt.Sprintf("%d of %d nodes", len(fs.nodes), wantNodes)}
			}},
		}
		for _, f := range pfns {
			for _, n := range ns {
				count := &cancelBar{k: -1}
				f.run(context.Background(), n, count)
				T := count.calls
				for k := 0; k < T; k++ {
					for rep2 := 0; rep2 < 2; rep2++ {
						ctx, cancel := context.WithCancel(context.Background())
						done := make(chan result, 1)
						go func() { done <- f.run(ctx, n, &cancelBar{k: k, cancel: cancel}) }()
						var r result
						select {
						case r = <-done:
						case <-time.After(20 * time.Second):
							r = result{errors.New("hang"), false, "no return within 20 s"}
							monitor("operation hangs after cancellation", fmt.Sprintf("cancel fn=%s n=%d at-progress=%d", f.name, n, k))
						}
						cancel()
						caseLine := fmt.Sprintf("cancel fn=%s n=%d at-progress=%d of %d", f.name, n, k, T)
						rep.Count(caseLine, true, "fn:"+f.name+"/progress", fmt.Sprintf("outcome:%s", map[bool]string{true: "nil", false: "error"}[r.err == nil]))
						if r.err == nil && !r.complete {
							monitor(fmt.Sprintf("%s reported success although its work is incomplete (%s)", f.name, r.detail), caseLine)
						}
					}
				}
			}
		}
	}

	// worker-checked loops: IndexFromFile, Tar, UnTar with a context cancelled before / during
	for it := 0; it < cfg.N(40, 600); it++ {
		ctx, cancel := context.WithCancel(context.Background())
		delay := time.Duration(rng.Intn(300)) * time.Microsecond
		if it%4 == 0 {
			cancel()
		} else {
			go func() { time.Sleep(delay); cancel() }()
		}
		big := filepath.Join(cfg.Work, "big")
		if it == 0 {
			os.WriteFile(big, randBytes(rng, 400000), 0644)
		}
		ix, _, err := desync.IndexFromFile(ctx, big, 1+rng.Intn(8), 48, 64, 128, desync.NewProgressBar(""))
		caseLine := fmt.Sprintf("cancel fn=IndexFromFile it=%d", it)
		rep.Count(caseLine, true, "fn:IndexFromFile")
		if err == nil && ix.Length() != 400000 {
			monitor(fmt.Sprintf("IndexFromFile reported success with an index covering %d of 400000 bytes", ix.Length()), caseLine)
		}
		cancel()
		ctx2, cancel2 := context.WithCancel(context.Background())
		cancel2()
		fs := &recFS{}
		if err := desync.UnTar(ctx2, bytes.NewReader(catar), fs); err == nil && len(fs.nodes) != wantNodes {
			monitor("UnTar reported success on a cancelled context with an incomplete tree", "cancel fn=UnTar")
		}
		var buf bytes.Buffer
		if err := desync.Tar(ctx2, &buf, &recReader{recs: recs}); err == nil && !bytes.Equal(buf.Bytes(), catar) {
			monitor("Tar reported success on a cancelled context with an incomplete archive", "cancel fn=Tar")
		}
	}
	// UnTarIndex, cancelled while the assembler waits and the feeder has already handed out every chunk: the chunks
	// still queued must not be dropped silently.  The index is cut at a node boundary of the archive (a prefix plain
	// UnTar accepts), so that what has been written to the pipe so far looks like a complete archive.
	{
		var cuts []int
		for i := 1; i < len(catar) && len(cuts) < cfg.N(3, 12); i++ {
			fs := &recFS{}
			if err := desync.UnTar(context.Background(), bytes.NewReader(catar[:i]), fs); err == nil && len(fs.nodes) > 0 && len(fs.nodes) < wantNodes {
				if len(cuts) == 0 || i-cuts[len(cuts)-1] > 40 {
					cuts = append(cuts, i)
				}
			}
		}
		for _, cut := range cuts {
			st := newMemStore()
			var ix desync.Index
			off := 0
			for _, part := range [][]byte{catar[:cut], catar[cut:]} {
				id := desync.Digest.Sum(part)
				st.chunks[id] = part
				ix.Chunks = append(ix.Chunks, desync.IndexChunk{ID: id, Start: uint64(off), Size: uint64(len(part))})
				off += len(part)
			}
			for try := 0; try < cfg.N(12, 40); try++ {
				ctx, cancel := context.WithCancel(context.Background())
				var hits int64
				desync.VerifYield = func(site string) {
					if site == "UnTarIndex.assemble" && atomic.AddInt64(&hits, 1) == 2 {
						time.Sleep(20 * time.Millisecond) // the feeder queues the last chunk and leaves
						cancel()
					}
				}
				fs := &recFS{}
				done := make(chan error, 1)
				go func() { done <- desync.UnTarIndex(ctx, fs, ix, st, 1, desync.NewProgressBar("")) }()
				var err error
				select {
				case err = <-done:
				case <-time.After(20 * time.Second):
					err = errors.New("hang")
				}
				desync.VerifYield = nil
				cancel()
				caseLine := fmt.Sprintf("cancel fn=UnTarIndex at=assembler-after-feeder cut=%d of=%d try=%d", cut, len(catar), try)
				rep.Count(caseLine, true, "fn:UnTarIndex/assembler", fmt.Sprintf("outcome:%v", err == nil))
				if err == nil && len(fs.nodes) != wantNodes {
					monitor(fmt.Sprintf("UnTarIndex reported success after a cancellation with %d of %d nodes unpacked (the queued chunks were dropped)", len(fs.nodes), wantNodes), caseLine)
					break
				}
			}
		}
	}
	// UnTar onto the real file system (LocalFS restores directory times at the end: finishUntar),
	// cancelled after k bytes of the archive have been read, for k spread over the archive
	{
		srcDir := filepath.Join(cfg.Work, "untar-src")
		os.MkdirAll(filepath.Join(srcDir, "a", "b"), 0755)
		os.MkdirAll(filepath.Join(srcDir, "c"), 0755)
		want := 4 // ., a, a/b, c
		for i := 0; i < 14; i++ {
			d := []string{"", "a", "a/b", "c"}[i%4]
			os.WriteFile(filepath.Join(srcDir, d, fmt.Sprintf("f%02d", i)), randBytes(rng, 50+rng.Intn(400)), 0644)
			want++
		}
		var ar bytes.Buffer
		if err := desync.Tar(context.Background(), &ar, desync.NewLocalFS(srcDir, desync.LocalFSOptions{})); err == nil {
			total := ar.Len()
			steps := cfg.N(40, 400)
			for j := 0; j <= steps; j++ {
				k := total * j / steps
				dst := filepath.Join(cfg.Work, "untar-dst")
				os.RemoveAll(dst)
				os.MkdirAll(dst, 0755)
				ctx, cancel := context.WithCancel(context.Background())
				r := &cancelAfterReader{r: bytes.NewReader(ar.Bytes()), left: k, cancel: cancel}
				err := desync.UnTar(ctx, r, desync.NewLocalFS(dst, desync.LocalFSOptions{}))
				cancel()
				got := 0
				filepath.Walk(dst, func(p string, info os.FileInfo, e error) error {
					if e == nil {
						got++
					}
					return nil
				})
				caseLine := fmt.Sprintf("cancel fn=UnTar fs=LocalFS after-bytes=%d of=%d", k, total)
				rep.Count(caseLine, k < total, "fn:UnTar/LocalFS", fmt.Sprintf("outcome:%v", err == nil))
				if err == nil && got != want {
					monitor(fmt.Sprintf("UnTar to disk reported success after a cancellation with %d of %d nodes written", got, want), caseLine)
				}
			}
		}
	}
	runPoolTraces(cfg, rep, []string{"VerifyIndex", "ChopFile", "Copy", "ChunkStream", "PlanValidate"}, cfg.N(450, 11000), 7)
	c07CLI(cfg, rep, rng, monitor)
	cmdflowCLI(cfg, rep, rng, "C07")
	rep.Write(cfg.Out)
}

// cancelAfterReader cancels a context once `left` bytes have been handed out
type cancelAfterReader struct {
	r      io.Reader
	left   int
	cancel context.CancelFunc
}

func (c *cancelAfterReader) Read(p []byte) (int, error) {
	if c.left <= 0 {
		c.cancel()
	} else if len(p) > c.left {
		p = p[:c.left]
	}
	n, err := c.r.Read(p)
	c.left -= n
	if c.left <= 0 {
		c.cancel()
	}
	return n, err
}

// assembleWithSegmentedSeed: AssembleFile with a file seed that shares every other chunk with the blob, so that the
// plan holds many seed segments (a validation that is cut short by a cancellation has many hand-outs left)
func assembleWithSegmentedSeed(ctx context.Context, cfg Config, n int, idx desync.Index, blob []byte, store desync.Store, act desync.InvalidSeedAction) (error, bool, string) {
	out := filepath.Join(cfg.Work, "out")
	os.Remove(out)
	seedFile := filepath.Join(cfg.Work, "segseed")
	var sb []byte
	var sidx desync.Index
	sidx.Index = idx.Index
	for i, c := range idx.Chunks {
		var d []byte
		if i%2 == 0 {
			d = blob[c.Start : c.Start+c.Size]
		} else {
			d = bytes.Repeat([]byte{byte(i), 0xa5}, 20+i)
		}
		sidx.Chunks = append(sidx.Chunks, desync.IndexChunk{ID: desync.Digest.Sum(d), Start: uint64(len(sb)), Size: uint64(len(d))})
		sb = append(sb, d...)
	}
	os.WriteFile(seedFile, sb, 0644)
	seed, err := desync.NewIndexSeed(out, seedFile, sidx)
	if err != nil {
		return err, false, "seed"
	}
	_, err = desync.AssembleFile(ctx, out, idx, store, []desync.Seed{seed}, desync.AssembleOptions{N: n, InvalidSeedAction: act})
	b, _ := os.ReadFile(out)
	return err, bytes.Equal(b, blob), fmt.Sprintf("output has %d bytes, equal=%v", len(b), bytes.Equal(b, blob))
}

func runC06(cfg Config) {
	rep := NewReport("C06", cfg.Tier, cfg.Seed,
		"ChopFile, Copy, ChunkStream (make / tar -i) on inputs with many duplicate chunks x worker counts 1..32 x store fault schedules "+
			"(the k-th HasChunk/StoreChunk/GetChunk call fails, for every k; random subsets; faults restricted to one call kind): a nil "+
			"result must come with every referenced chunk readable and valid in the target store and, for a fresh index, an index that "+
			"describes the input exactly; a failing call observed by a worker must surface as an error. non-trivial = distinct "+
			"(function, n, fault schedule) with at least one scripted fault. Trace validation: ChopFile, Copy, ChunkStream under a cooperative scheduler "+
			"with the k-th store call failing and parent cancellations; events replayed through Pool.step (pool.accept) and, with the ChunkStorage steps, "+
			"through PoolCS.step (poolcs.accept); completed jobs vs. the final content of the target store")
	rng := rand.New(rand.NewSource(cfg.Seed))
	monitor := func(what, caseLine string) {
		rep.Disagree(Disagreement{Kind: "monitor", Case: caseLine, What: what})
	}
	checkStore := func(ws *memStore, idx desync.Index, caseLine string) {
		for _, c := range idx.Chunks {
			b, ok := ws.chunks[c.ID]
			if !ok {
				monitor("success reported but a referenced chunk is missing from the target store", caseLine)
				return
			}
			if desync.Digest.Sum(b) != c.ID || uint64(len(b)) != c.Size {
				monitor("success reported but a stored chunk is invalid", caseLine)
				return
			}
		}
	}
	rounds := cfg.N(25, 400)
	for it := 0; it < rounds; it++ {
		nch := 6 + rng.Intn(14)
		blob, idx, data := makeBlob(rng, nch, true)
		blobFile := filepath.Join(cfg.Work, "blob06")
		os.WriteFile(blobFile, blob, 0644)
		src := newMemStore()
		for id, b := range data {
			src.chunks[id] = b
		}
		ids := make([]desync.ChunkID, 0, len(idx.Chunks))
		for _, c := range idx.Chunks {
			ids = append(ids, c.ID)
		}
		n := 1 + rng.Intn(8)
		if it%5 == 0 {
			n = 16 + rng.Intn(17)
		}
		maxCalls := 3*len(idx.Chunks) + 2
		var schedules []map[int]bool
		schedules = append(schedules, map[int]bool{})
		for k := 0; k < maxCalls; k++ {
			schedules = append(schedules, map[int]bool{k: true})
		}
		for j := 0; j < 6; j++ {
			m := map[int]bool{}
			for q := 0; q < 1+rng.Intn(4); q++ {
				m[rng.Intn(maxCalls)] = true
			}
			schedules = append(schedules, m)
		}
		// defective inputs without any store fault: a data file that no longer matches the index
		// (stale, shorter, longer), a source store that lacks chunks or holds invalid ones
		for v := 0; v < 6; v++ {
			stale := append([]byte{}, blob...)
			what := ""
			switch v {
			case 0, 1, 2: // same length, bytes inside one chunk differ
				c := idx.Chunks[rng.Intn(len(idx.Chunks))]
				for q := 0; q <= rng.Intn(3); q++ {
					stale[int(c.Start)+rng.Intn(int(c.Size))] ^= byte(1 + rng.Intn(255))
				}
				what = "bytes-changed"
			case 3:
				stale = stale[:len(stale)-1-rng.Intn(len(stale)/2)]
				what = "shorter"
			case 4:
				stale = append(stale[:len(stale)/2], randBytes(rng, len(stale)-len(stale)/2)...)
				what = "second-half-replaced"
			case 5:
				what = "unchanged"
			}
			staleFile := filepath.Join(cfg.Work, "stale06")
			os.WriteFile(staleFile, stale, 0644)
			ws := newMemStore()
			err := desync.ChopFile(context.Background(), staleFile, idx.Chunks, ws, n, desync.NewProgressBar(""))
			caseLine := fmt.Sprintf("defective-input fn=ChopFile file=%s n=%d it=%d seed=%d", what, n, it, cfg.Seed)
			rep.Count(caseLine, what != "unchanged", "fn:ChopFile/stale-file", fmt.Sprintf("outcome:%v", err == nil))
			if err == nil {
				checkStore(ws, idx, caseLine)
			} else if what == "unchanged" {
				monitor("ChopFile failed on a file that matches its index: "+err.Error(), caseLine)
			}
			// Copy from a source that lacks (or holds a damaged copy of) a chunk
			src2 := newMemStore()
			for id, b := range data {
				src2.chunks[id] = b
			}
			victim := ids[rng.Intn(len(ids))]
			what = "missing-in-source"
			if v%2 == 1 {
				src2.chunks[victim] = append([]byte{1}, src2.chunks[victim]...)
				what = "invalid-in-source"
			} else {
				delete(src2.chunks, victim)
			}
			wd := newMemStore()
			pre := v >= 4 // the target already has it: nothing needs to be fetched
			if pre {
				wd.chunks[victim] = data[victim]
			}
			err = desync.Copy(context.Background(), ids, src2, wd, n, desync.NewProgressBar(""))
			caseLine = fmt.Sprintf("defective-input fn=Copy source=%s target-has-it=%v n=%d it=%d seed=%d", what, pre, n, it, cfg.Seed)
			rep.Count(caseLine, true, "fn:Copy/"+what, fmt.Sprintf("outcome:%v", err == nil))
			if err == nil {
				checkStore(wd, idx, caseLine)
			}
		}
		// a context cancelled at an exact store call (also during the last few): a nil result must still mean
		// that every referenced chunk is in the target store
		for rep2 := 0; rep2 < 10; rep2++ {
			total := len(ids)
			k := rng.Intn(2*total + 2)
			if rep2%2 == 0 {
				k = 2*total - rng.Intn(2*n+2) // near the end
				if k < 0 {
					k = 0
				}
			}
			for _, fn := range []string{"Copy", "ChopFile", "ChunkStream"} {
				ctx, cancel := context.WithCancel(context.Background())
				wt := newMemStore()
				wt.delay = time.Duration(rng.Intn(150)) * time.Microsecond
				cs := newMemStore()
				for id, b := range data {
					cs.chunks[id] = b
				}
				cs.delay = time.Duration(rng.Intn(150)) * time.Microsecond
				trigger := func(kk int) {
					if kk == k {
						cancel()
					}
				}
				if fn == "Copy" && rng.Intn(2) == 0 {
					cs.onCall = trigger
				} else {
					wt.onCall = trigger
				}
				var err error
				var ix desync.Index = idx
				switch fn {
				case "Copy":
					err = desync.Copy(ctx, ids, cs, wt, n, desync.NewProgressBar(""))
				case "ChopFile":
					err = desync.ChopFile(ctx, blobFile, idx.Chunks, wt, n, desync.NewProgressBar(""))
				default:
					c, _ := desync.NewChunker(bytes.NewReader(blob), 48, 64, 128)
					ix, err = desync.ChunkStream(ctx, c, wt, n)
				}
				cancel()
				caseLine := fmt.Sprintf("cancel fn=%s n=%d at-call=%d of~%d it=%d seed=%d", fn, n, k, 2*total, it, cfg.Seed)
				rep.Count(caseLine, true, "fn:"+fn+"/cancel", fmt.Sprintf("cancel-outcome:%v", err == nil))
				if err == nil {
					wt.mu.Lock()
					checkStore(wt, ix, caseLine)
					if fn == "ChunkStream" && ix.Length() != int64(len(blob)) {
						monitor("success reported after a cancellation but the fresh index does not cover the input", caseLine)
					}
					wt.mu.Unlock()
				}
			}
		}
		for si, sched := range schedules {
			for _, op := range []string{"", "has", "store"} {
				if op != "" && si%3 != 0 {
					continue
				}
				tag := fmt.Sprintf("n=%d faults=%v op=%s it=%d", n, keys(sched), op, it)
				// ChopFile
				ws := newMemStore()
				ws.fail, ws.failOp = sched, op
				if rng.Intn(3) == 0 { // some chunks pre-exist in the target
					for id, b := range data {
						if rng.Intn(2) == 0 {
							ws.chunks[id] = b
						}
					}
				}
				err := desync.ChopFile(context.Background(), blobFile, idx.Chunks, ws, n, desync.NewProgressBar(""))
				caseLine := "faults fn=ChopFile " + tag
				rep.Count(caseLine, len(sched) > 0, "fn:ChopFile", fmt.Sprintf("outcome:%v", err == nil))
				if err == nil {
					checkStore(ws, idx, caseLine)
				}
				// Copy
				wd := newMemStore()
				wd.fail, wd.failOp = sched, op
				err = desync.Copy(context.Background(), ids, src, wd, n, desync.NewProgressBar(""))
				caseLine = "faults fn=Copy " + tag
				rep.Count(caseLine, len(sched) > 0, "fn:Copy", fmt.Sprintf("outcome:%v", err == nil))
				if err == nil {
					checkStore(wd, idx, caseLine)
				}
				// ChunkStream (make, tar -i)
				wm := newMemStore()
				wm.fail, wm.failOp = sched, op
				c, _ := desync.NewChunker(bytes.NewReader(blob), 48, 64, 128)
				ix, err := desync.ChunkStream(context.Background(), c, wm, n)
				caseLine = "faults fn=ChunkStream " + tag
				rep.Count(caseLine, len(sched) > 0, "fn:ChunkStream", fmt.Sprintf("outcome:%v", err == nil))
				if err == nil {
					checkStore(wm, ix, caseLine)
					if ix.Length() != int64(len(blob)) {
						monitor("success reported but the fresh index does not cover the input", caseLine)
					}
					var pos uint64
					for _, ch := range ix.Chunks {
						if ch.Start != pos || int(ch.Start+ch.Size) > len(blob) || desync.Digest.Sum(blob[ch.Start:ch.Start+ch.Size]) != ch.ID {
							monitor("success reported but the fresh index misdescribes the input", caseLine)
							break
						}
						pos += ch.Size
					}
				}
			}
		}
	}
	// streams longer than the chunker's read buffer (10*max), chunked while a slow store still holds earlier chunks:
	// fixed-size chunking (a chunk then ends exactly at the buffer's end), long zero runs, ordinary data — what is
	// stored under an ID must be the bytes of the input range the index gives for it
	for it := 0; it < cfg.N(12, 200); it++ {
		var min, avg, max uint64
		switch it % 3 {
		case 0:
			min, avg, max = 64, 64, 64 // min = avg = max: no boundary search, every chunk is max bytes
		case 1:
			min, avg, max = 48, 64, 256
		default:
			min, avg, max = 128, 128, 128
		}
		size := int(max)*(12+rng.Intn(40)) + rng.Intn(int(max))
		data := randBytes(rng, size)
		if it%4 == 3 {
			copy(data[size/3:], make([]byte, size/3))
		}
		n := 1 + rng.Intn(4)
		ws := newMemStore()
		ws.delay = time.Duration(50+rng.Intn(400)) * time.Microsecond
		c, _ := desync.NewChunker(bytes.NewReader(data), min, avg, max)
		ix, err := desync.ChunkStream(context.Background(), c, ws, n)
		caseLine := fmt.Sprintf("long-stream fn=ChunkStream min=%d avg=%d max=%d size=%d n=%d", min, avg, max, size, n)
		rep.Count(caseLine, true, "fn:ChunkStream/long-stream", fmt.Sprintf("outcome:%v", err == nil))
		if err != nil {
			monitor("ChunkStream failed on a plain input with a healthy store: "+err.Error(), caseLine)
			continue
		}
		if ix.Length() != int64(size) {
			monitor("success reported but the fresh index does not cover the input", caseLine)
		}
		for _, ch := range ix.Chunks {
			if int(ch.Start+ch.Size) > size || desync.Digest.Sum(data[ch.Start:ch.Start+ch.Size]) != ch.ID {
				monitor("success reported but the fresh index misdescribes the input", caseLine)
				break
			}
			if b, ok := ws.chunks[ch.ID]; !ok || !bytes.Equal(b, data[ch.Start:ch.Start+ch.Size]) {
				monitor("success reported but a stored chunk is invalid: what the store holds under an ID of the index is not that range of the input", caseLine)
				break
			}
		}
	}
	runPoolTraces(cfg, rep, []string{"ChopFile", "Copy", "ChunkStream"}, cfg.N(330, 6600), 6)
	c06RealBackends(cfg, rep, rng, monitor)
	runRemoteStoresWrite(cfg, rep, rng)
	runGCSWrite(cfg, rep, rng)
	c06LargeChunks(cfg, rep, rng)
	c06CLI(cfg, rep, rng, monitor)
	cmdflowCLI(cfg, rep, rng, "C06")
	rep.Write(cfg.Out)
}

func keys(m map[int]bool) []int {
	var k []int
	for x := range m {
		k = append(k, x)
	}
	return k
}

// c07CLI: the real commands under SIGINT / SIGTERM.  The chunk store is an HTTP server in the harness that stops the
// k-th request; the signal is sent while that request is held, then the request goes on.  Exit status 0 must come
// with complete work (extract: the output is the blob; make / chop / cache: every chunk of the index is in the target
// store and, for make, the index file describes the blob); an interrupted extract without --in-place leaves the
// destination path as it was.
func c07CLI(cfg Config, rep *Report, rng *rand.Rand, monitor func(what, caseLine string)) {
	bin := desyncBin()
	if bin == "" {
		rep.Notes = append(rep.Notes, "desync binary not built: command-line signal runs skipped")
		return
	}
	work := filepath.Join(cfg.Work, "cli07")
	os.MkdirAll(work, 0755)
	defer os.RemoveAll(work)
	blob := randBytes(rng, 30000+rng.Intn(30000))
	blobFile := filepath.Join(work, "blob")
	os.WriteFile(blobFile, blob, 0644)
	// chunk the blob once with the library; the objects of the source store
	ch, _ := desync.NewChunker(bytes.NewReader(blob), 1024, 2048, 8192) // = make -m 1:2:8 (the option counts in KiB)
	src := newMemStore()
	idx, err := desync.ChunkStream(context.Background(), ch, src, 2)
	if err != nil || len(idx.Chunks) < 4 {
		return
	}
	idxFile := filepath.Join(work, "blob.caibx")
	f, _ := os.Create(idxFile)
	idx.WriteTo(f)
	f.Close()
	objects := map[string][]byte{}
	for id, b := range src.chunks {
		st, _ := desync.Compress(b)
		objects["/"+id.String()[:4]+"/"+id.String()+".cacnk"] = st
	}
	g := newGateServer()
	ln, err := net.Listen("tcp", "127.0.0.1:0")
	if err != nil {
		rep.Notes = append(rep.Notes, "cannot listen on localhost: "+err.Error())
		return
	}
	hs := &http.Server{Handler: g}
	go hs.Serve(ln)
	defer hs.Close()
	url := "http://" + ln.Addr().String() + "/"
	total := len(idx.Chunks)
	allStored := func() bool {
		g.mu.Lock()
		defer g.mu.Unlock()
		for _, c := range idx.Chunks {
			b, ok := g.objects["/"+c.ID.String()[:4]+"/"+c.ID.String()+".cacnk"]
			if !ok {
				return false
			}
			if d, err := desync.Decompress(nil, b); err != nil || desync.Digest.Sum(d) != c.ID {
				return false
			}
		}
		return true
	}
	ks := []int{0, 1, total / 2, total - 1, total, 2*total - 1}
	if cfg.Tier == "thorough" {
		ks = nil
		for k := 0; k < 2*total+2; k++ {
			ks = append(ks, k)
		}
	}
	for _, sig := range []syscall.Signal{syscall.SIGINT, syscall.SIGTERM} {
		for _, k := range ks {
			for _, cmdName := range []string{"extract", "extract-inplace", "cache", "make", "chop"} {
				n := []string{"1", "4"}[rng.Intn(2)]
				g.mu.Lock()
				g.objects = map[string][]byte{}
				if cmdName == "extract" || cmdName == "extract-inplace" || cmdName == "cache" {
					for p, b := range objects {
						g.objects[p] = b
					}
				}
				g.mu.Unlock()
				g.reset(k, -1)
				dst := filepath.Join(work, "out")
				os.Remove(dst)
				prior := []byte(nil)
				viaLink := false
				linkTarget := filepath.Join(work, "out-target")
				os.Remove(linkTarget)
				if cmdName == "extract" {
					switch rng.Intn(3) {
					case 0:
						prior = randBytes(rng, 1000)
						os.WriteFile(dst, prior, 0644)
					case 1: // the destination path is a symbolic link to an existing file
						prior = randBytes(rng, 1000)
						os.WriteFile(linkTarget, prior, 0644)
						os.Symlink(linkTarget, dst)
						viaLink = true
					}
				}
				cacheDir := filepath.Join(work, "cache")
				os.RemoveAll(cacheDir)
				os.MkdirAll(cacheDir, 0755)
				newIdx := filepath.Join(work, "new.caibx")
				os.Remove(newIdx)
				var args []string
				switch cmdName {
				case "extract":
					args = []string{"extract", "-n", n, "-s", url, "--error-retry", "0", idxFile, dst}
				case "extract-inplace":
					args = []string{"extract", "-n", n, "-s", url, "--error-retry", "0", "--in-place", idxFile, dst}
				case "cache":
					args = []string{"cache", "-n", n, "-s", url, "-c", cacheDir, "--error-retry", "0", idxFile}
				case "make":
					args = []string{"make", "-n", n, "-s", url, "--error-retry", "0", "-m", "1:2:8", newIdx, blobFile}
				case "chop":
					args = []string{"chop", "-n", n, "-s", url, "--error-retry", "0", idxFile, blobFile}
				}
				exit, signalled, stderr := runSignalled(bin, g, sig, args...)
				g.open()
				caseLine := fmt.Sprintf("cli.signal cmd=%s n=%s signal=%v at-request=%d chunks=%d destination-is-link=%v", cmdName, n, sig, k, total, viaLink)
				rep.Count(caseLine, signalled, "cli.signal:"+cmdName, fmt.Sprintf("cli-exit0:%v", exit == 0), fmt.Sprintf("cli-signalled:%v", signalled))
				if exit == -1 {
					monitor("the command did not exit within a minute after the signal: "+clip(stderr, 200), caseLine)
					continue
				}
				switch cmdName {
				case "extract", "extract-inplace":
					out, rerr := os.ReadFile(dst)
					if exit == 0 && !bytes.Equal(out, blob) {
						monitor(fmt.Sprintf("desync extract exited with status 0 after %v but the output (%d bytes) is not the blob (%d bytes)", sig, len(out), len(blob)), caseLine)
					}
					if exit != 0 && cmdName == "extract" && viaLink {
						if tb, _ := os.ReadFile(linkTarget); !bytes.Equal(tb, prior) {
							monitor("an interrupted extract without --in-place onto a symbolic link changed the file the link points to", caseLine)
						}
					}
					if exit != 0 && cmdName == "extract" {
						if prior == nil && rerr == nil {
							monitor("an interrupted extract without --in-place left a file at a destination that did not exist", caseLine)
						}
						if prior != nil && !bytes.Equal(out, prior) {
							monitor("an interrupted extract without --in-place changed the destination", caseLine)
						}
					}
				case "cache":
					if exit == 0 {
						ls, _ := desync.NewLocalStore(cacheDir, desync.StoreOptions{})
						for _, c := range idx.Chunks {
							if _, err := ls.GetChunk(c.ID); err != nil {
								monitor("desync cache exited with status 0 after "+sig.String()+" but a chunk of the index is not in the cache: "+err.Error(), caseLine)
								break
							}
						}
					}
				case "make", "chop":
					if exit == 0 && !allStored() {
						monitor("desync "+cmdName+" exited with status 0 after "+sig.String()+" but a chunk of the index is not (valid) in the store", caseLine)
					}
					if cmdName == "make" && exit == 0 {
						if fi, err := os.Open(newIdx); err != nil {
							monitor("desync make exited with status 0 but wrote no index", caseLine)
						} else {
							ni, err := desync.IndexFromReader(fi)
							fi.Close()
							if err != nil || ni.Length() != int64(len(blob)) {
								monitor("desync make exited with status 0 but the index it wrote does not describe its input", caseLine)
							}
						}
					}
				}
			}
		}
	}
}

// c06CLI: the real make / chop / cache / tar -i against an HTTP store (a server in the harness) that answers 500 from
// its k-th request on, for k spread over the whole run, with retries off: exit status 0 must come with every chunk of
// the index valid in the store, and for make / tar -i with an index that describes the input
func c06CLI(cfg Config, rep *Report, rng *rand.Rand, monitor func(what, caseLine string)) {
	bin := desyncBin()
	if bin == "" {
		rep.Notes = append(rep.Notes, "desync binary not built: command-line bulk-write runs skipped")
		return
	}
	work := filepath.Join(cfg.Work, "cli06")
	os.MkdirAll(filepath.Join(work, "tree", "sub"), 0755)
	defer os.RemoveAll(work)
	blob := append(randBytes(rng, 20000+rng.Intn(20000)), make([]byte, 20000)...) // a zero run: duplicate chunks
	blob = append(blob, blob[:9000]...)
	blobFile := filepath.Join(work, "blob")
	os.WriteFile(blobFile, blob, 0644)
	for k := 0; k < 12; k++ {
		os.WriteFile(filepath.Join(work, "tree", []string{"", "sub"}[k%2], fmt.Sprintf("f%02d", k)), randBytes(rng, 500+rng.Intn(4000)), 0644)
	}
	ch, _ := desync.NewChunker(bytes.NewReader(blob), 1024, 2048, 8192)
	src := newMemStore()
	idx, err := desync.ChunkStream(context.Background(), ch, src, 2)
	if err != nil || len(idx.Chunks) < 4 {
		return
	}
	idxFile := filepath.Join(work, "blob.caibx")
	f, _ := os.Create(idxFile)
	idx.WriteTo(f)
	f.Close()
	srcDir := filepath.Join(work, "src-store")
	os.MkdirAll(srcDir, 0755)
	ls, _ := desync.NewLocalStore(srcDir, desync.StoreOptions{})
	for id, b := range src.chunks {
		c, _ := desync.NewChunkWithID(id, b, false)
		ls.StoreChunk(c)
	}
	g := newGateServer()
	ln, err := net.Listen("tcp", "127.0.0.1:0")
	if err != nil {
		return
	}
	hs := &http.Server{Handler: g}
	go hs.Serve(ln)
	defer hs.Close()
	url := "http://" + ln.Addr().String() + "/"
	valid := func(chunks []desync.IndexChunk) string {
		g.mu.Lock()
		defer g.mu.Unlock()
		for _, c := range chunks {
			b, ok := g.objects["/"+c.ID.String()[:4]+"/"+c.ID.String()+".cacnk"]
			if !ok {
				return "chunk " + c.ID.String() + " is missing from the store"
			}
			if d, err := desync.Decompress(nil, b); err != nil || desync.Digest.Sum(d) != c.ID || uint64(len(d)) != c.Size {
				return "chunk " + c.ID.String() + " in the store is not valid"
			}
		}
		return ""
	}
	for _, cmdName := range []string{"make", "chop", "cache", "tar-i"} {
		// a run without failures tells how many requests there are
		run := func(failFrom int, n string) (int, string, []desync.IndexChunk, int64) {
			g.mu.Lock()
			g.objects = map[string][]byte{}
			g.mu.Unlock()
			g.reset(-1, failFrom)
			newIdx := filepath.Join(work, "new.caibx")
			os.Remove(newIdx)
			var args []string
			switch cmdName {
			case "make":
				args = []string{"make", "-n", n, "-s", url, "--error-retry", "0", "-m", "1:2:8", newIdx, blobFile}
			case "chop":
				args = []string{"chop", "-n", n, "-s", url, "--error-retry", "0", idxFile, blobFile}
			case "cache":
				args = []string{"cache", "-n", n, "-s", srcDir, "-c", url, "--error-retry", "0", idxFile}
			case "tar-i":
				args = []string{"tar", "-i", "-n", n, "-s", url, "--error-retry", "0", "-m", "1:2:8", newIdx, filepath.Join(work, "tree")}
			}
			r := runCLI(bin, nil, nil, 90*time.Second, args...)
			chunks := idx.Chunks
			var length int64 = int64(len(blob))
			if cmdName == "make" || cmdName == "tar-i" {
				chunks = nil
				length = -1
				if fi, err := os.Open(newIdx); err == nil {
					if ni, err := desync.IndexFromReader(fi); err == nil {
						chunks, length = ni.Chunks, ni.Length()
					}
					fi.Close()
				}
			}
			g.mu.Lock()
			reqs := g.requests
			g.mu.Unlock()
			_ = reqs
			return r.exit, r.stderr, chunks, length
		}
		exit, stderr, chunks, _ := run(-1, "2")
		g.mu.Lock()
		total := g.requests
		g.mu.Unlock()
		base := fmt.Sprintf("cli.bulk cmd=%s fail-from=none requests=%d", cmdName, total)
		rep.Count(base, true, "cli.bulk:"+cmdName)
		if exit != 0 {
			monitor("desync "+cmdName+" failed against a healthy store: "+clip(stderr, 200), base)
			continue
		}
		if why := valid(chunks); why != "" || len(chunks) == 0 {
			monitor("desync "+cmdName+" exited with status 0 but "+why, base)
		}
		ks := []int{0, 1, 2, total / 3, total / 2, total - 3, total - 2, total - 1}
		if cfg.Tier == "thorough" {
			ks = nil
			for k := 0; k < total; k++ {
				ks = append(ks, k)
			}
		}
		for _, k := range ks {
			if k < 0 || k >= total {
				continue
			}
			n := []string{"1", "3"}[rng.Intn(2)]
			exit, _, chunks, length := run(k, n)
			caseLine := fmt.Sprintf("cli.bulk cmd=%s n=%s fail-from-request=%d of=%d", cmdName, n, k, total)
			rep.Count(caseLine, true, "cli.bulk:"+cmdName, fmt.Sprintf("cli-exit0:%v", exit == 0))
			if exit != 0 {
				continue
			}
			if chunks == nil {
				monitor("desync "+cmdName+" exited with status 0 without a readable index", caseLine)
			} else if why := valid(chunks); why != "" {
				monitor("desync "+cmdName+" exited with status 0 although the store failed from request "+fmt.Sprint(k)+" on: "+why, caseLine)
			} else if cmdName == "make" && length != int64(len(blob)) {
				monitor("desync make exited with status 0 with an index that does not cover its input", caseLine)
			}
		}
	}
}
