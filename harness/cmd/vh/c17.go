package main

import (
	"context"
	"fmt"
	"math/rand"
	"os"
	"path/filepath"
	"strings"
	"time"

	"github.com/folbricht/desync"
)

func chunksAbsStr(cs []desync.IndexChunk) string {
	var sb strings.Builder
	for k, c := range cs {
		if k > 0 {
			sb.WriteByte(',')
		}
		fmt.Fprintf(&sb, "%d:%d:%s", c.Start, c.Size, hx(c.ID[:]))
	}
	return sb.String()
}

func parseChunksAbs(s string) []desync.IndexChunk {
	var cs []desync.IndexChunk
	if s == "" {
		return cs
	}
	for _, p := range strings.Split(s, ",") {
		f := strings.Split(p, ":")
		var c desync.IndexChunk
		fmt.Sscan(f[0], &c.Start)
		fmt.Sscan(f[1], &c.Size)
		copy(c.ID[:], unhx(f[2]))
		cs = append(cs, c)
	}
	return cs
}

var c17dir string

func implVerifyIndex(line string) string {
	_, a := parseCase(line)
	setDigest(a["alg"])
	defer setDigest("sha512")
	var n int
	fmt.Sscan(a["n"], &n)
	idx := desync.Index{Chunks: parseChunksAbs(a["chunks"])}
	if c17dir == "" {
		c17dir, _ = os.MkdirTemp("", "verif-c17-")
	}
	name := filepath.Join(c17dir, "blob")
	if err := os.WriteFile(name, unhx(a["file"]), 0644); err != nil {
		return "harness-error"
	}
	return guard(func() string {
		err := desync.VerifyIndex(context.Background(), name, idx, n, desync.NewProgressBar(""))
		if err == nil {
			return "ok"
		}
		if strings.Contains(err.Error(), "does not match file size") {
			return "size"
		}
		return "mismatch"
	})
}

func implHash(line string) string {
	_, a := parseCase(line)
	setDigest(a["alg"])
	defer setDigest("sha512")
	s := desync.Digest.Sum(unhx(a["data"]))
	return hx(s[:])
}

// indexOf chunks data into pieces of the given sizes
func indexOf(data []byte, sizes []int) []desync.IndexChunk {
	var cs []desync.IndexChunk
	pos := 0
	for _, z := range sizes {
		if pos+z > len(data) {
			z = len(data) - pos
		}
		cs = append(cs, desync.IndexChunk{ID: desync.Digest.Sum(data[pos : pos+z]), Start: uint64(pos), Size: uint64(z)})
		pos += z
	}
	return cs
}

func runC17(cfg Config) {
	rep := NewReport("C17", cfg.Tier, cfg.Seed,
		"digest vectors vs Go crypto; generated blobs split into 0..120 chunks (sizes 1..64, equal-size runs) x worker count n in 0..64 x "+
			"{exact file, single byte flipped in the first/last/every batch-boundary chunk and at random positions, truncated/extended by "+
			"1..k bytes, two equal-size chunks swapped, index with a wrong ID} under both digests: VerifyIndex verdict vs model; monitor: "+
			"accepted iff file == blob. non-trivial = distinct case with >= 2 chunks. Trace validation: VerifyIndex under a cooperative scheduler "+
			"(n = 1..5, byte flipped in chunk k / longer / shorter file, parent cancellation at a random step): the recorded events must be a run of "+
			"Pool.stepJ over the regenerated batches (pool.accept), result and validated batches must agree")
	m, err := StartModel(cfg.Driver)
	if err != nil {
		fatal(err)
	}
	defer m.Close()
	c17dir = cfg.Work
	rng := rand.New(rand.NewSource(cfg.Seed))
	monitor := func(what, caseLine, impl string) {
		rep.Disagree(Disagreement{Kind: "monitor", Case: clip(caseLine, 100000), Impl: impl, What: what})
	}
	// digest implementations of the driver vs Go
	for it := 0; it < cfg.N(150, 3000); it++ {
		n := rng.Intn(300)
		if it < 40 {
			n = []int{0, 1, 55, 56, 57, 63, 64, 65, 111, 112, 113, 119, 120, 127, 128, 129, 239, 240, 255, 256}[it%20]
		}
		alg := []string{"sha512", "sha256"}[it%2]
		line := "hash alg=" + alg + " data=" + hx(randBytes(rng, n))
		rep.Compare(m, line, implHash, nil)
		rep.Count(line, n > 0, "hash:"+alg)
	}

	// runs of zero bytes and almost-zero buffers (session 7, after seeded change C17-l: a fast path of Digest.Sum for
	// all-zero buffers whose zero test skipped a window before the last 8 bytes): the digest of zeros(n) and of zeros(n)
	// with one bit set at every position class of the tail, in both orders, against the driver's SHA implementations;
	// and VerifyIndex on all-zero chunks of 512..4500 bytes with one byte altered anywhere in the last 72 bytes
	for it := 0; it < cfg.N(60, 1500); it++ {
		alg := []string{"sha512", "sha256"}[it%2]
		zn := 500 + rng.Intn(700)
		z := make([]byte, zn)
		pos := zn - 1 - rng.Intn(72)
		if it%5 == 4 {
			pos = rng.Intn(zn)
		}
		nz := make([]byte, zn)
		nz[pos] = 1 << uint(rng.Intn(8))
		lines := []string{"hash alg=" + alg + " data=" + hx(z), "hash alg=" + alg + " data=" + hx(nz)}
		if it%4 >= 2 {
			lines[0], lines[1] = lines[1], lines[0]
		}
		lines = append(lines, lines[0])
		for _, line := range lines {
			rep.Compare(m, line, implHash, nil)
			rep.Count(line, true, "hash-zeros:"+alg)
		}
	}
	for it := 0; it < cfg.N(40, 1000); it++ {
		alg := []string{"sha512", "sha256"}[it%2]
		setDigest(alg)
		var sizes []int
		total := 0
		for i := 0; i < 1+rng.Intn(12); i++ {
			zs := 512 + rng.Intn(4000)
			sizes = append(sizes, zs)
			total += zs
		}
		blob := make([]byte, total)
		if it%3 == 0 { // some chunks not zero
			rng.Read(blob[:sizes[0]])
		}
		cs := indexOf(blob, sizes)
		setDigest("sha512")
		workers := 1 + rng.Intn(6)
		line := fmt.Sprintf("verify.index alg=%s n=%d dev=0 chunks=%s file=%s", alg, workers, chunksAbsStr(cs), hx(blob))
		if got := implVerifyIndex(line); got != "ok" {
			monitor("a file of zero runs that matches its index is rejected", line, got)
		}
		rep.Count(line, true, "verify:zero-runs")
		for q := 0; q < 4; q++ {
			k := rng.Intn(len(cs))
			end := int(cs[k].Start + cs[k].Size)
			pos := end - 1 - rng.Intn(72)
			f := append([]byte{}, blob...)
			f[pos] ^= 1 << uint(rng.Intn(8))
			l2 := fmt.Sprintf("verify.index alg=%s n=%d dev=0 chunks=%s file=%s", alg, workers, chunksAbsStr(cs), hx(f))
			if got := implVerifyIndex(l2); got == "ok" {
				monitor(fmt.Sprintf("a file that differs from the indexed blob in one byte (offset %d, %d bytes before the end of an all-zero chunk of %d bytes) is accepted", pos, end-pos, cs[k].Size), l2, got)
			}
			rep.Count(l2, true, "verify:zero-runs-flip")
		}
	}

	n := cfg.N(700, 20000)
	for it := 0; it < n; it++ {
		alg := []string{"sha512", "sha256"}[rng.Intn(2)]
		setDigest(alg)
		nchunks := rng.Intn(8)
		switch rng.Intn(4) {
		case 0:
			nchunks = rng.Intn(3)
		case 1:
			nchunks = rng.Intn(120)
		}
		equal := rng.Intn(3) == 0
		var sizes []int
		total := 0
		for i := 0; i < nchunks; i++ {
			z := 1 + rng.Intn(64)
			if equal {
				z = 16
			}
			sizes = append(sizes, z)
			total += z
		}
		blob := randBytes(rng, total)
		repeated := false
		if equal && nchunks > 1 && rng.Intn(2) == 0 {
			// few distinct blocks repeated many times (runs of identical data): the same chunk ID occurs
			// several times, also inside one worker batch
			pool := make([][]byte, 1+rng.Intn(4))
			for i := range pool {
				pool[i] = randBytes(rng, 16)
			}
			for i := 0; i < nchunks; i++ {
				copy(blob[i*16:], pool[rng.Intn(len(pool))])
			}
			repeated = true
		}
		cs := indexOf(blob, sizes)
		setDigest("sha512")
		workers := rng.Intn(8)
		if rng.Intn(4) == 0 {
			workers = rng.Intn(65)
		}
		batch := 0
		if workers > 0 {
			batch = nchunks / (workers * 10)
		}
		run := func(file []byte, chunks []desync.IndexChunk, tag string, same bool) {
			line := fmt.Sprintf("verify.index alg=%s n=%d dev=0 chunks=%s file=%s", alg, workers, chunksAbsStr(chunks), hx(file))
			got := implVerifyIndex(line)
			rep.Compare(m, line, implVerifyIndex, nil)
			rep.Count(line, len(chunks) >= 2, "verify:"+tag, "verify-result:"+got, fmt.Sprintf("workers:%s", bucket(workers)))
			if workers == 0 {
				return
			}
			if same && got != "ok" {
				monitor("a file that matches its index is rejected ("+tag+")", line, got)
			}
			if !same && got == "ok" {
				monitor("a file that differs from the indexed blob is accepted ("+tag+")", line, got)
			}
		}
		run(blob, cs, "exact", true)
		if total == 0 {
			run([]byte{1}, cs, "extended", false)
			continue
		}
		flip := func(pos int, tag string) {
			f := append([]byte{}, blob...)
			f[pos] ^= 1 << uint(rng.Intn(8))
			run(f, cs, tag, false)
		}
		flip(0, "flip-first")
		flip(total-1, "flip-last")
		flip(rng.Intn(total), "flip-random")
		if repeated {
			for q := 0; q < 6; q++ {
				flip(rng.Intn(total), "flip-in-repeated")
			}
		}
		// a byte in the first and the last chunk of some batch
		if nchunks > 0 {
			k := rng.Intn(nchunks)
			b0 := k - k%(batch+1)
			b1 := b0 + batch
			if b1 >= nchunks {
				b1 = nchunks - 1
			}
			flip(int(cs[b0].Start), "flip-batch-first")
			flip(int(cs[b1].Start+cs[b1].Size-1), "flip-batch-last")
		}
		k := 1 + rng.Intn(3)
		if k < total {
			run(blob[:total-k], cs, "truncated", false)
		}
		run(append(append([]byte{}, blob...), randBytes(rng, k)...), cs, "extended", false)
		if equal && nchunks >= 2 {
			i, j := rng.Intn(nchunks), rng.Intn(nchunks)
			f := append([]byte{}, blob...)
			copy(f[i*16:], blob[j*16:j*16+16])
			copy(f[j*16:], blob[i*16:i*16+16])
			run(f, cs, "swapped", string(f) == string(blob))
		}
		if nchunks > 0 {
			bad := append([]desync.IndexChunk{}, cs...)
			bad[rng.Intn(nchunks)].ID[rng.Intn(32)] ^= 0x10
			run(blob, bad, "wrong-id", false)
		}
	}
	// a file that differs from the indexed blob is never accepted, also when the context is cancelled while the check
	// runs (from the caller's progress bar, i.e. from inside a worker, at every progress count): the result is the
	// mismatch or an interruption, never success
	for it := 0; it < cfg.N(6, 60); it++ {
		nchunks := []int{5, 25, 45, 120}[it%4]
		sizes := make([]int, nchunks)
		for i := range sizes {
			sizes[i] = 64
		}
		blob := randBytes(rng, 64*nchunks)
		cs := indexOf(blob, sizes)
		bad := append([]byte{}, blob...)
		pos := len(bad) - 1 - rng.Intn(64) // in the last chunk
		if it%3 == 1 {
			pos = rng.Intn(len(bad))
		}
		bad[pos] ^= 8
		name := filepath.Join(cfg.Work, "cancel-blob")
		os.WriteFile(name, bad, 0644)
		idx := desync.Index{Chunks: cs}
		for _, n := range []int{1, 2, 3} {
			count := &cancelBar{k: -1}
			desync.VerifyIndex(context.Background(), name, idx, n, count)
			for k := 0; k <= count.calls; k++ {
				ctx, cancel := context.WithCancel(context.Background())
				err := desync.VerifyIndex(ctx, name, idx, n, &cancelBar{k: k, cancel: cancel})
				cancel()
				caseLine := fmt.Sprintf("verify.cancel chunks=%d n=%d altered-byte=%d cancel-at-progress=%d of %d", nchunks, n, pos, k, count.calls)
				rep.Count(caseLine, true, "verify:cancelled", fmt.Sprintf("verify-cancel-result:%v", err == nil))
				if err == nil {
					monitor("a file that differs from the indexed blob is accepted when the check is cancelled while it runs", caseLine, "nil")
				}
			}
		}
	}
	runPoolTraces(cfg, rep, []string{"VerifyIndex"}, cfg.N(300, 6000), 17)
	c17CLI(cfg, rep, rng)
	rep.Write(cfg.Out)
}

// c17CLI: the real `desync verify-index`: exit status 0 iff the file is the indexed blob, for every -n, including
// the index of an empty blob
func c17CLI(cfg Config, rep *Report, rng *rand.Rand) {
	bin := desyncBin()
	if bin == "" {
		rep.Notes = append(rep.Notes, "desync binary not built: command-line verify-index runs skipped")
		return
	}
	dir := filepath.Join(cfg.Work, "cli17")
	os.MkdirAll(dir, 0755)
	defer os.RemoveAll(dir)
	for it := 0; it < cfg.N(8, 80); it++ {
		nchunks := []int{0, 0, 1, 3, 25, 60}[it%6]
		var sizes []int
		total := 0
		for i := 0; i < nchunks; i++ {
			z := 100 + rng.Intn(400)
			sizes = append(sizes, z)
			total += z
		}
		blob := randBytes(rng, total)
		idx := desync.Index{Index: desync.FormatIndex{FeatureFlags: desync.CaFormatSHA512256 | desync.CaFormatExcludeNoDump, ChunkSizeMin: 64, ChunkSizeAvg: 256, ChunkSizeMax: 1024},
			Chunks: indexOf(blob, sizes)}
		idxFile, file := filepath.Join(dir, "blob.caibx"), filepath.Join(dir, "blob")
		f, _ := os.Create(idxFile)
		idx.WriteTo(f)
		f.Close()
		variants := map[string][]byte{"exact": blob, "extended-1": append(append([]byte{}, blob...), 7), "extended-many": append(append([]byte{}, blob...), randBytes(rng, 5000)...)}
		if total > 0 {
			fl := append([]byte{}, blob...)
			fl[rng.Intn(total)] ^= 4
			variants["flipped"] = fl
			variants["truncated"] = blob[:total-1]
		}
		for tag, content := range variants {
			os.WriteFile(file, content, 0644)
			for _, n := range []string{"1", "2", "10", "64"} {
				r := runCLI(bin, nil, nil, 60*time.Second, "verify-index", "-n", n, idxFile, file)
				caseLine := fmt.Sprintf("cli.verify-index chunks=%d n=%s file=%s", nchunks, n, tag)
				rep.Count(caseLine, true, "cli.verify-index:"+tag, fmt.Sprintf("cli-exit0:%v", r.exit == 0))
				if tag == "exact" && r.exit != 0 {
					rep.Disagree(Disagreement{Kind: "monitor", Case: caseLine, What: "desync verify-index rejects the file the index describes: " + clip(r.stderr, 200)})
				}
				if tag != "exact" && r.exit == 0 {
					rep.Disagree(Disagreement{Kind: "monitor", Case: caseLine, What: fmt.Sprintf("desync verify-index exits with status 0 for a file (%d bytes, %s) that is not the indexed blob (%d bytes)", len(content), tag, total)})
				}
			}
		}
	}
}
