package main

// The command layer of cmd/desync against its model (lean/Desync/Model/CmdFlow.lean, flows regenerated from the source):
// the REAL binary runs make / chop / cache / tar -i / verify-index / extract against an HTTP server of this harness that
// holds the chunk stores and the index files, logs every request in order, fails scripted requests and can hold one
// request while the harness sends SIGINT/SIGTERM.  What is compared with `Cmd.run` on the regenerated flow (driver command
// `cmdflow.run`): the exit status and the order of the visible phases (I = an index is read, C = chunk traffic, P = the index
// is written).  The case line carries the whole scenario (function, options, fault, position, workers, seed), so a replay
// rebuilds the inputs and runs the binary again.

import (
	"bytes"
	"context"
	"fmt"
	"math/rand"
	"net/http"
	"net/http/httptest"
	"os"
	"os/exec"
	"path/filepath"
	"strconv"
	"strings"
	"sync"
	"syscall"
	"time"

	"github.com/folbricht/desync"
)

type flowServer struct {
	mu          sync.Mutex
	objects     map[string][]byte
	log         []byte // one letter per request
	puts, gets  int
	failPutFrom int // PUTs below /dst/ with index >= this fail (-1: never)
	failGetFrom int // GETs below /src/
	failIdxPut  bool
	holdClass   byte
	holdAt      int
	seen        map[byte]int
	arrived     chan struct{}
	release     chan struct{}
}

func newFlowServer() *flowServer {
	return &flowServer{objects: map[string][]byte{}, failPutFrom: -1, failGetFrom: -1, holdAt: -1, seen: map[byte]int{},
		arrived: make(chan struct{}, 1), release: make(chan struct{})}
}

func (g *flowServer) ServeHTTP(w http.ResponseWriter, r *http.Request) {
	var body []byte
	if r.Method == "PUT" {
		var b bytes.Buffer
		b.ReadFrom(r.Body)
		body = b.Bytes()
	}
	isIdx := strings.HasPrefix(r.URL.Path, "/idx/")
	cl := byte('C')
	if isIdx && r.Method == "PUT" {
		cl = 'P'
	} else if isIdx {
		cl = 'I'
	}
	g.mu.Lock()
	g.log = append(g.log, cl)
	k := g.seen[cl]
	g.seen[cl]++
	hold := g.holdAt >= 0 && cl == g.holdClass && k == g.holdAt
	fail := false
	switch {
	case cl == 'P':
		fail = g.failIdxPut
	case r.Method == "PUT" && strings.HasPrefix(r.URL.Path, "/dst/"):
		fail = g.failPutFrom >= 0 && g.puts >= g.failPutFrom
		g.puts++
	case r.Method == "GET" && strings.HasPrefix(r.URL.Path, "/src/"):
		fail = g.failGetFrom >= 0 && g.gets >= g.failGetFrom
		g.gets++
	}
	g.mu.Unlock()
	if hold {
		select {
		case g.arrived <- struct{}{}:
		default:
		}
		select {
		case <-g.release:
		case <-time.After(30 * time.Second):
		}
	}
	if fail {
		w.WriteHeader(http.StatusInternalServerError)
		return
	}
	g.mu.Lock()
	defer g.mu.Unlock()
	switch r.Method {
	case "GET", "HEAD":
		b, ok := g.objects[r.URL.Path]
		if !ok {
			w.WriteHeader(http.StatusNotFound)
			return
		}
		if r.Method == "GET" {
			w.Write(b)
		}
	case "PUT":
		g.objects[r.URL.Path] = body
	default:
		w.WriteHeader(http.StatusMethodNotAllowed)
	}
}

func collapseVis(log []byte, cmp string) string {
	var out []byte
	for _, c := range log {
		if !strings.ContainsRune(cmp, rune(c)) {
			continue
		}
		if len(out) == 0 || out[len(out)-1] != c {
			out = append(out, c)
		}
	}
	return string(out)
}

// cmdflowScenario builds the case line of one scenario: the model-side parameters (conds, iters, fail, cancel, cmp) are
// derived here from (function, options, fault) — this table is the harness' statement of which call a fault hits
func cmdflowCase(fn, scn string, k, n int, seed int64, opts string, nidx int) string {
	has := func(o string) bool {
		for _, x := range strings.Split(opts, "+") {
			if x == o {
				return true
			}
		}
		return false
	}
	b2 := func(b bool) string {
		if b {
			return "1"
		}
		return "0"
	}
	conds, iters, fail, cancel, cmp := "", "", "", "", "ICP"
	switch fn {
	case "runMake":
		conds = "store:" + b2(has("store")) + ",printStats:" + b2(has("stats"))
		switch scn {
		case "badsize":
			fail = "parseChunkSizeParam:0"
		case "badstore":
			fail = "WritableStore:0"
		case "nodata":
			fail = "desync.IndexFromFile:0"
		case "chunkput":
			fail = "desync.ChopFile:0"
		case "idxput":
			fail = "storeCaibxFile:0"
		case "sigC":
			cancel = "desync.ChopFile:0"
		case "sigP":
			cancel = "storeCaibxFile:0"
		}
	case "runChop":
		conds = "store:" + b2(!has("nostore")) + ",ignoreIndexes:" + b2(nidx > 0) + ",ignoreChunks:0"
		iters = "ignoreIndexes:" + strconv.Itoa(nidx)
		switch scn {
		case "badstore":
			fail = "WritableStore:0"
		case "idxget":
			fail = "readCaibxFile:" + strconv.Itoa(k)
		case "chunkput":
			fail = "desync.ChopFile:0"
		case "sigC":
			cancel = "desync.ChopFile:0"
		}
	case "runCache":
		conds = "stores:1,cache:1,ignoreIndexes:0,ignoreChunks:0"
		iters = "args:" + strconv.Itoa(nidx)
		switch scn {
		case "idxget":
			fail = "readCaibxFile:" + strconv.Itoa(k)
		case "badstore":
			fail = "WritableStore:0"
		case "chunkput", "srcget":
			fail = "desync.Copy:0"
		case "sigC":
			cancel = "desync.Copy:0"
		}
	case "runTar":
		conds = `createIndex:1,store:` + b2(!has("nostore")) + `,AddRoot:0,inFormat=="tar":0,inFormat=="disk":1,args[1]=="-":0,args[0]=="-":0`
		switch scn {
		case "badstore":
			fail = "WritableStore:0"
		case "chunkput":
			fail = "desync.ChunkStream:0"
		case "idxput":
			fail = "storeCaibxFile:0"
		case "nosrc":
			fail, cmp = "desync.Tar:0", "IP"
		case "sigC":
			cancel = "desync.ChunkStream:0"
		case "sigP":
			cancel = "storeCaibxFile:0"
		}
	case "runVerifyIndex":
		switch scn {
		case "idxget":
			fail = "readCaibxFile:0"
		case "mismatch":
			fail = "desync.VerifyIndex:0"
		}
	case "runExtract":
		long := "writeWithTmpFile:0"
		if has("inplace") {
			long = "writeInplace:0"
		}
		conds = "args[0]==args[1]:" + b2(scn == "same") + ",stores:" + b2(!has("nostore")) + ",skipInvalidSeeds:0,regenerateInvalidSeeds:0,inPlace:" +
			b2(has("inplace")) + ",printStats:" + b2(has("stats"))
		switch scn {
		case "idxget":
			fail = "readCaibxFile:0"
		case "srcget":
			fail = long
		case "sigC":
			cancel = long
		}
	}
	return fmt.Sprintf("cmdflow.run fn=%s scn=%s k=%d n=%d seed=%d opts=%s nidx=%d conds=%s iters=%s fail=%s cancel=%s cmp=%s",
		fn, scn, k, n, seed, opts, nidx, conds, iters, fail, cancel, cmp)
}

var cmdflowLast struct {
	stderr string
	note   string
}

// implCmdflowRun runs the scenario of a case line on the real binary
func implCmdflowRun(caseLine string) string {
	bin := desyncBin()
	if bin == "" {
		return "no-binary"
	}
	_, a := parseCase(caseLine)
	fn, scn, opts := a["fn"], a["scn"], a["opts"]
	k, _ := strconv.Atoi(a["k"])
	n, _ := strconv.Atoi(a["n"])
	nidx, _ := strconv.Atoi(a["nidx"])
	seed, _ := strconv.ParseInt(a["seed"], 10, 64)
	has := func(o string) bool {
		for _, x := range strings.Split(opts, "+") {
			if x == o {
				return true
			}
		}
		return false
	}
	rng := rand.New(rand.NewSource(seed))
	dir, err := os.MkdirTemp("", "verif-cmdflow-")
	if err != nil {
		return "setup-failed"
	}
	defer os.RemoveAll(dir)
	g := newFlowServer()
	srv := httptest.NewServer(g)
	defer srv.Close()
	base := srv.URL

	// inputs: a blob, its index and chunks (made with the library), a small directory tree
	blob := randBytes(rng, 50000+rng.Intn(40000))
	data := filepath.Join(dir, "data.bin")
	os.WriteFile(data, blob, 0644)
	storeDir := filepath.Join(dir, "store")
	os.MkdirAll(storeDir, 0755)
	st, _ := desync.NewLocalStore(storeDir, desync.StoreOptions{})
	ch, _ := desync.NewChunker(bytes.NewReader(blob), 1024, 2048, 8192)
	idx, err := desync.ChunkStream(context.Background(), ch, st, 2)
	if err != nil || len(idx.Chunks) < 12 {
		return "setup-failed"
	}
	putIndex := func(name string, ix desync.Index) {
		var b bytes.Buffer
		ix.WriteTo(&b)
		g.objects["/idx/"+name] = b.Bytes()
	}
	loadSrc := func() {
		filepath.Walk(storeDir, func(p string, info os.FileInfo, err error) error {
			if err == nil && !info.IsDir() {
				rel, _ := filepath.Rel(storeDir, p)
				b, _ := os.ReadFile(p)
				g.objects["/src/"+filepath.ToSlash(rel)] = b
			}
			return nil
		})
	}
	common := []string{"-n", strconv.Itoa(n), "-e", "0"}
	var args []string
	out := filepath.Join(dir, "out.bin")
	switch fn {
	case "runMake":
		args = append([]string{"make"}, common...)
		size := "1:2:8"
		if scn == "badsize" {
			size = "1:x:8"
		}
		args = append(args, "-m", size)
		if has("store") {
			if scn == "badstore" {
				args = append(args, "-s", filepath.Join(dir, "no-such-dir"))
			} else {
				args = append(args, "-s", base+"/dst/")
			}
		}
		if has("stats") {
			args = append(args, "--print-stats")
		}
		if scn == "nodata" {
			data = filepath.Join(dir, "missing.bin")
		}
		args = append(args, base+"/idx/out.caibx", data)
	case "runChop":
		args = append([]string{"chop"}, common...)
		if !has("nostore") {
			if scn == "badstore" {
				args = append(args, "-s", filepath.Join(dir, "no-such-dir"))
			} else {
				args = append(args, "-s", base+"/dst/")
			}
		}
		putIndex("in.caibx", idx)
		for j := 0; j < nidx; j++ {
			ign := desync.Index{Index: idx.Index, Chunks: idx.Chunks[j : j+2]}
			putIndex(fmt.Sprintf("ign%d.caibx", j), ign)
			args = append(args, "--ignore", fmt.Sprintf("%s/idx/ign%d.caibx", base, j))
		}
		if scn == "idxget" {
			if k == 0 {
				delete(g.objects, "/idx/in.caibx")
			} else {
				delete(g.objects, fmt.Sprintf("/idx/ign%d.caibx", k-1))
			}
		}
		args = append(args, base+"/idx/in.caibx", data)
	case "runCache":
		args = append([]string{"cache"}, common...)
		loadSrc()
		dst := base + "/dst/"
		if scn == "badstore" {
			dst = filepath.Join(dir, "no-such-dir")
		}
		args = append(args, "-s", base+"/src/", "-c", dst)
		per := len(idx.Chunks) / nidx
		for j := 0; j < nidx; j++ {
			hi := (j + 1) * per
			if j == nidx-1 {
				hi = len(idx.Chunks)
			}
			putIndex(fmt.Sprintf("in%d.caibx", j), desync.Index{Index: idx.Index, Chunks: idx.Chunks[j*per : hi]})
			args = append(args, fmt.Sprintf("%s/idx/in%d.caibx", base, j))
		}
		if scn == "idxget" {
			delete(g.objects, fmt.Sprintf("/idx/in%d.caibx", k))
		}
	case "runTar":
		tree := filepath.Join(dir, "tree")
		os.MkdirAll(filepath.Join(tree, "sub"), 0755)
		for j := 0; j < 4; j++ {
			os.WriteFile(filepath.Join(tree, "sub", fmt.Sprintf("f%d", j)), randBytes(rng, 8000+rng.Intn(12000)), 0644)
		}
		if scn == "nosrc" {
			tree = filepath.Join(dir, "no-such-tree")
		}
		args = append([]string{"tar", "-i"}, common...)
		args = append(args, "-m", "1:2:8")
		if !has("nostore") {
			if scn == "badstore" {
				args = append(args, "-s", filepath.Join(dir, "no-such-dir"))
			} else {
				args = append(args, "-s", base+"/dst/")
			}
		}
		args = append(args, base+"/idx/out.caidx", tree)
	case "runVerifyIndex":
		args = []string{"verify-index", "-n", strconv.Itoa(n)}
		if scn != "idxget" {
			putIndex("in.caibx", idx)
		}
		if scn == "mismatch" {
			b := append([]byte{}, blob...)
			b[rng.Intn(len(b))] ^= 0x10
			os.WriteFile(data, b, 0644)
		}
		args = append(args, base+"/idx/in.caibx", data)
	case "runExtract":
		args = append([]string{"extract"}, common...)
		loadSrc()
		if scn != "idxget" {
			putIndex("in.caibx", idx)
		}
		if !has("nostore") {
			args = append(args, "-s", base+"/src/")
		}
		if has("inplace") {
			args = append(args, "-k")
		}
		if has("stats") {
			args = append(args, "--print-stats")
		}
		in := base + "/idx/in.caibx"
		if scn == "same" {
			out = in
		}
		args = append(args, in, out)
	default:
		return "bad-case"
	}
	switch scn {
	case "chunkput":
		g.failPutFrom = k
	case "srcget":
		g.failGetFrom = k
	case "idxput":
		g.failIdxPut = true
	case "sigC":
		g.holdClass, g.holdAt = 'C', k
	case "sigP":
		g.holdClass, g.holdAt = 'P', 0
	}
	sig := syscall.SIGINT
	if seed%2 == 0 {
		sig = syscall.SIGTERM
	}
	cmd := exec.Command(bin, args...)
	cmd.Env = append(os.Environ(), "HOME=/nonexistent-home")
	var se bytes.Buffer
	cmd.Stderr = &se
	if err := cmd.Start(); err != nil {
		return "start-failed"
	}
	done := make(chan error, 1)
	go func() { done <- cmd.Wait() }()
	var werr error
	finished := false
	select {
	case <-g.arrived:
		cmd.Process.Signal(sig)
		time.Sleep(40 * time.Millisecond) // the handler cancels the context before the request goes on
		close(g.release)
	case werr = <-done:
		finished = true
	case <-time.After(60 * time.Second):
	}
	if !finished {
		select {
		case werr = <-done:
		case <-time.After(60 * time.Second):
			cmd.Process.Kill()
			<-done
			return "hang"
		}
	}
	exit := 0
	if werr != nil {
		exit = -1
		if ee, ok := werr.(*exec.ExitError); ok {
			exit = ee.ExitCode()
		}
	}
	g.mu.Lock()
	vis := collapseVis(g.log, a["cmp"])
	g.mu.Unlock()
	cmdflowLast.stderr = strings.TrimSpace(se.String())
	cmdflowLast.note = ""
	// monitors on what the command left behind
	switch fn {
	case "runExtract":
		b, rerr := os.ReadFile(out)
		if exit == 0 && scn != "same" && !bytes.Equal(b, blob) {
			cmdflowLast.note = "extract exited 0 but the output is not the blob"
		}
		if exit != 0 && !has("inplace") && rerr == nil {
			cmdflowLast.note = "extract without --in-place failed but the destination path exists"
		}
	case "runMake", "runTar":
		g.mu.Lock()
		name := "/idx/out.caibx"
		if fn == "runTar" {
			name = "/idx/out.caidx"
		}
		ib, okI := g.objects[name]
		if exit != 0 && okI && scn != "sigP" {
			cmdflowLast.note = "the command failed but an index was written"
		}
		if exit == 0 && okI && has("store") || exit == 0 && okI && fn == "runTar" {
			if ix, err := desync.IndexFromReader(bytes.NewReader(ib)); err == nil {
				for _, c := range ix.Chunks {
					s := c.ID.String()
					if _, ok := g.objects["/dst/"+s[:4]+"/"+s+".cacnk"]; !ok {
						cmdflowLast.note = "exit status 0 but a chunk of the written index is not in the target store"
						break
					}
				}
			} else {
				cmdflowLast.note = "exit status 0 but the written index does not decode"
			}
		}
		g.mu.Unlock()
	case "runChop", "runCache":
		if exit == 0 {
			g.mu.Lock()
			ign := map[desync.ChunkID]bool{}
			if fn == "runChop" {
				for j := 0; j < nidx; j++ {
					ign[idx.Chunks[j].ID], ign[idx.Chunks[j+1].ID] = true, true
				}
			}
			for _, c := range idx.Chunks {
				s := c.ID.String()
				if _, ok := g.objects["/dst/"+s[:4]+"/"+s+".cacnk"]; !ok && !ign[c.ID] {
					cmdflowLast.note = "exit status 0 but a referenced chunk is not in the target store"
					break
				}
			}
			g.mu.Unlock()
		}
	}
	return fmt.Sprintf("exit=%d vis=%s", exit, vis)
}

// cmdflowCLI: the scenarios of one property's quick/thorough run
func cmdflowCLI(cfg Config, rep *Report, rng *rand.Rand, prop string) {
	if desyncBin() == "" {
		rep.Notes = append(rep.Notes, "desync binary not built: command-flow runs skipped")
		return
	}
	m, err := StartModel(cfg.Driver)
	if err != nil {
		m = &Model{}
	}
	defer m.Close()
	type scn struct {
		fn, name, opts string
		nidx          int
	}
	var list []scn
	switch prop {
	case "C06":
		list = []scn{
			{"runMake", "none", "store", 0}, {"runMake", "none", "", 0}, {"runMake", "none", "store+stats", 0},
			{"runMake", "badsize", "store", 0}, {"runMake", "badstore", "store", 0}, {"runMake", "nodata", "store", 0},
			{"runMake", "chunkput", "store", 0}, {"runMake", "chunkput", "store", 0}, {"runMake", "idxput", "store", 0}, {"runMake", "idxput", "", 0},
			{"runChop", "none", "", 0}, {"runChop", "none", "", 2}, {"runChop", "none", "nostore", 0}, {"runChop", "badstore", "", 0},
			{"runChop", "idxget", "", 0}, {"runChop", "idxget", "", 2}, {"runChop", "chunkput", "", 0}, {"runChop", "chunkput", "", 1},
			{"runCache", "none", "", 1}, {"runCache", "none", "", 3}, {"runCache", "idxget", "", 3}, {"runCache", "idxget", "", 2},
			{"runCache", "badstore", "", 1}, {"runCache", "chunkput", "", 2}, {"runCache", "srcget", "", 1}, {"runCache", "srcget", "", 2},
			{"runTar", "none", "", 0}, {"runTar", "none", "nostore", 0}, {"runTar", "badstore", "", 0}, {"runTar", "chunkput", "", 0},
			{"runTar", "chunkput", "", 0}, {"runTar", "idxput", "", 0}, {"runTar", "nosrc", "", 0},
		}
	case "C07":
		list = []scn{
			{"runMake", "sigC", "store", 0}, {"runMake", "sigP", "store", 0}, {"runMake", "none", "store", 0},
			{"runChop", "sigC", "", 0}, {"runChop", "sigC", "", 1}, {"runCache", "sigC", "", 1}, {"runCache", "sigC", "", 2},
			{"runTar", "sigC", "", 0}, {"runTar", "sigP", "", 0},
			{"runExtract", "sigC", "", 0}, {"runExtract", "sigC", "inplace", 0}, {"runExtract", "none", "", 0}, {"runExtract", "none", "inplace+stats", 0},
			{"runExtract", "idxget", "", 0}, {"runExtract", "srcget", "", 0}, {"runExtract", "srcget", "inplace", 0},
			{"runExtract", "none", "nostore", 0}, {"runExtract", "same", "", 0},
			{"runVerifyIndex", "none", "", 0}, {"runVerifyIndex", "idxget", "", 0}, {"runVerifyIndex", "mismatch", "", 0},
		}
	}
	rounds := cfg.N(2, 12)
	for r := 0; r < rounds; r++ {
		for _, s := range list {
			k := rng.Intn(6)
			switch s.name {
			case "idxget":
				k = 0
				if s.nidx > 0 {
					k = rng.Intn(s.nidx + 1)
					if s.fn == "runCache" {
						k = rng.Intn(s.nidx)
					}
				}
			case "sigC":
				k = 1 + rng.Intn(5)
			}
			n := 1 + rng.Intn(3)
			if s.name == "sigC" {
				n = 1 + rng.Intn(2)
			}
			caseLine := cmdflowCase(s.fn, s.name, k, n, rng.Int63n(1<<30), s.opts, s.nidx)
			got := timed(implCmdflowRun, caseLine)
			note := cmdflowLast.note
			rep.Count(caseLine, s.name != "none", "cmdflow:"+s.fn+"/"+s.name, "cmdflow-"+strings.SplitN(got, " ", 2)[0])
			if note != "" {
				rep.Disagree(Disagreement{Kind: "monitor", Case: caseLine, Impl: got, What: note})
			}
			if m.cmd == nil {
				continue
			}
			want := m.Ask(caseLine)
			if got != want {
				rep.Disagree(Disagreement{Kind: "correspondence", Case: caseLine, Model: want, Impl: got,
					What: "the command (real binary) and the model of its flow differ in exit status or in the order of the visible phases; stderr: " + clip(cmdflowLast.stderr, 200)})
			}
		}
	}
}
